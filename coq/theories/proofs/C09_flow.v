(** C09 (part 2): every operation of Flow.v preserves the flow invariant and never panics; the four
    [proceed] functions agree with their readiness queries and choose the documented successor. *)
From Coq Require Import Lia ZArith.
From Hoot Require Import Base Chunk Body Httparse Parser Url Request Call Flow.
From Hoot.proofs Require Import BytesLemmas Reasons C17_proofs C09_inv C09_chunk C09_calls.
Open Scope N_scope.

Ltac inv_intro := split; [|cbv beta iota zeta].
Ltac sc_tac :=
  repeat match goal with |- _ /\ _ => split end; auto;
  try (intros; discriminate); try (intros; congruence).

(* ------------------------------------------------------------------ Flow::new *)

Lemma flow_new_shape r :
  exists rs, NoDup rs /\ flow_new r =
    Ok {| i_call := call_new r (if need_request_body (rq_method r) then new_chunked else new_none);
          i_holder := if need_request_body (rq_method r) then HWithBody else HWithoutBody;
          i_reasons := rs;
          i_should_send_body := need_request_body (rq_method r);
          i_await_100 := headers_has (rq_headers r) (s2b "expect") (s2b "100-continue");
          i_status := None; i_location := None |}.
Proof.
  unfold flow_new, push_reason.
  destruct (rq_version r); cbn [bind len];
    destruct (headers_has (rq_headers r) (s2b "connection") (s2b "close")); cbn [bind len app];
    eexists; (split; [|reflexivity]); repeat constructor; cbn; intuition discriminate.
Qed.

Lemma flow_new_inv r : abs_uri (rq_uri r) -> total (Inv TPrepare) (flow_new r).
Proof.
  intros Hu. destruct (flow_new_shape r) as (rs & Hnd & ->). cbn [total].
  inv_intro; [exact Hnd|]. cbn [i_call i_holder i_should_send_body].
  assert (Hc : forall w, SendCommon (call_new r w)).
  { intros w. unfold SendCommon, call_new. cbn [c_req c_analyzed c_phase c_reader].
    split; [discriminate|]. split; [exact Hu|]. split; [intros _; cbn; unfold HEADER_BUDGET; lia|].
    split; [intros; discriminate|]. split; [left; reflexivity|]. split; reflexivity. }
  split; [apply Hc|]. split; [|split; reflexivity].
  unfold HolderOK. cbn [i_call i_holder i_should_send_body].
  destruct (need_request_body (rq_method r)) eqn:En.
  - right. split; [reflexivity|]. split; [reflexivity|]. split; [unfold WB; cbn; discriminate|].
    unfold body_due, am_method, am_request, call_new. cbn [c_req c_skip am_new am_req]. rewrite En. reflexivity.
  - left. split; [reflexivity|]. split; [reflexivity|]. split; [reflexivity|]. split; [reflexivity|].
    unfold am_method, am_request, call_new. cbn [c_req am_new am_req]. exact En.
Qed.

(* ------------------------------------------------------------------ Prepare *)

Lemma send_common_with_added c l :
  SendCommon c -> c_analyzed c = false -> len (am_added (c_req c)) + len l <= HEADER_BUDGET ->
  SendCommon (set_req c (with_added (c_req c) l)).
Proof.
  intros (H1 & H2 & H3 & H4 & H5 & H6 & H7) Ha Hl. unfold SendCommon.
  cbn [set_req c_req c_analyzed c_phase c_reader]. rewrite am_eff_uri_with_added.
  repeat split; auto; try apply H2.
  - intros _. cbn [with_added am_added]. rewrite len_app. exact Hl.
  - intros E. congruence.
Qed.

Lemma holder_ok_set_req f a :
  HolderOK f -> am_method a = am_method (c_req (i_call f)) ->
  HolderOK (set_call f (set_req (i_call f) a)).
Proof.
  intros [(Hh & Hs & Hw & Hk & Hn)|(Hh & Hs & Hw & Hd)] Hm; [left|right];
    unfold NB, WB, body_due in *; cbn [set_call set_req i_call i_holder i_should_send_body c_writer c_skip c_req];
    rewrite Hm; auto.
Qed.

Lemma prepare_header_safe f k v :
  Inv TPrepare f -> len (am_added (c_req (i_call f))) < HEADER_BUDGET ->
  safe (Inv TPrepare) (prepare_header f k v).
Proof.
  intros [Hnd (Hc & Hh & Ha & Hp)] Hl. unfold prepare_header.
  destruct (set_header_cases (c_req (i_call f)) k v) as [E|E];
    [unfold HEADER_BUDGET, MAX_EXTRA_HEADERS in *; lia| |]; rewrite E; [exact I|].
  cbn [bind safe]. inv_intro; [exact Hnd|]. cbn [set_call i_call].
  split; [apply send_common_with_added; [exact Hc|exact Ha|]|].
  { cbn [len]. unfold HEADER_BUDGET in *. change (N.succ 0) with 1. lia. }
  split; [apply holder_ok_set_req; [exact Hh|reflexivity]|]. split; [exact Ha|exact Hp].
Qed.

Lemma despite_total f : Inv TPrepare f -> total (Inv TPrepare) (send_body_despite_method f).
Proof.
  intros [Hnd (Hc & Hh & Ha & Hp)]. unfold send_body_despite_method.
  destruct Hh as [(Hh & Hs & Hw & Hk & Hn)|(Hh & Hs & Hw & Hd)]; rewrite Hh.
  - unfold into_send_body. rewrite Ha. cbn [bind total].
    inv_intro; [exact Hnd|]. cbn [set_call_holder i_call].
    destruct Hc as (H1 & H2 & H3 & H4 & H5 & H6 & H7).
    split; [unfold SendCommon; cbn [c_req c_analyzed c_phase c_reader]; sc_tac; fail|].
    split; [|split; [reflexivity|exact Hp]].
    right. cbn [set_call_holder i_holder i_should_send_body i_call]. repeat split.
    + unfold WB. cbn. discriminate.
    + unfold body_due. cbn [c_skip]. apply orb_true_r.
  - cbn [total]. inv_intro; [exact Hnd|]. cbn [i_call].
    split; [exact Hc|]. split; [|split; [exact Ha|exact Hp]].
    right. cbn [i_holder i_should_send_body i_call]. auto.
Qed.

Lemma prepare_proceed f : Inv TPrepare f -> Inv TSendRequest f.
Proof. intros [Hnd (Hc & Hh & _)]. split; [exact Hnd|]. split; assumption. Qed.

(* ------------------------------------------------------------------ SendRequest *)

Lemma send_request_write_safe f cap :
  Inv TSendRequest f -> safe (fun r => Inv TSendRequest (fst r)) (send_request_write f cap).
Proof.
  intros [Hnd (Hc & Hh)]. unfold send_request_write.
  destruct Hh as [(Hh & Hs & Hn)|(Hh & Hs & Hw & Hd)]; rewrite Hh.
  - apply (safe_bind (fun r => written_from (i_call f) (fst r))); [apply call_write_nobody_safe; exact Hc|].
    intros [c' out] (Hc' & _ & _ & Hn' & _). cbn [fst snd safe] in *.
    inv_intro; [exact Hnd|]. cbn [set_call i_call]. split; [exact Hc'|].
    left. cbn [i_holder i_should_send_body i_call]. auto.
  - destruct (is_body (c_phase (i_call f))).
    + cbn. split; [exact Hnd|]. split; [exact Hc|]. right. auto.
    + apply (safe_bind (fun r => body_written_from (i_call f) (fst (fst r))));
        [apply call_write_body_safe; assumption|].
      intros [[c' used] out] (Hc' & Hw' & Ha' & _ & Hd'). cbn [fst snd safe] in *.
      inv_intro; [exact Hnd|]. cbn [set_call i_call]. split; [exact Hc'|].
      right. cbn [i_holder i_should_send_body i_call]. repeat split; auto. cbn [set_call i_call]. congruence.
Qed.

(** Outcome of a [proceed] against its readiness query: never an error or a panic; [None] exactly
    when the query says false; otherwise the query says true and the new state satisfies the
    invariant and the successor relation [Succ]. *)
Definition proceed_ok (Succ : tag -> inner -> Prop) (can : res bool)
           (pr : res (option (tag * inner))) : Prop :=
  match pr with
  | Ok None => can = Ok false
  | Ok (Some (t', f')) => can = Ok true /\ Inv t' f' /\ Succ t' f'
  | _ => False
  end.

Lemma proceed_ok_ready Succ can pr :
  proceed_ok Succ can pr ->
  (can = Ok true <-> exists x, pr = Ok (Some x)) /\ (can = Ok false <-> pr = Ok None).
Proof.
  unfold proceed_ok. destruct pr as [[[t' f']|]|e|s]; intros H; try contradiction.
  - destruct H as (Hc & _). rewrite Hc. split; split; intros E; try discriminate; eauto.
  - rewrite H. split; split; intros E; try discriminate; try reflexivity.
    destruct E as (x & E). discriminate.
Qed.

Lemma is_body_eq p : is_body p = true -> p = PBody.
Proof. destruct p; cbn; intros H; try discriminate; reflexivity. Qed.

Lemma send_recv_common c : SendCommon c -> RecvCommon c.
Proof. intros (H1 & H2 & _). split; assumption. Qed.

(** The documented successor of the request head. *)
Definition head_successor (f : inner) : tag :=
  if i_should_send_body f then (if i_await_100 f then TAwait100 else TSendBody) else TRecvResponse.

Definition same_flags (f f' : inner) : Prop :=
  i_should_send_body f' = i_should_send_body f /\ i_await_100 f' = i_await_100 f /\
  i_reasons f' = i_reasons f /\ i_status f' = i_status f.

Lemma send_request_proceed_ok f :
  Inv TSendRequest f ->
  proceed_ok (fun t' f' => t' = head_successor f /\ same_flags f f')
             (send_request_can_proceed f) (send_request_proceed f).
Proof.
  intros [Hnd (Hc & Hh)]. unfold send_request_proceed, send_request_can_proceed, head_successor.
  pose proof Hc as (H1 & H2 & H3 & H4 & H5 & H6 & H7).
  destruct Hh as [(Hh & Hs & Hw & Hk & Hn)|(Hh & Hs & Hw & Hd)]; rewrite Hh; cbn [bind].
  - destruct (is_prelude (c_phase (i_call f))) eqn:Ep; cbn [negb proceed_ok]; [reflexivity|].
    rewrite Hs. unfold into_receive. rewrite Hw. cbn [new_none w_ended proceed_ok].
    split; [reflexivity|]. split; [|split; [reflexivity|repeat split]].
    inv_intro; [exact Hnd|]. cbn [set_call_holder i_call i_holder set_phase c_req c_phase c_reader].
    split; [exact (send_recv_common (i_call f) Hc)|]. split; [reflexivity|]. split; [reflexivity|].
    intros r E. congruence.
  - destruct (is_body (c_phase (i_call f))) eqn:Eb; cbn [negb proceed_ok]; [|reflexivity].
    apply is_body_eq in Eb.
    assert (Ha : c_analyzed (i_call f) = true) by (destruct H5 as [E|E]; [congruence|exact E]).
    rewrite Hs. destruct (i_await_100 f) eqn:Ew.
    + cbn [proceed_ok]. split; [reflexivity|]. split; [|split; [reflexivity|repeat split]].
      inv_intro; [exact Hnd|]. auto 10.
    + rewrite (analysed_call_fix _ Ha). cbn [bind proceed_ok].
      split; [reflexivity|]. split; [|split; [reflexivity|repeat split]].
      inv_intro; [exact Hnd|]. cbn [set_call i_call i_holder i_should_send_body]. auto 10.
Qed.

(* ------------------------------------------------------------------ Await100 *)

Lemma refuse_total f :
  NoDup (i_reasons f) ->
  exists rs, NoDup rs /\
    refuse f = Ok {| i_call := i_call f; i_holder := i_holder f; i_reasons := rs;
                     i_should_send_body := false; i_await_100 := false;
                     i_status := i_status f; i_location := i_location f |}.
Proof.
  intros Hnd. unfold refuse.
  destruct (add_reason_ok (i_reasons f) Not100Continue Hnd) as (rs & -> & Hnd' & _).
  exists rs. split; [exact Hnd'|reflexivity].
Qed.

(** The one misuse of [try_read_100] the model turns into a panic ([assert!(should_send_body)]):
    after a refusal, presenting a window that parses as a complete bare 100 response.  Under the
    re-presentation discipline this cannot happen (C12); with raw windows it can. *)
Definition misuse_100 (f : inner) (win : bytes) : Prop :=
  i_should_send_body f = false /\
  exists used r, try_parse_response 0 win = Ok (Some (used, r)) /\ rs_status r = 100.

Lemma inv_await_flags f f' :
  Inv TAwait100 f -> i_call f' = i_call f -> i_holder f' = i_holder f -> NoDup (i_reasons f') ->
  Inv TAwait100 f'.
Proof.
  intros [_ H] Ec Eh Hnd. inv_intro; [exact Hnd|]. rewrite Ec, Eh. exact H.
Qed.

Lemma try_read_100_safe f win :
  Inv TAwait100 f -> ~ misuse_100 f win ->
  Inv TAwait100 (fst (try_read_100 f win)) /\ safe (fun _ => True) (snd (try_read_100 f win)).
Proof.
  intros Hi Hm. pose proof (inv_nodup _ _ Hi) as Hnd.
  destruct (refuse_total f Hnd) as (rs & Hnd' & Href).
  assert (Hrefuse : Inv TAwait100 (fst match refuse f with
                                      | Ok f' => (f', Ok 0)
                                      | Err e => (f, Err e)
                                      | Panic s => (f, @Panic N s)
                                      end) /\
                    safe (fun _ => True) (snd match refuse f with
                                      | Ok f' => (f', Ok 0)
                                      | Err e => (f, Err e)
                                      | Panic s => (f, @Panic N s)
                                      end)).
  { rewrite Href. cbn [fst snd safe]. split; [|exact I].
    apply (inv_await_flags f); [exact Hi|reflexivity|reflexivity|exact Hnd']. }
  assert (Haw : forall b, Inv TAwait100 (set_await f b)).
  { intros b. apply (inv_await_flags f); [exact Hi|reflexivity|reflexivity|exact Hnd]. }
  unfold try_read_100.
  pose proof (try_parse_response_safe 0 win) as Hp.
  destruct (try_parse_response 0 win) as [[[used r]|]|e|s] eqn:Et; cbn [safe] in Hp; [| | |contradiction].
  - destruct (N.eqb_spec (rs_status r) 100) as [E|E]; [|exact Hrefuse].
    destruct (i_should_send_body f) eqn:Es; cbn [fst snd safe]; [auto|].
    exfalso. apply Hm. split; [exact Es|]. eauto.
  - cbn. auto.
  - destruct e; try exact Hrefuse; cbn [fst snd safe]; auto.
Qed.

Definition await_successor (f : inner) : tag :=
  if i_should_send_body f then TSendBody else TRecvResponse.

Lemma await_100_proceed_total f :
  Inv TAwait100 f ->
  total (fun x => Inv (fst x) (snd x) /\ fst x = await_successor f /\ same_flags f (snd x))
        (await_100_proceed f).
Proof.
  intros [Hnd (Hc & Hh & Hw & Ha & Hp)]. unfold await_100_proceed, await_successor.
  destruct (i_should_send_body f) eqn:Es.
  - rewrite (analysed_call_fix _ Ha). cbn [bind total fst snd].
    split; [|split; [reflexivity|repeat split; exact Es]].
    inv_intro; [exact Hnd|]. cbn [set_call i_call i_holder i_should_send_body]. auto 10.
  - rewrite Hh. cbn [total fst snd]. split; [|split; [reflexivity|repeat split; exact Es]].
    inv_intro; [exact Hnd|]. cbn [set_call_holder i_call i_holder set_phase c_req c_phase c_reader].
    split; [exact (send_recv_common (i_call f) Hc)|]. split; [reflexivity|]. split; [reflexivity|].
    destruct Hc as (_ & _ & _ & _ & _ & _ & H7). intros r E. congruence.
Qed.

(* ------------------------------------------------------------------ SendBody *)

Lemma as_with_body_ok f : i_holder f = HWithBody -> as_with_body f = Ok (i_call f).
Proof. intros H. unfold as_with_body. rewrite H. reflexivity. Qed.

Lemma send_body_write_safe f input cap :
  Inv TSendBody f -> safe (fun r => Inv TSendBody (fst (fst r))) (send_body_write f input cap).
Proof.
  intros [Hnd (Hc & Hh & Hw & Ha & Hp & Hs)]. unfold send_body_write.
  rewrite (as_with_body_ok f Hh). cbn [bind].
  apply (safe_bind (fun r => body_written_from (i_call f) (fst (fst r))));
    [apply call_write_body_safe; assumption|].
  intros [[c' used] out] (Hc' & Hw' & Ha' & Hp' & _). cbn [fst snd safe] in *.
  inv_intro; [exact Hnd|]. cbn [set_call i_call i_holder i_should_send_body]. auto 10.
Qed.

Lemma send_body_direct_safe f amount :
  Inv TSendBody f -> safe (Inv TSendBody) (send_body_direct f amount).
Proof.
  intros [Hnd (Hc & Hh & Hw & Ha & Hp & Hs)]. unfold send_body_direct.
  rewrite (as_with_body_ok f Hh). cbn [bind].
  apply (safe_bind (fun c' => exists w', c' = set_writer (i_call f) w' /\ w_mode w' <> SNone));
    [apply call_direct_write_safe; exact Hw|].
  intros c' (w' & -> & Hw'). cbn [safe].
  inv_intro; [exact Hnd|]. cbn [set_call i_call i_holder i_should_send_body].
  split; [apply send_common_set_writer; exact Hc|]. auto 10.
Qed.

Lemma send_body_queries_total f n :
  Inv TSendBody f ->
  total (fun _ => True) (send_body_max_input f n) /\ total (fun _ => True) (send_body_is_chunked f) /\
  total (fun _ => True) (send_body_can_proceed f).
Proof.
  intros [_ (_ & Hh & _)].
  unfold send_body_max_input, send_body_is_chunked, send_body_can_proceed.
  rewrite (as_with_body_ok f Hh). cbn. auto.
Qed.

Lemma send_body_proceed_ok f :
  Inv TSendBody f ->
  proceed_ok (fun t' f' => t' = TRecvResponse /\ same_flags f f')
             (send_body_can_proceed f) (send_body_proceed f).
Proof.
  intros [Hnd (Hc & Hh & Hw & Ha & Hp & Hs)]. unfold send_body_proceed, send_body_can_proceed.
  rewrite (as_with_body_ok f Hh). cbn [bind].
  destruct (w_ended (c_writer (i_call f))) eqn:Ee; cbn [negb proceed_ok]; [|reflexivity].
  unfold into_receive. rewrite Ee. cbn [proceed_ok].
  split; [reflexivity|]. split; [|split; [reflexivity|repeat split]].
  inv_intro; [exact Hnd|]. cbn [set_call_holder i_call i_holder set_phase c_req c_phase c_reader].
  split; [exact (send_recv_common (i_call f) Hc)|]. split; [reflexivity|]. split; [reflexivity|].
  destruct Hc as (_ & _ & _ & _ & _ & _ & H7). intros r E. congruence.
Qed.

(* ------------------------------------------------------------------ RecvResponse *)

Lemma as_recv_response_ok f : i_holder f = HRecvResponse -> as_recv_response f = Ok (i_call f).
Proof. intros H. unfold as_recv_response. rewrite H. reflexivity. Qed.

(** The call-level part of the RecvResponse invariant survives [try_response]. *)
Lemma responded_inv f f' c' :
  Inv TRecvResponse f -> responded_from (i_call f) c' ->
  i_call f' = c' -> i_holder f' = i_holder f -> NoDup (i_reasons f') ->
  Inv TRecvResponse f'.
Proof.
  intros [_ (Hc & Hh & Hp & Hr)] Hresp Ec Eh Hnd. inv_intro; [exact Hnd|]. rewrite Ec, Eh.
  destruct Hresp as [->|(rd & -> & Hrd)]; [auto|].
  split; [exact Hc|]. split; [exact Hh|]. split; [exact Hp|].
  cbn [set_reader c_reader]. intros r E. inversion E; subst. exact Hrd.
Qed.

Lemma recv_try_response_safe f input :
  Inv TRecvResponse f -> safe (fun r => Inv TRecvResponse (fst (fst r))) (recv_try_response f input).
Proof.
  intros Hi. pose proof Hi as [Hnd (Hc & Hh & Hp & Hr)]. unfold recv_try_response.
  rewrite (as_recv_response_ok f Hh). cbn [bind].
  apply (safe_bind (fun r => responded_from (i_call f) (fst r))); [apply call_try_response_safe|].
  intros [c' got] Hresp. cbn [fst] in Hresp.
  destruct got as [[used rsp]|]; cbn [safe fst].
  - destruct ((rs_status rsp =? 100) && i_await_100 (set_call f c')); cbn [safe fst].
    + apply (responded_inv f _ c' Hi Hresp); [reflexivity|reflexivity|exact Hnd].
    + assert (Hrs : exists rs, NoDup rs /\
                (if headers_has (hm_iter (rs_headers rsp)) (s2b "connection") (s2b "close")
                 then add_reason (i_reasons (set_call f c')) ServerConnectionClose
                 else Ok (i_reasons (set_call f c'))) = Ok rs).
      { destruct (headers_has _ _ _).
        - destruct (add_reason_ok (i_reasons f) ServerConnectionClose Hnd) as (rs & E & Hnd' & _).
          exists rs. split; [exact Hnd'|exact E].
        - exists (i_reasons f). split; [exact Hnd|reflexivity]. }
      destruct Hrs as (rs & Hnd' & ->). cbn [bind safe fst].
      apply (responded_inv f _ c' Hi Hresp); [reflexivity|reflexivity|exact Hnd'].
  - apply (responded_inv f _ c' Hi Hresp); [reflexivity|reflexivity|exact Hnd].
Qed.

(** The documented successor of the response head (C06: body state iff a non-empty body is
    expected, else redirect for 3xx other than 304, else cleanup). *)
Definition response_successor (f : inner) : tag :=
  if need_response_body (i_call f) then TRecvBody
  else if is_redirect f then TRedirect else TCleanup.

Lemma recv_response_proceed_ok f :
  Inv TRecvResponse f ->
  proceed_ok (fun t' f' => t' = response_successor f /\ i_status f' = i_status f /\
                           i_should_send_body f' = i_should_send_body f /\
                           c_reader (i_call f') = c_reader (i_call f))
             (recv_response_can_proceed f) (recv_response_proceed f).
Proof.
  intros [Hnd (Hc & Hh & Hp & Hr)]. unfold recv_response_proceed, recv_response_can_proceed, response_successor.
  rewrite (as_recv_response_ok f Hh). cbn [bind].
  destruct (c_reader (i_call f)) as [rd|] eqn:Er; cbn [negb proceed_ok]; [|reflexivity].
  specialize (Hr rd eq_refl).
  destruct (need_response_body (i_call f)) eqn:En.
  - cbn [set_phase c_reader]. rewrite Er.
    assert (Hrs : exists rs, NoDup rs /\
              (if reader_is_close rd then add_reason (i_reasons f) CloseDelimitedBody
               else Ok (i_reasons f)) = Ok rs).
    { destruct (reader_is_close rd).
      - destruct (add_reason_ok (i_reasons f) CloseDelimitedBody Hnd) as (rs & E & Hnd' & _).
        exists rs. split; [exact Hnd'|exact E].
      - exists (i_reasons f). split; [exact Hnd|reflexivity]. }
    destruct Hrs as (rs & Hnd' & ->). cbn [bind proceed_ok].
    split; [reflexivity|]. split; [|repeat split; exact Er].
    inv_intro; [exact Hnd'|]. cbn [i_call i_holder c_req c_phase c_reader].
    split; [exact Hc|]. split; [reflexivity|]. split; [reflexivity|]. exists rd. split; assumption.
  - cbn [proceed_ok]. split; [reflexivity|].
    change (is_redirect (set_call_holder f (set_phase (i_call f) PRecvBody) HRecvBody)) with (is_redirect f).
    split; [|repeat split; exact Er].
    destruct (is_redirect f) eqn:Ered.
    + inv_intro; [exact Hnd|]. cbn [set_call_holder i_call i_holder set_phase c_req c_phase].
      split; [intros _; apply Hc|]. split; [reflexivity|]. split; [reflexivity|]. exact Ered.
    + inv_intro; [exact Hnd|]. cbn [set_call_holder i_call i_holder set_phase c_req c_phase].
      split; reflexivity.
Qed.

(* ------------------------------------------------------------------ RecvBody *)

Lemma as_recv_body_ok f : i_holder f = HRecvBody -> as_recv_body f = Ok (i_call f).
Proof. intros H. unfold as_recv_body. rewrite H. reflexivity. Qed.

Lemma recv_body_read_safe f input cap :
  Inv TRecvBody f -> safe (fun r => Inv TRecvBody (fst (fst r))) (recv_body_read f input cap).
Proof.
  intros [Hnd (Hc & Hh & Hp & (rd & Er & Hrd))]. unfold recv_body_read.
  rewrite (as_recv_body_ok f Hh). cbn [bind].
  apply (safe_bind (fun x => read_from (i_call f) (fst (fst x)))); [apply (call_read_safe _ _ _ rd); assumption|].
  intros [[c' i] o] Hrf. cbn [fst snd safe] in *.
  inv_intro; [exact Hnd|]. cbn [set_call i_call i_holder].
  destruct Hrf as [->|(rd' & -> & Hrd')].
  - split; [exact Hc|]. split; [exact Hh|]. split; [exact Hp|]. exists rd. split; assumption.
  - split; [exact Hc|]. split; [exact Hh|]. split; [exact Hp|].
    exists rd'. split; [reflexivity|exact Hrd'].
Qed.

Lemma recv_body_stop_total f b : Inv TRecvBody f -> total (Inv TRecvBody) (recv_body_stop f b).
Proof.
  intros [Hnd (Hc & Hh & Hp & Hr)]. unfold recv_body_stop. rewrite (as_recv_body_ok f Hh). cbn [bind total].
  inv_intro; [exact Hnd|]. cbn [set_call i_call i_holder set_stop c_req c_phase c_reader]. auto.
Qed.

Lemma recv_body_queries_total f :
  Inv TRecvBody f ->
  total (fun _ => True) (recv_body_on_boundary f) /\ total (fun _ => True) (recv_body_can_proceed f).
Proof.
  intros [_ (_ & Hh & _ & (rd & Er & _))]. unfold recv_body_on_boundary, recv_body_can_proceed, reader_of.
  rewrite (as_recv_body_ok f Hh). cbn [bind]. rewrite Er. cbn. auto.
Qed.

(** After the body: redirect for 3xx other than 304, else cleanup. *)
Definition body_successor (f : inner) : tag := if is_redirect f then TRedirect else TCleanup.

Lemma recv_body_proceed_ok f :
  Inv TRecvBody f ->
  proceed_ok (fun t' f' => t' = body_successor f /\ f' = f)
             (recv_body_can_proceed f) (recv_body_proceed f).
Proof.
  intros [Hnd (Hc & Hh & Hp & (rd & Er & Hrd))]. unfold recv_body_proceed, recv_body_can_proceed, reader_of, body_successor.
  rewrite (as_recv_body_ok f Hh). cbn [bind]. rewrite Er. cbn [bind].
  destruct (reader_is_ended rd || reader_is_close rd); cbn [negb proceed_ok]; [|reflexivity].
  split; [reflexivity|]. split; [|split; reflexivity].
  destruct (is_redirect f) eqn:Ered.
  - inv_intro; [exact Hnd|]. split; [intros _; apply Hc|]. auto.
  - inv_intro; [exact Hnd|]. auto.
Qed.

(* ------------------------------------------------------------------ Redirect *)

Lemma redirect_proceed f : Inv TRedirect f -> Inv TCleanup f.
Proof. intros [Hnd (_ & Hh & Hp & _)]. split; [exact Hnd|]. split; assumption. Qed.

(** Reference resolution yields a URI with scheme and authority. *)
Fixpoint sgo (l acc : bytes) : option (bytes * bytes) :=
  match l with
  | [] => None
  | b :: t => if b =? 58 then Some (rev acc, t)
              else if is_scheme_char b then sgo t (b :: acc) else None
  end.

Lemma split_scheme_sgo s :
  split_scheme s = match s with
                   | [] => None
                   | c :: _ => if negb (is_alpha c) then None else sgo s []
                   end.
Proof. destruct s; reflexivity. Qed.

Lemma sgo_nonempty l : forall acc sch r, sgo l acc = Some (sch, r) -> acc <> [] -> sch <> [].
Proof.
  induction l as [|b t IH]; intros acc sch r H Hacc; cbn [sgo] in H; [discriminate|].
  destruct (b =? 58).
  - inversion H; subst. destruct acc as [|x acc']; [congruence|]. cbn [rev].
    intros E. apply app_eq_nil in E. destruct E as [_ E]. discriminate.
  - destruct (is_scheme_char b); [|discriminate]. apply (IH _ _ _ H). discriminate.
Qed.

Lemma split_scheme_nonempty s sch r : split_scheme s = Some (sch, r) -> sch <> [].
Proof.
  rewrite split_scheme_sgo. destruct s as [|c t]; [discriminate|].
  destruct (is_alpha c) eqn:Ea; cbn [negb]; [|discriminate].
  cbn [sgo]. destruct (N.eqb_spec c 58) as [E|E]; [subst; discriminate|].
  destruct (is_scheme_char c); [|discriminate]. intros H. apply (sgo_nonempty _ _ _ _ H). discriminate.
Qed.

Lemma parse_ref_scheme loc s : r_scheme (parse_ref loc) = Some s -> s <> [].
Proof.
  unfold parse_ref.
  destruct (split_scheme (until 35 loc)) as [[s' r']|] eqn:E.
  - match goal with |- context [let '(a, b) := ?X in _] => destruct X as [a b] end.
    cbn [r_scheme]. intros H. inversion H; subst. exact (split_scheme_nonempty _ _ _ E).
  - match goal with |- context [let '(a, b) := ?X in _] => destruct X as [a b] end.
    cbn [r_scheme]. discriminate.
Qed.

Lemma norm_auth_nonempty scheme auth a : norm_auth scheme auth = Some a -> a <> [].
Proof.
  unfold norm_auth. destruct (lower (until 58 auth)) as [|h t]; [discriminate|].
  destruct (after 58 auth) as [p|]; [|intros H; inversion H; discriminate].
  destruct (parse_port p) as [[n|]|]; [| |discriminate].
  - destruct (default_port scheme) as [d|].
    + destruct (n =? d); intros H; inversion H; discriminate.
    + intros H; inversion H; discriminate.
  - intros H; inversion H; discriminate.
Qed.

Lemma lower_nonempty s : s <> [] -> lower s <> [].
Proof. destruct s; [congruence|]. cbn. discriminate. Qed.

Lemma resolve_abs base loc target :
  resolve base loc = Some target -> u_scheme base <> [] -> abs_uri target.
Proof.
  unfold resolve. intros H Hb.
  match type of H with (match ?X with pair _ _ => _ end) = _ =>
    assert (Hs : fst (fst (fst X)) <> []); [|destruct X as [[[scheme auth] path] query]] end.
  { destruct (r_scheme (parse_ref loc)) as [s|] eqn:Es.
    - cbn [fst]. apply lower_nonempty. exact (parse_ref_scheme _ _ Es).
    - destruct (r_auth (parse_ref loc)); [cbn [fst]; apply lower_nonempty; exact Hb|].
      destruct (r_path (parse_ref loc)) as [|x t]; [cbn [fst]; apply lower_nonempty; exact Hb|].
      destruct x as [|p]; [cbn [fst]; apply lower_nonempty; exact Hb|].
      repeat (destruct p as [p|p|]; try (cbn [fst]; apply lower_nonempty; exact Hb)). }
  cbn [fst] in Hs.
  destruct (norm_auth scheme auth) as [a|] eqn:En; [|discriminate].
  inversion H; subst. split; cbn [u_scheme u_auth]; [exact Hs|exact (norm_auth_nonempty _ _ _ En)].
Qed.

(** [Flow::new] followed by replacing the amended request by one over the same request (what
    [as_new_flow] does): the Prepare invariant holds when the effective URI is absolute. *)
Lemma flow_new_inv_req r a :
  am_req a = Some r -> abs_uri (am_eff_uri a) -> len (am_added a) <= HEADER_BUDGET ->
  exists next, flow_new r = Ok next /\ Inv TPrepare (set_call next (set_req (i_call next) a)).
Proof.
  intros Hr Hu Hl. destruct (flow_new_shape r) as (rs & Hnd & ->). eexists. split; [reflexivity|].
  inv_intro; [exact Hnd|]. cbn [set_call i_call i_holder i_should_send_body set_req call_new].
  split.
  { unfold SendCommon, set_req, call_new. cbn [c_req c_analyzed c_phase c_reader].
    split; [congruence|]. split; [exact Hu|]. split; [intros _; exact Hl|].
    split; [intros; discriminate|]. split; [left; reflexivity|]. split; reflexivity. }
  split; [|split; reflexivity].
  assert (Hm : am_method a = rq_method r) by (unfold am_method, am_request; rewrite Hr; reflexivity).
  unfold HolderOK, NB, WB, body_due.
  cbn [set_call i_call i_holder i_should_send_body set_req call_new c_req c_skip c_writer].
  destruct (need_request_body (rq_method r)) eqn:En.
  - right. split; [reflexivity|]. split; [reflexivity|]. split; [cbn; discriminate|].
    rewrite Hm, En. reflexivity.
  - left. split; [reflexivity|]. split; [reflexivity|]. split; [reflexivity|]. split; [reflexivity|].
    rewrite Hm. exact En.
Qed.

Definition unset_ext (a a' : amended) : Prop :=
  am_req a' = am_req a /\ am_uri a' = am_uri a /\ am_added a' = am_added a.

Lemma unset_header_total a0 a k n :
  unset_ext a0 a -> len (am_unset a) <= n -> n < UNSET_CAP ->
  total (fun a' => unset_ext a0 a' /\ len (am_unset a') <= n + 1) (am_unset_header a k).
Proof.
  intros (H1 & H2 & H3) Hl Hn. unfold am_unset_header.
  destruct (N.leb_spec UNSET_CAP (len (am_unset a))); [lia|]. cbn [total am_unset].
  split; [split; [exact H1|split; [exact H2|exact H3]]|]. rewrite len_app. cbn [len]. lia.
Qed.

(** [as_new_flow] on a Redirect flow whose request has not been taken yet: no panic; the redirect
    flow stays a Redirect flow and the new flow, if any, is a proper Prepare flow. *)
Lemma as_new_flow_safe f p :
  Inv TRedirect f -> ~ Taken f ->
  safe (fun r => Inv TRedirect (fst r) /\
                 match snd r with Some n => Inv TPrepare n | None => fst r = f end)
       (as_new_flow f p).
Proof.
  intros Hi Hnt. pose proof Hi as [Hnd (Hu & Hh & Hp & Hred)].
  destruct (Hu Hnt) as [Hsch Hau]. unfold Taken in Hnt.
  assert (Habs : forall loc t, resolve (am_eff_uri (c_req (i_call f))) loc = Some t -> abs_uri t).
  { intros loc t H. exact (resolve_abs _ _ _ H Hsch). }
  unfold as_new_flow.
  destruct (i_location f) as [loc|]; [|exact I]. destruct (negb (is_text loc)); [exact I|].
  unfold is_redirect in Hred. destruct (i_status f) as [status|] eqn:Est; [|discriminate].
  destruct (u_scheme (am_eff_uri (c_req (i_call f)))) as [|sc0 sc1] eqn:Es; [congruence|].
  destruct (resolve (am_eff_uri (c_req (i_call f))) loc) as [target|] eqn:Er; [|exact I].
  specialize (Habs _ _ Er). cbv zeta.
  match goal with |- safe _ (match ?X with Some _ => _ | None => _ end) => destruct X as [nm|] end;
    [|cbn [safe fst snd]; split; [exact Hi|reflexivity]].
  destruct (am_req (c_req (i_call f))) as [orig|] eqn:Eq; [|congruence].
  set (req := {| rq_method := nm; rq_version := rq_version orig; rq_uri := rq_uri orig;
                 rq_headers := rq_headers orig |}).
  set (a0 := am_set_uri (am_new req) target).
  assert (Hfin : forall a3, unset_ext a0 a3 ->
            exists next, flow_new req = Ok next /\ c_req (i_call next) = am_new req /\
                         Inv TPrepare (set_call next (set_req (i_call next) a3))).
  { intros a3 (E1 & E2 & E3).
    destruct (flow_new_inv_req req a3) as (next & Hn & Hin).
    - rewrite E1. reflexivity.
    - unfold am_eff_uri. rewrite E2. cbn [a0 am_set_uri am_uri]. exact Habs.
    - rewrite E3. cbn. unfold HEADER_BUDGET. lia.
    - exists next. split; [exact Hn|]. split; [|exact Hin].
      destruct (flow_new_shape req) as (rs & _ & Hs). rewrite Hs in Hn. inversion Hn; subst. reflexivity. }
  destruct (Hfin a0 (conj eq_refl (conj eq_refl eq_refl))) as (next & Hn & Hreq & _).
  rewrite Hn. cbn [bind]. rewrite Hreq. fold a0.
  assert (H0 : unset_ext a0 a0 /\ len (am_unset a0) <= 0) by (split; [repeat split|cbn; lia]).
  apply (safe_bind (fun a => unset_ext a0 a /\ len (am_unset a) <= 1)).
  { destruct (match p with Never => false | SameHost => _ end).
    - cbn [safe]. destruct H0 as [H0 H0l]. split; [exact H0|lia].
    - apply total_safe. apply (unset_header_total a0 a0 _ 0); [apply H0|apply H0|unfold UNSET_CAP; lia]. }
  intros a1 [Hx1 Hl1].
  apply (safe_bind (fun a => unset_ext a0 a /\ len (am_unset a) <= 2)).
  { apply total_safe. apply (unset_header_total a0 a1 _ 1); [exact Hx1|exact Hl1|unfold UNSET_CAP; lia]. }
  intros a2 [Hx2 Hl2].
  apply (safe_bind (fun a => unset_ext a0 a /\ len (am_unset a) <= 3)).
  { apply total_safe. apply (unset_header_total a0 a2 _ 2); [exact Hx2|exact Hl2|unfold UNSET_CAP; lia]. }
  intros a3 [Hx3 _]. cbn [safe fst snd].
  destruct (Hfin a3 Hx3) as (next' & Hn' & _ & Hin'). rewrite Hn in Hn'. inversion Hn'; subst next'.
  split; [|exact Hin'].
  inv_intro; [exact Hnd|]. cbn [set_call i_call i_holder set_req c_req c_phase].
  split; [|split; [exact Hh|split; [exact Hp|]]].
  - intros Hnt'. exfalso. apply Hnt'. reflexivity.
  - unfold is_redirect. cbn [set_call i_status]. rewrite Est. exact Hred.
Qed.
