(** C06: response body framing follows the HTTP/1.1 message-body-length rules. *)
From Coq Require Import Lia ZArith.
From Hoot Require Import Base Chunk Body Parser Request Call Flow.
From Hoot.proofs Require Import BytesLemmas Reasons.
Open Scope N_scope.

(** The rules of the statement, in the order the statement gives them. [cl]/[te] are the values of
    the first Content-Length / Transfer-Encoding field (when present and textual). *)
Definition cl_value (cl : option bytes) : res (option N) :=
  match cl with
  | None => Ok None
  | Some v => if all_digits v then
                match parse_dec_u64 v with Some n => Ok (Some n) | None => Err BadContentLengthHeader end
              else Err BadContentLengthHeader
  end.

Definition no_body_status (is_head_m is_connect_m : bool) (status : N) : bool :=
  is_head_m
  || (is_connect_m && (200 <=? status) && (status <=? 299))
  || ((100 <=? status) && (status <=? 199))
  || (status =? 204) || (status =? 304).

Definition is_redirect_status (status : N) : bool :=
  (300 <=? status) && (status <=? 399) && negb (status =? 304).

Definition rfc_body_mode (is_head_m is_connect_m : bool) (status : N) (v11 : bool)
           (cl te : option bytes) : res reader :=
  match cl_value cl with
  | Err e => Err e                                        (* non-numeric Content-Length: error *)
  | Panic s => Panic s
  | Ok n =>
      if no_body_status is_head_m is_connect_m status then Ok RNoBody
      else if v11 && match te with Some v => te_has_chunked v | None => false end
           then Ok (RChunked DSize)                       (* chunked wins over Content-Length *)
      else match n with
           | Some k => Ok (RLength k)                     (* exactly Content-Length bytes *)
           | None =>                                      (* no Content-Length *)
               (* a redirect without ANY framing header (neither Content-Length nor Transfer-Encoding,
                  as text fields) has no body *)
               if is_redirect_status status && match te with None => true | Some _ => false end
               then Ok RNoBody
               else Ok RClose                             (* until the connection closes *)
           end
  end.

Lemma for_response_rfc is_head_m is_connect_m status v11 cl te :
  for_response (negb v11) is_head_m is_connect_m status cl te =
  rfc_body_mode is_head_m is_connect_m status v11 cl te.
Proof.
  unfold for_response, rfc_body_mode, header_defined, cl_value, no_body_status, is_redirect_status.
  rewrite Bool.negb_involutive.
  generalize (200 <=? status) (status <=? 299) (100 <=? status) (status <=? 199)
             (status =? 204) (status =? 304) (300 <=? status) (status <=? 399).
  intros b1 b2 b3 b4 b5 b6 b7 b8.
  destruct te as [tv|].
  - generalize (te_has_chunked tv). intros chunked.
    destruct cl as [v|]; cbn [bind].
    + destruct (all_digits v); cbn [negb bind]; [|reflexivity].
      destruct (parse_dec_u64 v) as [n|]; cbn [bind]; [|reflexivity].
      destruct chunked, v11, is_head_m, is_connect_m, b1, b2, b3, b4, b5, b6, b7, b8; reflexivity.
    + destruct chunked, v11, is_head_m, is_connect_m, b1, b2, b3, b4, b5, b6, b7, b8; reflexivity.
  - destruct cl as [v|]; cbn [bind].
    + destruct (all_digits v); cbn [negb bind]; [|reflexivity].
      destruct (parse_dec_u64 v) as [n|]; cbn [bind]; [|reflexivity].
      destruct v11, is_head_m, is_connect_m, b1, b2, b3, b4, b5, b6, b7, b8; reflexivity.
    + destruct v11, is_head_m, is_connect_m, b1, b2, b3, b4, b5, b6, b7, b8; reflexivity.
Qed.

(** The successor state after the head. *)
Definition expects_body (r : reader) : bool :=
  match r with RNoBody => false | RLength n => negb (n =? 0) | _ => true end.

Definition successor (r : reader) (status : N) : tag :=
  if expects_body r then TRecvBody
  else if is_redirect_status status then TRedirect else TCleanup.

Lemma is_redirect_spec f status :
  i_status f = Some status -> is_redirect f = is_redirect_status status.
Proof.
  intros H. unfold is_redirect, is_redirect_status, is_redirection. rewrite H. reflexivity.
Qed.

Lemma successor_state f r status :
  i_holder f = HRecvResponse -> c_reader (i_call f) = Some r -> i_status f = Some status ->
  NoDup (i_reasons f) ->
  exists f', recv_response_proceed f = Ok (Some (successor r status, f')) /\
             c_reader (i_call f') = Some r /\ i_holder f' = HRecvBody /\ i_status f' = Some status.
Proof.
  intros Hh Hr Hs Hnd.
  unfold recv_response_proceed, recv_response_can_proceed, as_recv_response.
  rewrite Hh. cbn [bind]. rewrite Hr. cbn [negb].
  unfold need_response_body, successor. rewrite Hr.
  assert (Hred : forall c h, is_redirect (set_call_holder f c h) = is_redirect_status status).
  { intros c h. apply is_redirect_spec. cbn. exact Hs. }
  destruct r as [|n|d|]; cbn [expects_body set_phase c_reader reader_is_close].
  - rewrite Hred. eexists. split; [reflexivity|]. cbn. auto.
  - destruct (n =? 0); cbn [negb bind].
    + rewrite Hred. eexists. split; [reflexivity|]. cbn. auto.
    + rewrite Hr. cbn [reader_is_close bind]. eexists. split; [reflexivity|]. cbn. auto.
  - rewrite Hr. cbn [reader_is_close bind]. eexists. split; [reflexivity|]. cbn. auto.
  - rewrite Hr. cbn [reader_is_close]. destruct (add_reason_ok (i_reasons f) CloseDelimitedBody Hnd) as (rs' & Ha & _).
    rewrite Ha. cbn [bind]. eexists. split; [reflexivity|]. cbn. auto.
Qed.

(** What [call_try_response] stores as the reader is the rule applied to the first Content-Length /
    Transfer-Encoding fields of the returned head (status other than 100). *)
Lemma try_response_mode c input c' used rsp :
  call_try_response c input = Ok (c', Some (used, rsp)) -> rs_status rsp <> 100 ->
  exists r,
    c_reader c' = Some r /\
    rfc_body_mode (method_eqb (am_method (c_req c)) HEAD) (method_eqb (am_method (c_req c)) CONNECT)
                  (rs_status rsp) (negb (rs_version rsp =? 0))
                  (lookup_text (rs_headers rsp) (s2b "content-length"))
                  (lookup_text (rs_headers rsp) (s2b "transfer-encoding")) = Ok r.
Proof.
  unfold call_try_response. intros H Hs.
  destruct (try_parse_response _ input) as [first|e|s]; cbn [bind] in H; try discriminate.
  match type of H with (bind ?X _ = _) => destruct X as [got|e|s] eqn:Eg end; cbn [bind] in H; try discriminate.
  destruct got as [[u r0]|]; [|discriminate].
  destruct (N.eqb_spec (rs_status r0) 100) as [E100|E100].
  - destruct (rs_headers r0); [|discriminate]. inversion H; subst. congruence.
  - destruct (match hm_get (rs_headers r0) (s2b "content-length") with
              | Some v => negb (is_text v) | None => false end); [discriminate|].
    match type of H with (bind ?X _ = _) => destruct X as [rd|e|s] eqn:Er end; cbn [bind] in H; try discriminate.
    inversion H; subst. exists rd. split; [reflexivity|].
    rewrite <- for_response_rfc. rewrite Bool.negb_involutive. exact Er.
Qed.
