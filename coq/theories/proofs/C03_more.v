(** C03, additions: (1) the emitted bytes are a VALID coding in the sense of the grammar of
    proofs/C07_spec.v (not only "the model decoder reads them back"); (2) the same at the flow level
    ([Flow<SendBody>::write], [can_proceed]), starting from the flow the REQUEST leads to
    (proofs/C02_entry.v). *)
From Coq Require Import Lia ZArith.
From Hoot Require Import Base Chunk Body Httparse Parser Url Request Call Flow.
From Hoot.proofs Require Import BytesLemmas C18_hex C18_proofs C19_proofs C03_proofs C02_proofs C02_entry.
From Hoot.proofs Require C07_spec C03_roundtrip.
Open Scope N_scope.

(* ------------------------------------------------------------------ grammar validity *)

(** Whatever has been emitted is, completed by the terminator if that is not out yet, the encoding
    of a valid coding whose payload is exactly the consumed input, without trailers, with size lines
    within the decoder's limit (F17 does not bite). *)
Lemma valid_of_shape out inp (ended : bool) cs :
  chunks_ok cs -> concat cs = inp -> out = enc_chunks cs ++ (if ended then TERM else []) ->
  exists k, C07_spec.valid k /\ C07_spec.line_limit_F17 k /\
            C07_spec.payload k = inp /\ C07_spec.cd_trailers k = [] /\
            C07_spec.enc k = out ++ (if ended then [] else TERM).
Proof.
  intros Hok Hin Hout. exists (C03_roundtrip.coding_of cs).
  destruct (C03_roundtrip.valid_coding_of cs Hok) as [Hv Hl].
  split; [exact Hv|]. split; [exact Hl|]. split; [rewrite C03_roundtrip.payload_coding_of; exact Hin|].
  split; [reflexivity|]. rewrite C03_roundtrip.enc_coding_of, Hout.
  destruct ended; rewrite <- ?app_assoc, ?app_nil_r; reflexivity.
Qed.

Lemma valid_run c ops :
  chunked_body c false ->
  let t := trun (start c) ops in
  let ended := w_ended (c_writer (t_call t)) in
  exists k, C07_spec.valid k /\ C07_spec.line_limit_F17 k /\
            C07_spec.payload k = t_in t /\ C07_spec.cd_trailers k = [] /\
            C07_spec.enc k = t_out t ++ (if ended then [] else TERM).
Proof.
  intros H. cbv zeta. destruct (shape c ops H) as (cs & _ & Hok & Hin & Hout & _).
  eapply valid_of_shape; eassumption.
Qed.

(** The size-line printer against the GRAMMAR's reading of a size line (not the model parser). *)
Lemma hex_of_grammar n :
  forallb C07_spec.is_hex (hex_of n) = true /\ C07_spec.hex_value (hex_of n) = n.
Proof. split; [apply C03_roundtrip.hex_of_is_hex|apply C03_roundtrip.hex_value_hex_of]. Qed.

(* ------------------------------------------------------------------ flow level *)

(** One [Flow<SendBody>::write] on a chunked body: the whole result. *)
Lemma flow_write_chunked g ended input cap :
  i_holder g = HWithBody -> chunked_body (i_call g) ended ->
  send_body_write g input cap =
    match input with
    | [] =>
        if negb ended && (5 <=? cap)
        then Ok (set_call g (set_writer (i_call g) ended_writer), 0, TERM)
        else Ok (g, 0, [])
    | _ :: _ =>
        if ended then Err BodyContentAfterFinish
        else let r := chunk_loop (S (List.length input)) input cap 0 [] in Ok (g, fst r, snd r)
    end.
Proof.
  intros Hh Hc. rewrite (send_body_write_eq g input cap Hh), (call_chunked_eq _ ended input cap Hc).
  destruct input as [|x t].
  - change (len TERM) with 5. destruct (negb ended && (5 <=? cap)); [reflexivity|].
    cbv beta iota. rewrite set_call_same. reflexivity.
  - destruct ended; [reflexivity|]. cbv beta iota zeta. rewrite set_call_same. reflexivity.
Qed.

Lemma flow_can_proceed_chunked g ended :
  i_holder g = HWithBody -> chunked_body (i_call g) ended -> send_body_can_proceed g = Ok ended.
Proof.
  intros Hh (_ & _ & Hw). rewrite (send_body_can_proceed_eq g Hh), Hw. reflexivity.
Qed.

(** [consume_direct_write] is refused on a chunked body, in every state. *)
Lemma flow_direct_chunked g ended amount :
  i_holder g = HWithBody -> chunked_body (i_call g) ended ->
  send_body_direct g amount = Err BodyIsChunked.
Proof.
  intros Hh (_ & _ & Hw). rewrite (send_body_direct_eq g amount Hh).
  unfold call_direct_write. rewrite Hw. reflexivity.
Qed.

(** Histories at the flow level, with the ghost fields of [C03_proofs.trace]. *)
Record ftrace := {
  ft_flow : inner;
  ft_out : bytes;
  ft_in : bytes;
  ft_fin : N
}.

Definition fstep (t : ftrace) (o : wop) : ftrace :=
  match o with
  | W input cap =>
      match send_body_write (ft_flow t) input cap with
      | Ok (f', n, out) =>
          {| ft_flow := f'; ft_out := ft_out t ++ out; ft_in := ft_in t ++ take n input;
             ft_fin := match input, out with [], _ :: _ => ft_fin t + 1 | _, _ => ft_fin t end |}
      | _ => t
      end
  end.

Definition frun (t : ftrace) (ops : list wop) : ftrace := fold_left fstep ops t.
Definition fstart (g : inner) : ftrace := {| ft_flow := g; ft_out := []; ft_in := []; ft_fin := 0 |}.

Definition lift (g : inner) (t : trace) : ftrace :=
  {| ft_flow := set_call g (t_call t); ft_out := t_out t; ft_in := t_in t; ft_fin := t_fin t |}.

Lemma fstep_lift g t o : i_holder g = HWithBody -> fstep (lift g t) o = lift g (tstep t o).
Proof.
  intros Hh. destruct o as [input cap]. cbn [fstep tstep lift ft_flow ft_out ft_in ft_fin].
  rewrite send_body_write_eq by exact Hh. cbn [set_call i_call].
  destruct (call_write_body (t_call t) input cap) as [[[c' u] o]| |]; reflexivity.
Qed.

Lemma frun_lift g ops : i_holder g = HWithBody ->
  forall t, frun (lift g t) ops = lift g (trun t ops).
Proof.
  intros Hh. induction ops as [|o ops IH]; intros t; cbn [frun trun fold_left]; [reflexivity|].
  rewrite fstep_lift by exact Hh. apply IH.
Qed.

Lemma frun_start g ops : i_holder g = HWithBody ->
  frun (fstart g) ops = lift g (trun (start (i_call g)) ops).
Proof.
  intros Hh. rewrite <- frun_lift by exact Hh. f_equal. unfold lift, start, fstart.
  cbn [t_call t_out t_in t_fin]. rewrite set_call_same. reflexivity.
Qed.

(** The C03 invariant for every history of [Flow<SendBody>::write] calls; [ended] is what
    [can_proceed] answers. *)
Lemma flow_shape g ops :
  i_holder g = HWithBody -> chunked_body (i_call g) false ->
  let ft := frun (fstart g) ops in
  exists ended cs,
    i_holder (ft_flow ft) = HWithBody /\
    chunked_body (i_call (ft_flow ft)) ended /\
    send_body_can_proceed (ft_flow ft) = Ok ended /\
    chunks_ok cs /\ concat cs = ft_in ft /\
    ft_out ft = enc_chunks cs ++ (if ended then TERM else []) /\
    ft_fin ft = (if ended then 1 else 0).
Proof.
  intros Hh Hc. cbv zeta. rewrite (frun_start g ops Hh).
  destruct (shape (i_call g) ops Hc) as (cs & H1 & H2 & H3 & H4 & H5).
  exists (w_ended (c_writer (t_call (trun (start (i_call g)) ops)))), cs.
  cbn [lift ft_flow ft_out ft_in ft_fin set_call i_holder i_call].
  split; [exact Hh|]. split; [exact H1|].
  split; [eapply flow_can_proceed_chunked; [exact Hh|exact H1]|]. auto.
Qed.

Lemma flow_valid g ops :
  i_holder g = HWithBody -> chunked_body (i_call g) false ->
  let ft := frun (fstart g) ops in
  exists ended k,
    send_body_can_proceed (ft_flow ft) = Ok ended /\
    C07_spec.valid k /\ C07_spec.line_limit_F17 k /\
    C07_spec.payload k = ft_in ft /\ C07_spec.cd_trailers k = [] /\
    C07_spec.enc k = ft_out ft ++ (if ended then [] else TERM).
Proof.
  intros Hh Hc. cbv zeta.
  destruct (flow_shape g ops Hh Hc) as (ended & cs & _ & _ & Hcp & Hok & Hin & Hout & _).
  destruct (valid_of_shape _ _ ended cs Hok Hin Hout) as (k & Hk).
  exists ended, k. split; [exact Hcp|exact Hk].
Qed.

(** From the request to the body: a prepared flow whose effective headers carry a chunked
    Transfer-Encoding, after its head has gone out over any buffers, satisfies the C03 invariant and
    emits a valid coding, for every history of SendBody writes. *)
Lemma from_request f caps ops :
  prepared f -> C17_proofs.call_invalid (i_call f) = false -> C17_proofs.sendable (i_call f) ->
  let a' := c_req (C17_proofs.analysed_call (i_call f)) in
  let g := C17_proofs.fw_flow (C17_proofs.fwrun f caps) in
  send_request_can_proceed g = Ok true ->
  C17_proofs.has_chunked_te a' = true ->
  let ft := frun (fstart g) ops in
  exists ended cs k,
    send_body_can_proceed (ft_flow ft) = Ok ended /\
    chunks_ok cs /\ concat cs = ft_in ft /\
    ft_out ft = enc_chunks cs ++ (if ended then TERM else []) /\
    ft_fin ft = (if ended then 1 else 0) /\
    C07_spec.valid k /\ C07_spec.payload k = ft_in ft /\
    C07_spec.enc k = ft_out ft ++ (if ended then [] else TERM).
Proof.
  intros Hp Hi Hs a' g Hcp Hch.
  destruct (c03_entry_lemma f caps Hp Hi Hs Hcp Hch) as (_ & Hh & _ & Hc & _).
  cbv zeta. destruct (flow_shape g ops Hh Hc) as (ended & cs & _ & _ & Hcan & Hok & Hin & Hout & Hfin).
  destruct (valid_of_shape _ _ ended cs Hok Hin Hout) as (k & Hv & _ & Hpay & _ & Henc).
  exists ended, cs, k. auto 10.
Qed.
