(** C05 / C20: the byte classes of the grammar, written from RFC 5234 (core rules), RFC 9110 section
    5.6.2 (token), 5.5 (field values), 5.6.3 (white space) and RFC 9112 section 4 (status line), WITHOUT
    looking at the tables of the model (Httparse.v / Parser.v), and then proved equal to those tables.

    The well-formedness predicates of proofs/C05_spec.v ([wf_field], [wf_resp_head], [wf_req_head])
    use the model's predicates [is_name_token], [is_value_token], [is_reason_byte], [is_sp_tab],
    [is_method_token], [is_uri_token]; [rfc_wf_*] below are the same predicates over the RFC classes, and
    [rfc_wf_field_iff], [rfc_wf_resp_head_wf], [rfc_wf_req_head_wf] show that every theorem stated for
    [wf_*] heads holds for every RFC-well-formed head (and conversely for heads made of bytes).

    Method used for each table: the two predicates are compared on 0..255 by [vm_compute] and shown to be
    both false on every [N] from 256 on ([table_eq]). *)
From Coq Require Import Lia ZArith ZifyN ZifyBool.
From Hoot Require Import Base Httparse Parser.
From Hoot.proofs Require Import BytesLemmas C05_spec.
Open Scope N_scope.

(** ** The classes, as the RFCs write them *)

Definition in_range (lo hi b : N) : bool := (lo <=? b) && (b <=? hi).
(** [b] is one of the characters of the literal [s]. *)
Definition one_of (s : string) (b : N) : bool := existsb (N.eqb b) (s2b s).

(* RFC 5234 appendix B.1 *)
Definition rfc_DIGIT (b : N) : bool := in_range 48 57 b.                          (* %x30-39 *)
Definition rfc_ALPHA (b : N) : bool := in_range 65 90 b || in_range 97 122 b.     (* %x41-5A / %x61-7A *)
Definition rfc_VCHAR (b : N) : bool := in_range 33 126 b.                         (* %x21-7E *)
Definition rfc_SP (b : N) : bool := b =? 32.                                      (* %x20 *)
Definition rfc_HTAB (b : N) : bool := b =? 9.                                     (* %x09 *)

(* RFC 9110 5.6.2:  tchar = "!" / "#" / "$" / "%" / "&" / "'" / "*" / "+" / "-" / "." /
                            "^" / "_" / "`" / "|" / "~" / DIGIT / ALPHA *)
Definition rfc_tchar (b : N) : bool := one_of "!#$%&'*+-.^_`|~" b || rfc_DIGIT b || rfc_ALPHA b.

(* RFC 9110 5.5:  field-vchar = VCHAR / obs-text ;  obs-text = %x80-FF
                  field-content = field-vchar [ 1*( SP / HTAB / field-vchar ) field-vchar ] *)
Definition rfc_obs_text (b : N) : bool := in_range 128 255 b.
Definition rfc_field_vchar (b : N) : bool := rfc_VCHAR b || rfc_obs_text b.
Definition rfc_field_content_byte (b : N) : bool := rfc_field_vchar b || rfc_SP b || rfc_HTAB b.

(* RFC 9110 5.6.3:  OWS = *( SP / HTAB ) *)
Definition rfc_ows_byte (b : N) : bool := rfc_SP b || rfc_HTAB b.

(* RFC 9112 4:  reason-phrase = 1*( HTAB / SP / VCHAR / obs-text ) *)
Definition rfc_reason_byte (b : N) : bool := rfc_HTAB b || rfc_SP b || rfc_VCHAR b || rfc_obs_text b.

(** A field value: any number of field-content bytes, the first and the last of which (if any) are
    field-vchar, i.e. not white space. *)
Definition rfc_field_value (v : bytes) : bool :=
  forallb rfc_field_content_byte v &&
  match v with [] => true | c :: _ => rfc_field_vchar c end &&
  match rev v with [] => true | c :: _ => rfc_field_vchar c end.

(** ** Comparing two predicates on all of [N] *)

Lemma table_eq (p q : N -> bool) :
  forallb (fun k => Bool.eqb (p (N.of_nat k)) (q (N.of_nat k))) (seq 0 256) = true ->
  (forall b, 256 <= b -> p b = false) -> (forall b, 256 <= b -> q b = false) ->
  forall b, p b = q b.
Proof.
  intros Ht Hp Hq b. destruct (N.lt_ge_cases b 256) as [Hlt|Hge].
  - rewrite forallb_forall in Ht. specialize (Ht (N.to_nat b)). rewrite N2Nat.id in Ht.
    apply Bool.eqb_prop. apply Ht. apply in_seq. lia.
  - rewrite Hp, Hq by exact Hge. reflexivity.
Qed.

Lemma table_eq_bytes (p q : N -> bool) :
  forallb (fun k => Bool.eqb (p (N.of_nat k)) (q (N.of_nat k))) (seq 0 256) = true ->
  forall b, b < 256 -> p b = q b.
Proof.
  intros Ht b Hlt. rewrite forallb_forall in Ht. specialize (Ht (N.to_nat b)). rewrite N2Nat.id in Ht.
  apply Bool.eqb_prop. apply Ht. apply in_seq. lia.
Qed.

Lemma existsb_eqb_big l b : forallb (fun x => x <? 256) l = true -> 256 <= b -> existsb (N.eqb b) l = false.
Proof.
  intros Hl Hb. induction l as [|x l IH]; [reflexivity|].
  cbn [forallb] in Hl. apply andb_prop in Hl. destruct Hl as [Hx Hl].
  cbn [existsb]. rewrite (IH Hl). destruct (N.eqb_spec b x); [|reflexivity]. subst. lia.
Qed.

Lemma one_of_big s b : forallb (fun x => x <? 256) (s2b s) = true -> 256 <= b -> one_of s b = false.
Proof. apply existsb_eqb_big. Qed.

Lemma in_range_big lo hi b : hi < 256 -> 256 <= b -> in_range lo hi b = false.
Proof. unfold in_range. lia. Qed.

(** ** The model's tables are the RFC classes *)

Theorem name_token_is_tchar b : is_name_token b = rfc_tchar b.
Proof.
  revert b. apply table_eq; [vm_compute; reflexivity| |].
  - intros b Hb. unfold is_name_token, is_digit, is_alpha, is_upper, is_lower. lia.
  - intros b Hb. unfold rfc_tchar, rfc_DIGIT, rfc_ALPHA.
    rewrite one_of_big by (exact Hb || reflexivity). rewrite !in_range_big by lia. reflexivity.
Qed.

Theorem value_token_is_field_content b : is_value_token b = rfc_field_content_byte b.
Proof.
  unfold is_value_token, rfc_field_content_byte, rfc_field_vchar, rfc_VCHAR, rfc_obs_text, rfc_SP, rfc_HTAB, in_range.
  lia.
Qed.

Theorem sp_tab_is_ows b : is_sp_tab b = rfc_ows_byte b.
Proof. reflexivity. Qed.

(** The reason-phrase table of the model has no upper bound (it is only ever applied to bytes): equal on
    bytes, wider beyond. *)
Theorem reason_byte_is_rfc b : b < 256 -> is_reason_byte b = rfc_reason_byte b.
Proof.
  unfold is_reason_byte, rfc_reason_byte, rfc_VCHAR, rfc_obs_text, rfc_SP, rfc_HTAB, in_range. lia.
Qed.

Theorem rfc_reason_byte_sub b : rfc_reason_byte b = true -> is_reason_byte b = true.
Proof.
  unfold is_reason_byte, rfc_reason_byte, rfc_VCHAR, rfc_obs_text, rfc_SP, rfc_HTAB, in_range. lia.
Qed.

(** httparse's method bytes (0x21..0x7e) are VCHAR: wider than RFC [token]. *)
Theorem method_token_is_vchar b : is_method_token b && negb (b =? 32) = rfc_VCHAR b.
Proof. unfold is_method_token, rfc_VCHAR, in_range. lia. Qed.

Theorem tchar_is_vchar b : rfc_tchar b = true -> rfc_VCHAR b = true.
Proof.
  intros H. destruct (N.lt_ge_cases b 256) as [Hlt|Hge].
  - assert (Ht : forallb (fun k => implb (rfc_tchar (N.of_nat k)) (rfc_VCHAR (N.of_nat k))) (seq 0 256) = true)
      by (vm_compute; reflexivity).
    rewrite forallb_forall in Ht. specialize (Ht (N.to_nat b)). rewrite N2Nat.id in Ht.
    rewrite H in Ht. apply Ht. apply in_seq. lia.
  - rewrite <- name_token_is_tchar in H.
    unfold is_name_token, is_digit, is_alpha, is_upper, is_lower in H. lia.
Qed.

(** httparse's request-target bytes: VCHAR except "<" and ">". *)
Theorem uri_token_is_vchar b : is_uri_token b = rfc_VCHAR b && negb (one_of "<>" b).
Proof.
  revert b. apply table_eq; [vm_compute; reflexivity| |].
  - intros b Hb. unfold is_uri_token. lia.
  - intros b Hb. unfold rfc_VCHAR. rewrite in_range_big by lia. reflexivity.
Qed.

(** http's method table is RFC [tchar] without  # $ % & '  (exactly those five). *)
Theorem http_method_char_gap b : rfc_tchar b = is_http_method_char b || one_of "#$%&'" b.
Proof.
  revert b. apply table_eq; [vm_compute; reflexivity| |].
  - intros b Hb. rewrite <- name_token_is_tchar.
    unfold is_name_token, is_digit, is_alpha, is_upper, is_lower. lia.
  - intros b Hb. rewrite one_of_big by (exact Hb || reflexivity).
    unfold is_http_method_char, is_digit, is_alpha, is_upper, is_lower. lia.
Qed.

Theorem http_method_char_disjoint b : is_http_method_char b && one_of "#$%&'" b = false.
Proof.
  revert b. apply (table_eq (fun b => is_http_method_char b && one_of "#$%&'" b) (fun _ => false));
    [vm_compute; reflexivity| |reflexivity].
  intros b Hb. rewrite one_of_big by (exact Hb || reflexivity). apply Bool.andb_false_r.
Qed.

(** "text" in the sense of [HeaderValue::to_str] (used for Content-Length): VCHAR / SP / HTAB. *)
Theorem visible_ascii_is_rfc b : is_visible_ascii b = rfc_VCHAR b || rfc_SP b || rfc_HTAB b.
Proof. unfold is_visible_ascii, rfc_VCHAR, rfc_SP, rfc_HTAB, in_range. lia. Qed.

Theorem is_digit_is_DIGIT b : is_digit b = rfc_DIGIT b.
Proof. reflexivity. Qed.

(** ** Well-formed heads over the RFC classes *)

Lemma forallb_ext_eq {A} (p q : A -> bool) l : (forall x, p x = q x) -> forallb p l = forallb q l.
Proof. intros H. induction l as [|x l IH]; cbn [forallb]; [reflexivity|]. rewrite H, IH. reflexivity. Qed.

Lemma forallb_last {A} (p : A -> bool) l c t : forallb p l = true -> rev l = c :: t -> p c = true.
Proof.
  intros H Hr. rewrite forallb_forall in H. apply H. apply in_rev. rewrite Hr. left. reflexivity.
Qed.

(** On bytes of a field value, "is field-vchar" is "is not SP / HTAB". *)
Lemma field_vchar_not_ws c : rfc_field_content_byte c = true -> rfc_field_vchar c = negb (is_sp_tab c).
Proof.
  unfold rfc_field_content_byte, rfc_field_vchar, rfc_VCHAR, rfc_obs_text, rfc_SP, rfc_HTAB, is_sp_tab, in_range.
  lia.
Qed.

Lemma rfc_field_value_iff v :
  rfc_field_value v = true <-> forallb is_value_token v = true /\ no_edge_ws v = true.
Proof.
  unfold rfc_field_value, no_edge_ws.
  rewrite (forallb_ext_eq is_value_token rfc_field_content_byte) by exact value_token_is_field_content.
  destruct (forallb rfc_field_content_byte v) eqn:Hall; cbn [andb]; [|split; [discriminate|intros [? _]; discriminate]].
  assert (H1 : match v with [] => true | c :: _ => rfc_field_vchar c end =
               match v with [] => true | c :: _ => negb (is_sp_tab c) end).
  { destruct v as [|c t]; [reflexivity|]. cbn [forallb] in Hall. apply andb_prop in Hall.
    apply field_vchar_not_ws. apply Hall. }
  assert (H2 : match rev v with [] => true | c :: _ => rfc_field_vchar c end =
               match rev v with [] => true | c :: _ => negb (is_sp_tab c) end).
  { destruct (rev v) as [|c t] eqn:Er; [reflexivity|].
    apply field_vchar_not_ws. exact (forallb_last _ _ _ _ Hall Er). }
  rewrite H1, H2. split; [intros H; split; [reflexivity|exact H]|intros [_ H]; exact H].
Qed.

Definition rfc_wf_field (f : field) : Prop :=
  f_name f <> [] /\ forallb rfc_tchar (f_name f) = true /\        (* field-name = token = 1*tchar *)
  len (f_name f) <= 65535 /\                                       (* not RFC: the http crate's limit on names *)
  forallb rfc_ows_byte (f_ows1 f) = true /\                        (* OWS *)
  rfc_field_value (f_value f) = true /\                            (* field-value *)
  forallb rfc_ows_byte (f_ows2 f) = true.                          (* OWS *)

Theorem rfc_wf_field_iff f : rfc_wf_field f <-> wf_field f.
Proof.
  unfold rfc_wf_field, wf_field.
  rewrite (forallb_ext_eq is_name_token rfc_tchar) by exact name_token_is_tchar.
  rewrite rfc_field_value_iff. change is_sp_tab with rfc_ows_byte.
  unfold MAX_HEADER_NAME_LEN. rewrite N.leb_le. tauto.
Qed.

(** status-line = HTTP-version SP status-code SP [ reason-phrase ] CRLF, HTTP-version = "HTTP/1." ("0" / "1"),
    status-code = 3DIGIT with a first digit other than 0 (100..999).  (The renderer also allows the
    status line without the second SP, which servers send and the code under test accepts.) *)
Definition rfc_wf_resp_head (h : resp_head) : Prop :=
  (rh_version h = 0 \/ rh_version h = 1) /\
  100 <= rh_status h <= 999 /\
  (match rh_reason h with None => True | Some r => forallb rfc_reason_byte r = true end) /\
  Forall rfc_wf_field (rh_fields h).

Lemma Forall_iff {A} (P Q : A -> Prop) l : (forall x, P x <-> Q x) -> (Forall P l <-> Forall Q l).
Proof. intros H. rewrite !Forall_forall. split; intros H' x Hx; apply H, H', Hx. Qed.

Theorem rfc_wf_resp_head_wf h : rfc_wf_resp_head h -> wf_resp_head h.
Proof.
  intros (Hv & Hs & Hr & Hf). unfold wf_resp_head, wf_version. repeat split; try assumption; try apply Hs.
  - destruct (rh_reason h) as [r|]; [|exact I]. apply forallb_forall. intros x Hx.
    apply rfc_reason_byte_sub. rewrite forallb_forall in Hr. apply Hr. exact Hx.
  - apply (Forall_iff _ _ _ rfc_wf_field_iff). exact Hf.
Qed.

(** The converse, for heads whose reason phrase is made of bytes. *)
Theorem wf_resp_head_rfc_wf h :
  wf_resp_head h -> (match rh_reason h with None => True | Some r => forallb (fun b => b <? 256) r = true end) ->
  rfc_wf_resp_head h.
Proof.
  intros (Hv & Hs & Hr & Hf) Hb. unfold rfc_wf_resp_head. repeat split; try assumption; try apply Hs.
  - destruct (rh_reason h) as [r|]; [|exact I]. apply forallb_forall. intros x Hx.
    rewrite forallb_forall in Hr, Hb. rewrite <- reason_byte_is_rfc; [apply Hr; exact Hx|].
    specialize (Hb x Hx). lia.
  - apply (Forall_iff _ _ _ rfc_wf_field_iff). exact Hf.
Qed.

(** request-line = method SP request-target SP HTTP-version CRLF, method = token.  The request-target is
    taken as 1*VCHAR without "<" and ">" (every RFC 9112 target form is made of such bytes). *)
Definition rfc_wf_req_head (h : req_head) : Prop :=
  qh_method h <> [] /\ forallb rfc_tchar (qh_method h) = true /\
  qh_target h <> [] /\ forallb (fun b => rfc_VCHAR b && negb (one_of "<>" b)) (qh_target h) = true /\
  (qh_version h = 0 \/ qh_version h = 1) /\
  Forall rfc_wf_field (qh_fields h).

Theorem rfc_wf_req_head_wf h : rfc_wf_req_head h -> wf_req_head h.
Proof.
  intros (Hm1 & Hm2 & Ht1 & Ht2 & Hv & Hf). unfold wf_req_head, wf_version.
  repeat split; try assumption.
  - apply forallb_forall. intros x Hx. rewrite method_token_is_vchar. apply tchar_is_vchar.
    rewrite forallb_forall in Hm2. apply Hm2. exact Hx.
  - rewrite (forallb_ext_eq is_uri_token _ _ uri_token_is_vchar). exact Ht2.
  - apply (Forall_iff _ _ _ rfc_wf_field_iff). exact Hf.
Qed.

(** For an RFC method: refused by http's table exactly when it contains one of  # $ % & '. *)
Theorem rfc_method_refused_iff m :
  forallb rfc_tchar m = true ->
  (forallb is_http_method_char m = false <-> existsb (one_of "#$%&'") m = true).
Proof.
  induction m as [|c m IH]; intros H; cbn [forallb existsb]; [split; discriminate|].
  cbn [forallb] in H. apply andb_prop in H. destruct H as [Hc Hm]. specialize (IH Hm).
  rewrite http_method_char_gap in Hc. pose proof (http_method_char_disjoint c) as Hd.
  destruct (is_http_method_char c), (one_of "#$%&'" c); cbn [andb orb] in *; try discriminate.
  - exact IH.
  - split; reflexivity.
Qed.
