(** C11: concrete flows and heads for the non-vacuity examples.
    A POST with "Expect: 100-continue" and "Content-Length: 5", as HTTP/1.1 and as HTTP/1.0, driven
    through the model from [flow_new] to the Await100 state; the heads
      HTTP/1.1 100 Continue CRLF CRLF                          (25 bytes, decision point 25)
      HTTP/1.1 403 Forbidden CRLF Connection: close CRLF CRLF  (45 bytes, decision point 43)
      HTTP/1.1 403 Forbidden CRLF CRLF                         (26 bytes, decision point 26). *)
From Coq Require Import Lia ZArith.
From Hoot Require Import Base Chunk Body Httparse Parser Url Request Call Flow.
From Hoot.proofs Require Import BytesLemmas Reasons C05_spec C05_roundtrip C20_proofs C05_proofs C05_examples
                                C09_inv C11_proofs C11_usable.
Open Scope N_scope.

Definition demo_uri : uri := {| u_scheme := s2b "http"; u_auth := s2b "a.test"; u_pq := s2b "/up" |}.

Definition demo_req (v : version) : request :=
  {| rq_method := POST; rq_version := v; rq_uri := demo_uri;
     rq_headers := [(s2b "expect", s2b "100-continue"); (s2b "content-length", s2b "5")] |}.

(** Prepare -> SendRequest (write the head) -> proceed: must arrive in Await100. *)
Definition reach_await (r : request) : option inner :=
  match flow_new r with
  | Ok f0 =>
      match send_request_write f0 1000 with
      | Ok (f1, _) =>
          match send_request_proceed f1 with
          | Ok (Some (TAwait100, f2)) => Some f2
          | _ => None
          end
      | _ => None
      end
  | _ => None
  end.

(** The flow that arrives there. *)
Definition await_flow (v : version) : inner :=
  {| i_call := {| c_req := {| am_req := Some (demo_req v); am_uri := None;
                              am_added := [(s2b "host", s2b "a.test")]; am_unset := [] |};
                  c_analyzed := true; c_phase := PBody; c_writer := new_sized 5;
                  c_reader := None; c_skip := false; c_stop := false |};
     i_holder := HWithBody;
     i_reasons := match v with V10 => [Http10] | _ => [] end;
     i_should_send_body := true; i_await_100 := true; i_status := None; i_location := None |}.

Lemma reach_await_11 : reach_await (demo_req V11) = Some (await_flow V11).
Proof. vm_compute. reflexivity. Qed.

Lemma reach_await_10 : reach_await (demo_req V10) = Some (await_flow V10).
Proof. vm_compute. reflexivity. Qed.

Lemma await_flow_inv v : v = V10 \/ v = V11 -> Inv TAwait100 (await_flow v).
Proof.
  intros Hv. split.
  - destruct Hv as [-> | ->]; cbn [await_flow i_reasons]; repeat constructor. intros [].
  - cbn [await_flow i_call i_holder].
    assert (Hsc : SendCommon (i_call (await_flow v))).
    { unfold SendCommon. cbn [await_flow i_call c_req c_analyzed c_phase c_reader am_req].
      split; [discriminate|]. split.
      { destruct Hv as [-> | ->]; split; discriminate. }
      split; [discriminate|]. split; [intros _; discriminate|].
      split; [right; reflexivity|]. split; reflexivity. }
    refine (conj Hsc (conj eq_refl (conj _ (conj eq_refl eq_refl)))).
    unfold WB. discriminate.
Qed.

Definition head100 : resp_head :=
  {| rh_version := 1; rh_status := 100; rh_reason := Some (s2b "Continue"); rh_fields := [] |}.

Definition head403 : resp_head :=
  {| rh_version := 1; rh_status := 403; rh_reason := Some (s2b "Forbidden");
     rh_fields := [ {| f_name := s2b "Connection"; f_ows1 := [32]; f_value := s2b "close"; f_ows2 := [] |} ] |}.

Definition head403_bare : resp_head :=
  {| rh_version := 1; rh_status := 403; rh_reason := Some (s2b "Forbidden"); rh_fields := [] |}.

Lemma head100_wf : wf_resp_head head100.
Proof.
  unfold wf_resp_head, head100. cbn [rh_version rh_status rh_reason rh_fields].
  split; [right; reflexivity|]. split; [lia|]. split; [reflexivity|]. constructor.
Qed.

Lemma head403_wf : wf_resp_head head403.
Proof.
  unfold wf_resp_head, head403. cbn [rh_version rh_status rh_reason rh_fields].
  split; [right; reflexivity|]. split; [lia|]. split; [reflexivity|].
  repeat constructor; wf_field_tac.
Qed.

Lemma head403_bare_wf : wf_resp_head head403_bare.
Proof.
  unfold wf_resp_head, head403_bare. cbn [rh_version rh_status rh_reason rh_fields].
  split; [right; reflexivity|]. split; [lia|]. split; [reflexivity|]. constructor.
Qed.

(** The heads are the byte strings the property talks about. *)
Lemma heads_rendered :
  render_response_head head100 = s2b "HTTP/1.1 100 Continue" ++ CRLF ++ CRLF /\
  render_response_head head403 =
    s2b "HTTP/1.1 403 Forbidden" ++ CRLF ++ s2b "Connection: close" ++ CRLF ++ CRLF /\
  render_response_head head403_bare = s2b "HTTP/1.1 403 Forbidden" ++ CRLF ++ CRLF /\
  decision_point head100 = 25 /\ decision_point head403 = 43 /\ decision_point head403_bare = 26.
Proof. vm_compute. repeat split. Qed.

(** After giving up: send the five body bytes, go on to RecvResponse (handshake flag still set). *)
Definition give_up_and_send (f : inner) : option inner :=
  match await_100_proceed f with
  | Ok (TSendBody, f1) =>
      match send_body_write f1 (s2b "hello") 1000 with
      | Ok (f2, _, _) =>
          match send_body_proceed f2 with
          | Ok (Some (TRecvResponse, f3)) => Some f3
          | _ => None
          end
      | _ => None
      end
  | _ => None
  end.

(** Every cut position of "100 Continue" ++ body-echo: undecided strictly before 25, then consumed. *)
Lemma ex_continue_cuts v : v = V10 \/ v = V11 ->
  let f := await_flow v in
  let s := render_response_head head100 ++ s2b "xyz" in
  try_read_100 f (take 0 s) = (f, Ok 0) /\
  try_read_100 f (take 10 s) = (f, Ok 0) /\
  try_read_100 f (take 23 s) = (f, Ok 0) /\
  try_read_100 f (take 24 s) = (f, Ok 0) /\
  try_read_100 f (take 25 s) = (set_await f false, Ok 25) /\
  try_read_100 f (take 28 s) = (set_await f false, Ok 25) /\
  await_100_proceed (set_await f false) = Ok (TSendBody, set_await f false).
Proof. intros [-> | ->]; vm_compute; repeat split. Qed.

Lemma ex_refusal_cuts v : v = V10 \/ v = V11 ->
  let f := await_flow v in
  let s := render_response_head head403 ++ s2b "denied" in
  try_read_100 f (take 0 s) = (f, Ok 0) /\
  try_read_100 f (take 24 s) = (f, Ok 0) /\
  try_read_100 f (take 42 s) = (f, Ok 0) /\
  try_read_100 f (take 43 s) = (refused f, Ok 0) /\
  try_read_100 f (take 45 s) = (refused f, Ok 0) /\
  try_read_100 f s = (refused f, Ok 0) /\
  try_read_100 (refused f) s = (refused f, Ok 0) /\
  i_should_send_body (refused f) = false /\ must_close (refused f) = true /\
  await_100_proceed (refused f) = Ok (TRecvResponse, to_recv (refused f)) /\
  (exists f', recv_try_response (to_recv (refused f)) s = Ok (f', 45, Some (response_of head403)) /\
              i_should_send_body f' = false /\ must_close f' = true /\
              In ServerConnectionClose (i_reasons f') /\ In Not100Continue (i_reasons f') /\
              recv_response_can_proceed f' = Ok true).
Proof.
  intros [-> | ->]; vm_compute; repeat split; try (eexists; repeat split; auto 6).
Qed.

Lemma ex_refusal_bare_cuts :
  let f := await_flow V11 in
  let s := render_response_head head403_bare ++ s2b "denied" in
  try_read_100 f (take 24 s) = (f, Ok 0) /\
  try_read_100 f (take 25 s) = (f, Ok 0) /\
  try_read_100 f (take 26 s) = (refused f, Ok 0) /\
  try_read_100 f s = (refused f, Ok 0) /\
  i_reasons (refused f) = [Not100Continue].
Proof. vm_compute. repeat split. Qed.

Lemma ex_giveup_late v : v = V10 \/ v = V11 ->
  exists f3, give_up_and_send (await_flow v) = Some f3 /\
    i_await_100 f3 = true /\ i_holder f3 = HRecvResponse /\
    let s := render_response_head head100 ++ render_response_head head403 in
    recv_try_response f3 s = Ok (set_await f3 false, 25, None) /\
    (exists f4, recv_try_response (set_await f3 false) (drop 25 s) = Ok (f4, 45, Some (response_of head403))) /\
    let s2 := render_response_head head100 ++ render_response_head head100 in
    recv_try_response f3 s2 = Ok (set_await f3 false, 25, None) /\
    recv_try_response (set_await f3 false) (drop 25 s2) =
      Ok (handed_100 (set_await f3 false), 25, Some (response_of head100)).
Proof.
  intros [-> | ->]; eexists; (split; [vm_compute; reflexivity|]); vm_compute;
    repeat split; eexists; reflexivity.
Qed.

(** Outside the re-presentation discipline the assertion IS reachable: refused on one window, then
    offered a different window that holds a bare 100. *)
Lemma ex_assert_reachable :
  let f := await_flow V11 in
  try_read_100 f (render_response_head head403) = (refused f, Ok 0) /\
  try_read_100 (refused f) (render_response_head head100) =
    (refused f, Panic "flow.rs: assert!(self.inner.should_send_body)").
Proof. vm_compute. split; reflexivity. Qed.
