(** C14: "never a request to a wrong origin", on the grammar.  For a Location of the grammar the
    scheme and authority of the resolved target are the ones the grammar class says
    ([g_origin_of], C14_grammar.v, read off the text of the Location without any parser):
    those written in an absolute http(s) Location, the base scheme and the written authority for a
    scheme-relative one, the base's own for every other class. *)
From Coq Require Import Lia ZArith List.
From Hoot Require Import Base Url.
From Hoot.proofs Require Import BytesLemmas C14_proofs C14_spec C14_grammar C14_rfc C14_rds C14_resolve
                                C14_ingrammar.
Open Scope N_scope.

(* ------------------------------------------------------------------ what rfc_parse computes first *)

Lemma parse_scheme_auth loc :
  let r0 := until 35 loc in
  rf_scheme (rfc_parse loc) = fst (take_scheme r0) /\
  rf_authority (rfc_parse loc) = fst (take_authority (snd (take_scheme r0))).
Proof.
  cbv zeta. pose proof (rfc_parse_stages loc) as H. rewrite <- stages4_until35 in H.
  unfold stages4 in H.
  destruct (take_scheme (until 35 loc)) as [sc s1]. cbn [fst snd].
  destruct (take_authority s1) as [au s2]. destruct (take_path s2) as [pa s3].
  inversion H. split; reflexivity.
Qed.

Lemma nohash_not_in3 s : nohash s -> span (not_in [47; 63; 35]) s = span (not_in [47; 63]) s.
Proof.
  intros H. apply span_ext. intros b Hb. specialize (H b Hb).
  unfold not_in. cbn [existsb]. rewrite !orb_false_r.
  destruct (N.eqb_spec b 35) as [E|E]; [contradiction|]. rewrite orb_false_r. reflexivity.
Qed.

Lemma take_authority_slashes rest :
  nohash rest ->
  fst (take_authority (47 :: 47 :: rest)) = Some (fst (span (not_in [47; 63]) rest)).
Proof.
  intros H. unfold take_authority.
  change (is_prefix [47; 47] (47 :: 47 :: rest)) with true. cbv iota.
  rewrite drop2_cons, (nohash_not_in3 _ H).
  destruct (span (not_in [47; 63]) rest). reflexivity.
Qed.

(* ------------------------------------------------------------------ letters *)

Lemma to_lower_alpha b c : to_lower b = c -> is_lower c = true -> is_alpha b = true.
Proof.
  unfold to_lower, is_alpha. destruct (is_upper b); [reflexivity|].
  intros -> H. rewrite H. apply orb_true_r.
Qed.

Lemma to_lower_fix b c : to_lower b = c -> is_lower c = false -> b = c.
Proof.
  unfold to_lower. destruct (is_upper b) eqn:E; [|auto].
  intros <- H. exfalso. unfold is_upper in E. unfold is_lower in H.
  apply andb_true_iff in E. destruct E as [E1 E2]. apply N.leb_le in E1, E2.
  apply andb_false_iff in H. destruct H as [H|H]; apply N.leb_gt in H; lia.
Qed.

Lemma alpha_not_delim b : is_alpha b = true -> not_in [58; 47; 63; 35] b = true.
Proof. intros H. apply scheme_char_not_delim. unfold scheme_char. rewrite H. reflexivity. Qed.

Lemma alpha_scheme b : is_alpha b = true -> scheme_char b = true.
Proof. intros H. unfold scheme_char. rewrite H. reflexivity. Qed.

(** A scheme of letters followed by "://": what [take_scheme] returns. *)
Lemma take_scheme_letters cand rest :
  cand <> [] -> forallb is_alpha cand = true ->
  take_scheme (cand ++ 58 :: rest) = (Some cand, rest).
Proof.
  intros Hne Ha. unfold take_scheme.
  rewrite (span_unique (not_in [58; 47; 63; 35]) cand (58 :: rest)).
  - assert (V : valid_scheme cand = true).
    { destruct cand as [|c t]; [congruence|]. cbn [forallb] in Ha. apply andb_true_iff in Ha.
      destruct Ha as [H1 H2]. unfold valid_scheme. rewrite H1. cbn [andb].
      apply forallb_forall. intros b Hb. apply alpha_scheme. revert Hb. apply forallb_forall. exact H2. }
    rewrite V. change (is_prefix [58] (58 :: rest)) with true. cbn [andb]. rewrite drop1_cons. reflexivity.
  - apply forallb_forall. intros b Hb. apply alpha_not_delim. revert Hb. apply forallb_forall. exact Ha.
  - reflexivity.
Qed.

(* ------------------------------------------------------------------ span on a concatenation *)

Lemma span_app_all p a y :
  forallb p a = true -> span p (a ++ y) = (a ++ fst (span p y), snd (span p y)).
Proof.
  induction a as [|x a IH]; intros H.
  - cbn [app]. destruct (span p y); reflexivity.
  - cbn [forallb] in H. apply andb_true_iff in H. destruct H as [Hx Ha].
    cbn [app span]. rewrite Hx, (IH Ha). reflexivity.
Qed.

(** No ":" before the first "/" or "?": the reference has no scheme. *)
Lemma take_scheme_no_colon s :
  g_no_colon_in_first_segment s = true -> take_scheme s = (None, s).
Proof.
  unfold g_no_colon_in_first_segment, take_scheme. intros H.
  destruct (span (not_in [58; 47; 63; 35]) s) as [cand rest] eqn:E.
  destruct (span_spec _ _ _ _ E) as (Hs & Hc & _).
  destruct rest as [|c x]; [reflexivity|].
  destruct (N.eqb_spec c 58) as [->|Hc58].
  - exfalso.
    assert (Hc' : forallb (not_in [47; 63]) cand = true).
    { apply forallb_forall. intros b Hb.
      assert (Hb' : not_in [58; 47; 63; 35] b = true) by (revert Hb; apply forallb_forall; exact Hc).
      unfold not_in in *. cbn [existsb] in *. rewrite !orb_false_r in *.
      apply negb_true_iff in Hb'. apply negb_true_iff.
      destruct (b =? 58), (b =? 47), (b =? 63), (b =? 35); try discriminate; reflexivity. }
    rewrite Hs in H. rewrite (span_app_all _ _ _ Hc') in H. cbn [fst] in H.
    cbn [span] in H. change (not_in [47; 63] 58) with true in H. cbv iota in H.
    destruct (span (not_in [47; 63]) x) as [a r]. cbn [fst] in H.
    rewrite forallb_app in H. apply andb_true_iff in H. destruct H as [_ H].
    cbn [forallb] in H. vm_compute in H. discriminate.
  - unfold is_prefix. apply N.eqb_neq in Hc58. rewrite N.eqb_sym, Hc58. reflexivity.
Qed.

(* ------------------------------------------------------------------ the three shapes *)

Lemma nohash_ref loc : nohash (until 35 loc).
Proof. apply nohash_until. Qed.

Lemma nohash_cons_tail b t : nohash (b :: t) -> nohash t.
Proof. apply nohash_tail. Qed.

Lemma drop7_cons {A} (a b c d e f g : A) t : drop 7 (a :: b :: c :: d :: e :: f :: g :: t) = t.
Proof. destruct t; reflexivity. Qed.
Lemma drop8_cons {A} (a b c d e f g h : A) t : drop 8 (a :: b :: c :: d :: e :: f :: g :: h :: t) = t.
Proof. destruct t; reflexivity. Qed.

Ltac peel H s c :=
  destruct s as [|c s]; [discriminate H|];
  cbn [lower map is_prefix] in H; apply andb_true_iff in H;
  let E := fresh "E" c in destruct H as [E H]; apply N.eqb_eq in E; symmetry in E.

(** "http://" in any letter case: the scheme stage and the authority stage. *)
Lemma shape_http r0 :
  nohash r0 -> is_prefix (s2b "http://") (lower r0) = true ->
  exists sc, fst (take_scheme r0) = Some sc /\ lower sc = s2b "http" /\
             fst (take_authority (snd (take_scheme r0))) =
               Some (fst (span (not_in [47; 63]) (drop 7 r0))).
Proof.
  intros Hn H. change (s2b "http://") with [104; 116; 116; 112; 58; 47; 47] in H.
  peel H r0 c0. peel H r0 c1. peel H r0 c2. peel H r0 c3. peel H r0 c4. peel H r0 c5. peel H r0 c6.
  clear H.
  apply to_lower_fix in Ec4; [|reflexivity]. apply to_lower_fix in Ec5; [|reflexivity].
  apply to_lower_fix in Ec6; [|reflexivity]. subst c4 c5 c6.
  assert (A : forallb is_alpha [c0; c1; c2; c3] = true).
  { cbn [forallb].
    rewrite (to_lower_alpha _ _ Ec0 eq_refl), (to_lower_alpha _ _ Ec1 eq_refl),
            (to_lower_alpha _ _ Ec2 eq_refl), (to_lower_alpha _ _ Ec3 eq_refl). reflexivity. }
  change (c0 :: c1 :: c2 :: c3 :: 58 :: 47 :: 47 :: r0) with ([c0; c1; c2; c3] ++ 58 :: 47 :: 47 :: r0).
  rewrite take_scheme_letters by (try discriminate; exact A). cbn [fst snd].
  exists [c0; c1; c2; c3]. split; [reflexivity|]. split.
  - cbn [lower map]. rewrite Ec0, Ec1, Ec2, Ec3. reflexivity.
  - rewrite take_authority_slashes.
    + cbn [app]. rewrite drop7_cons. reflexivity.
    + intros b Hb. apply Hn. cbn [app In]. do 7 right. exact Hb.
Qed.

Lemma shape_https r0 :
  nohash r0 -> is_prefix (s2b "https://") (lower r0) = true ->
  exists sc, fst (take_scheme r0) = Some sc /\ lower sc = s2b "https" /\
             fst (take_authority (snd (take_scheme r0))) =
               Some (fst (span (not_in [47; 63]) (drop 8 r0))).
Proof.
  intros Hn H. change (s2b "https://") with [104; 116; 116; 112; 115; 58; 47; 47] in H.
  peel H r0 c0. peel H r0 c1. peel H r0 c2. peel H r0 c3. peel H r0 c4. peel H r0 c5. peel H r0 c6.
  peel H r0 c7. clear H.
  apply to_lower_fix in Ec5; [|reflexivity]. apply to_lower_fix in Ec6; [|reflexivity].
  apply to_lower_fix in Ec7; [|reflexivity]. subst c5 c6 c7.
  assert (A : forallb is_alpha [c0; c1; c2; c3; c4] = true).
  { cbn [forallb].
    rewrite (to_lower_alpha _ _ Ec0 eq_refl), (to_lower_alpha _ _ Ec1 eq_refl),
            (to_lower_alpha _ _ Ec2 eq_refl), (to_lower_alpha _ _ Ec3 eq_refl),
            (to_lower_alpha _ _ Ec4 eq_refl). reflexivity. }
  change (c0 :: c1 :: c2 :: c3 :: c4 :: 58 :: 47 :: 47 :: r0)
    with ([c0; c1; c2; c3; c4] ++ 58 :: 47 :: 47 :: r0).
  rewrite take_scheme_letters by (try discriminate; exact A). cbn [fst snd].
  exists [c0; c1; c2; c3; c4]. split; [reflexivity|]. split.
  - cbn [lower map]. rewrite Ec0, Ec1, Ec2, Ec3, Ec4. reflexivity.
  - rewrite take_authority_slashes.
    + cbn [app]. rewrite drop8_cons. reflexivity.
    + intros b Hb. apply Hn. cbn [app In]. do 8 right. exact Hb.
Qed.

Lemma shape_net r0 :
  nohash r0 -> is_prefix (s2b "//") r0 = true ->
  fst (take_scheme r0) = None /\
  fst (take_authority (snd (take_scheme r0))) = Some (fst (span (not_in [47; 63]) (drop 2 r0))).
Proof.
  intros Hn H. change (s2b "//") with [47; 47] in H. apply is_prefix2_inv in H. destruct H as (t & ->).
  assert (E : take_scheme (47 :: 47 :: t) = (None, 47 :: 47 :: t)) by reflexivity.
  rewrite E. cbn [fst snd]. split; [reflexivity|].
  rewrite take_authority_slashes; [rewrite drop2_cons; reflexivity|].
  intros b Hb. apply Hn. right. right. exact Hb.
Qed.

Lemma shape_same r0 :
  is_prefix (s2b "//") r0 = false -> g_no_colon_in_first_segment r0 = true ->
  fst (take_scheme r0) = None /\ fst (take_authority (snd (take_scheme r0))) = None.
Proof.
  intros Hp H. rewrite (take_scheme_no_colon _ H). cbn [fst snd]. split; [reflexivity|].
  unfold take_authority. change [47; 47] with (s2b "//"). rewrite Hp. reflexivity.
Qed.

(* ------------------------------------------------------------------ the origin of the target *)

(** Scheme and authority of the target of a Location of the grammar, per class. *)
Theorem resolve_origin_in_grammar base loc t :
  loc_in_grammar loc = true -> resolve base loc = Some t ->
  match g_origin_of loc with
  | GAbsolute s a => u_scheme t = s /\ norm_auth s a = Some (u_auth t)
  | GSchemeRelative a =>
      u_scheme t = lower (u_scheme base) /\ norm_auth (lower (u_scheme base)) a = Some (u_auth t)
  | GSameOrigin =>
      u_scheme t = lower (u_scheme base) /\
      norm_auth (lower (u_scheme base)) (u_auth base) = Some (u_auth t)
  end.
Proof.
  intros Hg Hr. pose proof (resolve_origin _ _ _ Hr) as Ho. cbv zeta in Ho.
  destruct (parse_scheme_auth loc) as [Es Ea]. cbv zeta in Es, Ea. rewrite Es, Ea in Ho. clear Es Ea.
  destruct (in_grammar_parts _ Hg) as (_ & _ & Hs).
  unfold g_origin_of. unfold g_shape in Hs. rewrite g_ref_part_until in *.
  pose proof (nohash_ref loc) as Hn. set (r0 := until 35 loc) in *.
  destruct (is_prefix (s2b "http://") (lower r0)) eqn:P1.
  - destruct (shape_http r0 Hn P1) as (sc & E1 & E2 & E3). rewrite E1, E3 in Ho. rewrite E2 in Ho.
    destruct Ho as [Ho1 Ho2]. rewrite Ho1 in Ho2. split; assumption.
  - destruct (is_prefix (s2b "https://") (lower r0)) eqn:P2.
    + destruct (shape_https r0 Hn P2) as (sc & E1 & E2 & E3). rewrite E1, E3 in Ho. rewrite E2 in Ho.
      destruct Ho as [Ho1 Ho2]. rewrite Ho1 in Ho2. split; assumption.
    + destruct (is_prefix (s2b "//") r0) eqn:P3.
      * destruct (shape_net r0 Hn P3) as (E1 & E3). rewrite E1, E3 in Ho.
        destruct Ho as [Ho1 Ho2]. rewrite Ho1 in Ho2. split; assumption.
      * destruct (shape_same r0 P3 Hs) as (E1 & E3). rewrite E1, E3 in Ho.
        destruct Ho as [Ho1 Ho2]. rewrite Ho1 in Ho2. split; assumption.
Qed.

(* ------------------------------------------------------------------ unresolvable, on the grammar *)

(** [resolve] fails exactly when the authority the target would get does not normalise. *)
Lemma resolve_none_iff base loc :
  let r := rfc_parse loc in
  resolve base loc = None <->
  norm_auth (lower (match rf_scheme r with Some s => s | None => u_scheme base end))
            (match rf_authority r with
             | Some a => a
             | None => match rf_scheme r with Some _ => [] | None => u_auth base end
             end) = None.
Proof.
  cbv zeta. rewrite resolve_eq. destruct (parse_agree loc) as (Hs & Ha & _ & _).
  rewrite <- Hs, <- Ha. unfold resolve_parts.
  destruct (r_scheme (parse_ref loc)) as [s|].
  - destruct (r_auth (parse_ref loc)) as [a|];
      (destruct (norm_auth _ _); split; intros H; try discriminate; reflexivity).
  - destruct (r_auth (parse_ref loc)) as [a|].
    + destruct (norm_auth _ _); split; intros H; try discriminate; reflexivity.
    + destruct (r_path (parse_ref loc)) as [|c y].
      * destruct (norm_auth _ _); split; intros H; try discriminate; reflexivity.
      * destruct (starts_slash (c :: y));
          (destruct (norm_auth _ _); split; intros H; try discriminate; reflexivity).
Qed.

(** The port written in an authority ("" if none). *)
Definition g_port_of (a : bytes) : bytes :=
  match snd (span (not_in [58]) a) with [] => [] | _ :: p => p end.

(** An authority of the grammar fails to normalise only through its port: above 65535. *)
Lemma authority_unresolvable s a :
  g_authority a = true -> (norm_auth s a = None <-> 65536 <= digits_value (g_port_of a)).
Proof.
  unfold g_authority, g_port_of. rewrite norm_auth_spec.
  destruct (span (not_in [58]) a) as [host rest]. cbn [snd]. intros H.
  apply andb_true_iff in H. destruct H as [H Hp]. apply andb_true_iff in H. destruct H as [Hh _].
  apply negb_true_iff in Hh. rewrite Hh.
  destruct rest as [|c p].
  - cbn [normal_port_suffix]. change (digits_value []) with 0. split; [discriminate|lia].
  - cbn [normal_port_suffix]. destruct p as [|d p'].
    + cbn [is_nil]. change (digits_value []) with 0. split; [discriminate|lia].
    + cbn [is_nil]. rewrite Hp. cbn [andb].
      destruct (N.ltb_spec (digits_value (d :: p')) 65536) as [L|L].
      * split; [|lia]. destruct (scheme_default_port s) as [dp|]; [destruct (_ =? dp)|]; discriminate.
      * split; [intros _; exact L|reflexivity].
Qed.

Theorem unresolvable_in_grammar base loc :
  loc_in_grammar loc = true ->
  (resolve base loc = None <->
   match g_origin_of loc with
   | GAbsolute s a => 65536 <= digits_value (g_port_of a)
   | GSchemeRelative a => 65536 <= digits_value (g_port_of a)
   | GSameOrigin => norm_auth (lower (u_scheme base)) (u_auth base) = None
   end).
Proof.
  intros Hg. rewrite resolve_none_iff. cbv zeta.
  destruct (parse_scheme_auth loc) as [Es Ea]. cbv zeta in Es, Ea. rewrite Es, Ea. clear Es Ea.
  destruct (in_grammar_parts _ Hg) as (_ & _ & Hs).
  unfold g_origin_of. unfold g_shape in Hs. rewrite g_ref_part_until in *.
  pose proof (nohash_ref loc) as Hn. set (r0 := until 35 loc) in *.
  destruct (is_prefix (s2b "http://") (lower r0)) eqn:P1.
  - destruct (shape_http r0 Hn P1) as (sc & E1 & E2 & E3). rewrite E1, E3, E2.
    apply authority_unresolvable. exact Hs.
  - destruct (is_prefix (s2b "https://") (lower r0)) eqn:P2.
    + destruct (shape_https r0 Hn P2) as (sc & E1 & E2 & E3). rewrite E1, E3, E2.
      apply authority_unresolvable. exact Hs.
    + destruct (is_prefix (s2b "//") r0) eqn:P3.
      * destruct (shape_net r0 Hn P3) as (E1 & E3). rewrite E1, E3.
        apply authority_unresolvable. exact Hs.
      * destruct (shape_same r0 P3 Hs) as (E1 & E3). rewrite E1, E3. reflexivity.
Qed.

(* ------------------------------------------------------------------ examples *)

(** The classes of the property text are in the grammar (with their origin class); the reviewer's
    three counterexamples and other strings the url crate treats differently are not. *)
Lemma grammar_examples :
  forallb loc_in_grammar
    [s2b "HTTPS://B.test:443/p/q/r#frag"; s2b "http://b.test"; s2b "http://h:99999/"; s2b "http://h:/";
     s2b "//c.test:81"; s2b "//c.test/a?b#c"; s2b "/p/q"; s2b "/a:b"; s2b "../x?y"; s2b "./a/../b";
     s2b "x/y:z"; s2b "a%20b/c"; s2b "?q=1&r=/?"; s2b ""; s2b "#f"; s2b "/p;v=1,2/(x)*!$'+@"] = true /\
  forallb (fun l => negb (loc_in_grammar l))
    [[92; 92] ++ s2b "evil.test/p"; s2b "/a b"; s2b "http:g";
     s2b "//"; s2b "http://"; s2b "http://user:pw@h/"; s2b "http://[::1]/"; s2b "a:b"; s2b "ftp://h/";
     s2b "/x%2"; s2b "/x%zz"; s2b "/caf" ++ [195; 169]; s2b "/a" ++ [9] ++ s2b "b"; s2b "/a|b";
     s2b "/a" ++ [34] ++ s2b "b"; s2b "/<a>"; s2b "http://h:8o/"; s2b "/a#b#c"; s2b "/a" ++ [13; 10]] = true /\
  g_origin_of (s2b "HTTPS://B.test:443/p/q/r#frag") = GAbsolute (s2b "https") (s2b "B.test:443") /\
  g_origin_of (s2b "//c.test:81") = GSchemeRelative (s2b "c.test:81") /\
  g_origin_of (s2b "../x?y") = GSameOrigin /\ g_origin_of (s2b "") = GSameOrigin /\
  g_origin_of (s2b "?q=1") = GSameOrigin /\ g_origin_of (s2b "/p/q#f") = GSameOrigin.
Proof. vm_compute. repeat split. Qed.

(** What the MODEL does with the three counterexamples (the crate does something else, see
    C14_grammar.v): outside the grammar the theorems about [resolve] are about the model only. *)
Lemma outside_grammar_model_only :
  let base := {| u_scheme := s2b "http"; u_auth := s2b "a.test"; u_pq := s2b "/x/y" |} in
  resolve base ([92; 92] ++ s2b "evil.test/p") =
    Some {| u_scheme := s2b "http"; u_auth := s2b "a.test"; u_pq := s2b "/x/" ++ [92; 92] ++ s2b "evil.test/p" |} /\
  resolve base (s2b "/a b") =
    Some {| u_scheme := s2b "http"; u_auth := s2b "a.test"; u_pq := s2b "/a b" |} /\
  resolve base (s2b "http:g") = None.
Proof. cbv zeta. repeat split; vm_compute; reflexivity. Qed.
