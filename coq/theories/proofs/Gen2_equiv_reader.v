(** The response-body reader of src/body.rs (translated: theories/Gen2.v) against the model: queries, read_limit, read_unlimit, the non-chunked half of read.
    Split from the writer so that a change of the writer's code does not disturb the properties about the reader. *)
From Coq Require Import NArith ZArith Bool List Lia ZifyBool ZifyN.
From Hoot Require Import Base Chunk Body GenLib Gen Gen2.
From Hoot.proofs Require Import BytesLemmas Gen2_equiv_rel.
Open Scope N_scope.

Lemma gen_br_is_ended_eq r : gen_br_is_ended r = reader_is_ended r.
Proof. destruct r as [|l|d|]; try reflexivity; destruct d; reflexivity. Qed.

Lemma gen_br_is_on_chunk_boundary_eq r : gen_br_is_on_chunk_boundary r = reader_on_boundary r.
Proof. destruct r as [|l|d|]; try reflexivity; destruct d; reflexivity. Qed.

Lemma gen_br_body_mode_eq r : gen_br_body_mode r = reader_mode r.
Proof. destruct r; reflexivity. Qed.

(* ------------------------------------------------------------------ C. reader, not chunked *)

Lemma splice_0 dst n k (s : bytes) : k = n -> n <= len s -> splice dst 0 n (take k s) = take n s ++ drop (len (take n s)) dst.
Proof.
  intros -> H. unfold splice. rewrite take_0, take_take, len_take. cbn [app].
  apply f_equal2; [apply take_eq; lia|apply drop_eq; lia].
Qed.

(** the generated count is the model's *)
Ltac same_count n :=
  repeat match goal with
         | |- context [splice _ _ ?k _] => lazymatch k with n => fail | _ => replace k with n by lia end
         end.

Theorem gen_br_read_limit_equiv lft src dst stop :
  limit_fits (RLength lft) src dst ->
  rd_rel dst (gen_br_read_limit (RLength lft) src dst) (reader_read (RLength lft) src (len dst) stop).
Proof.
  intros Hfit. cbn [limit_fits] in Hfit. unfold U64_LIMIT in Hfit.
  unfold gen_br_read_limit, reader_read. cbv zeta. cbn [rd_rel].
  remember (N.min (N.min (len src) (len dst)) lft) as n eqn:Hn.
  same_count n. rewrite splice_0 with (n := n) by lia.
  leaf.
Qed.

Theorem gen_br_read_unlimit_equiv src dst stop :
  rd_rel dst (gen_br_read_unlimit RClose src dst) (reader_read RClose src (len dst) stop).
Proof.
  unfold gen_br_read_unlimit, reader_read. cbv zeta. cbn [rd_rel].
  remember (N.min (len src) (len dst)) as n eqn:Hn.
  same_count n. rewrite splice_0 with (n := n) by lia.
  leaf.
Qed.

(** a call that only forwards its callee's result *)

(** [BodyReader::read] on a reader that is not chunked. *)
Theorem gen_br_read_nonchunked_equiv r src dst stop :
  (forall d, r <> RChunked d) -> limit_fits r src dst ->
  rd_rel dst (gen_br_read r src dst stop) (reader_read r src (len dst) stop).
Proof.
  intros Hnc Hfit. destruct r as [|lft|d|].
  - cbn. repeat split. rewrite drop_0. reflexivity.
  - unfold gen_br_read. cbv zeta. apply rd_rel_forward, gen_br_read_limit_equiv, Hfit.
  - exfalso. exact (Hnc d eq_refl).
  - unfold gen_br_read. cbv zeta. apply rd_rel_forward, gen_br_read_unlimit_equiv.
Qed.

Ltac split_if_in H :=
  match type of H with
  | context [if ?c then _ else _] => destruct c eqn:?; try (exfalso; lia)
  end.

Lemma gen_br_read_limit_equiv_unrestricted_refuted :
  exists lft src dst stop,
    ~ rd_rel dst (gen_br_read_limit (RLength lft) src dst) (reader_read (RLength lft) src (len dst) stop).
Proof.
  destruct huge_bytes as [b Hlen].
  exists U64_LIMIT, b, b, false. intros H.
  unfold gen_br_read_limit, reader_read in H. cbv zeta in H. cbn [rd_rel] in H.
  rewrite ?Hlen in H. unfold U64_LIMIT in *.
  destruct H as (_ & Hu & _); lia.
Qed.



Print Assumptions gen_br_is_ended_eq.
Print Assumptions gen_br_is_on_chunk_boundary_eq.
Print Assumptions gen_br_body_mode_eq.
Print Assumptions splice_0.
Print Assumptions gen_br_read_limit_equiv.
Print Assumptions gen_br_read_unlimit_equiv.
Print Assumptions gen_br_read_nonchunked_equiv.
Print Assumptions gen_br_read_limit_equiv_unrestricted_refuted.
