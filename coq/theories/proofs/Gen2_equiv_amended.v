(** The effective header list of a request and the accessors built on it (src/client/amended.rs: [headers], [headers_get_all],
    [headers_get], [headers_len]), translated from the source on every run (theories/Gen2.v, [gen_am_*]; the three containers are
    lists), equal the model's [am_headers] / [get_all]: caller-added headers first, in the order added, then the original request's
    headers that are not unset; the unset list filters the inherited headers only. *)
From Hoot Require Import Base Chunk Body Url Request GenLib Gen Gen2.
From Hoot.proofs Require Import BytesLemmas.
Open Scope N_scope.

Lemma beq_bytes_sym a : forall b, beq_bytes a b = beq_bytes b a.
Proof.
  induction a as [|x a IH]; intros [|y b]; cbn [beq_bytes]; try reflexivity.
  rewrite IH, N.eqb_sym. reflexivity.
Qed.

Lemma map_pair_id {A B} (l : list (A * B)) : map (fun v => (fst v, snd v)) l = l.
Proof. induction l as [|[a b] l IH]; cbn [map fst snd]; [reflexivity|rewrite IH; reflexivity]. Qed.

Lemma filter_ext_all {A} (f g : A -> bool) l : (forall x, f x = g x) -> filter f l = filter g l.
Proof. intros H. induction l as [|x l IH]; cbn [filter]; [reflexivity|rewrite H, IH; reflexivity]. Qed.

Lemma existsb_ext_all {A} (f g : A -> bool) l : (forall x, f x = g x) -> existsb f l = existsb g l.
Proof. intros H. induction l as [|x l IH]; cbn [existsb]; [reflexivity|rewrite H, IH; reflexivity]. Qed.

Lemma map_ext_all {A B} (f g : A -> B) l : (forall x, f x = g x) -> map f l = map g l.
Proof. intros H. induction l as [|x l IH]; cbn [map]; [reflexivity|rewrite H, IH; reflexivity]. Qed.

Theorem gen_am_headers_eq a :
  gen_am_headers (am_added a) (am_unset a) (rq_headers (am_request a)) = am_headers a.
Proof.
  unfold gen_am_headers, am_headers. cbv zeta. rewrite map_pair_id. f_equal.
  apply filter_ext_all. intros v. f_equal. unfold mem_bytes.
  apply existsb_ext_all. intros x. apply beq_bytes_sym.
Qed.

Theorem gen_am_headers_get_all_eq a key :
  gen_am_headers_get_all (am_added a) (am_unset a) (rq_headers (am_request a)) key = get_all (am_headers a) key.
Proof.
  unfold gen_am_headers_get_all, get_all. rewrite gen_am_headers_eq.
  rewrite (filter_ext_all (fun '(k, _) => beq_bytes k key) (fun h => beq_bytes (fst h) key)) by (intros [k v]; reflexivity).
  apply map_ext_all. intros [k v]. reflexivity.
Qed.

Theorem gen_am_headers_get_eq a key :
  gen_am_headers_get (am_added a) (am_unset a) (rq_headers (am_request a)) key
  = match get_all (am_headers a) key with h :: _ => Some h | [] => None end.
Proof. unfold gen_am_headers_get, first_of_list. rewrite gen_am_headers_get_all_eq. reflexivity. Qed.

Theorem gen_am_headers_len_eq a :
  gen_am_headers_len (am_added a) (am_unset a) (rq_headers (am_request a)) = len (am_headers a).
Proof. unfold gen_am_headers_len. rewrite gen_am_headers_eq. reflexivity. Qed.

Print Assumptions gen_am_headers_eq.
Print Assumptions gen_am_headers_get_all_eq.
Print Assumptions gen_am_headers_get_eq.
Print Assumptions gen_am_headers_len_eq.

