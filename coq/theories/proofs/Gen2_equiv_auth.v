(** src/client/flow.rs can_redirect_auth_header, translated (Gen2.gen_can_redirect_auth_header), against the model's
    Flow.can_redirect_auth_header.  The model's URIs are absolute (scheme and authority always present), so what the Rust function
    reads off them is [Some host] / [Some scheme].  The proofs only do case analysis on the three comparisons, so any equivalent
    arrangement of the tests (early return, swapped disjuncts) is accepted. *)
From Coq Require Import NArith Bool List.
From Hoot Require Import Base Url Request Call Flow GenLib Gen Gen2.
Open Scope N_scope.

(** Reading of the translated test itself, for any option values: the hosts must agree (both absent counts as agreeing),
    and the target's scheme is the previous one or https. *)
Theorem gen_can_redirect_auth_header_spec hp hn sp sn :
  gen_can_redirect_auth_header hp hn sp sn = true <->
  opt_bytes_eqb hp hn = true /\ (opt_bytes_eqb sp sn = true \/ opt_bytes_eqb sn (Some (s2b "https")) = true).
Proof.
  unfold gen_can_redirect_auth_header. cbv zeta.
  destruct (opt_bytes_eqb hp hn), (opt_bytes_eqb sp sn), (opt_bytes_eqb sn (Some (s2b "https"))); cbn;
    intuition discriminate.
Qed.

Theorem gen_can_redirect_auth_header_eq prev next :
  gen_can_redirect_auth_header (Some (uri_host prev)) (Some (uri_host next)) (Some (u_scheme prev)) (Some (u_scheme next))
  = can_redirect_auth_header prev next.
Proof.
  apply eq_true_iff_eq. rewrite gen_can_redirect_auth_header_spec. unfold can_redirect_auth_header, opt_bytes_eqb.
  rewrite andb_true_iff, orb_true_iff. reflexivity.
Qed.
