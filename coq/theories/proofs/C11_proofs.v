(** C11: the Expect: 100-continue handshake.

    [try_read_100] looks at the window with the httparse model and ZERO header slots.  With zero
    slots the model can only say
      - Partial          while the status line, or the line after it, is incomplete;
      - Complete         when the line after the status line is the blank line (a head without fields);
      - TooManyHeaders   when the line after the status line is a complete field line
    so the verdict is reached exactly when the window contains the status line AND the complete next
    line ([decision_point]).  Everything below is derived from the C05 theorems about the parser
    (round trip, strict prefixes, [hp_stable]) -- nothing here looks inside the parser again. *)
From Coq Require Import Lia ZArith Relations.
From Hoot Require Import Base Chunk Body Httparse Parser Url Request Call Flow.
From Hoot.proofs Require Import BytesLemmas Reasons C05_stable C05_spec C05_roundtrip C20_proofs C05_proofs.
From Hoot.proofs Require AfterErr.
Open Scope N_scope.

(** ** Close reasons: what [add_reason] returns on a duplicate-free list *)

Definition reasons_with (rs : list reason) (r : reason) : list reason :=
  if existsb (reason_eqb r) rs then rs else rs ++ [r].

Lemma add_reason_nodup rs r : NoDup rs -> add_reason rs r = Ok (reasons_with rs r).
Proof.
  intros Hnd. unfold add_reason, reasons_with.
  destruct (existsb (reason_eqb r) rs) eqn:E; [reflexivity|].
  assert (Hn : ~ In r rs).
  { intros Hin. apply existsb_reason in Hin. congruence. }
  pose proof (nodup_reasons_len_notin rs r Hnd Hn) as Hl.
  unfold push_reason.
  destruct (N.leb_spec CLOSE_REASON_CAP (len rs)) as [Hc|Hc]; [|reflexivity].
  exfalso. rewrite len_length in Hc. unfold CLOSE_REASON_CAP in Hc. lia.
Qed.

Lemma reasons_with_in rs r : In r (reasons_with rs r).
Proof.
  unfold reasons_with. destruct (existsb (reason_eqb r) rs) eqn:E.
  - apply existsb_reason. exact E.
  - apply in_or_app. right. left. reflexivity.
Qed.

Lemma reasons_with_incl rs r x : In x rs -> In x (reasons_with rs r).
Proof.
  intros H. unfold reasons_with. destruct (existsb (reason_eqb r) rs); [exact H|].
  apply in_or_app. left. exact H.
Qed.

Lemma reasons_with_nodup rs r : NoDup rs -> NoDup (reasons_with rs r).
Proof.
  intros H. unfold reasons_with. destruct (existsb (reason_eqb r) rs) eqn:E; [exact H|].
  apply nodup_snoc; [exact H|]. intros Hin. apply existsb_reason in Hin. congruence.
Qed.

Lemma reasons_with_idem rs r : In r rs -> reasons_with rs r = rs.
Proof.
  intros H. unfold reasons_with. apply existsb_reason in H. rewrite H. reflexivity.
Qed.

(** Without any assumption on the list: whatever [add_reason] returns contains the reason and
    everything that was there. *)
Lemma add_reason_result rs r rs' :
  add_reason rs r = Ok rs' -> In r rs' /\ (forall x, In x rs -> In x rs').
Proof.
  unfold add_reason. destruct (existsb (reason_eqb r) rs) eqn:E.
  - intros H; inversion H; subst. split; [apply existsb_reason; exact E|auto].
  - unfold push_reason. destruct (CLOSE_REASON_CAP <=? len rs); [discriminate|].
    intros H; inversion H; subst. split.
    + apply in_or_app. right. left. reflexivity.
    + intros x Hx. apply in_or_app. left. exact Hx.
Qed.

Lemma must_close_in f r : In r (i_reasons f) -> must_close f = true.
Proof. unfold must_close. destruct (i_reasons f); [intros []|reflexivity]. Qed.

Lemma set_call_same f : set_call f (i_call f) = f.
Proof. destruct f; reflexivity. Qed.

(** ** The parser wrapper with zero slots on (prefixes of) a well-formed head *)

(** The line that follows the status line: the first field line, or the blank line. *)
Definition first_line (h : resp_head) : bytes := next_line (rh_fields h) 0.

(** Number of bytes of the head after which [try_read_100] has its verdict. *)
Definition decision_point (h : resp_head) : N := len (render_status_line h) + len (first_line h).

Definition bare (h : resp_head) : Prop := rh_fields h = [].

Lemma parse0_undecided_status h p y :
  wf_resp_head h -> render_status_line h = p ++ y -> y <> [] -> try_parse_response 0 p = Ok None.
Proof.
  intros Hwf Hp Hy. destruct (response_partial_status_line 0 h p y Hwf Hp Hy) as (H1 & _).
  unfold try_parse_response. destruct (parse_response 0 p) as [s v]. cbn [fst] in H1. subst s. reflexivity.
Qed.

Lemma parse0_undecided_line h q y :
  wf_resp_head h -> first_line h = q ++ y -> y <> [] ->
  try_parse_response 0 (render_status_line h ++ q) = Ok None.
Proof.
  intros Hwf Hq Hy.
  pose proof (response_partial_view 0 h 0 q y Hwf (Nat.le_0_l _) (Nat.le_0_l _) Hq Hy) as H.
  cbn [firstn render_lines flat_map app] in H.
  unfold try_parse_response. rewrite H. reflexivity.
Qed.

Lemma parse0_bare h rest :
  wf_resp_head h -> bare h ->
  try_parse_response 0 (render_response_head h ++ rest) = Ok (Some (len (render_response_head h), response_of h)).
Proof.
  intros Hwf Hb. apply response_complete; [exact Hwf|]. rewrite Hb. cbn [List.length]. lia.
Qed.

Lemma parse0_field h fd fs any :
  wf_resp_head h -> rh_fields h = fd :: fs ->
  try_parse_response 0 (render_status_line h ++ render_field fd ++ any) = Err HttpParseTooManyHeaders.
Proof.
  intros Hwf Hf. pose proof (response_too_many 0 h [] fd fs any Hwf Hf eq_refl) as E.
  cbn [render_lines flat_map app] in E. exact E.
Qed.

(** For ARBITRARY bytes: a verdict of the wrapper other than "need more data" is final. *)
Lemma try_parse_response_final slots w x :
  try_parse_response slots w <> Ok None ->
  try_parse_response slots (w ++ x) = try_parse_response slots w.
Proof.
  intros H. unfold try_parse_response in *.
  destruct (parse_response slots w) as [s v] eqn:E.
  assert (Hs : s <> SPartial) by (intros ->; apply H; reflexivity).
  rewrite hp_stable_response_full by (rewrite E; exact Hs). rewrite E. reflexivity.
Qed.

(** ** [try_read_100] *)

(** The flow after a refusal. *)
Definition refused (f : inner) : inner :=
  {| i_call := i_call f; i_holder := i_holder f;
     i_reasons := reasons_with (i_reasons f) Not100Continue;
     i_should_send_body := false; i_await_100 := false;
     i_status := i_status f; i_location := i_location f |}.

Lemma refuse_nodup f : NoDup (i_reasons f) -> refuse f = Ok (refused f).
Proof. intros H. unfold refuse. rewrite add_reason_nodup by exact H. reflexivity. Qed.

Theorem try100_undecided_status f h p y :
  wf_resp_head h -> render_status_line h = p ++ y -> y <> [] ->
  try_read_100 f p = (f, Ok 0).
Proof.
  intros Hwf Hp Hy. unfold try_read_100. rewrite (parse0_undecided_status h p y Hwf Hp Hy). reflexivity.
Qed.

Theorem try100_undecided_line f h q y :
  wf_resp_head h -> first_line h = q ++ y -> y <> [] ->
  try_read_100 f (render_status_line h ++ q) = (f, Ok 0).
Proof.
  intros Hwf Hq Hy. unfold try_read_100. rewrite (parse0_undecided_line h q y Hwf Hq Hy). reflexivity.
Qed.

Theorem try100_continue f h rest :
  wf_resp_head h -> rh_status h = 100 -> bare h -> i_should_send_body f = true ->
  try_read_100 f (render_response_head h ++ rest) =
    (set_await f false, Ok (len (render_response_head h))).
Proof.
  intros Hwf Hs Hb Hf. unfold try_read_100. rewrite parse0_bare by assumption.
  change (rs_status (response_of h)) with (rh_status h). rewrite Hs, N.eqb_refl, Hf. reflexivity.
Qed.

Theorem try100_refusal_bare f h rest :
  wf_resp_head h -> rh_status h <> 100 -> bare h -> NoDup (i_reasons f) ->
  try_read_100 f (render_response_head h ++ rest) = (refused f, Ok 0).
Proof.
  intros Hwf Hs Hb Hnd. unfold try_read_100. rewrite parse0_bare by assumption.
  change (rs_status (response_of h)) with (rh_status h).
  destruct (N.eqb_spec (rh_status h) 100) as [E|_]; [contradiction|].
  rewrite refuse_nodup by exact Hnd. reflexivity.
Qed.

Theorem try100_refusal_fields f h fd fs any :
  wf_resp_head h -> rh_fields h = fd :: fs -> NoDup (i_reasons f) ->
  try_read_100 f (render_status_line h ++ render_field fd ++ any) = (refused f, Ok 0).
Proof.
  intros Hwf Hf Hnd. unfold try_read_100. rewrite (parse0_field h fd fs any Hwf Hf).
  rewrite refuse_nodup by exact Hnd. reflexivity.
Qed.

(** What the refused flow looks like. *)
Lemma refused_facts f :
  i_should_send_body (refused f) = false /\ i_await_100 (refused f) = false /\
  In Not100Continue (i_reasons (refused f)) /\ must_close (refused f) = true /\
  i_call (refused f) = i_call f /\ i_holder (refused f) = i_holder f /\
  i_status (refused f) = i_status f /\ i_location (refused f) = i_location f /\
  (forall r, In r (i_reasons f) -> In r (i_reasons (refused f))) /\
  (NoDup (i_reasons f) -> NoDup (i_reasons (refused f))).
Proof.
  assert (Hin : In Not100Continue (i_reasons (refused f))) by (apply reasons_with_in).
  repeat split; try reflexivity; try exact Hin.
  - exact (must_close_in _ _ Hin).
  - intros r Hr. apply reasons_with_incl. exact Hr.
  - apply reasons_with_nodup.
Qed.

(** ** The exact boundary: every cut position of the stream [head ++ rest] *)

Lemma first_line_nonempty h : first_line h <> [].
Proof.
  unfold first_line, next_line. destruct (rh_fields h) as [|fd fs]; cbn [nth_error]; [discriminate|].
  pose proof (render_field_len_pos fd) as H. intros E. rewrite E in H. cbn [len] in H. lia.
Qed.

(** The stream as status line, next line, remainder. *)
Definition after_first_line (h : resp_head) (rest : bytes) : bytes :=
  match rh_fields h with
  | [] => rest
  | _ :: fs => render_lines fs ++ CRLF ++ rest
  end.

Lemma stream_split h rest :
  render_response_head h ++ rest = render_status_line h ++ first_line h ++ after_first_line h rest.
Proof.
  unfold render_response_head, first_line, next_line, after_first_line.
  destruct (rh_fields h) as [|fd fs]; cbn [nth_error].
  - cbn [render_lines flat_map app]. rewrite <- !app_assoc. reflexivity.
  - rewrite render_lines_cons. rewrite <- !app_assoc. reflexivity.
Qed.

Lemma take_strict_prefix (n : N) (l : bytes) : n < len l -> l = take n l ++ drop n l /\ drop n l <> [].
Proof.
  intros H. split; [symmetry; apply take_drop|].
  intros E. pose proof (len_drop n l) as Hl. rewrite E in Hl. cbn [len] in Hl. lia.
Qed.

Theorem try100_before_decision f h rest n :
  wf_resp_head h -> n < decision_point h ->
  try_read_100 f (take n (render_response_head h ++ rest)) = (f, Ok 0).
Proof.
  intros Hwf Hn. unfold decision_point in Hn. rewrite stream_split.
  destruct (N.lt_ge_cases n (len (render_status_line h))) as [Hlt|Hge].
  - rewrite take_app_le by lia.
    destruct (take_strict_prefix n _ Hlt) as [Hp Hy].
    exact (try100_undecided_status f h _ _ Hwf Hp Hy).
  - rewrite take_app_ge by lia.
    assert (Hlt : n - len (render_status_line h) < len (first_line h)) by lia.
    rewrite take_app_le by lia.
    destruct (take_strict_prefix _ _ Hlt) as [Hp Hy].
    exact (try100_undecided_line f h _ _ Hwf Hp Hy).
Qed.

Lemma window_after_decision h rest n :
  decision_point h <= n ->
  take n (render_response_head h ++ rest) =
    render_status_line h ++ first_line h ++ take (n - decision_point h) (after_first_line h rest).
Proof.
  intros Hn. unfold decision_point in *. rewrite stream_split.
  rewrite take_app_ge by lia. rewrite take_app_ge by lia.
  do 3 f_equal. lia.
Qed.

Theorem try100_after_decision f h rest n :
  wf_resp_head h -> decision_point h <= n -> NoDup (i_reasons f) -> i_should_send_body f = true ->
  try_read_100 f (take n (render_response_head h ++ rest)) =
    if (rh_status h =? 100) && (match rh_fields h with [] => true | _ => false end)
    then (set_await f false, Ok (len (render_response_head h)))
    else (refused f, Ok 0).
Proof.
  intros Hwf Hn Hnd Hb. rewrite window_after_decision by exact Hn.
  unfold first_line, next_line, after_first_line.
  destruct (rh_fields h) as [|fd fs] eqn:Ef; cbn [nth_error].
  - assert (Hw : forall t, render_status_line h ++ CRLF ++ t = render_response_head h ++ t).
    { intros t. unfold render_response_head. rewrite Ef. cbn [render_lines flat_map app].
      rewrite <- !app_assoc. reflexivity. }
    rewrite Hw. destruct (N.eqb_spec (rh_status h) 100) as [E|E]; cbn [andb].
    + apply try100_continue; assumption.
    + apply try100_refusal_bare; assumption.
  - rewrite Bool.andb_false_r. apply (try100_refusal_fields f h fd fs); assumption.
Qed.

(** Decided verdicts are final, for ARBITRARY windows (not only well-formed heads): once
    [try_read_100] has seen enough to decide, more bytes do not change what the parser says. *)
Theorem try100_verdict_final w x :
  try_parse_response 0 w <> Ok None -> try_parse_response 0 (w ++ x) = try_parse_response 0 w.
Proof. apply try_parse_response_final. Qed.

(** ** Re-presentation after a refusal never meets the assertion.
    [w] arbitrary.  If looking at [w] turned a flow that wanted to send its body into one that does
    not (that is what a refusal is), then looking at any extension of [w] with the refused flow
    refuses again: same flow, [Ok 0]; in particular it is neither a panic nor an error. *)
Lemma refuse_again f1 :
  i_should_send_body f1 = false -> i_await_100 f1 = false -> In Not100Continue (i_reasons f1) ->
  refuse f1 = Ok f1.
Proof.
  intros H1 H2 H3. unfold refuse, add_reason.
  apply existsb_reason in H3. rewrite H3. cbn [bind].
  destruct f1; cbn in *; subst; reflexivity.
Qed.

Lemma refuse_result f f' :
  refuse f = Ok f' ->
  i_should_send_body f' = false /\ i_await_100 f' = false /\ In Not100Continue (i_reasons f').
Proof.
  unfold refuse. destruct (add_reason (i_reasons f) Not100Continue) as [rs| |] eqn:E; cbn [bind]; try discriminate.
  intros H; inversion H; subst. cbn. apply add_reason_result in E. tauto.
Qed.

Theorem try100_refusal_stable f w f1 r x :
  i_should_send_body f = true -> try_read_100 f w = (f1, r) -> i_should_send_body f1 = false ->
  r = Ok 0 /\ try_read_100 f1 (w ++ x) = (f1, Ok 0).
Proof.
  intros Hb H Hf1. unfold try_read_100 in H.
  assert (Hset : i_should_send_body (set_await f false) = true) by exact Hb.
  destruct (try_parse_response 0 w) as [[[used rsp]|]|e|s] eqn:E.
  - destruct (rs_status rsp =? 100) eqn:E100.
    + rewrite Hb in H. inversion H; subst. congruence.
    + destruct (refuse f) as [f'| |] eqn:Er; inversion H; subst; try congruence.
      split; [reflexivity|]. unfold try_read_100.
      rewrite try_parse_response_final by (rewrite E; discriminate). rewrite E, E100.
      destruct (refuse_result _ _ Er) as (H1 & H2 & H3).
      rewrite (refuse_again f1 H1 H2 H3). reflexivity.
  - inversion H; subst. congruence.
  - destruct e; try (inversion H; subst; congruence).
    destruct (refuse f) as [f'| |] eqn:Er; inversion H; subst; try congruence.
    split; [reflexivity|]. unfold try_read_100.
    rewrite try_parse_response_final by (rewrite E; discriminate). rewrite E.
    destruct (refuse_result _ _ Er) as (H1 & H2 & H3).
    rewrite (refuse_again f1 H1 H2 H3). reflexivity.
  - inversion H; subst. congruence.
Qed.

(** The assertion is hit only by a 100 offered to a flow that no longer wants to send. *)
Theorem try100_assert_only f w f1 s :
  try_read_100 f w = (f1, Panic s) -> NoDup (i_reasons f) ->
  i_should_send_body f = false /\
  exists used rsp, try_parse_response 0 w = Ok (Some (used, rsp)) /\ rs_status rsp = 100.
Proof.
  intros H Hnd. unfold try_read_100 in H.
  destruct (try_parse_response 0 w) as [[[used rsp]|]|e|s'] eqn:E.
  - destruct (N.eqb_spec (rs_status rsp) 100) as [E100|E100].
    + destruct (i_should_send_body f) eqn:Hb; [discriminate|].
      split; [reflexivity|]. exists used, rsp. split; [reflexivity|exact E100].
    + rewrite refuse_nodup in H by exact Hnd. discriminate.
  - discriminate.
  - destruct e; try discriminate. rewrite refuse_nodup in H by exact Hnd. discriminate.
  - exfalso. unfold try_parse_response in E. destruct (parse_response 0 w) as [st v].
    destruct st as [n| |e]; try discriminate.
    destruct (version_ok (hv_version v)) as [ver|e|s0] eqn:Ev; cbn [bind] in E.
    + destruct (status_ok (hv_code v)) as [c|e|s0] eqn:Ec; cbn [bind] in E.
      * destruct (builder_ok (hv_headers v)); discriminate.
      * discriminate.
      * unfold status_ok in Ec. destruct (hv_code v); [|discriminate].
        destruct ((100 <=? n0) && (n0 <=? 999)); discriminate.
    + discriminate.
    + unfold version_ok in Ev. destruct (hv_version v); [|discriminate].
      destruct ((n0 =? 0) || (n0 =? 1)); discriminate.
Qed.

(** ** [Await100::proceed] *)

(** The F2 repair: the call holder is converted on the Await100 -> RecvResponse edge. *)
Definition to_recv (f : inner) : inner :=
  set_call_holder f (set_phase (i_call f) PRecvResponse) HRecvResponse.

Theorem await_proceed_send_gen f :
  i_should_send_body f = true ->
  await_100_proceed f = (do c <- analyze_request (i_call f); Ok (TSendBody, set_call f c)).
Proof. intros H. unfold await_100_proceed. rewrite H. reflexivity. Qed.

Theorem await_proceed_send f :
  i_should_send_body f = true -> c_analyzed (i_call f) = true ->
  await_100_proceed f = Ok (TSendBody, f).
Proof.
  intros H Ha. rewrite await_proceed_send_gen by exact H.
  unfold analyze_request. rewrite Ha. cbn [bind]. rewrite set_call_same. reflexivity.
Qed.

(** Whatever the analysis says, a flow that wants to send never goes to RecvResponse from here. *)
Theorem await_proceed_send_tag f t f' :
  i_should_send_body f = true -> await_100_proceed f = Ok (t, f') -> t = TSendBody.
Proof.
  intros H E. rewrite await_proceed_send_gen in E by exact H.
  destruct (analyze_request (i_call f)); cbn [bind] in E; inversion E; reflexivity.
Qed.

Theorem await_proceed_refused f :
  i_should_send_body f = false -> i_holder f = HWithBody ->
  await_100_proceed f = Ok (TRecvResponse, to_recv f).
Proof. intros H Hh. unfold await_100_proceed. rewrite H, Hh. reflexivity. Qed.

Lemma to_recv_facts f :
  i_holder (to_recv f) = HRecvResponse /\ c_phase (i_call (to_recv f)) = PRecvResponse /\
  i_reasons (to_recv f) = i_reasons f /\ i_should_send_body (to_recv f) = i_should_send_body f /\
  i_await_100 (to_recv f) = i_await_100 f /\ c_req (i_call (to_recv f)) = c_req (i_call f) /\
  c_reader (i_call (to_recv f)) = c_reader (i_call f) /\
  as_recv_response (to_recv f) = Ok (i_call (to_recv f)).
Proof. repeat split. Qed.

(** ** [Flow<RecvResponse>::try_response] on a complete head *)

Lemma deliver_ok_shape c used r c' o :
  deliver c used r = Ok (c', o) -> o = Some (used, r) /\ exists rd, c' = set_reader c (Some rd).
Proof.
  unfold deliver.
  destruct (match hm_get (rs_headers r) (s2b "content-length") with
            | Some v => negb (is_text v) | None => false end); [discriminate|].
  destruct (for_response _ _ _ _ _ _) as [rd| |]; cbn [bind]; try discriminate.
  intros H; inversion H; subst. split; [reflexivity|]. exists rd. reflexivity.
Qed.

Lemma header_defined_no_panic http10 cl te s : header_defined http10 cl te <> Panic s.
Proof.
  unfold header_defined. destruct cl as [v|]; cbn [bind].
  - destruct (negb (all_digits v)); cbn [bind]; [discriminate|].
    destruct (parse_dec_u64 v); cbn [bind]; [|discriminate].
    destruct (_ && negb http10); discriminate.
  - destruct (_ && negb http10); discriminate.
Qed.

Lemma deliver_no_panic c used r s : deliver c used r <> Panic s.
Proof.
  unfold deliver.
  destruct (match hm_get (rs_headers r) (s2b "content-length") with
            | Some v => negb (is_text v) | None => false end); [discriminate|].
  unfold for_response.
  match goal with |- context [header_defined ?a ?b ?c] =>
    pose proof (header_defined_no_panic a b c) as Hp; destruct (header_defined a b c) as [hd|e|s'] end;
    cbn [bind].
  - match goal with |- context [if ?b then Ok RNoBody else _] => destruct b end; discriminate.
  - discriminate.
  - exfalso. apply (Hp s'). reflexivity.
Qed.

(** The flow after a head has been returned. *)
Definition received (f : inner) (c' : call) (rsp : response) : inner :=
  {| i_call := c'; i_holder := i_holder f;
     i_reasons := if headers_has (hm_iter (rs_headers rsp)) (s2b "connection") (s2b "close")
                  then reasons_with (i_reasons f) ServerConnectionClose else i_reasons f;
     i_should_send_body := i_should_send_body f; i_await_100 := i_await_100 f;
     i_status := Some (rs_status rsp);
     i_location := last_opt (hm_get_all (rs_headers rsp) (s2b "location")) |}.

(** Any head with a status other than 100: the head is returned, exactly its length is consumed;
    the only thing that can still go wrong is the body framing chosen by [deliver] (C06). *)
Theorem recv_real_head f h rest :
  wf_resp_head h -> rh_status h <> 100 -> (List.length (rh_fields h) <= 128)%nat ->
  i_holder f = HRecvResponse -> NoDup (i_reasons f) ->
  recv_try_response f (render_response_head h ++ rest) =
    match deliver (i_call f) (len (render_response_head h)) (response_of h) with
    | Ok (c', _) => Ok (received f c' (response_of h), len (render_response_head h), Some (response_of h))
    | Err e => Err e
    | Panic s => Panic s
    end.
Proof.
  intros Hwf Hs Hn Hh Hnd. unfold recv_try_response, as_recv_response. rewrite Hh. cbn [bind].
  rewrite try_response_complete by assumption.
  destruct (deliver (i_call f) (len (render_response_head h)) (response_of h)) as [[c' o]| |] eqn:E;
    cbn [bind]; try reflexivity.
  destruct (deliver_ok_shape _ _ _ _ _ E) as [-> _].
  change (rs_status (response_of h)) with (rh_status h).
  destruct (N.eqb_spec (rh_status h) 100) as [E100|_]; [contradiction|]. cbn [andb].
  unfold received. cbn [set_call i_reasons i_call i_holder i_should_send_body i_await_100 i_status i_location].
  destruct (headers_has (hm_iter (rs_headers (response_of h))) (s2b "connection") (s2b "close")).
  - rewrite add_reason_nodup by exact Hnd. reflexivity.
  - reflexivity.
Qed.

Corollary recv_real_head_plain f h rest :
  wf_resp_head h -> rh_status h <> 100 -> (List.length (rh_fields h) <= 128)%nat ->
  i_holder f = HRecvResponse -> NoDup (i_reasons f) ->
  hm_get (rs_headers (response_of h)) (s2b "content-length") = None ->
  exists rd, recv_try_response f (render_response_head h ++ rest) =
    Ok (received f (set_reader (i_call f) (Some rd)) (response_of h),
        len (render_response_head h), Some (response_of h)).
Proof.
  intros Hwf Hs Hn Hh Hnd Hcl. rewrite recv_real_head by assumption.
  destruct (deliver_without_content_length (i_call f) (len (render_response_head h)) (response_of h) Hcl)
    as [rd Hd].
  exists rd. rewrite Hd. reflexivity.
Qed.

(** Never a panic, and whenever the answer is [Ok] it is that very head. *)
Corollary recv_real_head_ok f h rest :
  wf_resp_head h -> rh_status h <> 100 -> (List.length (rh_fields h) <= 128)%nat ->
  i_holder f = HRecvResponse -> NoDup (i_reasons f) ->
  (forall s, recv_try_response f (render_response_head h ++ rest) <> Panic s) /\
  (forall f' n o, recv_try_response f (render_response_head h ++ rest) = Ok (f', n, o) ->
     n = len (render_response_head h) /\ o = Some (response_of h) /\
     exists rd, f' = received f (set_reader (i_call f) (Some rd)) (response_of h)).
Proof.
  intros Hwf Hs Hn Hh Hnd. rewrite recv_real_head by assumption.
  pose proof (deliver_no_panic (i_call f) (len (render_response_head h)) (response_of h)) as Hp.
  destruct (deliver (i_call f) (len (render_response_head h)) (response_of h)) as [[c' o']| |s'] eqn:E.
  - split; [discriminate|]. intros f' n o H. inversion H; subst.
    destruct (deliver_ok_shape _ _ _ _ _ E) as [_ [rd ->]].
    repeat split. exists rd. reflexivity.
  - split; discriminate.
  - exfalso. apply (Hp s'). reflexivity.
Qed.

(** ** The late 100 *)

Lemma response_of_bare h : bare h -> rs_headers (response_of h) = [].
Proof. intros Hb. unfold response_of. cbn [rs_headers]. rewrite Hb. reflexivity. Qed.

Lemma call_try_response_bare100 c h rest :
  wf_resp_head h -> rh_status h = 100 -> bare h ->
  call_try_response c (render_response_head h ++ rest) =
    Ok (c, Some (len (render_response_head h), response_of h)).
Proof.
  intros Hwf Hs Hb. unfold call_try_response. rewrite limit_eq.
  rewrite response_complete by (try exact Hwf; rewrite Hb; cbn [List.length]; lia).
  cbn [bind]. change (rs_status (response_of h)) with (rh_status h).
  rewrite Hs, N.eqb_refl. rewrite response_of_bare by exact Hb. reflexivity.
Qed.

(** Handshake still pending: the 100 is consumed and NOT returned; the flag is cleared. *)
Theorem recv_late_100 f h rest :
  wf_resp_head h -> rh_status h = 100 -> bare h ->
  i_holder f = HRecvResponse -> i_await_100 f = true ->
  recv_try_response f (render_response_head h ++ rest) =
    Ok (set_await f false, len (render_response_head h), None).
Proof.
  intros Hwf Hs Hb Hh Ha. unfold recv_try_response, as_recv_response. rewrite Hh. cbn [bind].
  rewrite call_try_response_bare100 by assumption. cbn [bind].
  change (rs_status (response_of h)) with (rh_status h). rewrite Hs, N.eqb_refl.
  rewrite set_call_same, Ha. reflexivity.
Qed.

(** The flow after a bare 100 has been handed out as if it were the response. *)
Definition handed_100 (f : inner) : inner :=
  {| i_call := i_call f; i_holder := i_holder f; i_reasons := i_reasons f;
     i_should_send_body := i_should_send_body f; i_await_100 := i_await_100 f;
     i_status := Some 100; i_location := None |}.

(** Flag clear (the one permitted skip is used up, or there was no Expect): a bare 100 is NOT
    skipped.  The model (like the code) returns it as a response with status 100 and no fields,
    consumes it, records status 100, and leaves the body reader untouched. *)
Theorem recv_second_100 f h rest :
  wf_resp_head h -> rh_status h = 100 -> bare h ->
  i_holder f = HRecvResponse -> i_await_100 f = false ->
  recv_try_response f (render_response_head h ++ rest) =
    Ok (handed_100 f, len (render_response_head h), Some (response_of h)).
Proof.
  intros Hwf Hs Hb Hh Ha. unfold recv_try_response, as_recv_response. rewrite Hh. cbn [bind].
  rewrite call_try_response_bare100 by assumption. cbn [bind].
  change (rs_status (response_of h)) with (rh_status h). rewrite Hs, N.eqb_refl.
  rewrite set_call_same, Ha. cbn [andb].
  rewrite response_of_bare by exact Hb. cbn [hm_iter flat_map headers_has existsb bind].
  unfold handed_100. rewrite Ha. reflexivity.
Qed.

(** ** Nothing after a refusal asks for the body.
    The operations available from RecvResponse on, as a step relation on (state tag, flow). *)
Inductive later_op : tag * inner -> tag * inner -> Prop :=
| LTryResponse f w f' n o :
    recv_try_response f w = Ok (f', n, o) -> later_op (TRecvResponse, f) (TRecvResponse, f')
| LRecvProceed f t f' :
    recv_response_proceed f = Ok (Some (t, f')) -> later_op (TRecvResponse, f) (t, f')
| LRead f w cap f' n o :
    recv_body_read f w cap = Ok (f', n, o) -> later_op (TRecvBody, f) (TRecvBody, f')
| LReadErr f w cap e :   (* a failed read leaves the decoder in the state it reached (Flow.recv_body_after_err) *)
    recv_body_read f w cap = Err e -> later_op (TRecvBody, f) (TRecvBody, recv_body_after_err f w cap)
| LStop f b f' :
    recv_body_stop f b = Ok f' -> later_op (TRecvBody, f) (TRecvBody, f')
| LBodyProceed f t f' :
    recv_body_proceed f = Ok (Some (t, f')) -> later_op (TRecvBody, f) (t, f')
| LRedirect f pol f' o :
    as_new_flow f pol = Ok (f', o) -> later_op (TRedirect, f) (TRedirect, f').

Definition receiving (t : tag) : Prop :=
  t = TRecvResponse \/ t = TRecvBody \/ t = TRedirect \/ t = TCleanup.

Definition never_body (s : tag * inner) : Prop :=
  receiving (fst s) /\ i_should_send_body (snd s) = false /\ In Not100Continue (i_reasons (snd s)).

Lemma recv_try_response_keeps f w f' n o :
  recv_try_response f w = Ok (f', n, o) ->
  i_should_send_body f' = i_should_send_body f /\ i_holder f' = i_holder f /\
  (forall r, In r (i_reasons f) -> In r (i_reasons f')).
Proof.
  unfold recv_try_response. destruct (as_recv_response f) as [c| |]; cbn [bind]; try discriminate.
  destruct (call_try_response c w) as [[c' got]| |]; cbn [bind]; try discriminate.
  destruct got as [[used rsp]|].
  - destruct ((rs_status rsp =? 100) && i_await_100 (set_call f c')).
    + intros H; inversion H; subst. cbn. auto.
    + destruct (headers_has (hm_iter (rs_headers rsp)) (s2b "connection") (s2b "close")).
      * destruct (add_reason (i_reasons (set_call f c')) ServerConnectionClose) as [rs| |] eqn:E;
          cbn [bind]; try discriminate.
        intros H; inversion H; subst. cbn. apply add_reason_result in E. cbn in E.
        repeat split; try reflexivity. apply E.
      * cbn [bind]. intros H; inversion H; subst. cbn. auto.
  - intros H; inversion H; subst. cbn. auto.
Qed.

Lemma recv_response_proceed_keeps f t f' :
  recv_response_proceed f = Ok (Some (t, f')) ->
  (t = TRecvBody \/ t = TRedirect \/ t = TCleanup) /\
  i_should_send_body f' = i_should_send_body f /\ i_holder f' = HRecvBody /\
  (forall r, In r (i_reasons f) -> In r (i_reasons f')).
Proof.
  unfold recv_response_proceed.
  destruct (recv_response_can_proceed f) as [ok| |]; cbn [bind]; try discriminate.
  destruct (negb ok); [discriminate|].
  destruct (need_response_body (i_call f)).
  - match goal with |- context [if ?b then add_reason _ _ else _] => destruct b end.
    + destruct (add_reason (i_reasons f) CloseDelimitedBody) as [rs| |] eqn:E; cbn [bind]; try discriminate.
      intros H; inversion H; subst. cbn. apply add_reason_result in E.
      repeat split; auto. apply E.
    + cbn [bind]. intros H; inversion H; subst. cbn. auto.
  - intros H; inversion H; subst. cbn.
    repeat split; auto. match goal with |- context [if ?b then _ else _] => destruct b end; auto.
Qed.

Lemma recv_body_read_keeps f w cap f' n o :
  recv_body_read f w cap = Ok (f', n, o) ->
  i_should_send_body f' = i_should_send_body f /\ i_holder f' = i_holder f /\ i_reasons f' = i_reasons f.
Proof.
  unfold recv_body_read. destruct (as_recv_body f) as [c| |]; cbn [bind]; try discriminate.
  destruct (call_read c w cap) as [[[c' i] o']| |]; cbn [bind]; try discriminate.
  intros H; inversion H; subst. cbn. auto.
Qed.

Lemma recv_body_stop_keeps f b f' :
  recv_body_stop f b = Ok f' ->
  i_should_send_body f' = i_should_send_body f /\ i_holder f' = i_holder f /\ i_reasons f' = i_reasons f.
Proof.
  unfold recv_body_stop. destruct (as_recv_body f) as [c| |]; cbn [bind]; try discriminate.
  intros H; inversion H; subst. cbn. auto.
Qed.

Lemma recv_body_proceed_keeps f t f' :
  recv_body_proceed f = Ok (Some (t, f')) -> (t = TRedirect \/ t = TCleanup) /\ f' = f.
Proof.
  unfold recv_body_proceed. destruct (recv_body_can_proceed f) as [ok| |]; cbn [bind]; try discriminate.
  destruct (negb ok); [discriminate|]. intros H; inversion H; subst.
  split; [|reflexivity]. destruct (is_redirect f'); auto.
Qed.

Lemma as_new_flow_keeps f pol f' o :
  as_new_flow f pol = Ok (f', o) ->
  i_should_send_body f' = i_should_send_body f /\ i_holder f' = i_holder f /\ i_reasons f' = i_reasons f.
Proof.
  unfold as_new_flow.
  destruct (i_location f) as [loc|]; [|discriminate].
  destruct (negb (is_text loc)); [discriminate|].
  destruct (i_status f) as [status|]; [|discriminate].
  destruct (u_scheme (am_eff_uri (c_req (i_call f)))); [discriminate|].
  destruct (resolve _ loc) as [target|]; [|discriminate].
  match goal with |- context [match ?nm with Some _ => _ | None => Ok (f, None) end] => destruct nm as [nm'|] end.
  2:{ intros H; inversion H; subst. auto. }
  destruct (am_req (c_req (i_call f))) as [orig|]; [|discriminate].
  destruct (flow_new _) as [next| |]; cbn [bind]; try discriminate.
  match goal with |- context [bind ?x _] => destruct x as [a1| |] end; cbn [bind]; try discriminate.
  destruct (am_unset_header a1 _) as [a2| |]; cbn [bind]; try discriminate.
  destruct (am_unset_header a2 _) as [a3| |]; cbn [bind]; try discriminate.
  intros H; inversion H; subst. cbn. auto.
Qed.

Lemma later_op_never_body s s' : later_op s s' -> never_body s -> never_body s'.
Proof.
  unfold never_body, receiving. intros Hop (Ht & Hb & Hr). destruct Hop; cbn [fst snd] in *.
  - apply recv_try_response_keeps in H. destruct H as (H1 & _ & H3).
    repeat split; [auto|congruence|auto].
  - apply recv_response_proceed_keeps in H. destruct H as (H0 & H1 & _ & H3).
    repeat split; [tauto|congruence|auto].
  - apply recv_body_read_keeps in H. destruct H as (H1 & _ & H3).
    repeat split; [auto|congruence|congruence].
  - rewrite AfterErr.recv_body_after_err_should, AfterErr.recv_body_after_err_reasons.
    repeat split; assumption.
  - apply recv_body_stop_keeps in H. destruct H as (H1 & _ & H3).
    repeat split; [auto|congruence|congruence].
  - apply recv_body_proceed_keeps in H. destruct H as (H0 & ->).
    repeat split; [tauto|assumption|assumption].
  - apply as_new_flow_keeps in H. destruct H as (H1 & _ & H3).
    repeat split; [auto|congruence|congruence].
Qed.

Theorem later_never_body s s' :
  clos_refl_trans _ later_op s s' -> never_body s -> never_body s'.
Proof.
  intros H. induction H as [s s' H| |s1 s2 s3 _ IH1 _ IH2]; intros Hn.
  - exact (later_op_never_body s s' H Hn).
  - exact Hn.
  - auto.
Qed.

Lemma never_body_facts s :
  never_body s -> fst s <> TSendBody /\ fst s <> TAwait100 /\ fst s <> TSendRequest /\
                  i_should_send_body (snd s) = false /\ must_close (snd s) = true.
Proof.
  intros (Ht & Hb & Hr). unfold receiving in Ht.
  repeat split; try (intros E; rewrite E in Ht; destruct Ht as [H|[H|[H|H]]]; discriminate).
  - exact Hb.
  - exact (must_close_in _ _ Hr).
Qed.

(** ** The refusal branch end to end: proceed, then the same stream is parsed as the response *)
Theorem refusal_then_head f h rest :
  wf_resp_head h -> rh_status h <> 100 -> (List.length (rh_fields h) <= 128)%nat ->
  i_holder f = HWithBody -> NoDup (i_reasons f) ->
  await_100_proceed (refused f) = Ok (TRecvResponse, to_recv (refused f)) /\
  never_body (TRecvResponse, to_recv (refused f)) /\
  (forall s, recv_try_response (to_recv (refused f)) (render_response_head h ++ rest) <> Panic s) /\
  (forall f' n o,
     recv_try_response (to_recv (refused f)) (render_response_head h ++ rest) = Ok (f', n, o) ->
     n = len (render_response_head h) /\ o = Some (response_of h) /\
     never_body (TRecvResponse, f') /\
     exists rd, f' = received (to_recv (refused f))
                              (set_reader (set_phase (i_call f) PRecvResponse) (Some rd)) (response_of h)).
Proof.
  intros Hwf Hs Hn Hh Hnd.
  assert (Hnb : never_body (TRecvResponse, to_recv (refused f))).
  { split; [left; reflexivity|]. split; [reflexivity|]. apply reasons_with_in. }
  assert (Hnd' : NoDup (i_reasons (to_recv (refused f)))) by (apply reasons_with_nodup; exact Hnd).
  destruct (recv_real_head_ok (to_recv (refused f)) h rest Hwf Hs Hn eq_refl Hnd') as [Hp Hok].
  split; [apply await_proceed_refused; [reflexivity|exact Hh]|].
  split; [exact Hnb|]. split; [exact Hp|].
  intros f' n o H. destruct (Hok f' n o H) as (H1 & H2 & rd & H3).
  split; [exact H1|]. split; [exact H2|]. split.
  - apply (later_op_never_body (TRecvResponse, to_recv (refused f))); [|exact Hnb].
    exact (LTryResponse _ _ _ _ _ H).
  - exists rd. exact H3.
Qed.

(** ... and when the head has no Content-Length field nothing can go wrong at all. *)
Theorem refusal_then_head_plain f h rest :
  wf_resp_head h -> rh_status h <> 100 -> (List.length (rh_fields h) <= 128)%nat ->
  i_holder f = HWithBody -> NoDup (i_reasons f) ->
  hm_get (rs_headers (response_of h)) (s2b "content-length") = None ->
  exists rd,
    recv_try_response (to_recv (refused f)) (render_response_head h ++ rest) =
      Ok (received (to_recv (refused f)) (set_reader (set_phase (i_call f) PRecvResponse) (Some rd)) (response_of h),
          len (render_response_head h), Some (response_of h)).
Proof.
  intros Hwf Hs Hn Hh Hnd Hcl.
  apply (recv_real_head_plain (to_recv (refused f)) h rest Hwf Hs Hn eq_refl); [|exact Hcl].
  apply reasons_with_nodup. exact Hnd.
Qed.

(** ** The late 100 is skipped exactly once: stream = 100, then the real head. *)
Theorem late_100_then_head f h100 h rest :
  wf_resp_head h100 -> rh_status h100 = 100 -> bare h100 ->
  wf_resp_head h -> rh_status h <> 100 -> (List.length (rh_fields h) <= 128)%nat ->
  i_holder f = HRecvResponse -> i_await_100 f = true -> NoDup (i_reasons f) ->
  let stream := render_response_head h100 ++ render_response_head h ++ rest in
  recv_try_response f stream = Ok (set_await f false, len (render_response_head h100), None) /\
  drop (len (render_response_head h100)) stream = render_response_head h ++ rest /\
  (forall s, recv_try_response (set_await f false) (render_response_head h ++ rest) <> Panic s) /\
  (forall f' n o, recv_try_response (set_await f false) (render_response_head h ++ rest) = Ok (f', n, o) ->
     n = len (render_response_head h) /\ o = Some (response_of h) /\ i_await_100 f' = false).
Proof.
  intros Hwf1 Hs1 Hb1 Hwf Hs Hn Hh Ha Hnd. cbv zeta.
  split; [apply recv_late_100; assumption|].
  split; [apply drop_app_exact|].
  destruct (recv_real_head_ok (set_await f false) h rest Hwf Hs Hn Hh Hnd) as [Hp Hok].
  split; [exact Hp|]. intros f' n o H. destruct (Hok f' n o H) as (H1 & H2 & rd & H3).
  split; [exact H1|]. split; [exact H2|]. subst f'. reflexivity.
Qed.

(** Stream = 100, 100: only the first one is skipped. *)
Theorem late_100_twice f h100 h100' rest :
  wf_resp_head h100 -> rh_status h100 = 100 -> bare h100 ->
  wf_resp_head h100' -> rh_status h100' = 100 -> bare h100' ->
  i_holder f = HRecvResponse -> i_await_100 f = true ->
  let stream := render_response_head h100 ++ render_response_head h100' ++ rest in
  recv_try_response f stream = Ok (set_await f false, len (render_response_head h100), None) /\
  recv_try_response (set_await f false) (drop (len (render_response_head h100)) stream) =
    Ok (handed_100 (set_await f false), len (render_response_head h100'), Some (response_of h100')).
Proof.
  intros Hwf1 Hs1 Hb1 Hwf2 Hs2 Hb2 Hh Ha. cbv zeta.
  split; [apply recv_late_100; assumption|].
  rewrite drop_app_exact. apply recv_second_100; try assumption. reflexivity.
Qed.
