(** C13, histories of Script operations: every flow that a history of [Script.step]s holds (the
    current object, or the flow produced by the last followed redirect) belongs to a redirect chain
    ([C13_proofs.chain]) that started with one of the history's [ONew] requests, or is a redirect
    flow whose request has been taken. *)
From Coq Require Import Lia ZArith List.
From Hoot Require Import Base Chunk Body Httparse Parser Url Request Call Flow Script.
From Hoot.proofs Require Import BytesLemmas C17_proofs C02_proofs C02_analysis C13_proofs.
Open Scope N_scope.

(** Ordinary transition: the pending next flow is untouched; the object is the same, or not a flow
    any more, or a flow obtained from the previous one by one operation of an exchange. *)
Definition trans (s s' : sstate) : Prop :=
  s_next s' = s_next s /\
  (s_obj s' = s_obj s \/ (forall t f, s_obj s' <> ObFlow t f) \/
   exists t f t' f', s_obj s = ObFlow t f /\ s_obj s' = ObFlow t' f' /\ (f' = f \/ flow_op f f')).

Lemma trans_same s s' : s_next s' = s_next s -> s_obj s' = s_obj s -> trans s s'.
Proof. intros H1 H2. split; [exact H1|left; exact H2]. Qed.

Lemma trans_refl s : trans s s.
Proof. apply trans_same; reflexivity. Qed.

Lemma trans_noflow s s' : s_next s' = s_next s -> (forall t f, s_obj s' <> ObFlow t f) -> trans s s'.
Proof. intros H1 H2. split; [exact H1|right; left; exact H2]. Qed.

Lemma trans_op s s' t f t' f' :
  s_next s' = s_next s -> s_obj s = ObFlow t f -> s_obj s' = ObFlow t' f' -> (f' = f \/ flow_op f f') ->
  trans s s'.
Proof. intros H1 H2 H3 H4. split; [exact H1|]. right; right. exists t, f, t', f'. auto. Qed.

Lemma upd_trans {A} s t0 f t (r : res A) getf k :
  s_obj s = ObFlow t0 f -> (forall a, r = Ok a -> flow_op f (getf a)) ->
  trans s (fst (upd s t r getf k)).
Proof.
  intros Ho H. unfold upd. destruct r as [a| |]; cbn [fst]; try apply trans_refl.
  eapply trans_op; [reflexivity|exact Ho|reflexivity|]. right. apply H. reflexivity.
Qed.

Lemma do_proceed_trans s t f : s_obj s = ObFlow t f -> trans s (fst (do_proceed s t f)).
Proof.
  intros Ho. unfold do_proceed.
  assert (Hopt : forall r : res (option (tag * inner)),
             (forall t' f', r = Ok (Some (t', f')) -> flow_op f f') ->
             trans s (fst (match r with
                           | Ok (Some (t', f')) => (with_flow s t' f', [w "state"; tag_name t'])
                           | Ok None => (s, [w "stay"])
                           | Err e => (with_obj s ObNone, obs_err e)
                           | Panic _ => (s, obs_panic)
                           end))).
  { intros r Hr. destruct r as [[[t' f']|]| |]; cbn [fst]; try apply trans_refl.
    - eapply trans_op; [reflexivity|exact Ho|reflexivity|]. right. eapply Hr. reflexivity.
    - apply trans_noflow; [reflexivity|]. cbn. discriminate. }
  destruct t.
  - cbn [fst]. eapply trans_op; [reflexivity|exact Ho|reflexivity|]. left. reflexivity.
  - apply Hopt. intros t' f' E. eapply fo_sr_proceed. exact E.
  - apply Hopt. intros t' f' E.
    destruct (await_100_proceed f) as [[t1 f1]| |] eqn:E1; cbn [bind] in E; try discriminate.
    inversion E; subst. eapply fo_await_proceed. exact E1.
  - apply Hopt. intros t' f' E. eapply fo_sb_proceed. exact E.
  - apply Hopt. intros t' f' E. eapply fo_rr_proceed. exact E.
  - apply Hopt. intros t' f' E. eapply fo_rb_proceed. exact E.
  - cbn [fst]. eapply trans_op; [reflexivity|exact Ho|reflexivity|]. left. reflexivity.
  - cbn [fst]. apply trans_refl.
Qed.

Lemma do_premature_trans s t f : trans s (fst (do_premature s t f)).
Proof.
  unfold do_premature.
  destruct t; cbn [fst]; try apply trans_refl;
    (apply trans_noflow; [reflexivity|cbn; discriminate]).
Qed.

Lemma do_try100_trans s f win track :
  s_obj s = ObFlow TAwait100 f -> trans s (fst (do_try100 s f win track)).
Proof.
  intros Ho. unfold do_try100.
  pose proof (fo_try_100 f win) as Hop.
  destruct (try_read_100 f win) as [f' r]. cbn [fst] in Hop.
  destruct r as [n| |]; cbn [fst].
  - destruct track; (eapply trans_op; [reflexivity|exact Ho|reflexivity|right; exact Hop]).
  - eapply trans_op; [reflexivity|exact Ho|reflexivity|right; exact Hop].
  - eapply trans_op; [reflexivity|exact Ho|reflexivity|right; exact Hop].
Qed.

Lemma do_try_response_trans s f win track :
  s_obj s = ObFlow TRecvResponse f -> trans s (fst (do_try_response s f win track)).
Proof.
  intros Ho. unfold do_try_response.
  destruct (recv_try_response f win) as [[[f' used] got]| |] eqn:E; cbn [fst]; try apply trans_refl.
  destruct track; (eapply trans_op; [reflexivity|exact Ho|reflexivity|right; eapply fo_try_response; exact E]).
Qed.

Lemma do_read_trans s f win cap track :
  s_obj s = ObFlow TRecvBody f -> trans s (fst (do_read s f win cap track)).
Proof.
  intros Ho. unfold do_read.
  destruct (recv_body_read f win cap) as [[[f' i] o]|e|] eqn:E; cbn [fst]; try apply trans_refl.
  - destruct track; (eapply trans_op; [reflexivity|exact Ho|reflexivity|right; eapply fo_read; exact E]).
  - (* a failed read: the flow continues as [recv_body_after_err], which is a [flow_op] too *)
    eapply trans_op; [reflexivity|exact Ho|reflexivity|right; eapply fo_read_err; exact E].
Qed.

Lemma do_write_body_trans s input cap track sum : trans s (fst (do_write_body s input cap track sum)).
Proof.
  unfold do_write_body.
  destruct (s_obj s) as [|t f|h c] eqn:Ho; cbn [fst]; try apply trans_refl.
  - destruct t; cbn [fst]; try apply trans_refl.
    destruct (send_body_write f input cap) as [[[f' used] out]| |] eqn:E; cbn [fst]; try apply trans_refl.
    destruct track; (eapply trans_op; [reflexivity|exact Ho|reflexivity|right; eapply fo_body_write; exact E]).
  - destruct h; cbn [fst]; try apply trans_refl.
    destruct (call_write_body c input cap) as [[[c' used] out]| |]; cbn [fst]; try apply trans_refl.
    + destruct track; (apply trans_noflow; [reflexivity|cbn; discriminate]).
    + apply trans_noflow; [reflexivity|cbn; discriminate].
Qed.

Definition special (o : op) : bool :=
  match o with ONew _ | OAsNewFlow _ | OFollow => true | _ => false end.

(** The arms of [step] for the single call past the request: the object stays a call or is gone. *)
Ltac call_arms :=
  unfold do_call_into_receive;
  repeat match goal with
  | |- context [match into_receive ?c with _ => _ end] => destruct (into_receive c)
  | |- context [match c_reader ?c with _ => _ end] => destruct (c_reader c) as [[| | |]|]
  | |- context [match call_try_response ?c ?b with _ => _ end] => destruct (call_try_response c b) as [[? ?]|?|?]
  | |- context [match call_read ?c ?b ?cap with _ => _ end] => destruct (call_read c b cap) as [[[? ?] ?]|?|?]
  end; cbn [fst];
  first [apply trans_refl | apply trans_noflow; [reflexivity|cbn; discriminate]].

Lemma step_trans s o : special o = false -> trans s (fst (step s o)).
Proof.
  intros Hs. destruct o; try discriminate Hs; clear Hs; unfold step.
  (* operations that do not look at the object *)
  all: try (apply trans_noflow; [reflexivity|cbn; discriminate]).
  all: try (apply trans_same; reflexivity).
  all: try apply do_write_body_trans.
  all: destruct (s_obj s) as [|t f|h c] eqn:Ho; try apply trans_refl.
  all: try (destruct t; try apply trans_refl).
  all: try (destruct h; try apply trans_refl).
  all: try (solve [call_arms]).
  all: try (apply do_proceed_trans; exact Ho).
  all: try apply do_premature_trans.
  all: try (apply do_try100_trans; exact Ho).
  all: try (apply do_try_response_trans; exact Ho).
  all: try (apply do_read_trans; exact Ho).
  all: try (eapply upd_trans; [exact Ho|]).
  - intros a E. eapply fo_header. exact E.
  - intros a E. eapply fo_despite. exact E.
  - intros [f' out] E. eapply fo_write. exact E.
  - destruct (call_write_nobody c cap) as [[c' out]| |]; cbn [fst]; try apply trans_refl;
      (apply trans_noflow; [reflexivity|cbn; discriminate]).
  - intros a E. eapply fo_body_direct. exact E.
  - intros a E. eapply fo_stop. exact E.
Qed.

(* ------------------------------------------------------------------ the invariant *)

(** A flow of the history: taken (the request was moved into the next hop), or a member of the
    chain of one of the requests of the history. *)
Definition flow_ok (ops : list op) (f : inner) : Prop :=
  am_req (req_of f) = None \/ exists orig hops, In (ONew orig) ops /\ chain orig hops f.

Definition state_ok (ops : list op) (s : sstate) : Prop :=
  (forall t f, s_obj s = ObFlow t f -> flow_ok ops f) /\
  (forall n, s_next s = Some n -> flow_ok ops n).

Lemma flow_ok_mono ops o f : flow_ok ops f -> flow_ok (ops ++ [o]) f.
Proof.
  intros [H|(orig & hops & Hin & Hc)]; [left; exact H|].
  right. exists orig, hops. split; [apply in_or_app; left; exact Hin|exact Hc].
Qed.

Lemma flow_ok_op ops f f' : flow_ok ops f -> flow_op f f' -> flow_ok ops f'.
Proof.
  intros [H|(orig & hops & Hin & Hc)] Hop.
  - left. apply flow_op_fext in Hop. apply extends_fields in Hop. destruct Hop as (Hr & _).
    rewrite Hr. exact H.
  - right. exists orig, hops. split; [exact Hin|]. eapply ch_op; eassumption.
Qed.

Lemma state_ok_trans ops o s s' : state_ok ops s -> trans s s' -> state_ok (ops ++ [o]) s'.
Proof.
  intros [Ho Hn] [Tn To]. split.
  - intros t' f' E. destruct To as [To|[To|(t & f & t1 & f1 & E1 & E2 & Hop)]].
    + rewrite To in E. apply flow_ok_mono. eapply Ho. exact E.
    + exfalso. eapply To. exact E.
    + rewrite E2 in E. inversion E; subst. apply flow_ok_mono.
      destruct Hop as [->|Hop]; [eapply Ho; exact E1|].
      eapply flow_ok_op; [eapply Ho; exact E1|exact Hop].
  - intros n E. rewrite Tn in E. apply flow_ok_mono. apply Hn. exact E.
Qed.

Lemma step_ok ops s o : state_ok ops s -> state_ok (ops ++ [o]) (fst (step s o)).
Proof.
  intros Hs. destruct (special o) eqn:Esp; [|eapply state_ok_trans; [exact Hs|apply step_trans; exact Esp]].
  pose proof (state_ok_trans ops o s s Hs (trans_refl s)) as Hsame.
  destruct o; try discriminate Esp; clear Esp; unfold step.
  - (* ONew *)
    destruct (flow_new r) as [f| |] eqn:E; cbn [fst]; try exact Hsame.
    split; cbn [s_obj s_next]; [|discriminate].
    intros t f' E'. inversion E'; subst. right. exists r, [].
    split; [apply in_or_app; right; left; reflexivity|apply ch_new; exact E].
  - (* OAsNewFlow *)
    destruct (s_obj s) as [|t f|h c] eqn:Eo; cbn [fst]; try exact Hsame.
    destruct t; cbn [fst]; try exact Hsame.
    destruct (as_new_flow f p) as [[f' nxt]| |] eqn:E; cbn [fst]; try exact Hsame.
    destruct Hs as [Ho Hn]. specialize (Ho _ _ Eo).
    destruct nxt as [nxt|].
    + split; cbn [s_obj s_next].
      * intros t f1 E1. inversion E1; subst. left.
        apply c13_rebuilt_lemma in E. destruct E as (loc & orig & target & nm & E).
        apply E.
      * intros n E1. inversion E1; subst. apply flow_ok_mono.
        destruct Ho as [Ho|(orig & hops & Hin & Hc)].
        -- exfalso. apply c13_rebuilt_lemma in E.
           destruct E as (loc & orig & target & nm & _ & Hr & _). congruence.
        -- right. pose proof E as E'. apply c13_rebuilt_lemma in E'.
           destruct E' as (loc & orig' & target & nm & Hl & _ & Hres & _).
           exists orig, (hops ++ [(p, target)]). split; [exact Hin|].
           eapply ch_hop; eassumption.
    + apply as_new_flow_none in E. subst f'. split; cbn [s_obj s_next].
      * intros t f1 E1. inversion E1; subst. apply flow_ok_mono. exact Ho.
      * intros n E1. apply flow_ok_mono. apply Hn. exact E1.
  - (* OFollow *)
    destruct (s_next s) as [n|] eqn:En; cbn [fst]; try exact Hsame.
    destruct Hs as [Ho Hn].
    split; cbn [s_obj s_next]; [|discriminate].
    intros t f E. inversion E; subst. apply flow_ok_mono. apply Hn. exact En.
Qed.

Lemma run_ops_snoc s ops o : run_ops s (ops ++ [o]) = fst (step (run_ops s ops) o).
Proof. unfold run_ops. rewrite fold_left_app. reflexivity. Qed.

Lemma state_ok_init : state_ok [] s_init.
Proof. split; cbn; intros; discriminate. Qed.

Theorem run_ops_ok ops : state_ok ops (run_ops s_init ops).
Proof.
  induction ops as [|o ops IH] using rev_ind; [exact state_ok_init|].
  rewrite run_ops_snoc. apply step_ok. exact IH.
Qed.

(** Every live flow of every history belongs to the redirect chain of a request of the history. *)
Lemma c13_script_lemma ops t f :
  s_obj (run_ops s_init ops) = ObFlow t f -> am_req (req_of f) <> None ->
  exists orig hops, In (ONew orig) ops /\ chain orig hops f.
Proof.
  intros E Hr. destruct (run_ops_ok ops) as [Ho _]. destruct (Ho _ _ E) as [H|H]; [congruence|exact H].
Qed.
