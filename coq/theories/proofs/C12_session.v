(** C12, part 5: whole server-facing sessions.

    Any sequence of server-facing calls and [proceed]s, with arbitrary bytes, window sizes,
    capacities and stop flags, starting in Await100, RecvResponse or RecvBody: no call panics
    (hence every call terminates), every successful call reports counts within its window and
    output space with the output an in-order copy of consumed bytes -- and this stays true after
    calls that returned an error. *)
From Coq Require Import Lia ZArith.
From Hoot Require Import Base Chunk Body Httparse Parser Url Request Call Flow.
From Hoot.proofs Require Import BytesLemmas Reasons C12_chunk C12_parsers C12_flow C12_after_err.
Open Scope N_scope.

Inductive srv_op :=
| OTry100 (w : bytes)            (* Await100::try_read_100 *)
| OTryResponse (w : bytes)       (* RecvResponse::try_response *)
| ORead (w : bytes) (cap : N)    (* RecvBody::read *)
| OStop (b : bool)               (* RecvBody::stop_on_chunk_boundary *)
| OProceed.                      (* proceed() of the current state *)

(** Safety of a session.  An operation the typestate does not offer in the current state is not a
    call at all (the Rust program would not compile): it is skipped.  After an [Err] the caller still
    holds a flow ([try_read_100] hands it back; the other calls borrow it) and the session goes on;
    after a failed body read that flow is [recv_body_after_err f w cap] (the chunked decoder was
    mutated in place and keeps the state it had reached, see proofs/C12_after_err.v).
    The one excluded situation is the documented misuse of [try_read_100] (a window that parses as
    a complete 100 offered after a refusal, impossible when unconsumed bytes are re-presented:
    [run100_discipline]); nothing is claimed from there on.  The session is over, as far as the server
    is concerned, when the flow leaves these three states. *)
Fixpoint session_safe (t : tag) (f : inner) (ops : list srv_op) : Prop :=
  match ops with
  | [] => True
  | op :: rest =>
      match t, op with
      | TAwait100, OTry100 w =>
          (i_should_send_body f = false /\ parses_100 w) \/
          (let '(f', x) := try_read_100 f w in
           match x with
           | Panic _ => False
           | Err _ => session_safe TAwait100 f' rest
           | Ok n => n <= len w /\ session_safe TAwait100 f' rest
           end)
      | TAwait100, OProceed =>
          match await_100_proceed f with
          | Ok (t', f') => session_safe t' f' rest
          | _ => False
          end
      | TRecvResponse, OTryResponse w =>
          match recv_try_response f w with
          | Panic _ => False
          | Err _ => session_safe TRecvResponse f rest
          | Ok (f', used, _) => used <= len w /\ session_safe TRecvResponse f' rest
          end
      | TRecvResponse, OProceed =>
          match recv_response_proceed f with
          | Ok None => session_safe TRecvResponse f rest
          | Ok (Some (t', f')) => session_safe t' f' rest
          | _ => False
          end
      | TRecvBody, ORead w cap =>
          match recv_body_read f w cap with
          | Panic _ => False
          | Err _ => session_safe TRecvBody (recv_body_after_err f w cap) rest
          | Ok (f', i, out) =>
              i <= len w /\ len out <= cap /\ subseq out (take i w) /\ session_safe TRecvBody f' rest
          end
      | TRecvBody, OStop b =>
          match recv_body_stop f b with
          | Ok f' => session_safe TRecvBody f' rest
          | _ => False
          end
      | TRecvBody, OProceed =>
          match recv_body_proceed f with
          | Ok None => session_safe TRecvBody f rest
          | Ok (Some (t', f')) => session_safe t' f' rest
          | _ => False
          end
      | TAwait100, _ | TRecvResponse, _ | TRecvBody, _ => session_safe t f rest
      | _, _ => True
      end
  end.

(** What the session needs of the flow, per state (all consequences of C09's invariant). *)
Definition Srv (t : tag) (f : inner) : Prop :=
  match t with
  | TAwait100 =>
      NoDup (i_reasons f) /\ i_holder f = HWithBody /\ c_analyzed (i_call f) = true /\ call_ok (i_call f)
  | TRecvResponse =>
      NoDup (i_reasons f) /\ i_holder f = HRecvResponse /\ call_ok (i_call f)
  | TRecvBody =>
      NoDup (i_reasons f) /\ i_holder f = HRecvBody /\
      exists r, c_reader (i_call f) = Some r /\ reader_ok r
  | _ => True
  end.

Theorem session_safe_all ops : forall t f, Srv t f -> session_safe t f ops.
Proof.
  induction ops as [|op rest IH]; intros t f HS; cbn [session_safe]; [exact I|].
  destruct t; try exact I.
  - (* Await100 *)
    destruct HS as (Hnd & Hh & Ha & Hok).
    destruct op as [w|w|w cap|b|]; try (apply IH; repeat split; assumption).
    + destruct (i_should_send_body f) eqn:Es.
      * right. pose proof (try100_safe f w Hnd Es) as H.
        destruct (try_read_100 f w) as [f' x]. unfold Try100Safe in H.
        destruct H as (Hx & Hnd' & Hc & Hh' & _).
        assert (HS' : Srv TAwait100 f').
        { cbn. rewrite Hc. repeat split; try assumption. congruence. }
        destruct x as [n|e|s]; [split; [exact Hx|]| |exact Hx]; apply IH; exact HS'.
      * assert (Hdec : parses_100 w \/ ~ parses_100 w).
        { unfold parses_100. destruct (try_parse_response 0 w) as [[[u r]|]|e|s].
          - destruct (N.eq_dec (rs_status r) 100) as [E|E].
            + left. eauto.
            + right. intros (u' & r' & E1 & E2). inversion E1; subst. contradiction.
          - right. intros (u' & r' & E1 & _). discriminate.
          - right. intros (u' & r' & E1 & _). discriminate.
          - right. intros (u' & r' & E1 & _). discriminate. }
        destruct Hdec as [Hp|Hp]; [left; split; [reflexivity|exact Hp]|right].
        assert (Hmis : ~ (i_should_send_body f = false /\ parses_100 w)) by (intros [_ H]; contradiction).
        pose proof (try100_safe_gen f w Hnd Hmis) as H.
        destruct (try_read_100 f w) as [f' x]. unfold Try100Safe in H.
        destruct H as (Hx & Hnd' & Hc & Hh' & _).
        assert (HS' : Srv TAwait100 f').
        { cbn. rewrite Hc. repeat split; try assumption. congruence. }
        destruct x as [n|e|s]; [split; [exact Hx|]| |exact Hx]; apply IH; exact HS'.
    + destruct (await_100_proceed_safe f Hh Ha) as (t' & f' & E & [(-> & _)|(-> & _ & Hh' & Hrs & Hrd)]);
        rewrite E; apply IH; [exact I|].
      cbn. rewrite Hrs. repeat split; try assumption.
      intros r Hr. apply Hok. rewrite <- Hrd. exact Hr.
  - (* RecvResponse *)
    destruct HS as (Hnd & Hh & Hok).
    destruct op as [w|w|w cap|b|]; try (apply IH; repeat split; assumption).
    + pose proof (recv_try_response_safe f w Hh Hnd) as H.
      destruct (recv_try_response f w) as [[[f' u] o]|e|s]; cbn [RecvTrySafe] in H.
      * destruct H as (Hu & Hh' & Hnd' & Hok' & _). split; [exact Hu|].
        apply IH. cbn. auto.
      * apply IH. cbn. auto.
      * exact H.
    + pose proof (recv_response_proceed_safe f Hh Hnd) as H.
      destruct (recv_response_proceed f) as [[[t' f']|]|e|s]; try exact H.
      * destruct H as (r & Hr & Hr' & Hh' & Hnd' & Ht). apply IH.
        destruct Ht as [->|[(-> & _)| ->]]; try exact I.
        cbn. repeat split; try assumption. exists r. split; [exact Hr'|apply Hok; exact Hr].
      * apply IH. cbn. auto.
  - (* RecvBody *)
    destruct HS as (Hnd & Hh & r & Hr & Hok).
    assert (HS : Srv TRecvBody f) by (cbn; eauto).
    destruct op as [w|w|w cap|b|]; try (apply IH; exact HS).
    + pose proof (recv_body_read_safe f r w cap Hh Hr Hok) as H.
      destruct (recv_body_read f w cap) as [[[f' i] out]|e|s].
      * destruct H as (H1 & H2 & H3 & r' & -> & H4). repeat split; try assumption.
        apply IH. cbn. repeat split; try assumption. exists r'. split; [reflexivity|exact H4].
      * destruct (recv_body_after_err_pre f r w cap Hh Hr Hok) as (r' & -> & Hok' & _).
        apply IH. cbn. repeat split; try assumption. exists r'. split; [reflexivity|exact Hok'].
      * exact H.
    + destruct (recv_body_stop_safe f r b Hh Hr) as (f' & E & Hh' & Hr' & Hrs). rewrite E.
      apply IH. cbn. rewrite Hrs. repeat split; try assumption. exists r. auto.
    + pose proof (recv_body_proceed_safe f r Hh Hr) as H.
      destruct (recv_body_proceed f) as [[[t' f']|]|e|s]; try exact H.
      * destruct H as (-> & [(-> & _)| ->]); apply IH; exact I.
      * apply IH. exact HS.
Qed.
