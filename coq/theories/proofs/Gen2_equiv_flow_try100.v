(** Flow<Await100>::try_read_100 (translated) against the model; split from Gen2_equiv_flow. *)
From Coq Require Import Lia.
From Hoot Require Import Base Chunk Body Httparse Parser Url Request Call Flow GenLib Gen Gen2.
Open Scope N_scope.
(* ------------------------------------------------------------------ Flow<Await100>::try_read_100 *)
(** The whole function, translated with the fields of [self.inner] as parameters and the result of the zero-slot parse as a value of the
    result monad (what the function looks at is the consumed count and the status). *)
Definition parsed_of (x : res (option (N * response))) : res (option (N * N)) :=
  match x with
  | Ok (Some (used, r)) => Ok (Some (used, rs_status r))
  | Ok None => Ok None
  | Err e => Err e
  | Panic s => Panic s
  end.

Lemma err_eqb_too_many e : err_eqb e HttpParseTooManyHeaders = true <-> e = HttpParseTooManyHeaders.
Proof. destruct e; vm_compute; split; intros H; try reflexivity; try discriminate. Qed.

Lemma gen_try_read_100_ok f input :
  let g := gen_try_read_100 (i_reasons f) (i_should_send_body f) (i_await_100 f) (parsed_of (try_parse_response 0 input)) in
  match try_read_100 f input with
  | (f', Ok n) => g = Ok (i_reasons f', i_should_send_body f', i_await_100 f', n)
  | (_, Err e) => g = Err e
  | (_, Panic _) => exists s, g = Panic s
  end.
Proof.
  cbv zeta. unfold try_read_100, gen_try_read_100, parsed_of, refuse, set_await.
  destruct f as [c h rs0 ssb aw st loc]. cbn [i_reasons i_should_send_body i_await_100 i_call i_holder i_status i_location].
  destruct (try_parse_response 0 input) as [[[used r]|]|e|s].
  - destruct (N.eqb_spec (rs_status r) 100) as [E|E].
    + destruct ssb; [reflexivity|eauto].
    + destruct (add_reason rs0 Not100Continue) as [rs|e|s]; cbn [bind i_reasons i_should_send_body i_await_100]; [reflexivity|reflexivity|eauto].
  - reflexivity.
  - destruct (err_eqb e HttpParseTooManyHeaders) eqn:Ee.
    + apply err_eqb_too_many in Ee. subst e.
      destruct (add_reason rs0 Not100Continue) as [rs|e|s]; cbn [bind i_reasons i_should_send_body i_await_100]; [reflexivity|reflexivity|eauto].
    + assert (Hne : e <> HttpParseTooManyHeaders) by (intros ->; vm_compute in Ee; discriminate).
      destruct e; try reflexivity. congruence.
  - eauto.
Qed.
Print Assumptions gen_try_read_100_ok.


(* ------------------------------------------------------------------ what an error of try_read_100 leaves behind *)
(** [gen_try_read_100_errst] is the translation of the same Rust function in "error-state mode": the values of the three fields at
    the point where it returns an error.  They are the model's: an error still clears [await_100_continue], nothing else changes. *)
Lemma gen_try_read_100_errst_ok f input f' e :
  try_read_100 f input = (f', Err e) ->
  gen_try_read_100_errst (i_reasons f) (i_should_send_body f) (i_await_100 f) (parsed_of (try_parse_response 0 input))
  = Some (i_reasons f', i_should_send_body f', i_await_100 f').
Proof.
  unfold try_read_100, gen_try_read_100_errst, parsed_of, refuse, set_await.
  destruct f as [c h rs0 ssb aw st loc]. cbn [i_reasons i_should_send_body i_await_100 i_call i_holder i_status i_location].
  destruct (try_parse_response 0 input) as [[[used r]|]|e0|s].
  - destruct (N.eqb_spec (rs_status r) 100) as [E|E].
    + destruct ssb; intros H; inversion H.
    + unfold add_reason, push_reason. destruct (existsb (reason_eqb Not100Continue) rs0); cbn [bind]; [intros H; inversion H|].
      destruct (CLOSE_REASON_CAP <=? len rs0); cbn [bind]; intros H; inversion H.
  - intros H; inversion H.
  - destruct (err_eqb e0 HttpParseTooManyHeaders) eqn:Ee.
    + apply err_eqb_too_many in Ee. subst e0.
      unfold add_reason, push_reason. destruct (existsb (reason_eqb Not100Continue) rs0); cbn [bind]; [intros H; inversion H|].
      destruct (CLOSE_REASON_CAP <=? len rs0); cbn [bind]; intros H; inversion H.
    + assert (Hne : e0 <> HttpParseTooManyHeaders) by (intros ->; vm_compute in Ee; discriminate).
      destruct e0; try congruence; intros H; inversion H; subst; reflexivity.
  - intros H; inversion H.
Qed.
Print Assumptions gen_try_read_100_errst_ok.
