(** C05 / C20: what "all header fields, repeated names with their values in order" means for the header
    map, said WITHOUT the model's [hm_of_list]:

      - looking a name up gives the values of exactly the fields of that name, in the order of the list
        ([hm_get_all_of_list]);
      - iterating over the map gives the fields of the list (names lower-cased), every one of them once,
        up to a reordering ([hm_iter_of_list_perm]) that only groups equal names together: the fields of
        any one name keep their relative order ([hm_iter_of_list_stable]), and the names appear in the
        order of their first occurrence ([hm_keys_of_list]). *)
From Coq Require Import Lia ZArith Permutation.
From Hoot Require Import Base Httparse Parser.
From Hoot.proofs Require Import BytesLemmas.
Open Scope N_scope.

(** A field as the map stores it: name lower-cased. *)
Definition norm_header (h : header) : header := (lower (fst h), snd h).

(** The fields called [k] (lower case), in list order. *)
Definition fields_named (k : bytes) (l : list header) : list header :=
  filter (fun h => beq_bytes k (lower (fst h))) l.

Lemma beq_bytes_sym a b : beq_bytes a b = beq_bytes b a.
Proof.
  destruct (beq_bytes a b) eqn:E1, (beq_bytes b a) eqn:E2; try reflexivity.
  - apply beq_bytes_eq in E1. subst. rewrite beq_bytes_refl in E2. discriminate.
  - apply beq_bytes_eq in E2. subst. rewrite beq_bytes_refl in E1. discriminate.
Qed.

Lemma beq_bytes_trans_false k k' k'' : beq_bytes k' k'' = true -> beq_bytes k k'' = beq_bytes k k'.
Proof. intros H. apply beq_bytes_eq in H. subst. reflexivity. Qed.

(** ** Lookup *)

Lemma hm_get_all_append m k' v k :
  hm_get_all (hm_append m k' v) k = hm_get_all m k ++ (if beq_bytes k k' then [v] else []).
Proof.
  unfold hm_get_all. induction m as [|[k'' vs] t IH]; cbn [hm_append find fst].
  - destruct (beq_bytes k k'); reflexivity.
  - destruct (beq_bytes k' k'') eqn:E1; cbn [find fst].
    + rewrite (beq_bytes_trans_false k k' k'' E1).
      destruct (beq_bytes k k') eqn:E2; [reflexivity|].
      destruct (find _ t) as [[? ?]|]; rewrite app_nil_r; reflexivity.
    + destruct (beq_bytes k k'') eqn:E2; [|exact IH].
      destruct (beq_bytes k k') eqn:E3; [|rewrite app_nil_r; reflexivity].
      apply beq_bytes_eq in E2, E3. subst. rewrite beq_bytes_refl in E1. discriminate.
Qed.

Lemma hm_get_all_fold l : forall m k,
  hm_get_all (fold_left (fun m h => hm_append m (lower (fst h)) (snd h)) l m) k =
    hm_get_all m k ++ map snd (fields_named k l).
Proof.
  induction l as [|hd l IH]; intros m k; cbn [fold_left fields_named filter map].
  - rewrite app_nil_r. reflexivity.
  - rewrite IH, hm_get_all_append. rewrite <- app_assoc. f_equal.
    fold (fields_named k l). destruct (beq_bytes k (lower (fst hd))); reflexivity.
Qed.

(** Looking up [k] (lower case) gives the values of the fields called [k], in the order of the list. *)
Theorem hm_get_all_of_list l k : hm_get_all (hm_of_list l) k = map snd (fields_named k l).
Proof. unfold hm_of_list. rewrite hm_get_all_fold. reflexivity. Qed.

Corollary hm_get_of_list l k : hm_get (hm_of_list l) k = hd_error (map snd (fields_named k l)).
Proof. unfold hm_get. rewrite hm_get_all_of_list. reflexivity. Qed.

(** ** Iteration: a permutation of the list ... *)

Lemma hm_iter_cons e m : hm_iter (e :: m) = map (fun v => (fst e, v)) (snd e) ++ hm_iter m.
Proof. reflexivity. Qed.

Lemma hm_iter_append_perm m k v : Permutation (hm_iter (hm_append m k v)) (hm_iter m ++ [(k, v)]).
Proof.
  induction m as [|[k' vs] t IH]; cbn [hm_append].
  - apply Permutation_refl.
  - destruct (beq_bytes k k') eqn:E.
    + apply beq_bytes_eq in E. subst k'. rewrite !hm_iter_cons. cbn [fst snd].
      rewrite map_app. cbn [map]. rewrite <- !app_assoc. apply Permutation_app_head.
      apply Permutation_app_comm.
    + rewrite !hm_iter_cons. cbn [fst snd]. rewrite <- app_assoc. apply Permutation_app_head. exact IH.
Qed.

Lemma hm_iter_fold_perm l : forall m,
  Permutation (hm_iter (fold_left (fun m h => hm_append m (lower (fst h)) (snd h)) l m))
              (hm_iter m ++ map norm_header l).
Proof.
  induction l as [|hd l IH]; intros m; cbn [fold_left map].
  - rewrite app_nil_r. apply Permutation_refl.
  - eapply Permutation_trans; [apply IH|].
    change (hm_iter m ++ norm_header hd :: map norm_header l)
      with (hm_iter m ++ [(lower (fst hd), snd hd)] ++ map norm_header l).
    rewrite app_assoc. apply Permutation_app_tail. apply hm_iter_append_perm.
Qed.

(** Every field of the list is in the map exactly once, and nothing else is. *)
Theorem hm_iter_of_list_perm l : Permutation (hm_iter (hm_of_list l)) (map norm_header l).
Proof. unfold hm_of_list. apply (hm_iter_fold_perm l []). Qed.

(** ** ... that keeps the fields of each name in order, and the names in order of first occurrence *)

Definition keys (m : hmap) : list bytes := map fst m.

Lemma keys_append m k v :
  keys (hm_append m k v) = if existsb (beq_bytes k) (keys m) then keys m else keys m ++ [k].
Proof.
  unfold keys. induction m as [|[k' vs] t IH]; cbn [hm_append map fst existsb]; [reflexivity|].
  destruct (beq_bytes k k') eqn:E; cbn [map fst orb]; [reflexivity|].
  rewrite IH. destruct (existsb (beq_bytes k) (map fst t)); reflexivity.
Qed.

Lemma existsb_beq_in k l : existsb (beq_bytes k) l = true <-> In k l.
Proof.
  rewrite existsb_exists. split.
  - intros (x & Hx & He). apply beq_bytes_eq in He. subst. exact Hx.
  - intros H. exists k. split; [exact H|apply beq_bytes_refl].
Qed.

Lemma keys_append_nodup m k v : NoDup (keys m) -> NoDup (keys (hm_append m k v)).
Proof.
  intros H. rewrite keys_append. destruct (existsb (beq_bytes k) (keys m)) eqn:E; [exact H|].
  apply (proj2 (NoDup_Add (Add_app k (keys m) []))). rewrite app_nil_r. split; [exact H|].
  intros Hin. apply existsb_beq_in in Hin. congruence.
Qed.

Lemma keys_fold_nodup l : forall m, NoDup (keys m) ->
  NoDup (keys (fold_left (fun m h => hm_append m (lower (fst h)) (snd h)) l m)).
Proof.
  induction l as [|hd l IH]; intros m H; cbn [fold_left]; [exact H|].
  apply IH. apply keys_append_nodup. exact H.
Qed.

Theorem hm_of_list_keys_nodup l : NoDup (keys (hm_of_list l)).
Proof. apply keys_fold_nodup. constructor. Qed.

(** First occurrences of the (lower-cased) names, written directly. *)
Fixpoint first_names (seen : list bytes) (l : list header) : list bytes :=
  match l with
  | [] => []
  | h :: t => if existsb (beq_bytes (lower (fst h))) seen then first_names seen t
              else lower (fst h) :: first_names (seen ++ [lower (fst h)]) t
  end.

Lemma keys_fold l : forall m,
  keys (fold_left (fun m h => hm_append m (lower (fst h)) (snd h)) l m) = keys m ++ first_names (keys m) l.
Proof.
  induction l as [|hd l IH]; intros m; cbn [fold_left first_names].
  - rewrite app_nil_r. reflexivity.
  - rewrite IH, keys_append. destruct (existsb (beq_bytes (lower (fst hd))) (keys m)); [reflexivity|].
    rewrite <- app_assoc. reflexivity.
Qed.

(** The names of the map, in map order, are the names of the list in order of first occurrence. *)
Theorem hm_keys_of_list l : keys (hm_of_list l) = first_names [] l.
Proof. unfold hm_of_list. rewrite keys_fold. reflexivity. Qed.

(** In a map with distinct names, the entries called [k] in iteration order are the values looked up. *)
Lemma filter_map_const (k k' : bytes) (vs : list bytes) :
  filter (fun e : header => beq_bytes k (fst e)) (map (fun v => (k', v)) vs) =
    if beq_bytes k k' then map (fun v => (k', v)) vs else [].
Proof.
  induction vs as [|v vs IH]; cbn [map filter fst]; [destruct (beq_bytes k k'); reflexivity|].
  rewrite IH. destruct (beq_bytes k k'); reflexivity.
Qed.

Lemma filter_iter_absent k m :
  ~ In k (keys m) -> filter (fun e : header => beq_bytes k (fst e)) (hm_iter m) = [].
Proof.
  unfold keys. induction m as [|[k' vs] t IH]; intros H; [reflexivity|].
  rewrite hm_iter_cons, filter_app. cbn [fst snd map] in *. rewrite filter_map_const.
  destruct (beq_bytes k k') eqn:E.
  - exfalso. apply beq_bytes_eq in E. apply H. left. symmetry; exact E.
  - apply IH. intros Hin. apply H. right. exact Hin.
Qed.

Lemma filter_iter_nodup k m :
  NoDup (keys m) ->
  filter (fun e : header => beq_bytes k (fst e)) (hm_iter m) = map (fun v => (k, v)) (hm_get_all m k).
Proof.
  unfold keys, hm_get_all. induction m as [|[k' vs] t IH]; intros H; [reflexivity|].
  rewrite hm_iter_cons, filter_app. cbn [fst snd map find] in *. rewrite filter_map_const.
  inversion H as [|? ? Hn Ht]; subst.
  destruct (beq_bytes k k') eqn:E.
  - apply beq_bytes_eq in E. subst k'.
    transitivity (map (fun v : bytes => (k, v)) vs ++ []); [f_equal; exact (filter_iter_absent k t Hn)|apply app_nil_r].
  - apply IH. exact Ht.
Qed.

Lemma fields_named_norm k l :
  filter (fun e : header => beq_bytes k (fst e)) (map norm_header l) =
    map (fun v => (k, v)) (map snd (fields_named k l)).
Proof.
  unfold fields_named. induction l as [|hd l IH]; cbn [map filter norm_header fst]; [reflexivity|].
  destruct (beq_bytes k (lower (fst hd))) eqn:E; [|exact IH].
  cbn [map snd]. rewrite IH. apply beq_bytes_eq in E. unfold norm_header. rewrite <- E. reflexivity.
Qed.

(** Restricted to any one name, iterating over the map and reading the list give the same sequence:
    the reordering of [hm_iter_of_list_perm] never swaps two fields of the same name. *)
Theorem hm_iter_of_list_stable l k :
  filter (fun e : header => beq_bytes k (fst e)) (hm_iter (hm_of_list l)) =
  filter (fun e : header => beq_bytes k (fst e)) (map norm_header l).
Proof.
  rewrite (filter_iter_nodup k _ (hm_of_list_keys_nodup l)), hm_get_all_of_list, fields_named_norm.
  reflexivity.
Qed.
