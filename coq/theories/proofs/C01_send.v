(** C01 (part 3): the sending half.  Prepare, SendRequest (C02), Await100 (C11), SendBody (C03/C04):
    every allowed operation in these positions preserves [Sim]. *)
From Coq Require Import Lia ZArith List.
From Hoot Require Import Base Chunk Body Httparse Parser Url Request Call Flow Script.
From Hoot.proofs Require Import BytesLemmas Reasons C17_proofs C02_proofs C18_proofs C03_proofs C04_proofs
                                C05_spec C20_proofs C05_proofs C07_spec C11_proofs C01_defs C01_start.
Open Scope N_scope.

(* ------------------------------------------------------------------ accumulator, operation by operation *)

Definition set_head (a : acc) (b : bytes) : acc :=
  {| a_head := b; a_body := a_body a; a_resp := a_resp a; a_rbody := a_rbody a; a_term := a_term a |}.
Definition set_body (a : acc) (b : bytes) : acc :=
  {| a_head := a_head a; a_body := b; a_resp := a_resp a; a_rbody := a_rbody a; a_term := a_term a |}.
Definition set_resp (a : acc) (l : list response) : acc :=
  {| a_head := a_head a; a_body := a_body a; a_resp := l; a_rbody := a_rbody a; a_term := a_term a |}.
Definition set_rbody (a : acc) (b : bytes) : acc :=
  {| a_head := a_head a; a_body := a_body a; a_resp := a_resp a; a_rbody := b; a_term := a_term a |}.
Definition set_term (a : acc) (t : option tag) : acc :=
  {| a_head := a_head a; a_body := a_body a; a_resp := a_resp a; a_rbody := a_rbody a; a_term := t |}.

Lemma astep_write_head s a t f cap :
  s_obj s = ObFlow t f ->
  astep s a (OWriteHead cap) =
    match t with
    | TSendRequest => match send_request_write f cap with
                      | Ok (_, out) => set_head a (a_head a ++ out)
                      | _ => a
                      end
    | _ => a
    end.
Proof. intros H. unfold astep. rewrite H. destruct t; reflexivity. Qed.

Lemma astep_write_from s a t f tk cap :
  s_obj s = ObFlow t f ->
  astep s a (OWriteFrom tk cap) =
    match t with
    | TSendBody => match send_body_write f (take tk (drop (s_sent s) (s_body s))) cap with
                   | Ok (_, _, out) => set_body a (a_body a ++ out)
                   | _ => a
                   end
    | _ => a
    end.
Proof. intros H. unfold astep. rewrite H. destruct t; reflexivity. Qed.

Lemma astep_try_response s a t f :
  s_obj s = ObFlow t f ->
  astep s a OTryResponse =
    match t with
    | TRecvResponse => match recv_try_response f (window s) with
                       | Ok (_, _, Some r) => set_resp a (a_resp a ++ [r])
                       | _ => a
                       end
    | _ => a
    end.
Proof. intros H. unfold astep. rewrite H. destruct t; reflexivity. Qed.

Lemma astep_read s a t f cap :
  s_obj s = ObFlow t f ->
  astep s a (ORead cap) =
    match t with
    | TRecvBody => match recv_body_read f (window s) cap with
                   | Ok (_, _, out) => set_rbody a (a_rbody a ++ out)
                   | _ => a
                   end
    | _ => a
    end.
Proof. intros H. unfold astep. rewrite H. destruct t; reflexivity. Qed.

Lemma astep_proceed s a :
  astep s a OProceed =
    set_term a (match a_term a with
                | Some t => Some t
                | None => term_of (s_obj (fst (step s OProceed)))
                end).
Proof. unfold astep. destruct (s_obj s); reflexivity. Qed.

Lemma astep_other s a o :
  match o with
  | OWriteHead _ | OWriteFrom _ _ | OTryResponse | ORead _ | OProceed => False
  | _ => True
  end -> astep s a o = a.
Proof. intros H. destruct o; try contradiction; unfold astep; destruct (s_obj s); reflexivity. Qed.

(** The tag of a terminal position. *)
Lemma term_tag x t w rd stop s a :
  pos_ok x (PTerm t w rd stop) s a -> t = TRedirect \/ t = TCleanup.
Proof. intros (_ & _ & _ & _ & _ & [[H _]|H]); auto. Qed.

(* ------------------------------------------------------------------ SendRequest: the head writer (C02) *)

Definition hflow (x : exch) (ph : phase) : inner :=
  mk x ph (x_wm x) None false (x_hold0 x) (x_rs0 x) (x_aw0 x) None None.

Definition lift_twp (x : exch) (r : res (phase * bytes)) : res (inner * bytes) :=
  match r with
  | Ok r => Ok (hflow x (fst r), snd r)
  | Err e => Err e
  | Panic s => Panic s
  end.

Lemma srw_canon0 x cap :
  WfX x -> send_request_write (x_f0 x) cap = lift_twp x (try_write_prelude (x_a x) PLine cap).
Proof.
  intros H. pose proof (x_analyze x H) as Ha.
  unfold send_request_write, x_f0, x_hold0. cbn [i_holder i_call].
  destruct (x_due x) eqn:Ed.
  - cbn [c_phase x_c0 is_body]. unfold call_write_body. rewrite Ha. cbn [bind].
    change (c_phase (x_ca x)) with PLine. cbn [is_prelude].
    change (c_req (x_ca x)) with (x_a x).
    destruct (try_write_prelude (x_a x) PLine cap) as [[p' out]| |]; cbn [bind lift_twp fst snd]; try reflexivity.
    unfold hflow, mk, set_call, x_hold0. rewrite Ed. reflexivity.
  - unfold call_write_nobody. rewrite Ha. cbn [bind].
    change (c_phase (x_ca x)) with PLine. change (c_req (x_ca x)) with (x_a x).
    destruct (try_write_prelude (x_a x) PLine cap) as [[p' out]| |]; cbn [bind lift_twp fst snd]; try reflexivity.
    unfold hflow, mk, set_call, x_hold0. rewrite Ed. reflexivity.
Qed.

Lemma analyze_cl x p w rd stop : analyze_request (cl x p w rd stop) = Ok (cl x p w rd stop).
Proof. reflexivity. Qed.

Lemma twp_body a cap : try_write_prelude a PBody cap = Ok (PBody, []).
Proof. reflexivity. Qed.

Lemma srw_canonA x ph cap :
  wf_phase (len (am_headers (x_a x))) ph ->
  send_request_write (hflow x ph) cap = lift_twp x (try_write_prelude (x_a x) ph cap).
Proof.
  intros Hw. unfold send_request_write, hflow, mk, x_hold0. cbn [i_holder i_call].
  destruct (x_due x) eqn:Ed.
  - change (c_phase (cl x ph (x_wm x) None false)) with ph.
    destruct ph as [|i| | |]; cbn [wf_phase] in Hw; try contradiction; cbn [is_body].
    + unfold call_write_body. rewrite analyze_cl. cbn [bind].
      change (c_phase (cl x PLine (x_wm x) None false)) with PLine. cbn [is_prelude].
      change (c_req (cl x PLine (x_wm x) None false)) with (x_a x).
      destruct (try_write_prelude (x_a x) PLine cap) as [[p' out]| |]; cbn [bind lift_twp fst snd]; try reflexivity.
      unfold hflow, mk, set_call, x_hold0. rewrite Ed. reflexivity.
    + unfold call_write_body. rewrite analyze_cl. cbn [bind].
      change (c_phase (cl x (PHeaders i) (x_wm x) None false)) with (PHeaders i). cbn [is_prelude].
      change (c_req (cl x (PHeaders i) (x_wm x) None false)) with (x_a x).
      destruct (try_write_prelude (x_a x) (PHeaders i) cap) as [[p' out]| |]; cbn [bind lift_twp fst snd]; try reflexivity.
      unfold hflow, mk, set_call, x_hold0. rewrite Ed. reflexivity.
    + rewrite twp_body. cbn [lift_twp fst snd]. unfold hflow, mk, x_hold0. rewrite Ed. reflexivity.
  - unfold call_write_nobody. rewrite analyze_cl. cbn [bind].
    change (c_phase (cl x ph (x_wm x) None false)) with ph.
    change (c_req (cl x ph (x_wm x) None false)) with (x_a x).
    destruct (try_write_prelude (x_a x) ph cap) as [[p' out]| |]; cbn [bind lift_twp fst snd]; try reflexivity.
    unfold hflow, mk, set_call, x_hold0. rewrite Ed. reflexivity.
Qed.

Lemma concat_take_add (L : list bytes) k j :
  concat (take (k + j) L) = concat (take k L) ++ concat (take j (drop k L)).
Proof. rewrite take_add, concat_app. reflexivity. Qed.

(** One call of the head writer on the analysed request, in the terms of the invariant. *)
Lemma twp_core x ph cap :
  WfX x -> wf_phase (len (am_headers (x_a x))) ph ->
  try_write_prelude (x_a x) ph cap = Err OutputOverflow \/
  exists ph' out,
    try_write_prelude (x_a x) ph cap = Ok (ph', out) /\
    wf_phase (len (am_headers (x_a x))) ph' /\
    concat (take (k_of (len (x_lines x)) ph') (x_lines x)) =
      concat (take (k_of (len (x_lines x)) ph) (x_lines x)) ++ out.
Proof.
  intros HW Hwf.
  pose proof (x_headers_ne x HW) as Hne. pose proof (x_lines_len x HW) as Hn.
  rewrite (twp_spec (x_a x) ph cap Hne Hwf). cbv zeta. fold (x_lines x).
  set (n := len (x_lines x)) in *. set (k := k_of n ph) in *.
  set (j := greedy (drop k (x_lines x)) cap).
  assert (Hk : k <= n).
  { apply k_of_le; [|lia]. replace (n - 1) with (len (am_headers (x_a x))) by lia. exact Hwf. }
  assert (Hj : k + j <= n).
  { pose proof (greedy_le (drop k (x_lines x)) cap) as G. fold j in G. rewrite len_drop in G. fold n in G. lia. }
  destruct ((j =? 0) && (k <? n)); [left; reflexivity|right].
  exists (phase_of n (k + j)), (concat (take j (drop k (x_lines x)))).
  split; [reflexivity|]. split.
  - replace (len (am_headers (x_a x))) with (n - 1) by lia. apply phase_of_wf; lia.
  - rewrite k_of_phase_of by lia. apply concat_take_add.
Qed.

Lemma pres_write_head_0 x s a cap :
  WfX x -> Base x s -> s_obj s = ObFlow TSendRequest (x_f0 x) -> pos_ok x PHead0 s a ->
  Sim x (fst (step s (OWriteHead cap))) (astep s a (OWriteHead cap)).
Proof.
  intros HW HB Hobj (Hh & Hbn & Hrn & He).
  rewrite (step_write_head s _ _ cap Hobj), (astep_write_head s a _ _ cap Hobj).
  rewrite (srw_canon0 x cap HW).
  destruct (twp_core x PLine cap HW I) as [E|(ph' & out & E & Hwf' & Hcat)]; rewrite E; cbn [lift_twp upd fst snd].
  - exists PHead0. split; [exact Hobj|]. split; [exact HB|]. cbn [pos_ok]. auto.
  - exists (PHeadA ph'). split; [reflexivity|]. split; [apply (base_ext x s); auto|].
    cbn [pos_ok]. split; [exact Hwf'|]. split.
    + cbn [set_head a_head]. rewrite Hcat, Hh. cbn [k_of]. rewrite take_0. reflexivity.
    + auto.
Qed.

Lemma pres_write_head_A x s a ph cap :
  WfX x -> Base x s -> s_obj s = ObFlow TSendRequest (hflow x ph) -> pos_ok x (PHeadA ph) s a ->
  Sim x (fst (step s (OWriteHead cap))) (astep s a (OWriteHead cap)).
Proof.
  intros HW HB Hobj (Hwf & Hh & Hbn & Hrn & He).
  rewrite (step_write_head s _ _ cap Hobj), (astep_write_head s a _ _ cap Hobj).
  rewrite (srw_canonA x ph cap Hwf).
  destruct (twp_core x ph cap HW Hwf) as [E|(ph' & out & E & Hwf' & Hcat)]; rewrite E; cbn [lift_twp upd fst snd].
  - exists (PHeadA ph). split; [exact Hobj|]. split; [exact HB|]. cbn [pos_ok]. auto.
  - exists (PHeadA ph'). split; [reflexivity|]. split; [apply (base_ext x s); auto|].
    cbn [pos_ok]. split; [exact Hwf'|]. split.
    + cbn [set_head a_head]. rewrite Hcat, Hh. reflexivity.
    + auto.
Qed.

(** [OWriteHead] in every position. *)
Lemma pres_write_head x s a cap :
  WfX x -> Sim x s a -> Sim x (fst (step s (OWriteHead cap))) (astep s a (OWriteHead cap)).
Proof.
  intros HW (p & Hobj & HB & Hok).
  destruct p as [| |ph|c|c w|c w|w|w rd stop|t w rd stop]; cbn [flow_of fst snd] in Hobj;
    try (rewrite (step_write_head s _ _ cap Hobj), (astep_write_head s a _ _ cap Hobj);
         cbn [fst]; match type of Hok with pos_ok _ ?p _ _ => exists p end;
         split; [exact Hobj|split; [exact HB|exact Hok]]).
  - apply pres_write_head_0; assumption.
  - apply (pres_write_head_A x s a ph cap); assumption.
  - destruct (term_tag _ _ _ _ _ _ _ Hok) as [-> | ->];
      rewrite (step_write_head s _ _ cap Hobj), (astep_write_head s a _ _ cap Hobj);
      cbn [fst]; match type of Hok with pos_ok _ ?p _ _ => exists p end;
      (split; [exact Hobj|split; [exact HB|exact Hok]]).
Qed.

(* ------------------------------------------------------------------ proceed while sending *)

Lemma set_term_same a : set_term a (a_term a) = a.
Proof. destruct a; reflexivity. Qed.

Lemma aw_at_false x : aw_at x false = x_aw0 x.
Proof. unfold aw_at. apply Bool.andb_true_r. Qed.

Lemma proceed_fresh x : send_request_proceed (x_f0 x) = Ok None.
Proof.
  unfold send_request_proceed, send_request_can_proceed, x_f0, x_hold0. cbn [i_holder i_call].
  destruct (x_due x); reflexivity.
Qed.

Lemma proceed_head_incomplete x ph :
  wf_phase (len (am_headers (x_a x))) ph -> ph <> PBody -> send_request_proceed (hflow x ph) = Ok None.
Proof.
  intros Hw Hn. unfold send_request_proceed, send_request_can_proceed, hflow, mk, x_hold0. cbn [i_holder i_call].
  destruct ph; cbn [wf_phase] in Hw; try contradiction; try congruence; destruct (x_due x); reflexivity.
Qed.

Lemma proceed_head_complete x :
  WfX x ->
  send_request_proceed (hflow x PBody) =
    Ok (Some (if x_due x then if x_aw0 x then flow_of x (PAwait false) else flow_of x (PSend false (x_wm x))
              else flow_of x (PResp false (x_wm x)))).
Proof.
  intros HW. unfold send_request_proceed, send_request_can_proceed, hflow, mk, x_hold0.
  cbn [i_holder i_call i_should_send_body i_await_100].
  destruct (x_due x) eqn:Ed.
  - cbn [c_phase cl is_body bind negb].
    destruct (x_aw0 x) eqn:Ea.
    + cbn [flow_of]. unfold mk. rewrite aw_at_false, Ea, Ed. reflexivity.
    + rewrite analyze_cl. cbn [bind flow_of]. unfold mk, set_call. rewrite aw_at_false, Ea, Ed. reflexivity.
  - cbn [c_phase cl is_prelude bind negb].
    unfold into_receive. cbn [c_writer cl]. rewrite (x_wm_nodue x HW Ed). cbn [w_ended new_none].
    cbn [flow_of]. unfold mk, set_call_holder, set_phase, cl. rewrite aw_at_false, Ed.
    reflexivity.
Qed.

Lemma await_proceed_canon x c :
  x_due x = true ->
  await_100_proceed (snd (flow_of x (PAwait c))) = Ok (flow_of x (PSend c (x_wm x))).
Proof.
  intros Hd. cbn [flow_of snd]. unfold await_100_proceed, mk. cbn [i_should_send_body i_call].
  rewrite Hd, analyze_cl. reflexivity.
Qed.

Lemma send_body_proceed_canon x c w :
  send_body_proceed (snd (flow_of x (PSend c w))) =
    if w_ended w then Ok (Some (flow_of x (PResp c w))) else Ok None.
Proof.
  cbn [flow_of snd]. unfold send_body_proceed, send_body_can_proceed, as_with_body, mk.
  cbn [i_holder i_call bind c_writer cl]. destruct (w_ended w) eqn:Ew; cbn [negb]; [|reflexivity].
  unfold into_receive. cbn [c_writer cl]. rewrite Ew. reflexivity.
Qed.

(** The writer relation at the start of the body. *)
Lemma writer_rel_start x : WfX x -> x_due x = true -> WriterRel x (x_wm x) 0 [].
Proof.
  intros HW Hd. unfold WriterRel. split; [lia|].
  pose proof (x_wm_due x Hd) as Hm.
  destruct (w_mode (x_wm x)) as [|n|] eqn:Em; [congruence| |].
  - rewrite (x_wm_sized x n Em). cbn [w_ended w_mode new_sized]. split; [discriminate|].
    destruct HW as (_ & _ & _ & _ & Hs & _). rewrite (Hs n Em). split; [f_equal; lia|]. rewrite take_0. reflexivity.
  - rewrite (x_wm_chunked x Em). cbn [w_ended w_mode new_chunked]. split; [discriminate|].
    split; [reflexivity|]. exists []. split; [constructor|]. rewrite take_0. split; reflexivity.
Qed.

(** A finished writer: the whole payload is out, in the form the mode prescribes. *)
Lemma writer_rel_done x w sent out :
  WriterRel x w sent out -> w_ended w = true -> sent = len (x_body x) /\ body_final x out.
Proof.
  intros (Hle & He & Hm) Hw. specialize (He Hw). split; [exact He|]. unfold body_final.
  destruct (w_mode (x_wm x)) as [|n|]; [contradiction| |].
  - destruct Hm as [_ ->]. subst sent. apply take_all. lia.
  - destruct Hm as (_ & cs & Hc & Hcat & Ho). rewrite Hw in Ho. exists cs. subst sent.
    rewrite take_all in Hcat by lia. auto.
Qed.

Ltac keep_pos Hobj HB Hok :=
  match type of Hok with pos_ok _ ?p _ _ => exists p end;
  split; [exact Hobj|split; [exact HB|exact Hok]].

Lemma pres_proceed_send x s a p :
  WfX x -> s_obj s = ObFlow (fst (flow_of x p)) (snd (flow_of x p)) -> Base x s -> pos_ok x p s a ->
  match p with PPrep | PHead0 | PHeadA _ | PAwait _ | PSend _ _ => True | _ => False end ->
  Sim x (fst (step s OProceed)) (astep s a OProceed).
Proof.
  intros HW Hobj HB Hok Hp. rewrite astep_proceed. rewrite (step_proceed s _ _ Hobj).
  destruct p as [| |ph|c|c w|c w|w|w rd stop|t w rd stop]; try contradiction; cbn [flow_of fst snd] in *.
  - (* Prepare *)
    destruct Hok as (Hh & Hbn & Hrn & He). pose proof Hrn as (_ & _ & Ht & _). rewrite Ht.
    cbn [do_proceed fst with_flow with_obj s_obj term_of]. rewrite <- Ht, set_term_same.
    exists PHead0. split; [reflexivity|]. split; [apply (base_ext x s); auto|]. cbn [pos_ok]. auto.
  - (* fresh SendRequest: not ready *)
    destruct Hok as (Hh & Hbn & Hrn & He). pose proof Hrn as (_ & _ & Ht & _). rewrite Ht.
    cbn [do_proceed]. rewrite proceed_fresh. cbn [fst]. rewrite Hobj. cbn [term_of]. rewrite <- Ht, set_term_same.
    exists PHead0. split; [exact Hobj|]. split; [exact HB|]. cbn [pos_ok]. auto.
  - (* SendRequest, analysed *)
    destruct Hok as (Hwf & Hh & Hbn & Hrn & He). pose proof Hrn as (Hr1 & Hr2 & Ht & Hc & Hc100). rewrite Ht.
    cbn [do_proceed]. fold (hflow x ph).
    assert (Hdec : ph = PBody \/ ph <> PBody) by (destruct ph; auto; right; discriminate).
    destruct Hdec as [-> |Hnb].
    + rewrite (proceed_head_complete x HW).
      assert (Hhd : HeadDone x a).
      { unfold HeadDone. rewrite Hh. cbn [k_of]. rewrite take_all by lia. reflexivity. }
      destruct (x_due x) eqn:Ed; [destruct (x_aw0 x) eqn:Ea|].
      * cbn [fst flow_of with_flow with_obj s_obj term_of]. rewrite <- Ht, set_term_same.
        exists (PAwait false). split; [reflexivity|]. split; [apply (base_ext x s); auto|].
        cbn [pos_ok]. auto 10.
      * cbn [fst flow_of with_flow with_obj s_obj term_of]. rewrite <- Ht, set_term_same.
        exists (PSend false (x_wm x)). split; [reflexivity|]. split; [apply (base_ext x s); auto|].
        cbn [pos_ok]. destruct Hbn as [Hs Hb]. split; [exact Hhd|]. split.
        { cbn [with_flow with_obj s_sent]. rewrite Hs, Hb. apply writer_rel_start; assumption. }
        auto.
      * cbn [fst flow_of with_flow with_obj s_obj term_of]. rewrite <- Ht, set_term_same.
        exists (PResp false (x_wm x)). split; [reflexivity|]. split; [apply (base_ext x s); auto|].
        cbn [pos_ok]. split; [exact Hhd|]. split; [|exact Hrn].
        destruct Hbn as [Hs Hb]. pose proof (x_wm_nodue x HW Ed) as Hwm.
        destruct HW as (_ & _ & _ & Hnb & _). specialize (Hnb Ed).
        split; [cbn [with_flow with_obj s_sent]; rewrite Hs, Hnb; reflexivity|].
        unfold body_final. rewrite Hb, Hwm. reflexivity.
    + rewrite (proceed_head_incomplete x ph Hwf Hnb). cbn [fst]. rewrite Hobj. cbn [term_of].
      rewrite <- Ht, set_term_same.
      exists (PHeadA ph). split; [exact Hobj|]. split; [exact HB|]. cbn [pos_ok]. auto.
  - (* Await100 *)
    destruct Hok as (Hhd & Hbn & Hrn & He & Hd & Ha). pose proof Hrn as (_ & _ & Ht & _). rewrite Ht.
    cbn [do_proceed].
    change (mk x PBody (x_wm x) None false HWithBody (x_rs0 x) (aw_at x c) None None)
      with (snd (flow_of x (PAwait c))).
    rewrite (await_proceed_canon x c Hd). cbn [bind flow_of fst with_flow with_obj s_obj term_of].
    rewrite <- Ht, set_term_same.
    exists (PSend c (x_wm x)). split; [reflexivity|]. split; [apply (base_ext x s); auto|].
    cbn [pos_ok]. destruct Hbn as [Hs Hb]. split; [exact Hhd|]. split.
    { cbn [with_flow with_obj s_sent]. rewrite Hs, Hb. apply writer_rel_start; assumption. }
    auto.
  - (* SendBody *)
    destruct Hok as (Hhd & Hwr & Hrn & He & Hd). pose proof Hrn as (_ & _ & Ht & _). rewrite Ht.
    cbn [do_proceed].
    change (mk x PBody w None false HWithBody (x_rs0 x) (aw_at x c) None None)
      with (snd (flow_of x (PSend c w))).
    rewrite (send_body_proceed_canon x c w).
    destruct (w_ended w) eqn:Ew.
    + cbn [flow_of fst with_flow with_obj s_obj term_of]. rewrite <- Ht, set_term_same.
      exists (PResp c w). split; [reflexivity|]. split; [apply (base_ext x s); auto|].
      cbn [pos_ok]. split; [exact Hhd|]. split; [|exact Hrn].
      exact (writer_rel_done x w _ _ Hwr Ew).
    + cbn [fst]. rewrite Hobj. cbn [term_of]. rewrite <- Ht, set_term_same.
      exists (PSend c w). split; [exact Hobj|]. split; [exact HB|]. cbn [pos_ok]. auto.
Qed.

(* ------------------------------------------------------------------ Await100 (C11) *)

Lemma try100_nil f : try_read_100 f [] = (f, Ok 0).
Proof.
  unfold try_read_100.
  assert (E : try_parse_response 0 [] = Ok None) by (vm_compute; reflexivity).
  rewrite E. reflexivity.
Qed.

Lemma bare_render h : bare h -> render_response_head h = render_status_line h ++ CRLF.
Proof. unfold bare, render_response_head. intros ->. reflexivity. Qed.

Lemma bare_decision h : bare h -> decision_point h = len (render_response_head h).
Proof.
  intros Hb. rewrite (bare_render h Hb). unfold decision_point, first_line. unfold bare in Hb. rewrite Hb.
  rewrite len_app. reflexivity.
Qed.

(** The window while awaiting 100: a prefix of the interim head (causality). *)
Lemma window_early x s (c : bool) :
  Base x s -> Early x s -> s_consumed s = x_off x + (if c then len (x_h100 x) else 0) ->
  window s = if c then [] else take (s_arrived s - x_off x) (x_h100 x).
Proof.
  intros (Hs & _ & _) He Hc. unfold window, Early in *. rewrite Hs, Hc. destruct c.
  - replace (s_arrived s - (x_off x + len (x_h100 x))) with 0 by lia. apply take_0.
  - rewrite N.add_0_r. unfold x_stream, x_off. rewrite drop_app_exact. apply take_app_le.
    unfold x_off in He. lia.
Qed.

Lemma try100_await x (c : bool) n :
  WfX x -> x_due x = true -> n <= len (x_h100 x) ->
  let f := snd (flow_of x (PAwait c)) in
  try_read_100 f (if c then [] else take n (x_h100 x)) =
    if negb c && (n =? len (x_h100 x)) && negb (len (x_h100 x) =? 0)
    then (snd (flow_of x (PAwait true)), Ok (len (x_h100 x)))
    else (f, Ok 0).
Proof.
  intros HW Hd Hn f. destruct c; [apply try100_nil|]. cbn [negb andb].
  destruct HW as (_ & _ & _ & _ & _ & H100 & _).
  destruct H100 as [E|(Ha & h1 & Hwf & Hst & Hb & E)].
  - rewrite E in *. cbn [len] in *. rewrite take_nil. rewrite Bool.andb_false_r. apply try100_nil.
  - destruct (N.eqb_spec n (len (x_h100 x))) as [En|En].
    + assert (Hpos : (len (x_h100 x) =? 0) = false).
      { apply N.eqb_neq. rewrite E, (bare_render h1 Hb), len_app. cbn [len CRLF]. lia. }
      rewrite Hpos. cbn [negb andb]. subst n. rewrite take_all by lia.
      rewrite E. rewrite <- (app_nil_r (render_response_head h1)) at 1.
      rewrite (try100_continue f h1 [] Hwf Hst Hb); [|exact Hd].
      f_equal. subst f. cbn [flow_of snd]. unfold set_await, mk, aw_at. cbn [negb].
      rewrite Bool.andb_false_r. reflexivity.
    + cbn [andb]. rewrite E. rewrite <- (app_nil_r (render_response_head h1)).
      apply try100_before_decision; [exact Hwf|]. rewrite (bare_decision h1 Hb). rewrite E in Hn, En. lia.
Qed.

Lemma pres_try100 x s a :
  WfX x -> Sim x s a -> Sim x (fst (step s OTry100)) (astep s a OTry100).
Proof.
  intros HW (p & Hobj & HB & Hok).
  assert (Ea : astep s a OTry100 = a) by (apply astep_other; exact I). rewrite Ea. clear Ea.
  destruct p as [| |ph|c|c w|c w|w|w rd stop|t w rd stop]; cbn [flow_of fst snd] in Hobj;
    try (rewrite (step_try100 s _ _ Hobj); cbn [fst]; keep_pos Hobj HB Hok).
  - (* Await100 *)
    rewrite (step_try100 s _ _ Hobj). destruct Hok as (Hhd & Hbn & Hrn & He & Hd & Ha).
    pose proof Hrn as (Hr1 & Hr2 & Ht & Hc & Hc100).
    unfold do_try100. rewrite (window_early x s c HB He Hc).
    change (mk x PBody (x_wm x) None false HWithBody (x_rs0 x) (aw_at x c) None None)
      with (snd (flow_of x (PAwait c))).
    assert (Hn : s_arrived s - x_off x <= len (x_h100 x)) by (unfold Early in He; lia).
    rewrite (try100_await x c (s_arrived s - x_off x) HW Hd Hn).
    destruct (negb c && (s_arrived s - x_off x =? len (x_h100 x)) && negb (len (x_h100 x) =? 0)) eqn:Econd.
    + apply Bool.andb_true_iff in Econd. destruct Econd as [Econd Hne].
      apply Bool.andb_true_iff in Econd. destruct Econd as [Hcf _].
      destruct c; [discriminate|]. cbn [fst].
      exists (PAwait true). split; [reflexivity|]. split; [apply (base_ext x s); auto|].
      cbn [pos_ok]. split; [exact Hhd|]. split; [exact Hbn|]. split; [|auto].
      unfold RespNone. cbn [add_consumed with_flow with_obj s_consumed]. rewrite Hc, N.add_0_r.
      repeat split; auto. intros _ E. rewrite E in Hne. discriminate.
    + cbn [fst]. exists (PAwait c). split; [reflexivity|]. split; [apply (base_ext x s); auto|].
      cbn [pos_ok]. split; [exact Hhd|]. split; [exact Hbn|]. split; [|auto].
      unfold RespNone. cbn [add_consumed with_flow with_obj s_consumed]. rewrite N.add_0_r. auto.
  - destruct (term_tag _ _ _ _ _ _ _ Hok) as [-> | ->];
      rewrite (step_try100 s _ _ Hobj); cbn [fst]; keep_pos Hobj HB Hok.
Qed.

(* ------------------------------------------------------------------ SendBody (C03 / C04) *)

Lemma send_body_write_canon x c w input cap :
  send_body_write (snd (flow_of x (PSend c w))) input cap =
    match call_write_body (cl x PBody w None false) input cap with
    | Ok (c', used, out) => Ok (set_call (snd (flow_of x (PSend c w))) c', used, out)
    | Err e => Err e
    | Panic s => Panic s
    end.
Proof.
  cbn [flow_of snd]. unfold send_body_write, as_with_body, mk. cbn [i_holder i_call bind].
  destruct (call_write_body (cl x PBody w None false) input cap) as [[[c' used] out]| |]; reflexivity.
Qed.

Lemma writer_eta (w : writer) : w = {| w_mode := w_mode w; w_ended := w_ended w |}.
Proof. destruct w; reflexivity. Qed.

Lemma take_take_drop {A} n tk sent (b : list A) :
  n <= len (take tk (drop sent b)) ->
  take sent b ++ take n (take tk (drop sent b)) = take (sent + n) b.
Proof.
  intros Hn. rewrite len_take in Hn. rewrite take_take. replace (N.min n tk) with n by lia.
  symmetry. apply take_add.
Qed.

(** One body write with the next [tk] payload bytes as input. *)
Lemma body_write_step x c w sent out tk cap :
  WfX x -> WriterRel x w sent out -> (1 <= tk \/ sent = len (x_body x)) ->
  let input := take tk (drop sent (x_body x)) in
  let f := snd (flow_of x (PSend c w)) in
  (exists e, send_body_write f input cap = Err e) \/
  (exists w' used o,
     send_body_write f input cap = Ok (snd (flow_of x (PSend c w')), used, o) /\
     WriterRel x w' (sent + used) (out ++ o)).
Proof.
  intros HW (Hle & Hend & Hm) Htk input f. subst f. rewrite send_body_write_canon.
  assert (Hlin : len input <= len (x_body x) - sent).
  { unfold input. rewrite len_take, len_drop. lia. }
  destruct (w_mode (x_wm x)) as [|n|] eqn:Em; [contradiction| |].
  - (* sized: C04 *)
    destruct Hm as [Hw Ho]. set (lft := len (x_body x) - sent) in *.
    assert (Hsb : sized_body (cl x PBody w None false) lft (w_ended w)).
    { split; [reflexivity|]. split; [reflexivity|]. cbn [c_writer cl]. rewrite (writer_eta w) at 1.
      rewrite Hw. reflexivity. }
    rewrite (write_sized _ _ _ input cap Hsb).
    destruct (nonempty input && w_ended w); [left; eexists; reflexivity|].
    destruct (N.ltb_spec lft (len input)) as [Hlt|_]; [lia|]. cbv zeta.
    set (n' := N.min (N.min cap (len input)) lft).
    right. exists {| w_mode := SSized (lft - n'); w_ended := if lft - n' =? 0 then true else w_ended w |}, n', (take n' input).
    split; [reflexivity|].
    unfold WriterRel. rewrite Em. cbn [w_mode w_ended].
    split; [unfold n', lft in *; lia|]. split.
    + destruct (N.eqb_spec (lft - n') 0) as [E|E]; [unfold lft, n' in *; lia|].
      intros He. specialize (Hend He). unfold lft, n' in *. lia.
    + split; [f_equal; unfold lft, n'; lia|]. rewrite Ho. apply take_take_drop. fold input. unfold n'. lia.
  - (* chunked: C03 *)
    destruct Hm as (Hw & cs & Hcs & Hcat & Ho).
    assert (Hcb : chunked_body (cl x PBody w None false) (w_ended w)).
    { split; [reflexivity|]. split; [reflexivity|]. cbn [c_writer cl]. rewrite (writer_eta w) at 1.
      rewrite Hw. reflexivity. }
    rewrite (call_chunked_eq _ _ input cap Hcb).
    destruct input as [|b0 t0] eqn:Ei.
    + (* the finishing write: the payload is used up *)
      assert (Hall : sent = len (x_body x)).
      { destruct Htk as [Ht|Ht]; [|exact Ht].
        assert (Hz : len input = 0) by (rewrite Ei; reflexivity).
        unfold input in Hz. rewrite len_take, len_drop in Hz. lia. }
      destruct (negb (w_ended w) && (len TERM <=? cap)) eqn:Ec.
      * right. exists ended_writer, 0, TERM. split; [reflexivity|].
        apply Bool.andb_true_iff in Ec. destruct Ec as [Ec _]. apply Bool.negb_true_iff in Ec.
        unfold WriterRel. rewrite Em. cbn [w_mode w_ended ended_writer]. rewrite N.add_0_r.
        split; [exact Hle|]. split; [intros _; exact Hall|]. split; [reflexivity|].
        exists cs. split; [exact Hcs|]. split; [exact Hcat|]. rewrite Ho, Ec, app_nil_r. reflexivity.
      * right. exists w, 0, []. split.
        { reflexivity. }
        unfold WriterRel. rewrite Em, N.add_0_r, app_nil_r.
        split; [exact Hle|]. split; [exact Hend|]. split; [exact Hw|]. exists cs. auto.
    + destruct (w_ended w) eqn:Ew; [left; eexists; reflexivity|]. cbv zeta.
      destruct (chunk_loop_shape (S (List.length (b0 :: t0))) (b0 :: t0) cap 0 []) as (n' & cs2 & E & Hn' & Hcs2 & Hcat2).
      rewrite E. cbn [fst snd app]. rewrite N.add_0_l.
      right. exists w, n', (enc_chunks cs2). split.
      { reflexivity. }
      unfold WriterRel. rewrite Em, Ew.
      assert (Hn2 : n' <= len input) by (rewrite Ei; exact Hn').
      split; [lia|]. split; [discriminate|]. split; [exact Hw|].
      exists (cs ++ cs2). split; [apply chunks_ok_app; assumption|]. split.
      * rewrite concat_app, Hcat, Hcat2, <- Ei. apply take_take_drop. exact Hn2.
      * rewrite Ho, enc_chunks_app, !app_nil_r. reflexivity.
Qed.

Lemma pres_write_from x s a tk cap :
  WfX x -> Sim x s a -> allowed x s (OWriteFrom tk cap) ->
  Sim x (fst (step s (OWriteFrom tk cap))) (astep s a (OWriteFrom tk cap)).
Proof.
  intros HW (p & Hobj & HB & Hok) (_ & Hal). rewrite step_write_from.
  rewrite (astep_write_from s a _ _ tk cap Hobj). unfold do_write_body. rewrite Hobj.
  destruct p as [| |ph|c|c w|c w|w|w rd stop|t w rd stop]; cbn [flow_of fst snd] in *;
    try (cbn [fst]; keep_pos Hobj HB Hok).
  - (* SendBody *)
    destruct Hok as (Hhd & Hwr & Hrn & He & Hd). destruct HB as (Hst & Hbd & Har).
    rewrite Hbd in *.
    change (mk x PBody w None false HWithBody (x_rs0 x) (aw_at x c) None None)
      with (snd (flow_of x (PSend c w))).
    destruct (body_write_step x c w (s_sent s) (a_body a) tk cap HW Hwr Hal)
      as [(e & E)|(w' & used & o & E & Hwr')]; rewrite E; cbn [fst].
    + exists (PSend c w). split; [exact Hobj|]. split; [split; auto|]. cbn [pos_ok]. auto.
    + exists (PSend c w'). split; [reflexivity|]. split; [split; auto|]. cbn [pos_ok]. auto.
  - destruct (term_tag _ _ _ _ _ _ _ Hok) as [-> | ->]; cbn [fst]; keep_pos Hobj HB Hok.
Qed.
