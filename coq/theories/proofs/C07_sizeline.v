(** C07, part 1: arrival cuts versus [find_crlf], and the size-line parser of [read_size]. *)
From Coq Require Import Lia ZArith.
From Hoot Require Import Base Chunk.
From Hoot.proofs Require Import BytesLemmas C07_spec.
Open Scope N_scope.

(** ** find_crlf on a window *)

Lemma find_crlf_aux_window line : forall k i more,
  cr_free line ->
  find_crlf_aux (take k (line ++ CRLF ++ more)) i =
    if len line + 2 <=? k then Some (i + len line) else None.
Proof.
  induction line as [|c l IH]; intros k i more Hcr.
  - cbn [app len CRLF]. rewrite N.add_0_r.
    destruct (N.eq_dec k 0) as [->|Hk0]; [rewrite take_0; reflexivity|].
    rewrite take_cons_pos by lia.
    destruct (N.eq_dec (k - 1) 0) as [Hk1|Hk1].
    + rewrite Hk1, take_0. cbn [find_crlf_aux]. cbn.
      destruct (N.leb_spec 2 k); [lia|reflexivity].
    + rewrite take_cons_pos by lia. cbn [find_crlf_aux]. cbn.
      destruct (N.leb_spec 2 k); [reflexivity|lia].
  - inversion Hcr as [|? ? Hc Hl]; subst.
    rewrite len_cons. cbn [app].
    destruct (N.eq_dec k 0) as [->|Hk0].
    + rewrite take_0. cbn [find_crlf_aux]. destruct (N.leb_spec (len l + 1 + 2) 0); [lia|reflexivity].
    + rewrite take_cons_pos by lia. cbn [find_crlf_aux].
      destruct (N.eqb_spec c 13) as [->|_]; [congruence|].
      rewrite IH by assumption.
      destruct (N.leb_spec (len l + 2) (k - 1)); destruct (N.leb_spec (len l + 1 + 2) k); try lia.
      * f_equal. lia.
      * reflexivity.
Qed.

(** The one fact about arrival cuts everything else rests on. *)
Lemma find_crlf_window line k more :
  cr_free line ->
  find_crlf (take k (line ++ CRLF ++ more)) = if len line + 2 <=? k then Some (len line) else None.
Proof.
  intros H. unfold find_crlf. rewrite find_crlf_aux_window by assumption. rewrite N.add_0_l. reflexivity.
Qed.

(** ** position *)

Lemma position_hit {A} (p : A -> bool) (a : list A) : forall n x b,
  (forall y, In y a -> p y = false) -> p x = true -> len a < n ->
  position p (take n (a ++ x :: b)) = Some (len a).
Proof.
  induction a as [|y a IH]; intros n x b Ha Hx Hn.
  - cbn [app len] in *. rewrite take_cons_pos by lia. cbn [position]. rewrite Hx. reflexivity.
  - rewrite len_cons in *. cbn [app]. rewrite take_cons_pos by lia. cbn [position].
    rewrite (Ha y) by (left; reflexivity).
    rewrite IH; [|intros; apply Ha; right; assumption|assumption|lia].
    cbn [option_map]. f_equal. lia.
Qed.

Lemma position_miss {A} (p : A -> bool) (a : list A) : forall n b,
  (forall y, In y a -> p y = false) ->
  match position p (take n (a ++ b)) with Some m => len a <= m | None => True end.
Proof.
  induction a as [|y a IH]; intros n b Ha.
  - cbn [app len]. destruct (position p (take n b)); [lia|exact I].
  - rewrite len_cons. cbn [app].
    destruct (N.eq_dec n 0) as [->|Hn]; [rewrite take_0; exact I|].
    rewrite take_cons_pos by lia. cbn [position].
    rewrite (Ha y) by (left; reflexivity).
    specialize (IH (n - 1) b (fun z Hz => Ha z (or_intror Hz))).
    destruct (position p (take (n - 1) (a ++ b))); cbn [option_map]; [lia|exact I].
Qed.

(** ** hex digits *)

Lemma hexval_is_hex b : is_hex b = true -> hexval b = Some (hex_digit_val b).
Proof.
  unfold is_hex, hexval, hex_digit_val, is_digit.
  destruct (N.leb_spec 48 b); destruct (N.leb_spec b 57); destruct (N.leb_spec 65 b);
    destruct (N.leb_spec b 70); destruct (N.leb_spec 97 b); destruct (N.leb_spec b 102);
    cbn [andb orb]; intros Hx; try discriminate Hx; try reflexivity; try lia.
Qed.

Lemma is_hex_range b : is_hex b = true -> 48 <= b /\ b <= 102.
Proof.
  unfold is_hex.
  destruct (N.leb_spec 48 b); destruct (N.leb_spec b 57); destruct (N.leb_spec 65 b);
    destruct (N.leb_spec b 70); destruct (N.leb_spec 97 b); destruct (N.leb_spec b 102);
    cbn [andb orb]; intros Hx; try discriminate Hx; lia.
Qed.

Lemma is_blank_cases b : is_blank b = true -> b = 32 \/ b = 9.
Proof.
  unfold is_blank. destruct (N.eqb_spec b 32); destruct (N.eqb_spec b 9); cbn [orb]; intros Hx;
    try discriminate Hx; auto.
Qed.

Lemma hex_acc_mono s : forall acc, acc <= fold_left hex_acc s acc.
Proof.
  induction s as [|b s IH]; intros acc; cbn [fold_left]; [lia|].
  specialize (IH (hex_acc acc b)). unfold hex_acc in *. lia.
Qed.

Lemma parse_digits_hex s : forall acc,
  forallb is_hex s = true -> fold_left hex_acc s acc < U64_LIMIT ->
  parse_digits 16 hexval s acc = Some (fold_left hex_acc s acc).
Proof.
  induction s as [|b s IH]; intros acc Hh Hlim; cbn [fold_left parse_digits] in *; [reflexivity|].
  apply andb_prop in Hh. destruct Hh as [Hb Hs].
  rewrite (hexval_is_hex b Hb). cbv zeta. fold (hex_acc acc b).
  pose proof (hex_acc_mono s (hex_acc acc b)) as Hm.
  destruct (N.ltb_spec (hex_acc acc b) U64_LIMIT) as [_|Hge]; [|lia].
  apply IH; assumption.
Qed.

Lemma parse_hex_usize_ok hex :
  hex <> [] -> forallb is_hex hex = true -> hex_value hex < U64_LIMIT ->
  parse_hex_usize hex = Some (hex_value hex).
Proof.
  intros Hne Hh Hlim. destruct hex as [|h hx]; [congruence|].
  unfold parse_hex_usize.
  assert (Hh0 : is_hex h = true) by (cbn [forallb] in Hh; apply andb_prop in Hh; tauto).
  apply is_hex_range in Hh0.
  assert (Hn : h <> 43) by lia.
  assert (Hs : (let s' := match h :: hx with 43 :: t => t | _ => h :: hx end in
                match s' with [] => None | _ => parse_digits 16 hexval s' 0 end)
               = parse_digits 16 hexval (h :: hx) 0).
  { destruct h as [|p]; [reflexivity|].
    repeat (destruct p as [p|p|]; try reflexivity). congruence. }
  etransitivity; [exact Hs|]. apply parse_digits_hex; assumption.
Qed.

(** ** trim *)

Lemma hex_not_ws b : is_hex b = true -> is_ascii_ws b = false.
Proof.
  intros H. apply is_hex_range in H. unfold is_ascii_ws.
  destruct (N.leb_spec 9 b); destruct (N.leb_spec b 13); destruct (N.eqb_spec b 32); cbn [andb orb];
    try reflexivity; lia.
Qed.

Lemma blank_is_ws b : is_blank b = true -> is_ascii_ws b = true.
Proof. intros H. apply is_blank_cases in H. destruct H; subst; reflexivity. Qed.

Lemma trim_start_ws w : forall x, (forall b, In b w -> is_ascii_ws b = true) -> trim_start (w ++ x) = trim_start x.
Proof.
  induction w as [|b w IH]; intros x H; cbn [app]; [reflexivity|].
  cbn [trim_start]. rewrite (H b) by (left; reflexivity). apply IH. intros; apply H; right; assumption.
Qed.

Lemma trim_start_id s : (forall b t, s = b :: t -> is_ascii_ws b = false) -> trim_start s = s.
Proof.
  destruct s as [|b t]; intros H; [reflexivity|]. cbn [trim_start]. rewrite (H b t eq_refl). reflexivity.
Qed.

Lemma trim_hex_ws hex ws :
  hex <> [] -> forallb is_hex hex = true -> forallb is_blank ws = true -> trim (hex ++ ws) = hex.
Proof.
  intros Hne Hh Hw. rewrite forallb_forall in Hh, Hw. unfold trim, trim_end.
  assert (E1 : trim_start (hex ++ ws) = hex ++ ws).
  { apply trim_start_id. intros b t E. destruct hex as [|h hx]; [congruence|]. cbn [app] in E.
    inversion E; subst. apply hex_not_ws. apply Hh. left; reflexivity. }
  rewrite E1. rewrite rev_app_distr.
  assert (E2 : trim_start (rev ws ++ rev hex) = trim_start (rev hex)).
  { apply trim_start_ws. intros b Hb. apply blank_is_ws. apply Hw. apply in_rev. assumption. }
  rewrite E2.
  assert (E3 : trim_start (rev hex) = rev hex).
  { apply trim_start_id. intros b t E. apply hex_not_ws. apply Hh. apply in_rev. rewrite E. left; reflexivity. }
  rewrite E3. apply rev_involutive.
Qed.

(** ** The size-line parser of [read_size] on a valid line *)

Lemma forallb_app_true {A} (p : A -> bool) a b : forallb p a = true -> forallb p b = true -> forallb p (a ++ b) = true.
Proof. intros Ha Hb. rewrite forallb_app, Ha, Hb. reflexivity. Qed.

Lemma hex_below_128 b : is_hex b = true -> (b <? 128) = true.
Proof. intros H. apply is_hex_range in H. apply N.ltb_lt. lia. Qed.

Lemma blank_below_128 b : is_blank b = true -> (b <? 128) = true.
Proof. intros H. apply is_blank_cases in H. destruct H; subst; reflexivity. Qed.

Lemma forallb_impl {A} (p q : A -> bool) l : (forall x, p x = true -> q x = true) -> forallb p l = true -> forallb q l = true.
Proof. intros H Hp. rewrite forallb_forall in *. auto. Qed.

Lemma read_size_wait line k more :
  cr_free line -> k < len line + 2 ->
  read_size (take k (line ++ CRLF ++ more)) =
    Ok {| sr_st := DSize; sr_in := 0; sr_out := []; sr_more := false |}.
Proof.
  intros Hcr Hk. unfold read_size. rewrite find_crlf_window by assumption.
  destruct (N.leb_spec (len line + 2) k); [lia|reflexivity].
Qed.

Lemma no_semicolon hex ws :
  forallb is_hex hex = true -> forallb is_blank ws = true ->
  forall y, In y (hex ++ ws) -> (y =? 59) = false.
Proof.
  intros Hhex Hws y Hy. rewrite forallb_forall in Hhex, Hws.
  destruct (N.eqb_spec y 59) as [->|_]; [|reflexivity].
  apply in_app_or in Hy. destruct Hy as [Hy|Hy].
  - apply Hhex in Hy. vm_compute in Hy. discriminate Hy.
  - apply Hws in Hy. vm_compute in Hy. discriminate Hy.
Qed.

(** The raw size text cut out by [read_size] is exactly  hexdigits ++ blanks. *)
Lemma len_end_ok hex ws ext k more :
  forallb is_hex hex = true -> forallb is_blank ws = true ->
  (ext = [] \/ exists e, ext = 59 :: e) ->
  len (hex ++ ws ++ ext) <= SANITY_CHECK -> len (hex ++ ws ++ ext) + 2 <= k ->
  N.min (match position (fun c => c =? 59) (take META_WINDOW (take k ((hex ++ ws ++ ext) ++ CRLF ++ more))) with
         | Some m => m | None => SANITY_CHECK + 1 end) (len (hex ++ ws ++ ext)) = len (hex ++ ws).
Proof.
  intros Hhex Hws Hext Hsan Hk.
  pose proof (no_semicolon hex ws Hhex Hws) as H59.
  rewrite take_take.
  replace ((hex ++ ws ++ ext) ++ CRLF ++ more) with ((hex ++ ws) ++ ext ++ CRLF ++ more)
    by (rewrite <- !app_assoc; reflexivity).
  replace (len (hex ++ ws ++ ext)) with (len (hex ++ ws) + len ext) in *
    by (rewrite !len_app; lia).
  unfold SANITY_CHECK, META_WINDOW in *.
  destruct Hext as [->|(e & ->)].
  - cbn [app len] in *.
    pose proof (position_miss (fun c => c =? 59) (hex ++ ws) (N.min 100 k) (CRLF ++ more) H59) as Hm.
    destruct (position (fun c => c =? 59) (take (N.min 100 k) ((hex ++ ws) ++ CRLF ++ more))); lia.
  - cbn [app]. rewrite position_hit; [|assumption|reflexivity|rewrite len_cons in *; lia].
    lia.
Qed.

Lemma read_size_ok line n k more :
  cr_free line -> size_line line n -> len line <= SANITY_CHECK -> len line + 2 <= k ->
  read_size (take k (line ++ CRLF ++ more)) =
    Ok {| sr_st := if n =? 0 then DEnding else DChunk n; sr_in := len line + 2; sr_out := []; sr_more := true |}.
Proof.
  intros Hcr (hex & ws & ext & Hline & Hne & Hhex & Hws & Hext & Hval & Hlim) Hsan Hk.
  unfold read_size. rewrite find_crlf_window by assumption.
  destruct (N.leb_spec (len line + 2) k) as [_|?]; [|lia].
  destruct (N.ltb_spec SANITY_CHECK (len line)) as [?|_]; [lia|].
  cbv zeta. subst line.
  rewrite (len_end_ok hex ws ext k more Hhex Hws Hext Hsan Hk).
  assert (Hraw : take (len (hex ++ ws)) (take k ((hex ++ ws ++ ext) ++ CRLF ++ more)) = hex ++ ws).
  { rewrite take_take.
    replace ((hex ++ ws ++ ext) ++ CRLF ++ more) with ((hex ++ ws) ++ ext ++ CRLF ++ more)
      by (rewrite <- !app_assoc; reflexivity).
    replace (N.min (len (hex ++ ws)) k) with (len (hex ++ ws)); [apply take_app_exact|].
    rewrite !len_app in *. lia. }
  rewrite Hraw.
  assert (H128 : forallb (fun c => c <? 128) (hex ++ ws) = true).
  { apply forallb_app_true.
    - apply (forallb_impl is_hex); [apply hex_below_128|assumption].
    - apply (forallb_impl is_blank); [apply blank_below_128|assumption]. }
  rewrite H128. cbn [negb].
  rewrite trim_hex_ws by assumption.
  rewrite parse_hex_usize_ok by (try assumption; rewrite Hval; assumption).
  rewrite Hval. reflexivity.
Qed.
