(** (src/client/call.rs) [Call<WithBody>::consume_direct_write], [Call<WithBody>::write] (the part after the request analysis,
    with the prelude writing abstracted to its result) and [Call<RecvBody>::read], translated from the Rust sources on every run
    (theories/Gen2.v: [gen_call_direct_write], [gen_call_write_body], [gen_call_read]; the fields of [self.state] the function
    touches are arguments and results), agree with the hand-written model (theories/Call.v: [call_direct_write],
    [call_write_body], [call_read]).

    The three functions are thin wrappers around the body writer / body reader, for which Gen2_equiv_body.v and
    Gen2_equiv_reader_chunked.v prove the correspondence ([wr_rel], [dw_rel], [rd_rel]); the side conditions
    [sized_fits] / [limit_fits] of those theorems are inherited unchanged (see the header of Gen2_equiv_body.v).

    Proof style: unfold both wrappers, replace the generated queries by the model's with the proved equalities, take the
    callee's correspondence as a premise and destruct the callee's two results, then split every remaining conditional of
    either side (contradictory combinations are pruned by linear arithmetic) and close the leaves by computation.  No
    sub-term of the generated code is mentioned literally. *)
(** Split into Gen2_equiv_call2_write / Gen2_equiv_call2_read; this file re-exports them. *)
From Hoot.proofs Require Export Gen2_equiv_call2_write Gen2_equiv_call2_read.
