(** Part of Gen_equiv_frag (see there), the fragments C04 exports; split so that a change of one fragment disturbs only the property it belongs to. *)
From Coq Require Import NArith ZArith Bool List Lia ZifyBool ZifyN.
From Hoot Require Import Base Chunk Body Url Request Call Gen.
Open Scope N_scope.

Ltac frag := intros; cbv beta delta [gen_sized_write_n gen_chunk_to_write gen_read_limit_n gen_read_unlimit_n gen_chunk_read_n
                                      gen_size_len_end gen_write_overshoot gen_write_after_finish gen_direct_overshoot];
             repeat match goal with |- context [if ?c then _ else _] => destruct c eqn:? end; try reflexivity; lia.

Lemma gen_sized_write_n_spec a i l : gen_sized_write_n a i l = N.min (N.min a i) l.          Proof. frag. Qed.

Lemma gen_write_overshoot_spec i l : gen_write_overshoot i l = (l <? i).                      Proof. frag. Qed.

Lemma gen_direct_overshoot_spec a l : gen_direct_overshoot a l = (l <? a).                    Proof. frag. Qed.

Lemma gen_write_after_finish_spec e x : gen_write_after_finish e x = negb e && x.
Proof. destruct e, x; reflexivity. Qed.

Lemma writer_write_sized_gen w lft input cap :
  w_mode w = SSized lft ->
  exists w', writer_write w input cap = Ok (w', gen_sized_write_n cap (len input) lft,
                                            take (gen_sized_write_n cap (len input) lft) input)
             /\ w_mode w' = SSized (lft - gen_sized_write_n cap (len input) lft).
Proof.
  intros H. unfold writer_write. rewrite H. rewrite ?gen_sized_write_n_spec.
  eexists. split; [reflexivity|reflexivity].
Qed.

Lemma call_write_body_guards c c1 input cap :
  analyze_request c = Ok c1 -> is_prelude (c_phase c1) = false -> is_body (c_phase c1) = true ->
  call_write_body c input cap =
  if gen_write_after_finish (match input with [] => true | _ => false end) (w_ended (c_writer c1))
  then Err BodyContentAfterFinish
  else if match left_to_send (c_writer c1) with Some l => gen_write_overshoot (len input) l | None => false end
  then Err BodyLargerThanContentLength
  else do r <- writer_write (c_writer c1) input cap;
       let '(w, used, out) := r in Ok (set_writer c1 w, used, out).
Proof.
  intros Ha Hp Hb. unfold call_write_body. rewrite Ha. cbn [bind]. rewrite Hp, Hb.
  rewrite ?gen_write_after_finish_spec.
  replace (negb (match input with [] => true | _ => false end)) with (match input with [] => false | _ => true end)
    by (destruct input; reflexivity).
  destruct (left_to_send (c_writer c1)); [rewrite ?gen_write_overshoot_spec|]; reflexivity.
Qed.

Lemma call_direct_write_guard c amount :
  call_direct_write c amount =
  match left_to_send (c_writer c) with
  | Some l => if gen_direct_overshoot amount l then Err BodyLargerThanContentLength
              else do w <- writer_direct (c_writer c) amount; Ok (set_writer c w)
  | None => Err BodyIsChunked
  end.
Proof. unfold call_direct_write. destruct (left_to_send (c_writer c)); [rewrite ?gen_direct_overshoot_spec|]; reflexivity. Qed.

Lemma gen_sized_left_usize_spec l : l < 18446744073709551616 -> gen_sized_left_usize l = l.
Proof. intros H. unfold gen_sized_left_usize. repeat (try lia; match goal with |- context [if ?c then _ else _] => destruct c eqn:? end); lia. Qed.
