(** C15 strengthening (review 3, finding 7):
    - the method table as a literal table written from the English statement, equal to the model's selection;
    - the recorded status (and Location) survive every operation between the response head and the Redirect
      state, on both paths, so the Redirect state reports the status that was RECEIVED;
    - the only operations that produce the Redirect state are [recv_response_proceed] and [recv_body_proceed]
      on a flow whose recorded status is a 3xx other than 304 (flow level and for every Script history). *)
From Coq Require Import Lia ZArith.
From Hoot Require Import Base Chunk Body Httparse Parser Url Request Call Flow Script.
From Hoot.proofs Require Import BytesLemmas Reasons C06_proofs C15_proofs.
Open Scope N_scope.

(* ------------------------------------------------------------------ the table, from the English text *)

(** "For 307 and 308 the method is preserved and the redirect is not followed at all when the method carries
    a request body (POST, PUT, PATCH) or is DELETE" *)
Definition preserving_statuses : list N := [307; 308].
Definition table_307_308 : list (method * option method) :=
  [ (GET, Some GET); (HEAD, Some HEAD); (OPTIONS, Some OPTIONS); (TRACE, Some TRACE); (CONNECT, Some CONNECT);
    (POST, None); (PUT, None); (PATCH, None); (DELETE, None) ].

(** "for every other 3xx status HEAD stays HEAD, GET stays GET and every other method becomes GET" *)
Definition table_other_3xx : list (method * option method) :=
  [ (HEAD, Some HEAD); (GET, Some GET);
    (POST, Some GET); (PUT, Some GET); (PATCH, Some GET); (DELETE, Some GET);
    (OPTIONS, Some GET); (TRACE, Some GET); (CONNECT, Some GET) ].

Fixpoint lookup_method (m : method) (t : list (method * option method)) : option (option method) :=
  match t with
  | [] => None
  | (k, v) :: r => if method_eqb m k then Some v else lookup_method m r
  end.

(** [Some None] = not followed, [Some (Some m')] = followed with method m'; [None] would be a missing row. *)
Definition redirect_table (status : N) (m : method) : option (option method) :=
  lookup_method m (if existsb (N.eqb status) preserving_statuses then table_307_308 else table_other_3xx).

Lemma redirect_table_model status m : redirect_table status m = Some (model_new_method status m).
Proof.
  unfold redirect_table, preserving_statuses, model_new_method, is_retaining. cbn [existsb].
  rewrite orb_false_r. destruct ((status =? 307) || (status =? 308)); destruct m; reflexivity.
Qed.

Lemma redirect_table_total status m : redirect_table status m = Some (redirect_method status m).
Proof. rewrite redirect_table_model, model_new_method_table. reflexivity. Qed.

(** [as_new_flow] read straight off the table. *)
Lemma as_new_flow_table f p loc status orig target row :
  i_location f = Some loc -> is_text loc = true -> i_status f = Some status ->
  am_req (c_req (i_call f)) = Some orig ->
  u_scheme (am_eff_uri (c_req (i_call f))) <> [] ->
  resolve (am_eff_uri (c_req (i_call f))) loc = Some target ->
  redirect_table status (rq_method orig) = Some row ->
  match row with
  | None => as_new_flow f p = Ok (f, None)
  | Some nm =>
      exists f' nxt, as_new_flow f p = Ok (f', Some nxt) /\
                     am_method (c_req (i_call nxt)) = nm /\
                     am_eff_uri (c_req (i_call nxt)) = target /\
                     am_version (c_req (i_call nxt)) = rq_version orig
  end.
Proof.
  intros Hl Ht Hs Hr Hsch Hres Hrow. rewrite redirect_table_total in Hrow. inversion Hrow; subst row.
  exact (as_new_flow_method f p loc status orig target Hl Ht Hs Hr Hsch Hres).
Qed.

(* ------------------------------------------------------------------ the status survives *)

Definition same_report (f f' : inner) : Prop := i_status f' = i_status f /\ i_location f' = i_location f.

Lemma same_report_refl f : same_report f f.
Proof. split; reflexivity. Qed.

Lemma same_report_trans f g h : same_report f g -> same_report g h -> same_report f h.
Proof. intros [A B] [C D]. split; congruence. Qed.

Lemma response_proceed_keeps f t f' :
  recv_response_proceed f = Ok (Some (t, f')) -> same_report f f'.
Proof.
  unfold recv_response_proceed. intros H.
  destruct (recv_response_can_proceed f) as [[|]|e|s]; cbn [bind negb] in H; try discriminate.
  destruct (need_response_body (i_call f)).
  - match type of H with (bind ?X _ = _) => destruct X as [rs|e|s] end; cbn [bind] in H; try discriminate.
    inversion H; subst. split; reflexivity.
  - inversion H; subst. split; reflexivity.
Qed.

Lemma body_read_keeps f input cap f' n o :
  recv_body_read f input cap = Ok (f', n, o) -> same_report f f'.
Proof.
  unfold recv_body_read. intros H.
  destruct (as_recv_body f) as [c0|e|s]; cbn [bind] in H; try discriminate.
  destruct (call_read c0 input cap) as [[[c1 i1] o1]|e|s]; cbn [bind] in H; try discriminate.
  inversion H; subst. split; reflexivity.
Qed.

Lemma body_after_err_keeps f input cap : same_report f (recv_body_after_err f input cap).
Proof. unfold recv_body_after_err. destruct (i_holder f); split; reflexivity. Qed.

Lemma body_stop_keeps f b f' : recv_body_stop f b = Ok f' -> same_report f f'.
Proof.
  unfold recv_body_stop. intros H.
  destruct (as_recv_body f) as [c0|e|s]; cbn [bind] in H; try discriminate.
  inversion H; subst. split; reflexivity.
Qed.

Lemma body_proceed_same f t f' : recv_body_proceed f = Ok (Some (t, f')) -> f' = f.
Proof.
  unfold recv_body_proceed. intros H.
  destruct (recv_body_can_proceed f) as [[|]|e|s]; cbn [bind negb] in H; try discriminate.
  inversion H; reflexivity.
Qed.

Lemma status_preserved f f' :
  (exists t, recv_response_proceed f = Ok (Some (t, f'))) \/
  (exists i c n o, recv_body_read f i c = Ok (f', n, o)) \/
  (exists i c, f' = recv_body_after_err f i c) \/
  (exists b, recv_body_stop f b = Ok f') \/
  (exists t, recv_body_proceed f = Ok (Some (t, f'))) ->
  i_status f' = i_status f /\ i_location f' = i_location f.
Proof.
  intros [(t & H)|[(i & c & n & o & H)|[(i & c & H)|[(b & H)|(t & H)]]]].
  - exact (response_proceed_keeps _ _ _ H).
  - exact (body_read_keeps _ _ _ _ _ _ H).
  - subst f'. apply body_after_err_keeps.
  - exact (body_stop_keeps _ _ _ H).
  - rewrite (body_proceed_same _ _ _ H). split; reflexivity.
Qed.

(** Everything a caller can do between receiving the head and leaving RecvBody. *)
Inductive after_head : inner -> inner -> Prop :=
| ah_here f : after_head f f
| ah_proceed f t f' g : recv_response_proceed f = Ok (Some (t, f')) -> after_head f' g -> after_head f g
| ah_read f i c f' n o g : recv_body_read f i c = Ok (f', n, o) -> after_head f' g -> after_head f g
| ah_read_err f i c g : after_head (recv_body_after_err f i c) g -> after_head f g
| ah_stop f b f' g : recv_body_stop f b = Ok f' -> after_head f' g -> after_head f g
| ah_body_proceed f t f' g : recv_body_proceed f = Ok (Some (t, f')) -> after_head f' g -> after_head f g.

Lemma after_head_keeps f g : after_head f g -> same_report f g.
Proof.
  induction 1.
  - apply same_report_refl.
  - eapply same_report_trans; [eapply response_proceed_keeps; eauto|assumption].
  - eapply same_report_trans; [eapply body_read_keeps; eauto|assumption].
  - eapply same_report_trans; [apply body_after_err_keeps|eassumption].
  - eapply same_report_trans; [eapply body_stop_keeps; eauto|assumption].
  - rewrite (body_proceed_same _ _ _ H) in IHafter_head. exact IHafter_head.
Qed.

(** The Redirect state reports the status of the response head that was received, whichever way it was
    reached. *)
Lemma reports_received f0 input f used rsp g :
  recv_try_response f0 input = Ok (f, used, Some rsp) -> after_head f g ->
  i_status g = Some (rs_status rsp).
Proof.
  intros Hr Ha. destruct (after_head_keeps f g Ha) as [Hs _]. rewrite Hs.
  exact (status_recorded f0 input f used rsp Hr).
Qed.

(* ------------------------------------------------------------------ the only ways into Redirect *)

Lemma response_proceed_redirect f f' :
  recv_response_proceed f = Ok (Some (TRedirect, f')) ->
  is_redirect f' = true /\ i_status f' = i_status f /\ need_response_body (i_call f) = false.
Proof.
  intros H. destruct (response_proceed_keeps _ _ _ H) as [Hs _]. revert H.
  unfold recv_response_proceed. intros H.
  destruct (recv_response_can_proceed f) as [[|]|e|s]; cbn [bind negb] in H; try discriminate.
  destruct (need_response_body (i_call f)).
  - match type of H with (bind ?X _ = _) => destruct X as [rs|e|s] end; cbn [bind] in H; discriminate.
  - match type of H with context [is_redirect ?X] => destruct (is_redirect X) eqn:Er end; [|discriminate].
    inversion H; subst. auto.
Qed.

Lemma response_proceed_tags f t f' :
  recv_response_proceed f = Ok (Some (t, f')) ->
  t = TRecvBody \/ (t = TRedirect /\ is_redirect f' = true) \/ (t = TCleanup /\ is_redirect f' = false).
Proof.
  unfold recv_response_proceed. intros H.
  destruct (recv_response_can_proceed f) as [[|]|e|s]; cbn [bind negb] in H; try discriminate.
  destruct (need_response_body (i_call f)).
  - match type of H with (bind ?X _ = _) => destruct X as [rs|e|s] end; cbn [bind] in H; try discriminate.
    inversion H; auto.
  - match type of H with context [is_redirect ?X] => destruct (is_redirect X) eqn:Er end;
      inversion H; subst; auto.
Qed.

Lemma body_proceed_redirect f f' :
  recv_body_proceed f = Ok (Some (TRedirect, f')) -> f' = f /\ is_redirect f = true.
Proof.
  unfold recv_body_proceed. intros H.
  destruct (recv_body_can_proceed f) as [[|]|e|s]; cbn [bind negb] in H; try discriminate.
  destruct (is_redirect f) eqn:Er; [|discriminate]. inversion H; auto.
Qed.

Lemma body_proceed_tags f t f' :
  recv_body_proceed f = Ok (Some (t, f')) ->
  f' = f /\ ((t = TRedirect /\ is_redirect f = true) \/ (t = TCleanup /\ is_redirect f = false)).
Proof.
  unfold recv_body_proceed. intros H.
  destruct (recv_body_can_proceed f) as [[|]|e|s]; cbn [bind negb] in H; try discriminate.
  destruct (is_redirect f) eqn:Er; inversion H; auto.
Qed.

Lemma send_request_proceed_not_redirect f f' : send_request_proceed f <> Ok (Some (TRedirect, f')).
Proof.
  unfold send_request_proceed. intros H.
  destruct (send_request_can_proceed f) as [[|]|e|s]; cbn [bind negb] in H; try discriminate.
  destruct (i_should_send_body f).
  - destruct (i_await_100 f); [discriminate|].
    destruct (analyze_request (i_call f)); cbn [bind] in H; discriminate.
  - destruct (i_holder f); try discriminate. destruct (into_receive (i_call f)); discriminate.
Qed.

Lemma await_proceed_not_redirect f f' : await_100_proceed f <> Ok (TRedirect, f').
Proof.
  unfold await_100_proceed. intros H. destruct (i_should_send_body f).
  - destruct (analyze_request (i_call f)); cbn [bind] in H; discriminate.
  - destruct (i_holder f); discriminate.
Qed.

Lemma send_body_proceed_not_redirect f f' : send_body_proceed f <> Ok (Some (TRedirect, f')).
Proof.
  unfold send_body_proceed. intros H.
  destruct (send_body_can_proceed f) as [[|]|e|s]; cbn [bind negb] in H; try discriminate.
  destruct (into_receive (i_call f)); discriminate.
Qed.

Lemma is_redirect_status_only f g : i_status g = i_status f -> is_redirect g = is_redirect f.
Proof. unfold is_redirect. intros ->. reflexivity. Qed.

(** [as_new_flow] keeps the status of the Redirect flow it returns (the flow itself, or the flow with the
    request moved out). *)
Lemma as_new_flow_keeps f p f' n : as_new_flow f p = Ok (f', n) -> i_status f' = i_status f.
Proof.
  unfold as_new_flow. intros H. cbv zeta in H.
  destruct (i_location f) as [loc|]; [|discriminate].
  destruct (negb (is_text loc)); [discriminate|].
  destruct (i_status f) as [st|] eqn:Es; [|discriminate].
  destruct (u_scheme (am_eff_uri (c_req (i_call f)))); [discriminate|].
  destruct (resolve (am_eff_uri (c_req (i_call f))) loc) as [target|]; [|discriminate].
  match type of H with (match ?X with _ => _ end = _) => destruct X as [nm|] end.
  2: { inversion H; subst. exact Es. }
  destruct (am_req (c_req (i_call f))) as [orig|]; [|discriminate].
  destruct (flow_new _) as [next|e|s]; cbn [bind] in H; try discriminate.
  repeat match type of H with (bind ?X _ = _) => destruct X; cbn [bind] in H; try discriminate end.
  inversion H; subst. cbn. exact Es.
Qed.

(* ------------------------------------------------------------------ every Script history *)

(** How a Script step can end with a flow in the Redirect state: it already was that flow in that state; or the
    step was [proceed] on a flow in RecvResponse / RecvBody whose proceed function answered Redirect; or it was
    [as_new_flow] on a Redirect flow (which returns the same flow, possibly with the request moved out). *)
Inductive entry (s : sstate) (o : op) (f : inner) : Prop :=
| en_same : s_obj s = ObFlow TRedirect f -> entry s o f
| en_head f0 : o = OProceed -> s_obj s = ObFlow TRecvResponse f0 ->
               recv_response_proceed f0 = Ok (Some (TRedirect, f)) -> entry s o f
| en_body f0 : o = OProceed -> s_obj s = ObFlow TRecvBody f0 ->
               recv_body_proceed f0 = Ok (Some (TRedirect, f)) -> entry s o f
| en_anf p f0 n : o = OAsNewFlow p -> s_obj s = ObFlow TRedirect f0 ->
                  as_new_flow f0 p = Ok (f, n) -> entry s o f.

Ltac c15_case_in H :=
  match type of H with
  | context [match ?x with _ => _ end] =>
      lazymatch x with
      | context [match _ with _ => _ end] => fail
      | _ => destruct x eqn:?
      end
  end.

Lemma await_bind_not_redirect f f' :
  (do x <- await_100_proceed f; Ok (Some x)) <> Ok (Some (TRedirect, f')).
Proof.
  intros H. destruct (await_100_proceed f) as [[t g]|e|s] eqn:E; cbn [bind] in H; try discriminate.
  inversion H; subst. exact (await_proceed_not_redirect _ _ E).
Qed.

Lemma step_entry s o f : s_obj (fst (step s o)) = ObFlow TRedirect f -> entry s o f.
Proof.
  intros H.
  destruct o; unfold step, upd, do_proceed, do_premature, do_try100, do_try_response, do_read, do_write_body,
    do_call_into_receive in H;
  cbn [fst snd s_obj with_flow with_obj add_consumed add_sent] in H;
  repeat (c15_case_in H; cbn [fst snd s_obj with_flow with_obj add_consumed add_sent] in H);
  try discriminate H;
  try (apply en_same; congruence);
  try (inversion H; subst; clear H;
       first [ exfalso; eapply send_request_proceed_not_redirect; eassumption
             | exfalso; eapply await_bind_not_redirect; eassumption
             | exfalso; eapply send_body_proceed_not_redirect; eassumption
             | eapply en_head; [reflexivity|eassumption|eassumption]
             | eapply en_body; [reflexivity|eassumption|eassumption]
             | eapply en_anf; [reflexivity|eassumption|eassumption] ]).
Qed.

(** Invariant of every history: a flow in the Redirect state has a recorded redirect status. *)
Definition redirect_ok (s : sstate) : Prop :=
  forall f, s_obj s = ObFlow TRedirect f -> is_redirect f = true.

Lemma step_redirect_ok s o : redirect_ok s -> redirect_ok (fst (step s o)).
Proof.
  intros Hs f H. destruct (step_entry s o f H) as [E|f0 _ E Hp|f0 _ E Hp|p f0 n _ E Ha].
  - apply Hs. exact E.
  - apply (response_proceed_redirect f0 f Hp).
  - destruct (body_proceed_redirect f0 f Hp) as [-> Hr]. exact Hr.
  - rewrite (is_redirect_status_only f0 f (as_new_flow_keeps f0 p f n Ha)). apply Hs. exact E.
Qed.

Lemma run_redirect_ok ops : forall s, redirect_ok s -> redirect_ok (run_ops s ops).
Proof.
  induction ops as [|o ops IH]; intros s Hs; [exact Hs|].
  unfold run_ops. cbn [fold_left]. apply IH. apply step_redirect_ok. exact Hs.
Qed.

Lemma init_redirect_ok : redirect_ok s_init.
Proof. intros f H. discriminate H. Qed.

Lemma only_entries ops f :
  s_obj (run_ops s_init ops) = ObFlow TRedirect f ->
  exists st, i_status f = Some st /\ is_redirect_status st = true.
Proof.
  intros H. pose proof (run_redirect_ok ops s_init init_redirect_ok f H) as Hr.
  unfold is_redirect in Hr. destruct (i_status f) as [st|] eqn:Es; [|discriminate].
  exists st. split; [reflexivity|]. rewrite <- Hr. unfold is_redirect_status, is_redirection. reflexivity.
Qed.
