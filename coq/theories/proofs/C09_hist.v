(** C09 (part 4): the successor state in terms of the HISTORY.

    [c09_successor] (props/C09.v) states the successor in terms of the flags the model itself keeps
    ([i_should_send_body], [i_await_100], [i_status], the installed reader).  Here those flags are
    tied to ghost facts that are computed from the script alone -- what the operations were given and
    what they handed back, never from the flags:

      hs_method   the method of the request the exchange was created from ([ONew]'s argument, or the
                  request of the flow made by [as_new_flow] when it is followed);
      hs_despite  [send_body_despite_method] was called (in Prepare);
      hs_expect   the ORIGINAL headers of that request contain  expect: 100-continue;
      hs_refused  [try_read_100] (in Await100) was shown a refusal ([C10_proofs.refusal_seen]);
      hs_cleared  [try_read_100] was shown a window on which it decides (anything but "need more
                  data"), or [try_response] was shown a complete bare 100 head (the late 100);
      hs_status   the status of the last response head [try_response] returned;
      hs_mode     the C06 rule ([C06_proofs.rfc_body_mode]) applied to the request method and the last
                  returned head whose status is not 100.

    [HInv] relates a script state to the facts; it is preserved by every [Script.step] from a state
    satisfying the C09 invariant, hence holds after every admissible history (no length bound). *)
From Coq Require Import Lia ZArith.
From Hoot Require Import Base Chunk Body Httparse Parser Url Request Call Flow Script.
From Hoot.proofs Require Import BytesLemmas Reasons AfterErr C06_proofs C10_proofs
                                C09_inv C09_calls C09_flow C09_proofs.
Open Scope N_scope.

(* ------------------------------------------------------------------ the facts *)

Record hist := {
  hs_method : method;
  hs_despite : bool;
  hs_expect : bool;
  hs_refused : bool;
  hs_cleared : bool;
  hs_status : option N;
  hs_mode : option reader
}.

(** "A body is due": the method takes one, or the caller asked to send one despite the method. *)
Definition hs_due (h : hist) : bool := need_request_body (hs_method h) || hs_despite h.

(** "Expect: 100-continue was requested": on the ORIGINAL request (see [c09_expect_added_not_honoured]
    for a header added later through [Flow<Prepare>::header]). *)
Definition expects_100 (r : request) : bool :=
  headers_has (rq_headers r) (s2b "expect") (s2b "100-continue").

Definition hist_new (r : request) : hist :=
  {| hs_method := rq_method r; hs_despite := false; hs_expect := expects_100 r;
     hs_refused := false; hs_cleared := false; hs_status := None; hs_mode := None |}.

Definition hist0 : hist :=
  {| hs_method := GET; hs_despite := false; hs_expect := false;
     hs_refused := false; hs_cleared := false; hs_status := None; hs_mode := None |}.

(** [try_read_100] has a verdict on the window (not "need more data"). *)
Definition decided (w : bytes) : bool :=
  match try_parse_response 0 w with
  | Ok None => false
  | Panic _ => false
  | _ => true
  end.

(** The window shown to [try_response] holds a complete head "100" without fields. *)
Definition sees_100 (w : bytes) : bool :=
  match try_parse_response (N.to_nat MAX_RESPONSE_HEADERS) w with
  | Ok (Some (_, r)) => (rs_status r =? 100) && match rs_headers r with [] => true | _ => false end
  | _ => false
  end.

(** C06 applied to (request method, returned head). *)
Definition rule_of (m : method) (rsp : response) : option reader :=
  match rfc_body_mode (method_eqb m HEAD) (method_eqb m CONNECT) (rs_status rsp)
                      (negb (rs_version rsp =? 0))
                      (lookup_text (rs_headers rsp) (s2b "content-length"))
                      (lookup_text (rs_headers rsp) (s2b "transfer-encoding")) with
  | Ok r => Some r
  | _ => None
  end.

Definition h_despite (h : hist) : hist :=
  {| hs_method := hs_method h; hs_despite := true; hs_expect := hs_expect h;
     hs_refused := hs_refused h; hs_cleared := hs_cleared h; hs_status := hs_status h;
     hs_mode := hs_mode h |}.

Definition h_try100 (h : hist) (w : bytes) : hist :=
  {| hs_method := hs_method h; hs_despite := hs_despite h; hs_expect := hs_expect h;
     hs_refused := hs_refused h || refusal_seen w; hs_cleared := hs_cleared h || decided w;
     hs_status := hs_status h; hs_mode := hs_mode h |}.

Definition h_response (h : hist) (w : bytes) (got : option response) : hist :=
  {| hs_method := hs_method h; hs_despite := hs_despite h; hs_expect := hs_expect h;
     hs_refused := hs_refused h; hs_cleared := hs_cleared h || sees_100 w;
     hs_status := match got with Some rsp => Some (rs_status rsp) | None => hs_status h end;
     hs_mode := match got with
                | Some rsp => if rs_status rsp =? 100 then hs_mode h else rule_of (hs_method h) rsp
                | None => hs_mode h
                end |}.

(** The ghost step. *)
Definition hstep (s : sstate) (h : hist) (o : op) : hist :=
  match o with
  | ONew r => hist_new r
  | OFollow =>
      match s_next s with
      | Some n => match freq n with Some r => hist_new r | None => h end
      | None => h
      end
  | ODespite => match s_obj s with ObFlow TPrepare _ => h_despite h | _ => h end
  | OTry100 => match s_obj s with ObFlow TAwait100 _ => h_try100 h (window s) | _ => h end
  | ORawTry100 b => match s_obj s with ObFlow TAwait100 _ => h_try100 h b | _ => h end
  | OTryResponse =>
      match s_obj s with
      | ObFlow TRecvResponse f =>
          match recv_try_response f (window s) with
          | Ok (_, _, got) => h_response h (window s) got
          | _ => h
          end
      | _ => h
      end
  | ORawTryResponse b =>
      match s_obj s with
      | ObFlow TRecvResponse f =>
          match recv_try_response f b with
          | Ok (_, _, got) => h_response h b got
          | _ => h
          end
      | _ => h
      end
  | _ => h
  end.

Definition hrun (sh : sstate * hist) (ops : list op) : sstate * hist :=
  fold_left (fun sh o => (fst (step (fst sh) o), hstep (fst sh) (snd sh) o)) ops sh.

Definition hist_of (ops : list op) : hist := snd (hrun (s_init, hist0) ops).

Lemma hrun_fst ops : forall s h, fst (hrun (s, h) ops) = run_ops s ops.
Proof.
  induction ops as [|o ops IH]; intros s h; [reflexivity|].
  unfold hrun, run_ops in *. cbn [fold_left fst snd]. apply IH.
Qed.

Lemma hrun_app sh ops1 ops2 : hrun sh (ops1 ++ ops2) = hrun (hrun sh ops1) ops2.
Proof. unfold hrun. apply fold_left_app. Qed.

Lemma hist_of_app ops1 ops2 :
  hist_of (ops1 ++ ops2) = snd (hrun (run_ops s_init ops1, hist_of ops1) ops2).
Proof.
  unfold hist_of. rewrite hrun_app. rewrite <- (hrun_fst ops1 s_init hist0).
  destruct (hrun (s_init, hist0) ops1); reflexivity.
Qed.

Lemma hist_step ops o : hist_of (ops ++ [o]) = hstep (run_ops s_init ops) (hist_of ops) o.
Proof. rewrite hist_of_app. reflexivity. Qed.

(* ------------------------------------------------------------------ the documented graph on the facts *)

Definition redirect_of (st : option N) : bool :=
  match st with Some s => is_redirect_status s | None => false end.

(** The state [proceed] leads to from [t] when it advances, given the facts of the history. *)
Definition graph_successor (t : tag) (h : hist) : tag :=
  match t with
  | TPrepare => TSendRequest
  | TSendRequest =>
      if hs_due h then (if hs_expect h then TAwait100 else TSendBody) else TRecvResponse
  | TAwait100 => if hs_refused h then TRecvResponse else TSendBody
  | TSendBody => TRecvResponse
  | TRecvResponse =>
      match hs_mode h with
      | Some r => if expects_body r then TRecvBody
                  else if redirect_of (hs_status h) then TRedirect else TCleanup
      | None => TRecvResponse            (* no head yet: not ready *)
      end
  | TRecvBody => if redirect_of (hs_status h) then TRedirect else TCleanup
  | TRedirect => TCleanup
  | TCleanup => TCleanup
  end.

(* ------------------------------------------------------------------ the invariant *)

Definition sending (t : tag) : bool :=
  match t with TPrepare | TSendRequest | TAwait100 | TSendBody => true | _ => false end.

Definition HFlow (t : tag) (f : inner) (h : hist) : Prop :=
  i_should_send_body f = hs_due h && negb (hs_refused h) /\
  i_await_100 f = hs_expect h && negb (hs_cleared h) /\
  i_status f = hs_status h /\
  (forall r, freq f = Some r -> rq_method r = hs_method h) /\
  (t = TPrepare \/ t = TSendRequest -> hs_refused h = false /\ hs_cleared h = false) /\
  (t = TAwait100 -> hs_due h = true) /\
  (sending t = true -> hs_mode h = None) /\
  (t = TRecvResponse -> c_reader (i_call f) = hs_mode h).

Definition HNext (n : inner) : Prop := exists r, freq n = Some r /\ HFlow TPrepare n (hist_new r).

Definition HInv (s : sstate) (h : hist) : Prop :=
  (forall t f, s_obj s = ObFlow t f -> HFlow t f h) /\
  (forall n, s_next s = Some n -> HNext n).

(** Flags and original request unchanged. *)
Definition sameF (f f' : inner) : Prop :=
  i_should_send_body f' = i_should_send_body f /\ i_await_100 f' = i_await_100 f /\
  i_status f' = i_status f /\ freq f' = freq f.

Lemma sameF_refl f : sameF f f.
Proof. repeat split. Qed.

Lemma sameF_set_call f c : creq c = freq f -> sameF f (set_call f c).
Proof. intros H. repeat split. exact H. Qed.

Lemma sameF_set_call_holder f c hd : creq c = freq f -> sameF f (set_call_holder f c hd).
Proof. intros H. repeat split. exact H. Qed.

(** Moving within a state, or to a state where no more is demanded. *)
Lemma HFlow_same t t' f f' h :
  HFlow t f h -> sameF f f' ->
  (t' = TPrepare \/ t' = TSendRequest -> t = TPrepare \/ t = TSendRequest) ->
  (t' = TAwait100 -> hs_due h = true) ->
  (sending t' = true -> sending t = true) ->
  (t' = TRecvResponse -> c_reader (i_call f') = hs_mode h) ->
  HFlow t' f' h.
Proof.
  intros (H1 & H2 & H3 & H4 & H5 & H6 & H7 & H8) (E1 & E2 & E3 & E4) Ha Hb Hc Hd.
  unfold HFlow. rewrite E1, E2, E3, E4. repeat split; auto.
  - apply H5; auto.
  - apply H5; auto.
Qed.

Lemma HFlow_same_tag t f f' h :
  HFlow t f h -> sameF f f' -> (t = TRecvResponse -> c_reader (i_call f') = c_reader (i_call f)) ->
  HFlow t f' h.
Proof.
  intros H Hs Hr. apply (HFlow_same t t f f' h H Hs); auto.
  - intros E. apply H. exact E.
  - intros E. rewrite (Hr E). apply H. exact E.
Qed.

(* ------------------------------------------------------------------ flags through the operations *)

Lemma prepare_header_sameF f k v f' : prepare_header f k v = Ok f' -> sameF f f'.
Proof.
  unfold prepare_header. intros H. inv_bind H. inversion H; subst.
  apply sameF_set_call. unfold creq, freq. cbn. eapply am_set_header_req; eassumption.
Qed.

Lemma despite_flags f f' :
  send_body_despite_method f = Ok f' ->
  i_should_send_body f' = true /\ i_await_100 f' = i_await_100 f /\ i_status f' = i_status f /\
  freq f' = freq f.
Proof.
  unfold send_body_despite_method. intros H.
  destruct (i_holder f); try (inversion H; subst; repeat split; reflexivity).
  inv_bind H. inversion H; subst. repeat split. apply into_send_body_req in E. exact E.
Qed.

Lemma send_request_write_sameF f cap f' out : send_request_write f cap = Ok (f', out) -> sameF f f'.
Proof.
  unfold send_request_write. intros H. destruct (i_holder f); try discriminate.
  - inv_bind H. destruct a as [c o]. inversion H; subst. apply sameF_set_call.
    eapply call_write_nobody_req; eassumption.
  - destruct (is_body _); [inversion H; subst; apply sameF_refl|].
    inv_bind H. destruct a as [[c u] o]. inversion H; subst. apply sameF_set_call.
    eapply call_write_body_req; eassumption.
Qed.

Lemma analyze_request_reader c c' : analyze_request c = Ok c' -> c_reader c' = c_reader c.
Proof.
  unfold analyze_request. destruct (c_analyzed c); [intros H; inversion H; reflexivity|].
  intros H. inv_bind H. inv_bind H. inv_bind H. inversion H; subst. reflexivity.
Qed.

Lemma send_request_proceed_sameF f t f' :
  send_request_proceed f = Ok (Some (t, f')) ->
  sameF f f' /\ c_reader (i_call f') = c_reader (i_call f).
Proof.
  unfold send_request_proceed. intros H. inv_bind H. destruct (negb a); [discriminate|].
  destruct (i_should_send_body f).
  - destruct (i_await_100 f); [inversion H; subst; split; [apply sameF_refl|reflexivity]|].
    inv_bind H. inversion H; subst. split.
    + apply sameF_set_call. apply analyze_request_req; assumption.
    + cbn [set_call i_call]. apply analyze_request_reader; assumption.
  - destruct (i_holder f); try discriminate.
    destruct (into_receive (i_call f)) eqn:E1; try discriminate. inversion H; subst. split.
    + apply sameF_set_call_holder. apply into_receive_req; assumption.
    + cbn [set_call_holder i_call]. unfold into_receive in E1.
      destruct (w_ended _); [|discriminate]. inversion E1; subst. reflexivity.
Qed.

Lemma await_100_proceed_sameF f t f' :
  await_100_proceed f = Ok (t, f') -> sameF f f' /\ c_reader (i_call f') = c_reader (i_call f).
Proof.
  unfold await_100_proceed. intros H. destruct (i_should_send_body f).
  - inv_bind H. inversion H; subst. split.
    + apply sameF_set_call. apply analyze_request_req; assumption.
    + cbn [set_call i_call]. apply analyze_request_reader; assumption.
  - destruct (i_holder f); try discriminate. inversion H; subst. split.
    + apply sameF_set_call_holder. reflexivity.
    + reflexivity.
Qed.

Lemma send_body_write_sameF f input cap f' used out :
  send_body_write f input cap = Ok (f', used, out) -> sameF f f'.
Proof.
  unfold send_body_write. intros H. inv_bind H. inv_bind H. destruct a0 as [[c u] o].
  inversion H; subst. apply as_with_body_eq in E. subst a. apply sameF_set_call.
  eapply call_write_body_req; eassumption.
Qed.

Lemma send_body_direct_sameF f amount f' : send_body_direct f amount = Ok f' -> sameF f f'.
Proof.
  unfold send_body_direct. intros H. inv_bind H. inv_bind H. inversion H; subst.
  apply as_with_body_eq in E. subst a. apply sameF_set_call. eapply call_direct_write_req; eassumption.
Qed.

Lemma send_body_proceed_sameF f t f' :
  send_body_proceed f = Ok (Some (t, f')) ->
  sameF f f' /\ c_reader (i_call f') = c_reader (i_call f).
Proof.
  unfold send_body_proceed. intros H. inv_bind H. destruct (negb a); [discriminate|].
  destruct (into_receive (i_call f)) eqn:E1; try discriminate. inversion H; subst. split.
  - apply sameF_set_call_holder. apply into_receive_req; assumption.
  - cbn [set_call_holder i_call]. unfold into_receive in E1.
    destruct (w_ended _); [|discriminate]. inversion E1; subst. reflexivity.
Qed.

Lemma recv_response_proceed_sameF f t f' :
  recv_response_proceed f = Ok (Some (t, f')) -> sameF f f'.
Proof.
  unfold recv_response_proceed. intros H. inv_bind H. destruct (negb a); [discriminate|].
  destruct (need_response_body (i_call f)).
  - inv_bind H. inversion H; subst. repeat split.
  - inversion H; subst. repeat split.
Qed.

Lemma recv_body_read_sameF f input cap f' i o : recv_body_read f input cap = Ok (f', i, o) -> sameF f f'.
Proof.
  unfold recv_body_read. intros H. inv_bind H. inv_bind H. destruct a0 as [[c u] o0].
  inversion H; subst. apply as_recv_body_eq in E. subst a. apply sameF_set_call.
  eapply call_read_req; eassumption.
Qed.

Lemma recv_body_after_err_sameF f input cap : sameF f (recv_body_after_err f input cap).
Proof.
  repeat split.
  - apply recv_body_after_err_should.
  - apply recv_body_after_err_await.
  - apply recv_body_after_err_status.
  - unfold freq, creq. rewrite recv_body_after_err_req. reflexivity.
Qed.

Lemma recv_body_stop_sameF f b f' : recv_body_stop f b = Ok f' -> sameF f f'.
Proof.
  unfold recv_body_stop. intros H. inv_bind H. inversion H; subst.
  apply as_recv_body_eq in E. subst a. apply sameF_set_call. reflexivity.
Qed.

(** [as_new_flow]: the redirect flow keeps its flags (its request may have been taken out); the new
    flow is [flow_new] of a request it still holds. *)
Lemma as_new_flow_flags f p f' nxt :
  as_new_flow f p = Ok (f', nxt) ->
  i_should_send_body f' = i_should_send_body f /\ i_await_100 f' = i_await_100 f /\
  i_status f' = i_status f /\ (forall r, freq f' = Some r -> freq f = Some r) /\
  match nxt with
  | None => True
  | Some n => exists req nf, flow_new req = Ok nf /\ freq n = Some req /\
                             i_should_send_body n = i_should_send_body nf /\
                             i_await_100 n = i_await_100 nf /\ i_status n = i_status nf
  end.
Proof.
  unfold as_new_flow. intros H.
  destruct (i_location f) as [loc|]; [|discriminate].
  destruct (negb (is_text loc)); [discriminate|].
  destruct (i_status f) as [status|] eqn:Est; [|discriminate].
  destruct (u_scheme (am_eff_uri (c_req (i_call f)))); [discriminate|].
  destruct (resolve (am_eff_uri (c_req (i_call f))) loc) as [target|]; [|discriminate].
  match type of H with (match ?X with _ => _ end) = _ => destruct X as [nm|] end.
  2:{ inversion H; subst. rewrite Est. auto 10. }
  destruct (am_req (c_req (i_call f))) as [orig|] eqn:Eo; [|discriminate].
  fold (rebuilt orig nm) in H.
  destruct (flow_new_reasons (rebuilt orig nm)) as (nf & Hnf & _ & Hq).
  rewrite Hnf in H. cbn [bind] in H.
  inv_bind H. inv_bind H. inv_bind H. inversion H; subst; clear H.
  cbn [set_call i_should_send_body i_await_100 i_status]. rewrite Est.
  split; [reflexivity|]. split; [reflexivity|]. split; [reflexivity|]. split.
  - unfold freq, creq. cbn. discriminate.
  - exists (rebuilt orig nm), nf. split; [exact Hnf|]. split; [|repeat split].
    unfold freq, creq. cbn [i_call set_call set_req c_req].
    apply am_unset_header_req in E1. apply am_unset_header_req in E0. rewrite E1, E0.
    assert (Ha : am_req a = am_req (c_req (i_call nf))).
    { destruct (match p with Never => false | SameHost => can_redirect_auth_header (rq_uri orig) target end).
      - inversion E; reflexivity.
      - apply am_unset_header_req in E. exact E. }
    rewrite Ha. exact Hq.
Qed.

(** A fresh flow satisfies the invariant of Prepare for the facts of its request. *)
Lemma flow_new_hflow r f : flow_new r = Ok f -> freq f = Some r /\ HFlow TPrepare f (hist_new r).
Proof.
  intros H. destruct (flow_new_shape r) as (rs & _ & Hs). rewrite Hs in H. inversion H; subst; clear H.
  split; [reflexivity|]. unfold HFlow, hist_new, hs_due, expects_100.
  cbn [i_should_send_body i_await_100 i_status hs_method hs_despite hs_expect hs_refused hs_cleared
       hs_status hs_mode negb].
  rewrite !andb_true_r, orb_false_r.
  repeat split; auto; try discriminate.
  intros r0 Hr. unfold freq, creq in Hr. cbn in Hr. inversion Hr; subst. reflexivity.
Qed.

(* ------------------------------------------------------------------ try_read_100 *)

Lemma try_read_100_flags f w :
  NoDup (i_reasons f) ->
  let f' := fst (try_read_100 f w) in
  i_should_send_body f' = i_should_send_body f && negb (refusal_seen w) /\
  i_await_100 f' = i_await_100 f && negb (decided w) /\
  i_status f' = i_status f /\ i_call f' = i_call f.
Proof.
  intros Hnd. cbv zeta. unfold try_read_100, refusal_seen, decided.
  destruct (refuse_total f Hnd) as (rs & _ & Href).
  destruct (try_parse_response 0 w) as [[[used r]|]|e|s].
  - destruct (rs_status r =? 100); cbn [negb].
    + destruct (i_should_send_body f) eqn:Es; cbn [fst set_await i_should_send_body i_await_100 i_status i_call];
        rewrite ?Es, ?andb_true_r, ?andb_false_r; auto.
    + rewrite Href. cbn [fst i_should_send_body i_await_100 i_status i_call].
      rewrite !andb_false_r. auto.
  - cbn [fst negb]. rewrite !andb_true_r. auto.
  - destruct e; try (cbn [fst set_await i_should_send_body i_await_100 i_status i_call negb];
                     rewrite ?andb_true_r, ?andb_false_r; auto; fail).
    rewrite Href. cbn [fst i_should_send_body i_await_100 i_status i_call negb].
    rewrite !andb_false_r. auto.
  - cbn [fst negb]. rewrite !andb_true_r. auto.
Qed.

(* ------------------------------------------------------------------ try_response *)

(** What [call_try_response] hands back, related to [sees_100]. *)
Lemma call_try_response_100 c w c' got :
  call_try_response c w = Ok (c', got) ->
  match got with
  | Some (_, rsp) => sees_100 w = (rs_status rsp =? 100) /\ (rs_status rsp = 100 -> c' = c)
  | None => sees_100 w = false /\ c' = c
  end.
Proof.
  unfold call_try_response, sees_100. intros H.
  destruct (try_parse_response (N.to_nat MAX_RESPONSE_HEADERS) w) as [first|e|s]; cbn [bind] in H; try discriminate.
  destruct first as [[u r]|].
  - cbn [bind] in H. destruct (rs_status r =? 100) eqn:E100.
    + destruct (rs_headers r) eqn:Eh; [|discriminate]. inversion H; subst.
      rewrite E100. auto.
    + destruct (match hm_get (rs_headers r) (s2b "content-length") with
                | Some v => negb (is_text v) | None => false end); [discriminate|].
      inv_bind H. inversion H; subst. rewrite E100. split; [reflexivity|].
      intros Habs. apply N.eqb_neq in E100. contradiction.
  - inv_bind H. rename E into Eg. inv_bind Eg. destruct a0 as [r|].
    + destruct (is_redirection (rs_status r) && hm_contains (rs_headers r) (s2b "location")) eqn:Ered.
      * inversion Eg; subst; clear Eg. cbn [rs_status rs_headers] in H.
        apply andb_prop in Ered. destruct Ered as [Ered _]. unfold is_redirection in Ered.
        apply andb_prop in Ered. destruct Ered as [Ha _]. apply N.leb_le in Ha.
        destruct (rs_status r =? 100) eqn:E100; [apply N.eqb_eq in E100; lia|].
        destruct (match hm_get _ (s2b "content-length") with
                  | Some v => negb (is_text v) | None => false end); [discriminate|].
        inv_bind H. inversion H; subst. cbn [rs_status]. rewrite E100. split; [reflexivity|].
        intros Habs. apply N.eqb_neq in E100. contradiction.
      * inversion Eg; subst. inversion H; subst. auto.
    + inversion Eg; subst. inversion H; subst. auto.
Qed.

Lemma recv_try_response_flags f w f' used got :
  recv_try_response f w = Ok (f', used, got) ->
  i_should_send_body f' = i_should_send_body f /\
  i_await_100 f' = i_await_100 f && negb (sees_100 w) /\
  i_status f' = match got with Some rsp => Some (rs_status rsp) | None => i_status f end /\
  freq f' = freq f /\
  match got with
  | Some rsp =>
      if rs_status rsp =? 100 then c_reader (i_call f') = c_reader (i_call f)
      else exists rd, c_reader (i_call f') = Some rd /\
                      rule_of (am_method (c_req (i_call f))) rsp = Some rd
  | None => c_reader (i_call f') = c_reader (i_call f)
  end.
Proof.
  unfold recv_try_response. intros H. inv_bind H. inv_bind H.
  apply as_recv_response_eq in E. subst a. destruct a0 as [c' g].
  pose proof (call_try_response_req _ _ _ _ E0) as Hq.
  pose proof (call_try_response_100 _ _ _ _ E0) as H100.
  destruct g as [[u rsp]|].
  - destruct H100 as [Hs Hc].
    destruct (N.eqb_spec (rs_status rsp) 100) as [E100|E100]; cbn [andb] in H.
    + specialize (Hc E100). subst c'.
      destruct (i_await_100 (set_call f (i_call f))) eqn:Ew; cbn [set_call i_await_100] in Ew.
      * inversion H; subst. cbn [set_await set_call i_should_send_body i_await_100 i_status i_call].
        rewrite Hs. cbn [negb]. rewrite andb_false_r. auto.
      * inv_bind H. inversion H; subst. cbn [i_should_send_body i_await_100 i_status i_call set_call].
        rewrite Ew. cbn [andb]. repeat split; auto.
        apply N.eqb_eq in E100. rewrite E100. reflexivity.
    + inv_bind H. inversion H; subst. cbn [i_should_send_body i_await_100 i_status i_call set_call].
      rewrite Hs. cbn [negb]. rewrite andb_true_r. repeat split; auto.
      destruct (N.eqb_spec (rs_status rsp) 100) as [Habs|_]; [contradiction|].
      destruct (try_response_mode _ _ _ _ _ E0 E100) as (rd & Hrd & Hrule).
      exists rd. split; [exact Hrd|]. unfold rule_of. rewrite Hrule. reflexivity.
  - destruct H100 as [Hs ->]. inversion H; subst.
    cbn [set_call i_should_send_body i_await_100 i_status i_call].
    rewrite Hs. cbn [negb]. rewrite andb_true_r. auto.
Qed.

(* ------------------------------------------------------------------ which states [proceed] can reach *)

Lemma send_request_proceed_tag f t f' :
  send_request_proceed f = Ok (Some (t, f')) ->
  (t = TAwait100 /\ i_should_send_body f = true) \/ t = TSendBody \/ t = TRecvResponse.
Proof.
  unfold send_request_proceed. intros H. inv_bind H. destruct (negb a); [discriminate|].
  destruct (i_should_send_body f).
  - destruct (i_await_100 f); [inversion H; subst; auto|].
    inv_bind H. inversion H; subst. auto.
  - destruct (i_holder f); try discriminate.
    destruct (into_receive (i_call f)); try discriminate. inversion H; subst. auto.
Qed.

Lemma await_100_proceed_tag f t f' :
  await_100_proceed f = Ok (t, f') -> t = TSendBody \/ t = TRecvResponse.
Proof.
  unfold await_100_proceed. intros H. destruct (i_should_send_body f).
  - inv_bind H. inversion H; subst. auto.
  - destruct (i_holder f); try discriminate. inversion H; subst. auto.
Qed.

Lemma send_body_proceed_tag f t f' : send_body_proceed f = Ok (Some (t, f')) -> t = TRecvResponse.
Proof.
  unfold send_body_proceed. intros H. inv_bind H. destruct (negb a); [discriminate|].
  destruct (into_receive (i_call f)); try discriminate. inversion H; subst. reflexivity.
Qed.

Lemma recv_response_proceed_tag f t f' :
  recv_response_proceed f = Ok (Some (t, f')) -> t = TRecvBody \/ t = TRedirect \/ t = TCleanup.
Proof.
  unfold recv_response_proceed. intros H. inv_bind H. destruct (negb a); [discriminate|].
  destruct (need_response_body (i_call f)).
  - inv_bind H. inversion H; subst. auto.
  - inversion H; subst. destruct (is_redirect _); auto.
Qed.

Lemma recv_body_proceed_tag f t f' :
  recv_body_proceed f = Ok (Some (t, f')) -> (t = TRedirect \/ t = TCleanup) /\ f' = f.
Proof.
  unfold recv_body_proceed. intros H. inv_bind H. destruct (negb a); [discriminate|].
  inversion H; subst. split; [|reflexivity]. destruct (is_redirect f'); auto.
Qed.

(* ------------------------------------------------------------------ the invariant through [Script.step] *)

Lemma HFlow_later t t' f f' h :
  HFlow t f h -> sameF f f' -> sending t' = false ->
  (t' = TRecvResponse -> c_reader (i_call f') = hs_mode h) -> HFlow t' f' h.
Proof.
  intros H Hs Ht Hr. apply (HFlow_same t t' f f' h H Hs); auto.
  - intros [-> | ->]; discriminate.
  - intros ->; discriminate.
  - intros E; congruence.
Qed.

Lemma HInv_obj s h s' h' :
  HInv s h -> s_next s' = s_next s -> (forall t f, s_obj s' = ObFlow t f -> HFlow t f h') -> HInv s' h'.
Proof. intros [_ Hn] E Ho. split; [exact Ho|]. intros n Hn'. apply Hn. congruence. Qed.

Lemma HInv_with_flow s h t f h' : HInv s h -> HFlow t f h' -> HInv (with_flow s t f) h'.
Proof.
  intros Hi Hf. apply (HInv_obj s h); [exact Hi|reflexivity|].
  intros t0 f0 E. cbn in E. inversion E; subst. exact Hf.
Qed.

Lemma HInv_noflow s h s' h' :
  HInv s h -> s_next s' = s_next s -> (forall t f, s_obj s' <> ObFlow t f) -> HInv s' h'.
Proof.
  intros Hi E Hno. apply (HInv_obj s h); [exact Hi|exact E|].
  intros t f Ho. exfalso. exact (Hno t f Ho).
Qed.

Lemma HInv_same s h s' : HInv s h -> s_next s' = s_next s -> s_obj s' = s_obj s -> HInv s' h.
Proof.
  intros Hi E1 E2. apply (HInv_obj s h); [exact Hi|exact E1|].
  intros t f Ho. apply (proj1 Hi). congruence.
Qed.

Lemma HInv_none s h h' : HInv s h -> HInv (with_obj s ObNone) h'.
Proof. intros Hi. apply (HInv_noflow s h); [exact Hi|reflexivity|cbn; discriminate]. Qed.

Lemma HInv_call s h h' hd c : HInv s h -> HInv (with_obj s (ObCall hd c)) h'.
Proof. intros Hi. apply (HInv_noflow s h); [exact Hi|reflexivity|cbn; discriminate]. Qed.

Lemma hupd_inv {A} s h t f (r : res A) getf k :
  HInv s h -> s_obj s = ObFlow t f ->
  (forall a, r = Ok a -> sameF f (getf a) /\
                         (t = TRecvResponse -> c_reader (i_call (getf a)) = c_reader (i_call f))) ->
  HInv (fst (upd s t r getf k)) h.
Proof.
  intros Hi Ho Hk. unfold upd. destruct r as [a|e|p]; cbn [fst]; try exact Hi.
  destruct (Hk a eq_refl) as [Hs Hr].
  apply (HInv_with_flow s h); [exact Hi|]. apply (HFlow_same_tag t f); [apply (proj1 Hi); exact Ho|exact Hs|exact Hr].
Qed.

Lemma send_common_reader c : SendCommon c -> c_reader c = None.
Proof. intros (_ & _ & _ & _ & _ & _ & H). exact H. Qed.

Lemma hs_due_of_should f h :
  i_should_send_body f = hs_due h && negb (hs_refused h) -> i_should_send_body f = true -> hs_due h = true.
Proof. intros H E. rewrite E in H. symmetry in H. apply andb_prop in H. tauto. Qed.

Lemma do_proceed_hinv s h t f :
  C09_inv.Inv t f -> HInv s h -> s_obj s = ObFlow t f -> HInv (fst (do_proceed s t f)) h.
Proof.
  intros Hinv Hi Ho. pose proof (proj1 Hi t f Ho) as Hf.
  assert (Hopt : forall r,
            (forall t' f', r = Ok (Some (t', f')) -> HFlow t' f' h) ->
            HInv (fst (match r with
                       | Ok (Some (t', f')) => (with_flow s t' f', [w "state"; tag_name t'])
                       | Ok None => (s, [w "stay"])
                       | Err e => (with_obj s ObNone, obs_err e)
                       | Panic _ => (s, obs_panic)
                       end)) h).
  { intros r Hk. destruct r as [[[t' f']|]|e|p]; cbn [fst]; try exact Hi.
    - apply (HInv_with_flow s h); [exact Hi|]. apply Hk. reflexivity.
    - apply (HInv_none s h). exact Hi. }
  unfold do_proceed. cbv zeta beta. destruct t.
  - (* Prepare *)
    cbn [fst]. apply (HInv_with_flow s h); [exact Hi|].
    apply (HFlow_same TPrepare TSendRequest f f h Hf (sameF_refl f)); auto; intros; discriminate.
  - (* SendRequest *)
    apply (Hopt (send_request_proceed f)). intros t' f' E.
    destruct (send_request_proceed_sameF f t' f' E) as [Hs Hr].
    destruct Hinv as [_ (Hc & _)]. pose proof (send_common_reader _ Hc) as Hrd.
    destruct Hf as (H1 & H2 & H3 & H4 & H5 & H6 & H7 & H8).
    assert (Hf : HFlow TSendRequest f h) by (unfold HFlow; auto 10).
    destruct (send_request_proceed_tag f t' f' E) as [[-> Hsb]|[-> | ->]].
    + apply (HFlow_same TSendRequest TAwait100 f f' h Hf Hs); auto; try (intros; discriminate);
        try (intros [E'|E']; discriminate).
      intros _. exact (hs_due_of_should f h H1 Hsb).
    + apply (HFlow_same TSendRequest TSendBody f f' h Hf Hs); auto; try (intros; discriminate);
        try (intros [E'|E']; discriminate).
    + apply (HFlow_later TSendRequest TRecvResponse f f' h Hf Hs); [reflexivity|].
      intros _. rewrite Hr, Hrd. symmetry. apply H7. reflexivity.
  - (* Await100 *)
    apply (Hopt (do x <- await_100_proceed f; Ok (Some x))). intros t' f' E.
    destruct (await_100_proceed f) as [[t1 f1]|e|p] eqn:Ea; cbn [bind] in E; try discriminate.
    inversion E; subst t1 f1; clear E.
    destruct (await_100_proceed_sameF f t' f' Ea) as [Hs Hr].
    destruct Hinv as [_ (Hc & _)]. pose proof (send_common_reader _ Hc) as Hrd.
    destruct (await_100_proceed_tag f t' f' Ea) as [-> | ->].
    + apply (HFlow_same TAwait100 TSendBody f f' h Hf Hs); auto; try (intros; discriminate);
        try (intros [E'|E']; discriminate).
    + apply (HFlow_later TAwait100 TRecvResponse f f' h Hf Hs); [reflexivity|].
      intros _. rewrite Hr, Hrd. symmetry. apply Hf. reflexivity.
  - (* SendBody *)
    apply (Hopt (send_body_proceed f)). intros t' f' E.
    destruct (send_body_proceed_sameF f t' f' E) as [Hs Hr].
    destruct Hinv as [_ (Hc & _)]. pose proof (send_common_reader _ Hc) as Hrd.
    rewrite (send_body_proceed_tag f t' f' E).
    apply (HFlow_later TSendBody TRecvResponse f f' h Hf Hs); [reflexivity|].
    intros _. rewrite Hr, Hrd. symmetry. apply Hf. reflexivity.
  - (* RecvResponse *)
    apply (Hopt (recv_response_proceed f)). intros t' f' E.
    pose proof (recv_response_proceed_sameF f t' f' E) as Hs.
    destruct (recv_response_proceed_tag f t' f' E) as [-> |[-> | ->]];
      (apply (HFlow_later TRecvResponse _ f f' h Hf Hs); [reflexivity|intros; discriminate]).
  - (* RecvBody *)
    apply (Hopt (recv_body_proceed f)). intros t' f' E.
    destruct (recv_body_proceed_tag f t' f' E) as [[-> | ->] ->];
      (apply (HFlow_later TRecvBody _ f f h Hf (sameF_refl f)); [reflexivity|intros; discriminate]).
  - (* Redirect *)
    cbn [fst]. apply (HInv_with_flow s h); [exact Hi|].
    apply (HFlow_later TRedirect TCleanup f f h Hf (sameF_refl f)); [reflexivity|intros; discriminate].
  - cbn [fst]. exact Hi.
Qed.

Lemma do_premature_hinv s h t f : HInv s h -> HInv (fst (do_premature s t f)) h.
Proof.
  intros Hi. unfold do_premature. destruct t; cbn [fst]; try exact Hi; apply (HInv_none s h); exact Hi.
Qed.

Lemma HFlow_try100 f h w :
  NoDup (i_reasons f) -> HFlow TAwait100 f h ->
  HFlow TAwait100 (fst (try_read_100 f w)) (h_try100 h w).
Proof.
  intros Hnd (H1 & H2 & H3 & H4 & H5 & H6 & H7 & H8).
  destruct (try_read_100_flags f w Hnd) as (F1 & F2 & F3 & F4).
  unfold HFlow, h_try100, hs_due.
  cbn [hs_method hs_despite hs_expect hs_refused hs_cleared hs_status hs_mode].
  rewrite F1, F2, F3. unfold freq. rewrite F4. fold (freq f).
  rewrite H1, H2. unfold hs_due. rewrite !negb_orb, !andb_assoc.
  split; [reflexivity|]. split; [reflexivity|]. split; [exact H3|]. split; [exact H4|].
  split; [intros [E|E]; discriminate|]. split; [intros _; apply H6; reflexivity|].
  split; [exact H7|]. intros; discriminate.
Qed.

Lemma do_try100_hinv s h f win track :
  C09_inv.Inv TAwait100 f -> HInv s h -> s_obj s = ObFlow TAwait100 f ->
  HInv (fst (do_try100 s f win track)) (h_try100 h win).
Proof.
  intros Hinv Hi Ho. pose proof (HFlow_try100 f h win (inv_nodup _ _ Hinv) (proj1 Hi _ f Ho)) as Hf'.
  unfold do_try100. destruct (try_read_100 f win) as [f' r]. cbn [fst] in Hf'.
  destruct r as [n|e|p]; [destruct track|..]; cbn [fst];
    (eapply (HInv_obj s h); [exact Hi|reflexivity|]);
    intros t0 f0 E; cbn in E; inversion E; subst; exact Hf'.
Qed.

Lemma recv_common_req c : RecvCommon c -> exists r, am_req (c_req c) = Some r.
Proof. intros [H _]. destruct (am_req (c_req c)) as [r|]; [eauto|congruence]. Qed.

Lemma HFlow_response f h w f' used got :
  C09_inv.Inv TRecvResponse f -> HFlow TRecvResponse f h ->
  recv_try_response f w = Ok (f', used, got) ->
  HFlow TRecvResponse f' (h_response h w got).
Proof.
  intros [_ (Hc & _)] (H1 & H2 & H3 & H4 & H5 & H6 & H7 & H8) E.
  destruct (recv_try_response_flags f w f' used got E) as (F1 & F2 & F3 & F4 & F5).
  destruct (recv_common_req _ Hc) as (r & Hr).
  assert (Hm : am_method (c_req (i_call f)) = hs_method h).
  { unfold am_method, am_request. rewrite Hr. apply H4. exact Hr. }
  specialize (H8 eq_refl).
  unfold HFlow, h_response, hs_due.
  cbn [hs_method hs_despite hs_expect hs_refused hs_cleared hs_status hs_mode].
  rewrite F1, F2, F3, F4, H1, H2, H3. unfold hs_due. rewrite negb_orb, andb_assoc.
  split; [reflexivity|]. split; [reflexivity|]. split; [destruct got; reflexivity|].
  split; [exact H4|]. split; [intros [E'|E']; discriminate|]. split; [intros; discriminate|].
  split; [intros; discriminate|]. intros _.
  destruct got as [rsp|]; [|congruence].
  destruct (rs_status rsp =? 100); [congruence|].
  destruct F5 as (rd & -> & Hrule). rewrite <- Hm. symmetry. exact Hrule.
Qed.

Lemma do_try_response_hinv s h f win track :
  C09_inv.Inv TRecvResponse f -> HInv s h -> s_obj s = ObFlow TRecvResponse f ->
  HInv (fst (do_try_response s f win track))
       (match recv_try_response f win with Ok (_, _, got) => h_response h win got | _ => h end).
Proof.
  intros Hinv Hi Ho. unfold do_try_response.
  destruct (recv_try_response f win) as [[[f' used] got]|e|p] eqn:E; cbn [fst]; try exact Hi.
  pose proof (HFlow_response f h win f' used got Hinv (proj1 Hi _ f Ho) E) as Hf'.
  destruct track; cbn [fst];
    (eapply (HInv_obj s h); [exact Hi|reflexivity|]);
    intros t0 f0 E0; cbn in E0; inversion E0; subst; exact Hf'.
Qed.

Lemma do_read_hinv s h f win cap track :
  HInv s h -> s_obj s = ObFlow TRecvBody f -> HInv (fst (do_read s f win cap track)) h.
Proof.
  intros Hi Ho. pose proof (proj1 Hi _ f Ho) as Hf. unfold do_read.
  destruct (recv_body_read f win cap) as [[[f' i] o]|e|p] eqn:E; cbn [fst]; try exact Hi.
  - apply recv_body_read_sameF in E.
    assert (Hf' : HFlow TRecvBody f' h) by (apply (HFlow_same_tag TRecvBody f f' h Hf E); intros; discriminate).
    destruct track; cbn [fst];
      (eapply (HInv_obj s h); [exact Hi|reflexivity|]);
      intros t0 f0 E0; cbn in E0; inversion E0; subst; exact Hf'.
  - apply (HInv_with_flow s h); [exact Hi|].
    apply (HFlow_same_tag TRecvBody f _ h Hf (recv_body_after_err_sameF f win cap)); intros; discriminate.
Qed.

Lemma do_write_body_hinv s h input cap track sum :
  HInv s h -> HInv (fst (do_write_body s input cap track sum)) h.
Proof.
  intros Hi. unfold do_write_body.
  destruct (s_obj s) as [|t f|hd c] eqn:Ho; [exact Hi| |].
  - destruct t; try exact Hi. pose proof (proj1 Hi _ f Ho) as Hf.
    destruct (send_body_write f input cap) as [[[f' u] o]|e|p] eqn:E; cbn [fst]; try exact Hi.
    apply send_body_write_sameF in E.
    assert (Hf' : HFlow TSendBody f' h) by (apply (HFlow_same_tag TSendBody f f' h Hf E); intros; discriminate).
    destruct track; cbn [fst];
      (eapply (HInv_obj s h); [exact Hi|reflexivity|]);
      intros t0 f0 E0; cbn in E0; inversion E0; subst; exact Hf'.
  - destruct hd; try exact Hi.
    destruct (call_write_body c input cap) as [[[c' u] o]|e|p]; cbn [fst]; try exact Hi.
    + destruct track; cbn [fst]; (eapply (HInv_noflow s h); [exact Hi|reflexivity|cbn; discriminate]).
    + apply (HInv_call s h); exact Hi.
Qed.

(** The arms of [step] for the single call past the request: the object stays a call or is gone. *)
Ltac call_arms s h Hi :=
  unfold do_call_into_receive;
  repeat match goal with
  | |- context [match into_receive ?c with _ => _ end] => destruct (into_receive c)
  | |- context [match c_reader ?c with _ => _ end] => destruct (c_reader c) as [[| | |]|]
  | |- context [match call_try_response ?c ?b with _ => _ end] => destruct (call_try_response c b) as [[? ?]|?|?]
  | |- context [match call_read ?c ?b ?cap with _ => _ end] => destruct (call_read c b cap) as [[[? ?] ?]|?|?]
  end; cbn [fst];
  first [exact Hi | apply (HInv_call s h); exact Hi | apply (HInv_none s h); exact Hi].

Theorem hstep_inv s h o : SInv s -> HInv s h -> HInv (fst (step s o)) (hstep s h o).
Proof.
  intros HS Hi. pose proof HS as [Hobj _].
  destruct o; unfold step, hstep.
  - (* ONew *)
    destruct (flow_new_shape r) as (rs & _ & Hshape).
    destruct (flow_new r) as [f|e|p] eqn:Ef; try (rewrite Hshape in Ef; discriminate).
    destruct (flow_new_hflow r f Ef) as [_ Hf]. cbn [fst].
    split; cbn [s_obj s_next]; [|discriminate].
    intros t f0 H. inversion H; subst. exact Hf.
  - apply (HInv_call s h); exact Hi.
  - apply (HInv_call s h); exact Hi.
  - (* OHeader *)
    destruct (s_obj s) as [|t f|hd c] eqn:Ho; [| destruct t | destruct hd]; cbn [fst]; try exact Hi.
    eapply hupd_inv; [exact Hi|exact Ho|]. intros a Ha. split; [eapply prepare_header_sameF; exact Ha|].
    intros; discriminate.
  - (* ODespite *)
    destruct (s_obj s) as [|t f|hd c] eqn:Ho; [| destruct t | destruct hd]; cbn [fst]; try exact Hi.
    unfold upd. destruct (send_body_despite_method f) as [f'|e|p] eqn:E; cbn [fst].
    + apply (HInv_with_flow s h); [exact Hi|].
      destruct (despite_flags f f' E) as (F1 & F2 & F3 & F4).
      destruct (proj1 Hi _ f Ho) as (H1 & H2 & H3 & H4 & H5 & H6 & H7 & H8).
      destruct (H5 (or_introl eq_refl)) as [Hr Hc].
      unfold HFlow, h_despite, hs_due.
      cbn [hs_method hs_despite hs_expect hs_refused hs_cleared hs_status hs_mode].
      rewrite F1, F2, F3, F4, Hr, orb_true_r.
      split; [reflexivity|]. split; [exact H2|]. split; [exact H3|]. split; [exact H4|].
      split; [intros _; split; auto|]. split; [intros; discriminate|].
      split; [exact H7|]. intros; discriminate.
    + (* an error / a panic leaves the flow as it was; the method still decides *)
      exfalso. cbn [ObjInv] in Hobj.
      pose proof (despite_total f Hobj) as Ht. rewrite E in Ht. exact Ht.
    + exfalso. cbn [ObjInv] in Hobj.
      pose proof (despite_total f Hobj) as Ht. rewrite E in Ht. exact Ht.
  - (* OProceed *)
    destruct (s_obj s) as [|t f|hd c] eqn:Ho; [exact Hi| |destruct hd; call_arms s h Hi].
    cbn [ObjInv] in Hobj. apply do_proceed_hinv; assumption.
  - (* OPremature *)
    destruct (s_obj s) as [|t f|hd c] eqn:Ho; [exact Hi| |exact Hi]. apply do_premature_hinv; exact Hi.
  - (* OWriteHead *)
    destruct (s_obj s) as [|t f|hd c] eqn:Ho; [| destruct t | destruct hd]; cbn [fst]; try exact Hi.
    + eapply hupd_inv; [exact Hi|exact Ho|]. intros [a o] Ha. split; [eapply send_request_write_sameF; exact Ha|].
      intros; discriminate.
    + destruct (call_write_nobody c cap) as [[c' out]|e|p]; cbn [fst]; try exact Hi;
        (apply (HInv_call s h); exact Hi).
  - destruct (s_obj s) as [|t f|hd c] eqn:Ho; [| destruct t | destruct hd]; apply do_write_body_hinv; exact Hi.
  - destruct (s_obj s) as [|t f|hd c] eqn:Ho; [| destruct t | destruct hd]; apply do_write_body_hinv; exact Hi.
  - destruct (s_obj s) as [|t f|hd c] eqn:Ho; [| destruct t | destruct hd]; apply do_write_body_hinv; exact Hi.
  - (* OSetBody *)
    cbn [fst]; (eapply HInv_same; [exact Hi|reflexivity|reflexivity]).
  - (* ODirect *)
    destruct (s_obj s) as [|t f|hd c] eqn:Ho; [| destruct t | destruct hd]; cbn [fst]; try exact Hi.
    eapply hupd_inv; [exact Hi|exact Ho|]. intros a Ha. split; [eapply send_body_direct_sameF; exact Ha|].
    intros; discriminate.
  - cbn [fst]; (eapply HInv_same; [exact Hi|reflexivity|reflexivity]).
  - cbn [fst]; (eapply HInv_same; [exact Hi|reflexivity|reflexivity]).
  - (* OTry100 *)
    destruct (s_obj s) as [|t f|hd c] eqn:Ho; [| destruct t | destruct hd]; cbn [fst]; try exact Hi.
    cbn [ObjInv] in Hobj. apply do_try100_hinv; assumption.
  - destruct (s_obj s) as [|t f|hd c] eqn:Ho; [| destruct t | destruct hd]; cbn [fst]; try exact Hi.
    cbn [ObjInv] in Hobj. apply do_try100_hinv; assumption.
  - (* OTryResponse *)
    destruct (s_obj s) as [|t f|hd c] eqn:Ho; [| destruct t | destruct hd]; cbn [fst]; try exact Hi.
    cbn [ObjInv] in Hobj. apply (do_try_response_hinv s h f (window s) true); assumption.
  - destruct (s_obj s) as [|t f|hd c] eqn:Ho; [| destruct t | destruct hd]; cbn [fst]; try exact Hi.
    + cbn [ObjInv] in Hobj. apply (do_try_response_hinv s h f w false); assumption.
    + call_arms s h Hi.
  - (* ORead *)
    destruct (s_obj s) as [|t f|hd c] eqn:Ho; [| destruct t | destruct hd]; cbn [fst]; try exact Hi.
    apply do_read_hinv; assumption.
  - destruct (s_obj s) as [|t f|hd c] eqn:Ho; [| destruct t | destruct hd]; cbn [fst]; try exact Hi.
    + apply do_read_hinv; assumption.
    + call_arms s h Hi.
  - (* OStop *)
    destruct (s_obj s) as [|t f|hd c] eqn:Ho; [| destruct t | destruct hd]; cbn [fst]; try exact Hi.
    + eapply hupd_inv; [exact Hi|exact Ho|]. intros a Ha. split; [eapply recv_body_stop_sameF; exact Ha|].
      intros; discriminate.
    + call_arms s h Hi.
  - (* OAsNewFlow *)
    destruct (s_obj s) as [|t f|hd c] eqn:Ho; [| destruct t | destruct hd]; cbn [fst]; try exact Hi.
    destruct (as_new_flow f p) as [[f' nxt]|e|pn] eqn:E; cbn [fst]; try exact Hi.
    destruct (as_new_flow_flags f p f' nxt E) as (F1 & F2 & F3 & F4 & Hn).
    destruct (proj1 Hi _ f Ho) as (H1 & H2 & H3 & H4 & H5 & H6 & H7 & H8).
    split; cbn [s_obj s_next].
    + intros t f0 H. inversion H; subst. unfold HFlow. rewrite F1, F2, F3.
      split; [exact H1|]. split; [exact H2|]. split; [exact H3|].
      split; [intros r0 Hr0; apply H4; apply F4; exact Hr0|].
      split; [intros [E'|E']; discriminate|]. split; [intros; discriminate|].
      split; intros; discriminate.
    + intros n H. destruct nxt as [n'|]; [|apply (proj2 Hi); exact H]. inversion H; subst n'.
      destruct Hn as (req & nf & Hnf & Hq & G1 & G2 & G3).
      destruct (flow_new_hflow req nf Hnf) as [_ (K1 & K2 & K3 & K4 & K5 & K6 & K7 & K8)].
      exists req. split; [exact Hq|]. unfold HFlow. rewrite G1, G2, G3.
      split; [exact K1|]. split; [exact K2|]. split; [exact K3|].
      split; [intros r0 Hr0; rewrite Hq in Hr0; inversion Hr0; subst; reflexivity|].
      split; [exact K5|]. split; [exact K6|]. split; [exact K7|]. intros; discriminate.
  - (* OFollow *)
    destruct (s_next s) as [n|] eqn:En.
    + destruct (proj2 Hi n En) as (r & Hq & Hf). rewrite Hq.
      destruct (s_obj s) as [|t f|hd c] eqn:Ho; [| destruct t | destruct hd]; cbn [fst];
        (split; cbn [s_obj s_next]; [intros t0 f0 H; inversion H; subst; exact Hf|discriminate]).
    + destruct (s_obj s) as [|t f|hd c] eqn:Ho; [| destruct t | destruct hd]; cbn [fst]; exact Hi.
  - destruct (s_obj s) as [|t f|hd c] eqn:Ho; [| destruct t | destruct hd]; cbn [fst]; exact Hi.
  - destruct (s_obj s) as [|t f|hd c] eqn:Ho; [| destruct t | destruct hd]; cbn [fst]; exact Hi.
  - destruct (s_obj s) as [|t f|hd c] eqn:Ho; [| destruct t | destruct hd]; cbn [fst]; exact Hi.
  - destruct (s_obj s) as [|t f|hd c] eqn:Ho; [| destruct t | destruct hd]; cbn [fst]; exact Hi.
  - destruct (s_obj s) as [|t f|hd c] eqn:Ho; [| destruct t | destruct hd]; cbn [fst]; exact Hi.
  - destruct (s_obj s) as [|t f|hd c] eqn:Ho; [| destruct t | destruct hd]; cbn [fst]; exact Hi.
  - destruct (s_obj s) as [|t f|hd c] eqn:Ho; [| destruct t | destruct hd]; cbn [fst]; exact Hi.
  - destruct (s_obj s) as [|t f|hd c] eqn:Ho; [| destruct t | destruct hd]; cbn [fst]; exact Hi.
  - destruct (s_obj s) as [|t f|hd c] eqn:Ho; [| destruct t | destruct hd]; cbn [fst]; exact Hi.
  - destruct (s_obj s) as [|t f|hd c] eqn:Ho; [| destruct t | destruct hd]; cbn [fst]; exact Hi.
  - destruct (s_obj s) as [|t f|hd c] eqn:Ho; [| destruct t | destruct hd]; cbn [fst]; exact Hi.
  - destruct (s_obj s) as [|t f|hd c] eqn:Ho; [| destruct t | destruct hd]; cbn [fst]; exact Hi.
  - destruct (s_obj s) as [|t f|hd c] eqn:Ho; [| destruct t | destruct hd]; cbn [fst]; exact Hi.
  - destruct (s_obj s) as [|t f|hd c] eqn:Ho; [| destruct t | destruct hd]; cbn [fst]; exact Hi.
  - destruct (s_obj s) as [|t f|hd c] eqn:Ho; [| destruct t | destruct hd]; cbn [fst]; exact Hi.
  - destruct (s_obj s) as [|t f|hd c] eqn:Ho; [| destruct t | destruct hd]; cbn [fst]; exact Hi.
  - destruct (s_obj s) as [|t f|hd c] eqn:Ho; [| destruct t | destruct hd]; cbn [fst]; exact Hi.
  - destruct (s_obj s) as [|t f|hd c] eqn:Ho; [| destruct t | destruct hd]; cbn [fst]; exact Hi.
Qed.

(* ------------------------------------------------------------------ every admissible history *)

Lemma HInv_init h : HInv s_init h.
Proof. split; cbn; discriminate. Qed.

Lemma hrun_inv : forall ops s h,
  SInv s -> admissible s ops -> HInv s h ->
  SInv (fst (hrun (s, h) ops)) /\ HInv (fst (hrun (s, h) ops)) (snd (hrun (s, h) ops)).
Proof.
  induction ops as [|o ops IH]; intros s h HS Ha Hi; [split; assumption|].
  destruct Ha as (HK & HQ & Ht). destruct (step_good s o HS HK HQ) as [_ HS'].
  unfold hrun in *. cbn [fold_left fst snd]. apply IH; [exact HS'|exact Ht|].
  apply hstep_inv; assumption.
Qed.

Theorem hist_invariant ops :
  admissible s_init ops -> HInv (run_ops s_init ops) (hist_of ops).
Proof.
  intros Ha. destruct (hrun_inv ops s_init hist0 sinv_init Ha (HInv_init hist0)) as [_ H].
  rewrite hrun_fst in H. exact H.
Qed.

Theorem hist_flow ops t f :
  admissible s_init ops -> s_obj (run_ops s_init ops) = ObFlow t f -> HFlow t f (hist_of ops).
Proof. intros Ha Ho. exact (proj1 (hist_invariant ops Ha) t f Ho). Qed.

(* ------------------------------------------------------------------ the successor from the facts *)

(** What [proceed] does in state [t]: [Some] = it advanced. *)
Definition proceeds_to (t : tag) (f : inner) : option (tag * inner) :=
  match t with
  | TPrepare => Some (TSendRequest, f)
  | TSendRequest => match send_request_proceed f with Ok (Some x) => Some x | _ => None end
  | TAwait100 => match await_100_proceed f with Ok x => Some x | _ => None end
  | TSendBody => match send_body_proceed f with Ok (Some x) => Some x | _ => None end
  | TRecvResponse => match recv_response_proceed f with Ok (Some x) => Some x | _ => None end
  | TRecvBody => match recv_body_proceed f with Ok (Some x) => Some x | _ => None end
  | TRedirect => Some (TCleanup, f)
  | TCleanup => None
  end.

Lemma is_redirect_of f : is_redirect f = redirect_of (i_status f).
Proof. unfold is_redirect, redirect_of. destruct (i_status f); reflexivity. Qed.

Lemma need_body_expects c rd : c_reader c = Some rd -> need_response_body c = expects_body rd.
Proof. intros H. unfold need_response_body. rewrite H. destruct rd; reflexivity. Qed.

Theorem proceeds_successor t f h t' f' :
  C09_inv.Inv t f -> HFlow t f h -> proceeds_to t f = Some (t', f') ->
  t' = graph_successor t h /\ C09_inv.Inv t' f'.
Proof.
  intros Hinv (H1 & H2 & H3 & H4 & H5 & H6 & H7 & H8) E.
  destruct (successor_all f t' f') as (S1 & S2 & S3 & S4 & S5).
  destruct t; cbn [proceeds_to graph_successor] in *.
  - inversion E; subst. split; [reflexivity|apply prepare_proceed; exact Hinv].
  - destruct (send_request_proceed f) as [[[t1 f1]|]|e|p] eqn:Ep; try discriminate.
    inversion E; subst t1 f1. destruct (S1 Hinv eq_refl) as (Ht & Hi' & _).
    split; [|exact Hi']. rewrite Ht, H1, H2.
    destruct (H5 (or_intror eq_refl)) as [-> ->]. cbn [negb]. rewrite !andb_true_r. reflexivity.
  - destruct (await_100_proceed f) as [[t1 f1]|e|p] eqn:Ep; try discriminate.
    inversion E; subst t1 f1. destruct (S2 Hinv eq_refl) as (Ht & Hi' & _).
    split; [|exact Hi']. rewrite Ht, H1, (H6 eq_refl). destruct (hs_refused h); reflexivity.
  - destruct (send_body_proceed f) as [[[t1 f1]|]|e|p] eqn:Ep; try discriminate.
    inversion E; subst t1 f1. destruct (S3 Hinv eq_refl) as (Ht & Hi'). split; assumption.
  - destruct (recv_response_proceed f) as [[[t1 f1]|]|e|p] eqn:Ep; try discriminate.
    inversion E; subst t1 f1. destruct (S4 Hinv eq_refl) as (Ht & Hi' & _).
    split; [|exact Hi']. rewrite Ht. rewrite <- (H8 eq_refl).
    destruct (c_reader (i_call f)) as [rd|] eqn:Er.
    + rewrite (need_body_expects _ _ Er), is_redirect_of, H3. reflexivity.
    + exfalso. destruct (ready_iff_all f) as (_ & _ & R & _).
      destruct (R Hinv) as (_ & Rt & _). pose proof (proj2 Rt (ex_intro _ _ Ep)) as Hcan.
      pose proof (inv_holder _ _ Hinv) as Hh. cbn in Hh.
      unfold recv_response_can_proceed in Hcan. rewrite (as_recv_response_ok f Hh) in Hcan.
      cbn [bind] in Hcan. rewrite Er in Hcan. discriminate.
  - destruct (recv_body_proceed f) as [[[t1 f1]|]|e|p] eqn:Ep; try discriminate.
    inversion E; subst t1 f1. destruct (S5 Hinv eq_refl) as (Ht & Hi' & _).
    split; [|exact Hi']. rewrite Ht, is_redirect_of, H3. reflexivity.
  - inversion E; subst. split; [reflexivity|apply redirect_proceed; exact Hinv].
  - discriminate.
Qed.

(** The script's [proceed] in terms of [proceeds_to]. *)
Definition is_state_obs (o : list tok) : bool :=
  match o with [TW a; _] => beq_bytes a (s2b "state") | _ => false end.

Lemma do_proceed_some s t f t' f' :
  proceeds_to t f = Some (t', f') ->
  do_proceed s t f = (with_flow s t' f', [w "state"; tag_name t']).
Proof.
  intros E. unfold do_proceed. destruct t; cbn [proceeds_to] in E.
  - inversion E; subst. reflexivity.
  - destruct (send_request_proceed f) as [[[t1 f1]|]|e|p]; try discriminate. inversion E; subst. reflexivity.
  - destruct (await_100_proceed f) as [[t1 f1]|e|p]; try discriminate. inversion E; subst. reflexivity.
  - destruct (send_body_proceed f) as [[[t1 f1]|]|e|p]; try discriminate. inversion E; subst. reflexivity.
  - destruct (recv_response_proceed f) as [[[t1 f1]|]|e|p]; try discriminate. inversion E; subst. reflexivity.
  - destruct (recv_body_proceed f) as [[[t1 f1]|]|e|p]; try discriminate. inversion E; subst. reflexivity.
  - inversion E; subst. reflexivity.
  - discriminate.
Qed.

Lemma do_proceed_none s t f :
  proceeds_to t f = None ->
  is_state_obs (snd (do_proceed s t f)) = false /\
  (s_obj (fst (do_proceed s t f)) = s_obj s \/ s_obj (fst (do_proceed s t f)) = ObNone).
Proof.
  intros E. unfold do_proceed. destruct t; cbn [proceeds_to] in E; try discriminate.
  - destruct (send_request_proceed f) as [[[t1 f1]|]|e|p]; try discriminate; cbn [fst snd]; auto.
  - destruct (await_100_proceed f) as [[t1 f1]|e|p]; try discriminate; cbn [bind fst snd]; auto.
  - destruct (send_body_proceed f) as [[[t1 f1]|]|e|p]; try discriminate; cbn [fst snd]; auto.
  - destruct (recv_response_proceed f) as [[[t1 f1]|]|e|p]; try discriminate; cbn [fst snd]; auto.
  - destruct (recv_body_proceed f) as [[[t1 f1]|]|e|p]; try discriminate; cbn [fst snd]; auto.
  - cbn [fst snd]. auto.
Qed.

Lemma tag_name_inj t t' : tag_name t = tag_name t' -> t = t'.
Proof. destruct t, t'; intros H; try reflexivity; vm_compute in H; discriminate. Qed.

Lemma step_proceed s t f : s_obj s = ObFlow t f -> step s OProceed = do_proceed s t f.
Proof. intros H. unfold step. rewrite H. reflexivity. Qed.

(** The history-level successor theorem: after ANY admissible history, whenever [proceed] reports a
    new state, it is the state the documented graph prescribes for the facts of the history, and the
    flow is usable there. *)
Theorem successor_hist ops t f t' :
  admissible s_init ops -> s_obj (run_ops s_init ops) = ObFlow t f ->
  snd (step (run_ops s_init ops) OProceed) = [w "state"; tag_name t'] ->
  t' = graph_successor t (hist_of ops) /\
  exists f', s_obj (fst (step (run_ops s_init ops) OProceed)) = ObFlow t' f' /\ C09_inv.Inv t' f'.
Proof.
  intros Ha Ho Hobs. destruct (history_good ops s_init sinv_init Ha) as [_ [Hobj _]].
  rewrite Ho in Hobj. cbn [ObjInv] in Hobj.
  pose proof (hist_flow ops t f Ha Ho) as Hf.
  rewrite (step_proceed _ t f Ho) in *.
  destruct (proceeds_to t f) as [[t1 f1]|] eqn:E.
  - rewrite (do_proceed_some _ t f t1 f1 E) in *. cbn [fst snd] in *.
    assert (Hn : tag_name t1 = tag_name t').
    { inversion Hobs as [Hn]. unfold tag_name, w. rewrite Hn. reflexivity. }
    apply tag_name_inj in Hn. subst t1.
    destruct (proceeds_successor t f _ t' f1 Hobj Hf E) as [Ht Hi].
    split; [exact Ht|]. exists f1. split; [reflexivity|exact Hi].
  - destruct (do_proceed_none (run_ops s_init ops) t f E) as [Hn _]. rewrite Hobs in Hn.
    vm_compute in Hn. discriminate.
Qed.

(** The same without looking at the observation: if the state tag changed, it changed to the
    graph's successor (a [proceed] that is not ready, or not available, keeps the tag). *)
Theorem successor_hist_tag ops t f t' f' :
  admissible s_init ops -> s_obj (run_ops s_init ops) = ObFlow t f ->
  s_obj (fst (step (run_ops s_init ops) OProceed)) = ObFlow t' f' ->
  (t' = t /\ f' = f) \/ (t' = graph_successor t (hist_of ops) /\ C09_inv.Inv t' f').
Proof.
  intros Ha Ho Hs. destruct (history_good ops s_init sinv_init Ha) as [_ [Hobj _]].
  rewrite Ho in Hobj. cbn [ObjInv] in Hobj.
  pose proof (hist_flow ops t f Ha Ho) as Hf.
  rewrite (step_proceed _ t f Ho) in *.
  destruct (proceeds_to t f) as [[t1 f1]|] eqn:E.
  - rewrite (do_proceed_some _ t f t1 f1 E) in *. cbn [fst with_flow with_obj s_obj] in Hs.
    inversion Hs; subst t1 f1. right. exact (proceeds_successor t f _ t' f' Hobj Hf E).
  - destruct (do_proceed_none (run_ops s_init ops) t f E) as [_ [Hn|Hn]]; rewrite Hn in Hs.
    + rewrite Ho in Hs. inversion Hs; subst. left. split; reflexivity.
    + discriminate.
Qed.

(** The graph, clause by clause (the wording of the property). *)
Lemma graph_head h :
  (graph_successor TSendRequest h = TAwait100 <-> hs_due h = true /\ hs_expect h = true) /\
  (graph_successor TSendRequest h = TSendBody <-> hs_due h = true /\ hs_expect h = false) /\
  (graph_successor TSendRequest h = TRecvResponse <-> hs_due h = false).
Proof.
  unfold graph_successor. destruct (hs_due h), (hs_expect h);
    repeat split; intros; try discriminate; try tauto; destruct H; discriminate.
Qed.

Lemma graph_await h :
  (graph_successor TAwait100 h = TSendBody <-> hs_refused h = false) /\
  (graph_successor TAwait100 h = TRecvResponse <-> hs_refused h = true).
Proof. unfold graph_successor. destruct (hs_refused h); repeat split; intros; try discriminate; auto. Qed.

Lemma graph_response h r :
  hs_mode h = Some r ->
  graph_successor TRecvResponse h =
    match hs_status h with
    | Some st => successor r st
    | None => if expects_body r then TRecvBody else TCleanup
    end.
Proof. intros E. unfold graph_successor, successor, redirect_of. rewrite E. destruct (hs_status h); reflexivity. Qed.

Lemma graph_body h :
  graph_successor TRecvBody h = TRedirect <->
  exists st, hs_status h = Some st /\ 300 <= st <= 399 /\ st <> 304.
Proof.
  unfold graph_successor, redirect_of, is_redirect_status. destruct (hs_status h) as [st|].
  - destruct (N.leb_spec 300 st), (N.leb_spec st 399), (N.eqb_spec st 304); cbn [andb negb];
      split; intros H'; try discriminate; try (exists st; split; [reflexivity|lia]);
      try reflexivity; destruct H' as (st' & E & Hr); inversion E; subst; lia.
  - split; [discriminate|]. intros (st & E & _). discriminate.
Qed.
