(** (chunked-transfer decoder, src/chunk.rs and util::find_crlf) The functions translated from the Rust sources by
    tools/rs2coq2.py (theories/Gen2.v, regenerated on every run, state-passing style) equal the corresponding functions of the
    hand-written model (theories/Chunk.v), for ALL arguments.

    The generated transition functions take the WHOLE input [src] together with the position [pin] into it, and the position
    [pout] into the output buffer; the model's transition functions take the remaining input [drop pin src] and report the
    number of bytes consumed.  [lift_step] / [lift_data] translate a model step result into the generated function's result.

    The proofs are written to survive harmless rewrites of the Rust code: both sides are unfolded, every scrutinee is
    destructed (innermost first, the same term on both sides disappears at once) and the leaves are closed by
    [reflexivity] / [lia] / [congruence]; the loop is a lock-step induction on the common fuel which only uses the
    per-transition lemmas. *)
From Coq Require Import NArith ZArith Bool List Lia ZifyBool ZifyN.
From Hoot Require Import Base Chunk Body GenLib Gen2.
From Hoot.proofs Require Import BytesLemmas.
Open Scope N_scope.

(** ** Tactics *)

(** Destruct one scrutinee of the goal which does not itself contain a [match] (so: innermost first).  [negb c] is
    split on [c], so that [if negb c then a else b] and [if c then b else a] meet. *)
Ltac break_step :=
  match goal with
  | |- context [match ?x with _ => _ end] =>
      lazymatch x with
      | context [match _ with _ => _ end] => fail
      | negb ?y => destruct y eqn:?; cbn [negb]
      | _ => destruct x eqn:?
      end
  end; cbv beta iota.

Ltac break_hyp H :=
  match type of H with
  | context [match ?x with _ => _ end] =>
      lazymatch x with
      | context [match _ with _ => _ end] => fail
      | negb ?y => destruct y eqn:?; cbn [negb] in H
      | _ => destruct x eqn:?
      end
  end; cbv beta iota in H.

(** Evaluate arithmetic on numerals ([20 + 1] becomes [21]) so that both sides spell constants the same way. *)
Ltac is_pos_lit p :=
  lazymatch p with
  | xH => idtac
  | xO ?q => is_pos_lit q
  | xI ?q => is_pos_lit q
  end.
Ltac is_N_lit n :=
  lazymatch n with
  | N0 => idtac
  | Npos ?p => is_pos_lit p
  end.
Ltac fold_consts :=
  repeat match goal with
         | |- context [N.add ?a ?b] =>
             is_N_lit a; is_N_lit b; let v := eval vm_compute in (N.add a b) in change (N.add a b) with v
         | |- context [N.sub ?a ?b] =>
             is_N_lit a; is_N_lit b; let v := eval vm_compute in (N.sub a b) in change (N.sub a b) with v
         | |- context [N.mul ?a ?b] =>
             is_N_lit a; is_N_lit b; let v := eval vm_compute in (N.mul a b) in change (N.mul a b) with v
         end.

(** Split an equation between results componentwise (through the constructors of the result, of tuples, of states
    and of the list operations only: never through arithmetic, which is left to [lia]). *)
Ltac split_eq :=
  repeat match goal with
         | |- Ok _ = Ok _ => apply f_equal
         | |- Err _ = Err _ => apply f_equal
         | |- Some _ = Some _ => apply f_equal
         | |- DChunk _ = DChunk _ => apply f_equal
         | |- (_, _) = (_, _) => apply f_equal2
         | |- _ ++ _ = _ ++ _ => apply f_equal2
         | |- take _ _ = take _ _ => apply f_equal2
         | |- drop _ _ = drop _ _ => apply f_equal2
         end.

Ltac leaf :=
  cbn [sr_st sr_in sr_out sr_more];
  first [ reflexivity | exact I | discriminate | exfalso; lia | congruence
        | split_eq; first [ reflexivity | lia | congruence ] ].

(** ** Library helpers of GenLib *)

Lemma get_at_cons_succ {A} (x : A) t n : get_at (x :: t) (n + 1) = get_at t n.
Proof.
  cbn [get_at]. destruct (N.eqb_spec (n + 1) 0) as [E|E]; [lia|].
  rewrite N.add_1_r, N.pred_succ. reflexivity.
Qed.

Lemma get_at_0 {A} (l : list A) : get_at l 0 = match l with [] => None | x :: _ => Some x end.
Proof. destruct l; reflexivity. Qed.

(** ** 1. find_crlf *)

(** The model's scan, characterised by "first CR, then look at the byte after it". *)
Lemma find_crlf_aux_spec b : forall i,
  find_crlf_aux b i =
  match position (fun c => c =? 13) b with
  | Some p => match get_at b (p + 1) with
              | Some lf => if lf =? 10 then Some (i + p) else None
              | None => None
              end
  | None => None
  end.
Proof.
  induction b as [|c t IH]; intros i.
  - reflexivity.
  - cbn [find_crlf_aux position]. destruct (c =? 13) eqn:Ec.
    + rewrite get_at_cons_succ, get_at_0. destruct t as [|d t']; [reflexivity|].
      destruct (d =? 10); [|reflexivity]. f_equal. lia.
    + rewrite IH. destruct (position (fun c0 => c0 =? 13) t) as [p|]; cbn [option_map]; [|reflexivity].
      replace (N.succ p + 1) with ((p + 1) + 1) by lia.
      rewrite get_at_cons_succ.
      destruct (get_at t (p + 1)) as [lf|]; [|reflexivity].
      destruct (lf =? 10); [|reflexivity]. f_equal. lia.
Qed.

Lemma find_crlf_spec b :
  find_crlf b =
  match position (fun c => c =? 13) b with
  | Some p => match get_at b (p + 1) with
              | Some lf => if lf =? 10 then Some p else None
              | None => None
              end
  | None => None
  end.
Proof.
  unfold find_crlf. rewrite find_crlf_aux_spec.
  destruct (position (fun c => c =? 13) b) as [p|]; [|reflexivity].
  destruct (get_at b (p + 1)) as [lf|]; [|reflexivity].
  destruct (lf =? 10); reflexivity.
Qed.

Lemma gen_find_crlf_eq : forall b, gen_find_crlf b = find_crlf b.
Proof.
  intros b. rewrite find_crlf_spec. unfold gen_find_crlf. cbv zeta.
  repeat break_step; leaf.
Qed.

(** ** 2. State predicates *)

Lemma gen_dech_is_on_chunk_boundary_eq : forall d, gen_dech_is_on_chunk_boundary d = is_on_chunk_boundary d.
Proof. intros d. destruct d; reflexivity. Qed.

Lemma gen_dech_is_ended_eq : forall d, gen_dech_is_ended d = dech_is_ended d.
Proof. intros d. destruct d; reflexivity. Qed.

(** ** 3. Transitions *)

(** A model step result seen from the generated function: the new state, the advanced input position, the (unchanged)
    output position and the "more" flag.  ([d0] is the state the step was taken from; it is not needed to express the result.) *)
Definition lift_step (d0 : dechunker) (pin pout : N) (m : res stepres) : res (dechunker * N * N * bool) :=
  match m with
  | Ok r => Ok (sr_st r, pin + sr_in r, pout, sr_more r)
  | Err e => Err e
  | Panic s => Panic s
  end.

(** The same for [read_data], which also writes [sr_out] into the buffer at [pout]. *)
Definition lift_data (buf : bytes) (pin pout : N) (m : res stepres) : res (dechunker * bytes * N * N * bool) :=
  match m with
  | Ok r => Ok (sr_st r,
                take pout buf ++ sr_out r ++ drop (pout + len (sr_out r)) buf,
                pin + sr_in r, pout + len (sr_out r), sr_more r)
  | Err e => Err e
  | Panic s => Panic s
  end.

(** Equal values, equal errors; the messages carried by panics are not compared (model and generated code name the
    panic site differently). *)
Definition res_rel {A : Type} (g m : res A) : Prop :=
  match g, m with
  | Ok a, Ok b => a = b
  | Err e1, Err e2 => e1 = e2
  | Panic _, Panic _ => True
  | _, _ => False
  end.

Lemma res_rel_refl {A} (r : res A) : res_rel r r.
Proof. destruct r; cbn; auto. Qed.

Lemma res_rel_eq {A} (g m : res A) : g = m -> res_rel g m.
Proof. intros ->. apply res_rel_refl. Qed.

Ltac unfold_steps :=
  unfold lift_step, lift_data,
         gen_dech_read_size, gen_dech_expect_crlf, gen_dech_trailer_or_ended, gen_dech_trailer,
         read_size, expect_crlf, trailer_or_ended, trailer,
         std_from_utf8, unwrap_or, SANITY_CHECK, META_WINDOW;
  cbv zeta; fold_consts; rewrite ?gen_find_crlf_eq.

Lemma gen_dech_read_size_eq : forall src pin pout,
  gen_dech_read_size DSize src pin pout = lift_step DSize pin pout (read_size (drop pin src)).
Proof. intros. unfold_steps. repeat break_step; leaf. Qed.

Lemma gen_dech_expect_crlf_eq : forall src pin pout,
  gen_dech_expect_crlf DCrLf src pin pout = lift_step DCrLf pin pout (expect_crlf (drop pin src)).
Proof. intros. unfold_steps. repeat break_step; leaf. Qed.

Lemma gen_dech_trailer_or_ended_eq : forall src pin pout,
  gen_dech_trailer_or_ended DEnding src pin pout = lift_step DEnding pin pout (trailer_or_ended (drop pin src)).
Proof. intros. unfold_steps. repeat break_step; leaf. Qed.

(** [trailer] can panic ([assert!(i > 0)]); model and generated code agree on WHEN, the messages differ. *)
Lemma gen_dech_trailer_rel : forall src pin pout,
  res_rel (gen_dech_trailer DTrailer src pin pout) (lift_step DTrailer pin pout (trailer (drop pin src))).
Proof. intros. unfold res_rel. unfold_steps. repeat break_step; leaf. Qed.

(** ... and outside the panic the results are equal. *)
Lemma gen_dech_trailer_eq : forall src pin pout,
  (forall s, trailer (drop pin src) <> Panic s) ->
  gen_dech_trailer DTrailer src pin pout = lift_step DTrailer pin pout (trailer (drop pin src)).
Proof.
  intros src pin pout H. pose proof (gen_dech_trailer_rel src pin pout) as R.
  destruct (trailer (drop pin src)) as [r|e|s] eqn:M; cbn [lift_step] in *;
    destruct (gen_dech_trailer DTrailer src pin pout) as [g|e'|s']; cbn [res_rel] in R;
    try contradiction; try congruence; exfalso; eapply H; reflexivity.
Qed.

(** [read_data]: no side condition on [pout] is needed (when [len buf < pout] the room is 0 and nothing is copied). *)
Lemma gen_dech_read_data_eq : forall lft src buf pin pout,
  gen_dech_read_data (DChunk lft) src buf pin pout =
  lift_data buf pin pout (read_data lft (drop pin src) (len buf - pout)).
Proof.
  intros. unfold gen_dech_read_data, lift_data, read_data, splice. cbv zeta.
  cbn [sr_st sr_in sr_out sr_more].
  rewrite ?take_take, ?len_take, ?N.min_id.
  set (tr := N.min (N.min (len (drop pin src)) (len buf - pout)) lft).
  assert (Htr : N.min tr (len (drop pin src)) = tr) by (subst tr; lia).
  rewrite ?Htr.
  repeat break_step; leaf.
Qed.

(** The form asked for: with the side condition [pout <= len buf] and the buffer spelled out. *)
Lemma gen_dech_read_data_splice : forall lft src buf pin pout r,
  pout <= len buf ->
  read_data lft (drop pin src) (len buf - pout) = Ok r ->
  gen_dech_read_data (DChunk lft) src buf pin pout =
  Ok (sr_st r, take pout buf ++ sr_out r ++ drop (pout + len (sr_out r)) buf,
      pin + sr_in r, pout + len (sr_out r), sr_more r).
Proof. intros lft src buf pin pout r _ H. rewrite gen_dech_read_data_eq, H. reflexivity. Qed.

(** ** Facts about the model's steps needed for the loop *)

Ltac out_nil f :=
  intros src r H; unfold f in H; repeat break_hyp H; inversion H; reflexivity.

Lemma read_size_out_nil : forall src r, read_size src = Ok r -> sr_out r = [].
Proof. out_nil read_size. Qed.
Lemma expect_crlf_out_nil : forall src r, expect_crlf src = Ok r -> sr_out r = [].
Proof. out_nil expect_crlf. Qed.
Lemma trailer_or_ended_out_nil : forall src r, trailer_or_ended src = Ok r -> sr_out r = [].
Proof. out_nil trailer_or_ended. Qed.
Lemma trailer_out_nil : forall src r, trailer src = Ok r -> sr_out r = [].
Proof. out_nil trailer. Qed.

Lemma read_data_out_le : forall lft src room r, read_data lft src room = Ok r -> len (sr_out r) <= room.
Proof.
  intros lft src room r H. unfold read_data in H. cbv zeta in H. inversion H. cbn [sr_out].
  rewrite len_take. lia.
Qed.

(** Every step produces at most [room] bytes. *)
Lemma dech_step_out_le : forall d src room r, dech_step d src room = Ok r -> len (sr_out r) <= room.
Proof.
  intros d src room r H. destruct d; cbn [dech_step] in H.
  - rewrite (read_size_out_nil _ _ H). cbn [len]. lia.
  - eapply read_data_out_le; eassumption.
  - rewrite (expect_crlf_out_nil _ _ H). cbn [len]. lia.
  - rewrite (trailer_or_ended_out_nil _ _ H). cbn [len]. lia.
  - rewrite (trailer_out_nil _ _ H). cbn [len]. lia.
  - inversion H. cbn [sr_out len]. lia.
Qed.

Lemma parse_input_loop_out_le : forall fuel d src room used out d' i out',
  parse_input_loop fuel d src room used out = Ok (d', i, out') ->
  len out' <= len out + room.
Proof.
  induction fuel as [|f IH]; intros d src room used out d' i out' H; cbn [parse_input_loop] in H.
  - discriminate.
  - destruct (dech_step d src room) as [r|e|s] eqn:S; cbn [bind] in H; try discriminate.
    cbv zeta in H. pose proof (dech_step_out_le _ _ _ _ S) as B.
    destruct (sr_more r).
    + apply IH in H. rewrite len_app in H. lia.
    + inversion H; subst. rewrite len_app. lia.
Qed.

(** The model never reports more output than there is room. *)
Lemma parse_input_out_le : forall d src room d' i out,
  parse_input d src room = Ok (d', i, out) -> len out <= room.
Proof.
  intros d src room d' i out H. unfold parse_input in H.
  apply parse_input_loop_out_le in H. cbn [len] in H. lia.
Qed.

(** ** 4. The loop *)

Definition pi_rel (dst : bytes) (g : res (dechunker * bytes * (N * N))) (m : res (dechunker * N * bytes)) : Prop :=
  match g, m with
  | Ok (d1, dst1, (i1, o1)), Ok (d2, i2, out2) =>
      d1 = d2 /\ i1 = i2 /\ o1 = len out2 /\ dst1 = out2 ++ drop (len out2) dst
  | Err e1, Err e2 => e1 = e2
  | Panic _, Panic _ => True
  | _, _ => False
  end.

(** The same relation for the loop function (which returns a flat tuple). *)
Definition loop_rel (dst : bytes) (g : res (dechunker * bytes * N * N)) (m : res (dechunker * N * bytes)) : Prop :=
  match g, m with
  | Ok (d1, dst1, i1, o1), Ok (d2, i2, out2) =>
      d1 = d2 /\ i1 = i2 /\ o1 = len out2 /\ dst1 = out2 ++ drop (len out2) dst
  | Err e1, Err e2 => e1 = e2
  | Panic _, Panic _ => True
  | _, _ => False
  end.

(** Buffer bookkeeping for the data step. *)
Lemma buf_after_write (dst out o : bytes) :
  len out + len o <= len dst ->
  take (len out) (out ++ drop (len out) dst) ++ o ++ drop (len out + len o) (out ++ drop (len out) dst)
  = (out ++ o) ++ drop (len (out ++ o)) dst.
Proof.
  intros H. rewrite take_app_exact. rewrite drop_app_ge by lia.
  replace (len out + len o - len out) with (len o) by lia.
  rewrite drop_drop, len_app, app_assoc. reflexivity.
Qed.

Lemma len_buf_inv (dst out : bytes) : len out <= len dst -> len (out ++ drop (len out) dst) = len dst.
Proof. intros H. rewrite len_app, len_drop. lia. Qed.

(** One non-data transition of both loops: given that the generated transition [g] is related to the lifted model
    step [m], and that the model step produces no output, the two continuations are related provided the recursive
    calls are (premise [K]). *)
Lemma loop_step_nodata (dst : bytes) d0 pin pout (g : res (dechunker * N * N * bool)) (m : res stepres)
      (kg : dechunker * N * N * bool -> res (dechunker * bytes * N * N))
      (km : stepres -> res (dechunker * N * bytes)) :
  res_rel g (lift_step d0 pin pout m) ->
  (forall r, m = Ok r -> loop_rel dst (kg (sr_st r, pin + sr_in r, pout, sr_more r)) (km r)) ->
  loop_rel dst (bind g kg) (bind m km).
Proof.
  intros R K. destruct m as [r|e|s]; cbn [lift_step] in R; destruct g as [a|e'|s']; cbn [res_rel] in R;
    try contradiction; cbn [bind].
  - subst a. apply K. reflexivity.
  - subst. reflexivity.
  - exact I.
Qed.

Lemma loop_step_data (dst buf : bytes) pin pout (g : res (dechunker * bytes * N * N * bool)) (m : res stepres)
      (kg : dechunker * bytes * N * N * bool -> res (dechunker * bytes * N * N))
      (km : stepres -> res (dechunker * N * bytes)) :
  res_rel g (lift_data buf pin pout m) ->
  (forall r, m = Ok r ->
     loop_rel dst (kg (sr_st r, take pout buf ++ sr_out r ++ drop (pout + len (sr_out r)) buf,
                       pin + sr_in r, pout + len (sr_out r), sr_more r)) (km r)) ->
  loop_rel dst (bind g kg) (bind m km).
Proof.
  intros R K. destruct m as [r|e|s]; cbn [lift_data] in R; destruct g as [a|e'|s']; cbn [res_rel] in R;
    try contradiction; cbn [bind].
  - subst a. apply K. reflexivity.
  - subst. reflexivity.
  - exact I.
Qed.

(** What remains to do after a transition that produces no output ([Hnil : sr_out r = []]): split on the "more"
    flag (whichever way round the generated code tests it); either both loops go round again (induction premise [IH])
    or both return. *)
Ltac nodata_tail IH Hnil :=
  cbv beta iota zeta; rewrite Hnil; cbn [len]; rewrite ?app_nil_r, ?N.sub_0_r;
  destruct (sr_more _); cbn [negb];
  [ apply IH; first [ assumption | lia | (subst; apply drop_drop) ]
  | cbn [loop_rel]; subst; repeat split; reflexivity ].

(** Lock-step simulation, for an arbitrary common fuel.  Generated loop state: (d, buf, pin, pout); model loop state:
    (d, msrc, room, used, out). *)
Lemma gen_parse_input_loop_equiv (src dst : bytes) : forall fuel d buf pin pout msrc room used out,
  msrc = drop pin src ->
  room = len dst - pout ->
  used = pin ->
  len out = pout ->
  buf = out ++ drop pout dst ->
  pout <= len dst ->
  loop_rel dst (gen_dech_parse_input_loop1 fuel src d buf pin pout)
               (parse_input_loop fuel d msrc room used out).
Proof.
  induction fuel as [|f IH]; intros d buf pin pout msrc room used out Hsrc Hroom Hused Hout Hbuf Hle.
  - exact I.
  - cbn [gen_dech_parse_input_loop1 parse_input_loop].
    assert (Hlen : len buf = len dst) by (subst buf pout; apply len_buf_inv; exact Hle).
    destruct d; cbn [dech_step].
    + (* DSize *)
      eapply loop_step_nodata; [apply res_rel_eq; subst msrc; apply gen_dech_read_size_eq|].
      intros r Hr. nodata_tail IH (read_size_out_nil _ _ Hr).
    + (* DChunk *)
      eapply loop_step_data.
      { apply res_rel_eq. subst msrc room. rewrite <- Hlen. apply gen_dech_read_data_eq. }
      intros r Hr. cbv beta iota zeta.
      pose proof (read_data_out_le _ _ _ _ Hr) as Hb.
      assert (Hbuf' : take pout buf ++ sr_out r ++ drop (pout + len (sr_out r)) buf
                      = (out ++ sr_out r) ++ drop (len (out ++ sr_out r)) dst).
      { subst buf pout. apply buf_after_write. lia. }
      rewrite Hbuf'.
      destruct (sr_more r); cbn [negb].
      * apply IH; try assumption; try lia.
        -- subst msrc. apply drop_drop.
        -- rewrite len_app. lia.
        -- rewrite len_app. f_equal. f_equal. lia.
      * cbn [loop_rel]. subst used. rewrite len_app. repeat split; try reflexivity; lia.
    + (* DCrLf *)
      eapply loop_step_nodata; [apply res_rel_eq; subst msrc; apply gen_dech_expect_crlf_eq|].
      intros r Hr. nodata_tail IH (expect_crlf_out_nil _ _ Hr).
    + (* DEnding *)
      eapply loop_step_nodata; [apply res_rel_eq; subst msrc; apply gen_dech_trailer_or_ended_eq|].
      intros r Hr. nodata_tail IH (trailer_or_ended_out_nil _ _ Hr).
    + (* DTrailer *)
      eapply loop_step_nodata; [subst msrc; apply gen_dech_trailer_rel|].
      intros r Hr. nodata_tail IH (trailer_out_nil _ _ Hr).
    + (* DEnded *)
      cbn [bind sr_st sr_in sr_out sr_more negb]. cbv beta iota zeta. cbn [negb loop_rel].
      subst. rewrite app_nil_r, N.add_0_r. repeat split; reflexivity.
Qed.

Theorem gen_parse_input_equiv : forall d src dst,
  pi_rel dst (gen_dech_parse_input d src dst) (parse_input d src (len dst)).
Proof.
  intros d src dst. unfold gen_dech_parse_input, parse_input. cbv zeta.
  pose proof (gen_parse_input_loop_equiv src dst (2 * List.length src + 3) d dst 0 0 src (len dst) 0 []) as H.
  specialize (H (eq_sym (drop_0 src)) (eq_sym (N.sub_0_r (len dst))) eq_refl eq_refl).
  specialize (H (eq_sym (drop_0 dst)) (N.le_0_l _)).
  destruct (gen_dech_parse_input_loop1 (2 * List.length src + 3) src d dst 0 0) as [[[[d1 b1] i1] o1]|e1|s1];
    destruct (parse_input_loop (2 * List.length src + 3) d src (len dst) 0 []) as [[[d2 i2] out2]|e2|s2];
    cbn [loop_rel] in H; cbn [bind pi_rel]; try contradiction; try exact H; exact I.
Qed.

(** Whenever the generated function returns normally, so does the model, with the same state and input count; the
    first [o1] bytes of the buffer are the model's output, the rest of the buffer is untouched, the buffer keeps its
    length, and [o1] does not exceed it. *)
Corollary gen_parse_input_frame : forall d src dst d1 dst1 i1 o1,
  gen_dech_parse_input d src dst = Ok (d1, dst1, (i1, o1)) ->
  exists out,
    parse_input d src (len dst) = Ok (d1, i1, out) /\
    o1 = len out /\ o1 <= len dst /\
    take o1 dst1 = out /\ drop o1 dst1 = drop o1 dst /\ len dst1 = len dst.
Proof.
  intros d src dst d1 dst1 i1 o1 G.
  pose proof (gen_parse_input_equiv d src dst) as R. rewrite G in R.
  destruct (parse_input d src (len dst)) as [[[d2 i2] out2]|e2|s2] eqn:M; cbn [pi_rel] in R; try contradiction.
  destruct R as (Hd & Hi & Ho & Hb). subst d2 i2.
  pose proof (parse_input_out_le _ _ _ _ _ _ M) as Hle.
  exists out2. subst o1 dst1. repeat split.
  - exact Hle.
  - apply take_app_exact.
  - apply drop_app_exact.
  - apply len_buf_inv. exact Hle.
Qed.

(** Conversely, errors and panics coincide (the panic message aside). *)
Corollary gen_parse_input_err : forall d src dst e,
  gen_dech_parse_input d src dst = Err e <-> parse_input d src (len dst) = Err e.
Proof.
  intros d src dst e. pose proof (gen_parse_input_equiv d src dst) as R.
  destruct (gen_dech_parse_input d src dst) as [[[d1 b1] [i1 o1]]|e1|s1];
    destruct (parse_input d src (len dst)) as [[[d2 i2] out2]|e2|s2]; cbn [pi_rel] in R;
    try contradiction; split; intros H; try discriminate; congruence.
Qed.

Corollary gen_parse_input_panic : forall d src dst,
  (exists s, gen_dech_parse_input d src dst = Panic s) <-> (exists s, parse_input d src (len dst) = Panic s).
Proof.
  intros d src dst. pose proof (gen_parse_input_equiv d src dst) as R.
  destruct (gen_dech_parse_input d src dst) as [[[d1 b1] [i1 o1]]|e1|s1];
    destruct (parse_input d src (len dst)) as [[[d2 i2] out2]|e2|s2]; cbn [pi_rel] in R;
    try contradiction; split; intros [s H]; try discriminate; eauto.
Qed.

Print Assumptions get_at_cons_succ.
Print Assumptions get_at_0.
Print Assumptions find_crlf_aux_spec.
Print Assumptions find_crlf_spec.
Print Assumptions gen_find_crlf_eq.
Print Assumptions gen_dech_is_on_chunk_boundary_eq.
Print Assumptions gen_dech_is_ended_eq.
Print Assumptions res_rel_refl.
Print Assumptions res_rel_eq.
Print Assumptions gen_dech_read_size_eq.
Print Assumptions gen_dech_expect_crlf_eq.
Print Assumptions gen_dech_trailer_or_ended_eq.
Print Assumptions gen_dech_trailer_rel.
Print Assumptions gen_dech_trailer_eq.
Print Assumptions gen_dech_read_data_eq.
Print Assumptions gen_dech_read_data_splice.
Print Assumptions read_size_out_nil.
Print Assumptions expect_crlf_out_nil.
Print Assumptions trailer_or_ended_out_nil.
Print Assumptions trailer_out_nil.
Print Assumptions read_data_out_le.
Print Assumptions dech_step_out_le.
Print Assumptions parse_input_loop_out_le.
Print Assumptions parse_input_out_le.
Print Assumptions buf_after_write.
Print Assumptions len_buf_inv.
Print Assumptions loop_step_nodata.
Print Assumptions loop_step_data.
Print Assumptions gen_parse_input_loop_equiv.
Print Assumptions gen_parse_input_equiv.
Print Assumptions gen_parse_input_frame.
Print Assumptions gen_parse_input_err.
Print Assumptions gen_parse_input_panic.
