(** * C14 specification, part 2: the grammar of Location values the property quantifies over.

    Written from the text of the property ("absolute http/https URIs with and without ports,
    scheme-relative, path-absolute, path-relative with ./ and ../ segments, query-only, empty, with
    fragments") and from the ABNF of RFC 3986 (2.1 pct-encoded, 2.2 sub-delims, 2.3 unreserved,
    3.2.2 / 3.2.3 host and port, 3.3 pchar, 3.4 query, 3.5 fragment, 4.2 relative-ref).
    Independent of Url.v: only Base.v and the byte-string helpers of C14_spec.v ([span], [not_in],
    [is_nil]) are imported.

    WHY THIS EXISTS.  [Url.resolve] models the url crate (WHATWG URL parsing) as RFC 3986 resolution.
    The two agree on the strings below; they are known to DISAGREE on others, e.g.
      - "\\evil.test/p" (two backslashes): WHATWG treats "\" as "/" for http(s), so the crate goes to
        host evil.test; the model resolves a relative path on the SAME host;
      - "/a b": the crate percent-encodes the space ("/a%20b"); the model keeps the space;
      - "http:g": for the crate a relative reference on the same origin; for the model (RFC: an
        absolute URI without authority) unresolvable.
    So every statement about [resolve] that is meant as a statement about the code is claimed for
    Locations with [loc_in_grammar loc = true] only; outside, the theorems speak about the model. *)
From Hoot Require Import Base.
From Hoot.proofs Require Import C14_spec.
Open Scope N_scope.

(** 2.3  unreserved = ALPHA / DIGIT / "-" / "." / "_" / "~" *)
Definition g_unreserved (b : N) : bool :=
  is_alpha b || is_digit b || (b =? 45) || (b =? 46) || (b =? 95) || (b =? 126).

(** 2.2  sub-delims = "!" / "$" / "&" / "'" / "(" / ")" / "*" / "+" / "," / ";" / "=" *)
Definition g_sub_delim (b : N) : bool :=
  existsb (N.eqb b) [33; 36; 38; 39; 40; 41; 42; 43; 44; 59; 61].

Definition g_hexdig (b : N) : bool :=
  is_digit b || ((65 <=? b) && (b <=? 70)) || ((97 <=? b) && (b <=? 102)).

(** A byte that may stand for itself in path, query or fragment:
    3.3 pchar without pct-encoded (unreserved / sub-delims / ":" / "@"), plus "/" and "?". *)
Definition g_plain (b : N) : bool :=
  g_unreserved b || g_sub_delim b || (b =? 58) || (b =? 64) || (b =? 47) || (b =? 63).

(** *( plain / pct-encoded ): "%" only as the first byte of "%" HEXDIG HEXDIG. *)
Fixpoint g_chars (s : bytes) : bool :=
  match s with
  | [] => true
  | b :: t =>
      if b =? 37 then
        match t with
        | h1 :: h2 :: t' => g_hexdig h1 && g_hexdig h2 && g_chars t'
        | _ => false
        end
      else g_plain b && g_chars t
  end.

(** 3.2.2 / 3.2.3 restricted to what the property lists: authority = host [ ":" port ], host a
    non-empty registered name of letters, digits, "-" and "." (no userinfo, no IP literal, no
    pct-encoded), port = *DIGIT (a port above 65535 is in the grammar; it is "unresolvable"). *)
Definition g_host_char (b : N) : bool := is_alpha b || is_digit b || (b =? 45) || (b =? 46).

Definition g_authority (a : bytes) : bool :=
  let '(host, rest) := span (not_in [58]) a in
  negb (is_nil host) && forallb g_host_char host &&
  match rest with
  | [] => true
  | _ :: port => forallb is_digit port        (* the byte is ":" *)
  end.

(** "//" authority path-abempty [ "?" query ], given what follows the "//": the authority extends
    to the first "/" or "?" (what follows is then empty or begins with "/" or "?"). *)
Definition g_net_path (s : bytes) : bool := g_authority (fst (span (not_in [47; 63]) s)).

(** 4.2: a relative reference without authority is path-absolute, path-noscheme or path-empty,
    optionally followed by "?" query.  path-noscheme: no ":" in the first segment (otherwise the
    reference would be read as having a scheme). *)
Definition g_no_colon_in_first_segment (s : bytes) : bool :=
  forallb (not_in [58]) (fst (span (not_in [47; 63]) s)).

(** The shape of a reference without its fragment. *)
Definition g_shape (r : bytes) : bool :=
  if is_prefix (s2b "http://") (lower r) then g_net_path (drop 7 r)
  else if is_prefix (s2b "https://") (lower r) then g_net_path (drop 8 r)
  else if is_prefix (s2b "//") r then g_net_path (drop 2 r)
  else g_no_colon_in_first_segment r.

(** The reference and, if there is a "#", the fragment after the first one. *)
Definition g_ref_part (loc : bytes) : bytes := fst (span (not_in [35]) loc).
Definition g_fragment_part (loc : bytes) : option bytes :=
  match snd (span (not_in [35]) loc) with [] => None | _ :: f => Some f end.

Definition loc_in_grammar (loc : bytes) : bool :=
  g_chars (g_ref_part loc) &&
  match g_fragment_part loc with Some f => g_chars f | None => true end &&
  g_shape (g_ref_part loc).

(** The classes of the property text, for documentation and for the origin theorem: where the
    grammar says the target's scheme and authority come from. *)
Inductive g_origin :=
| GAbsolute (scheme authority : bytes)   (* "http" / "https" as written lower-cased, authority as written *)
| GSchemeRelative (authority : bytes)
| GSameOrigin.                           (* path-absolute, path-relative, query-only, empty *)

Definition g_origin_of (loc : bytes) : g_origin :=
  let r := g_ref_part loc in
  if is_prefix (s2b "http://") (lower r) then GAbsolute (s2b "http") (fst (span (not_in [47; 63]) (drop 7 r)))
  else if is_prefix (s2b "https://") (lower r) then GAbsolute (s2b "https") (fst (span (not_in [47; 63]) (drop 8 r)))
  else if is_prefix (s2b "//") r then GSchemeRelative (fst (span (not_in [47; 63]) (drop 2 r)))
  else GSameOrigin.

(** A byte of a well-formed request target: plain or "%". *)
Definition g_uri_byte (b : N) : bool := g_plain b || (b =? 37).

(** A byte of a well-formed authority host [ ":" port ]: a host byte or ":". *)
Definition g_auth_byte (b : N) : bool := g_host_char b || (b =? 58).
