(** C14: every flow a history of Script operations holds in the Redirect state has a status, so
    (unless its request was already taken by an earlier [as_new_flow]) it satisfies
    [redirect_state], and [as_new_flow] on it never panics -- whatever the requests the history
    created (absolute or origin form) and whatever the responses. *)
From Coq Require Import Lia ZArith List.
From Hoot Require Import Base Chunk Body Httparse Parser Url Request Call Flow Script.
From Hoot.proofs Require C13_proofs.
From Hoot.proofs Require Import C14_proofs C14_script C14_more.
Open Scope N_scope.

Lemma sr_proceed_not_redirect f f' : send_request_proceed f <> Ok (Some (TRedirect, f')).
Proof.
  unfold send_request_proceed. destruct (send_request_can_proceed f) as [ok| |]; cbn [bind]; try discriminate.
  destruct (negb ok); [discriminate|].
  destruct (i_should_send_body f).
  - destruct (i_await_100 f); [discriminate|].
    destruct (analyze_request (i_call f)); cbn [bind]; discriminate.
  - destruct (i_holder f); try discriminate. destruct (into_receive (i_call f)); discriminate.
Qed.

Lemma await_proceed_not_redirect f f' :
  (do x <- await_100_proceed f; Ok (Some x)) <> Ok (Some (TRedirect, f')).
Proof.
  unfold await_100_proceed. destruct (i_should_send_body f).
  - destruct (analyze_request (i_call f)); cbn [bind]; discriminate.
  - destruct (i_holder f); cbn [bind]; discriminate.
Qed.

Lemma sb_proceed_not_redirect f f' : send_body_proceed f <> Ok (Some (TRedirect, f')).
Proof.
  unfold send_body_proceed. destruct (send_body_can_proceed f) as [ok| |]; cbn [bind]; try discriminate.
  destruct (negb ok); [discriminate|]. destruct (into_receive (i_call f)); discriminate.
Qed.

Lemma as_new_flow_status f p f' nxt : as_new_flow f p = Ok (f', nxt) -> i_status f' = i_status f.
Proof.
  intros H. destruct nxt as [n|].
  - apply C13_proofs.as_new_flow_some in H.
    destruct H as (loc & st & orig & target & nm & _ & _ & _ & _ & _ & _ & _ & _ & _ & ->). reflexivity.
  - apply C13_proofs.as_new_flow_none in H. subst f'. reflexivity.
Qed.

(** One step: a flow held in Redirect after the step has a status, or was held in Redirect before
    with the same status. *)
Lemma step_redirect_status s o f' :
  s_obj (fst (step s o)) = ObFlow TRedirect f' ->
  i_status f' <> None \/ exists f, s_obj s = ObFlow TRedirect f /\ i_status f' = i_status f.
Proof.
  intros H.
  destruct o;
    unfold step, upd, do_proceed, do_premature, do_try100, do_try_response, do_read, do_write_body,
      do_call_into_receive in H;
    cbn [fst snd] in H;
    repeat (c14_case H; cbn [fst snd s_obj with_flow with_obj add_consumed add_sent] in H);
    try discriminate;
    try (inversion H; subst; clear H);
    try congruence.
  all: try (right; eexists; split; [reflexivity|congruence]).
  all: try (exfalso; eapply sr_proceed_not_redirect; eassumption).
  all: try (exfalso; eapply await_proceed_not_redirect; eassumption).
  all: try (exfalso; eapply sb_proceed_not_redirect; eassumption).
  all: try (left; eapply redirect_has_status; left; eassumption).
  all: try (left; eapply redirect_has_status; right; eassumption).
  all: try (right; eexists; split; [reflexivity|]; eapply as_new_flow_status; eassumption).
  all: try (right; eexists; split; [eassumption|reflexivity]).
  right. exists f'. split; [congruence|reflexivity].
Qed.

Lemma run_ops_snoc' s ops o : run_ops s (ops ++ [o]) = fst (step (run_ops s ops) o).
Proof. unfold run_ops. rewrite fold_left_app. reflexivity. Qed.

Theorem script_redirect_has_status ops : forall f,
  s_obj (run_ops s_init ops) = ObFlow TRedirect f -> i_status f <> None.
Proof.
  induction ops as [|o ops IH] using rev_ind; intros f H.
  - discriminate H.
  - rewrite run_ops_snoc' in H. destruct (step_redirect_status _ _ _ H) as [K|(g & Hg & E)]; [exact K|].
    rewrite E. apply IH. exact Hg.
Qed.

(** Hence on every history: Redirect + request not taken = [redirect_state]; no panic. *)
Theorem script_redirect_state ops f :
  s_obj (run_ops s_init ops) = ObFlow TRedirect f -> am_req (c_req (i_call f)) <> None ->
  redirect_state f.
Proof. intros H Hq. split; [eapply script_redirect_has_status; eauto|exact Hq]. Qed.

Theorem script_no_panic ops f p site :
  s_obj (run_ops s_init ops) = ObFlow TRedirect f -> am_req (c_req (i_call f)) <> None ->
  as_new_flow f p <> Panic site.
Proof. intros H Hq. apply as_new_flow_no_panic_strong. eapply script_redirect_state; eauto. Qed.
