(** C07: exactness of the class of finding F17.  Every valid coding with a size line longer than
    SANITY_CHECK behaves in ONE way: the chunks before the first such line are decoded normally;
    nothing at or beyond that line is ever consumed; the body is never reported ended; no read panics
    or fails with any error other than ChunkExpectedCrLf; and as soon as reads see the line, the run
    fails with ChunkExpectedCrLf.

    The simulation of proofs/C07_sim.v is redone for streams that run into a long line: positions
    [SizePosB R ds g b] -- [R] the whole stream from the position on, [ds] the datas of the
    well-formed chunks still in front of the long line, [g] the number of bytes in front of it, [b] its
    length plus 2 (its CRLF). *)
From Coq Require Import Lia ZArith.
From Hoot Require Import Base Chunk Body Parser Request Call Flow.
From Hoot.proofs Require Import BytesLemmas C07_spec C07_sizeline C07_sim C07_proofs C08_flowrun C07_more.
Open Scope N_scope.

Inductive SizePosB : bytes -> list bytes -> N -> N -> Prop :=
| SPB_bad line more :
    cr_free line -> SANITY_CHECK < len line ->
    SizePosB (line ++ CRLF ++ more) [] 0 (len line + 2)
| SPB_chunk line d R ds g b :
    cr_free line -> size_line line (len d) -> len line <= SANITY_CHECK -> 0 < len d ->
    SizePosB R ds g b ->
    SizePosB (line ++ CRLF ++ d ++ CRLF ++ R) (d :: ds) (len line + 2 + len d + 2 + g) b.

Definition relB (st : dechunker) (R : bytes) (ds : list bytes) (g b : N) : Prop :=
  match st with
  | DSize => SizePosB R ds g b
  | DChunk n => exists d R' ds' g',
      R = d ++ CRLF ++ R' /\ ds = d :: ds' /\ n = len d /\ 0 < n /\ g = len d + 2 + g' /\ SizePosB R' ds' g' b
  | DCrLf => exists R' g', R = CRLF ++ R' /\ g = 2 + g' /\ SizePosB R' ds g' b
  | _ => False
  end.

Lemma SizePosB_len R ds g b : SizePosB R ds g b -> g + b <= len R.
Proof.
  intros H. induction H.
  - rewrite !len_app, len_CRLF. lia.
  - rewrite !len_app, !len_CRLF. lia.
Qed.

Lemma relB_len st R ds g b : relB st R ds g b -> g + b <= len R.
Proof.
  destruct st; cbn [relB]; try contradiction.
  - apply SizePosB_len.
  - intros (d & R' & ds' & g' & -> & _ & _ & _ & -> & H). apply SizePosB_len in H.
    rewrite !len_app, len_CRLF. lia.
  - intros (R' & g' & -> & -> & H). apply SizePosB_len in H. rewrite len_app, len_CRLF. lia.
Qed.

Lemma relB_not_ended st R ds g b : relB st R ds g b -> dech_is_ended st = false /\ st <> DTrailer.
Proof. destruct st; cbn [relB]; try contradiction; intros _; split; try reflexivity; discriminate. Qed.

Lemma window_nextB (C R' : bytes) k :
  len C <= k -> drop (len C) (take k (C ++ R')) = take (k - len C) R'.
Proof.
  intros H. pose proof (window_next C R' [] k H) as E. rewrite !app_nil_r in E. exact E.
Qed.

(** ** One transition *)

Definition StepB (k : N) (R : bytes) (ds : list bytes) (g b room : N)
           (r : stepres) (C R' : bytes) (ds' : list bytes) (g' : N) : Prop :=
  R = C ++ R' /\ len C = sr_in r /\ sr_in r <= k /\
  concat ds = sr_out r ++ concat ds' /\ len (sr_out r) <= room /\
  relB (sr_st r) R' ds' g' b /\ g = sr_in r + g' /\
  (sr_more r = true -> 1 <= sr_in r) /\
  (g + b <= k -> 1 <= room -> 1 <= sr_in r).

Ltac splitsB := match goal with |- _ /\ _ => split; [|splitsB] | _ => idtac end.

Lemma stepB_size k R ds g b room :
  SizePosB R ds g b ->
  (exists r C R' ds' g', dech_step DSize (take k R) room = Ok r /\ StepB k R ds g b room r C R' ds' g') \/
  (dech_step DSize (take k R) room = Err ChunkExpectedCrLf /\ g = 0 /\ b <= k).
Proof.
  intros HS. cbn [dech_step].
  inversion HS as [line more Hcr Hlong|line d R0 ds0 g0 b0 Hcr Hsl Hsan Hd HS0]; subst.
  - destruct (N.le_gt_cases (len line + 2) k) as [Hk|Hk].
    + right. split; [apply long_line_read_size; assumption|]. split; [reflexivity|exact Hk].
    + left. rewrite read_size_wait by assumption.
      eexists; exists [], (line ++ CRLF ++ more), [], 0. split; [reflexivity|].
      unfold StepB. cbn [sr_st sr_in sr_out sr_more len app concat relB].
      splitsB; try reflexivity; try lia; try exact HS; try (intros; discriminate).
  - destruct (N.le_gt_cases (len line + 2) k) as [Hk|Hk].
    + left. rewrite (read_size_ok line (len d)) by assumption.
      destruct (N.eqb_spec (len d) 0) as [?|_]; [lia|].
      eexists; exists (line ++ CRLF), (d ++ CRLF ++ R0), (d :: ds0), (len d + 2 + g0). split; [reflexivity|].
      unfold StepB. cbn [sr_st sr_in sr_out sr_more app concat relB].
      splitsB; try reflexivity; try lia; try (cbn [len]; lia).
      * rewrite <- app_assoc. reflexivity.
      * rewrite len_app, len_CRLF. reflexivity.
      * exists d, R0, ds0, g0. splitsB; auto.
    + left. rewrite read_size_wait by assumption.
      eexists; exists [], (line ++ CRLF ++ d ++ CRLF ++ R0), (d :: ds0), (len line + 2 + len d + 2 + g0).
      split; [reflexivity|].
      unfold StepB. cbn [sr_st sr_in sr_out sr_more len app relB].
      splitsB; try reflexivity; try lia; try exact HS; try (intros; discriminate).
Qed.

Lemma stepB_chunk n k R ds g b room :
  relB (DChunk n) R ds g b ->
  exists r C R' ds' g', dech_step (DChunk n) (take k R) room = Ok r /\ StepB k R ds g b room r C R' ds' g'.
Proof.
  cbn [relB]. intros (d & R0 & tl & g0 & -> & -> & -> & Hpos & -> & HS). cbn [dech_step]. unfold read_data. cbv zeta.
  set (src := take k (d ++ CRLF ++ R0)).
  set (t := N.min (N.min (len src) room) (len d)).
  assert (Hsrc : len src = N.min k (len d + 2 + len R0)).
  { unfold src. rewrite len_take, !len_app, len_CRLF. lia. }
  assert (Ht1 : t <= len d) by (unfold t; lia).
  assert (Ht2 : t <= room) by (unfold t; lia).
  assert (Ht3 : t <= k) by (unfold t; lia).
  assert (Ht4 : 1 <= k -> 1 <= room -> 1 <= t) by (unfold t; lia).
  assert (Hout : take t src = take t d).
  { unfold src. rewrite take_take. replace (N.min t k) with t by lia. apply take_app_le. assumption. }
  rewrite Hout. clearbody t. clear Hsrc.
  destruct (N.eqb_spec (len d - t) 0) as [Hz|Hz].
  - assert (t = len d) by lia. subst t. rewrite take_all by lia.
    eexists; exists d, (CRLF ++ R0), tl, (2 + g0). split; [reflexivity|].
    unfold StepB. cbn [sr_st sr_in sr_out sr_more concat relB]. splitsB; try reflexivity; try lia.
    + exists R0, g0. splitsB; auto.
  - eexists; exists (take t d), (drop t d ++ CRLF ++ R0), (drop t d :: tl), (len d - t + 2 + g0).
    split; [reflexivity|].
    unfold StepB. cbn [sr_st sr_in sr_out sr_more concat relB]. splitsB; try lia.
    + rewrite (app_assoc (take t d)), take_drop. reflexivity.
    + rewrite len_take. lia.
    + rewrite (app_assoc (take t d)), take_drop. reflexivity.
    + rewrite len_take. lia.
    + exists (drop t d), R0, tl, g0. rewrite len_drop. splitsB; auto. lia.
    + destruct (N.ltb_spec 0 t); [intros _; lia|discriminate].
Qed.

Lemma stepB_crlf k R ds g b room :
  relB DCrLf R ds g b ->
  exists r C R' ds' g', dech_step DCrLf (take k R) room = Ok r /\ StepB k R ds g b room r C R' ds' g'.
Proof.
  cbn [relB]. intros (R0 & g0 & -> & -> & HS). cbn [dech_step]. unfold expect_crlf.
  replace (CRLF ++ R0) with ([] ++ CRLF ++ R0) by reflexivity.
  rewrite find_crlf_window by apply cr_free_nil. cbn [len].
  destruct (N.leb_spec (0 + 2) k) as [Hk|Hk].
  - cbn [N.ltb N.compare]. eexists; exists CRLF, R0, ds, g0. split; [reflexivity|].
    unfold StepB. cbn [sr_st sr_in sr_out sr_more app relB len CRLF].
    splitsB; try reflexivity; try lia; try exact HS; try (intros; discriminate).
  - eexists; exists [], (CRLF ++ R0), ds, (2 + g0). split; [reflexivity|].
    unfold StepB. cbn [sr_st sr_in sr_out sr_more app relB len].
    splitsB; try reflexivity; try lia; try (intros; discriminate).
    exists R0, g0. splitsB; auto.
Qed.

Lemma stepB st k R ds g b room :
  relB st R ds g b ->
  (exists r C R' ds' g', dech_step st (take k R) room = Ok r /\ StepB k R ds g b room r C R' ds' g') \/
  (dech_step st (take k R) room = Err ChunkExpectedCrLf /\ g = 0 /\ b <= k).
Proof.
  destruct st; cbn [relB]; try contradiction.
  - apply stepB_size.
  - intros H. left. apply stepB_chunk. exact H.
  - intros H. left. apply stepB_crlf. exact H.
Qed.

(** ** The loops *)

Definition LoopB (k : N) (R : bytes) (ds : list bytes) (g b room : N)
           (st' : dechunker) (C R' o : bytes) (ds' : list bytes) (g' : N) : Prop :=
  R = C ++ R' /\ len C <= k /\ concat ds = o ++ concat ds' /\ len o <= room /\
  relB st' R' ds' g' b /\ g = len C + g' /\
  (g + b <= k -> 1 <= room -> 1 <= len C).

Lemma parse_loopB : forall fuel st k R ds g b room used acc,
  relB st R ds g b -> k < N.of_nat fuel ->
  (exists st' C R' o ds' g',
     parse_input_loop fuel st (take k R) room used acc = Ok (st', used + len C, acc ++ o) /\
     LoopB k R ds g b room st' C R' o ds' g') \/
  parse_input_loop fuel st (take k R) room used acc = Err ChunkExpectedCrLf.
Proof.
  induction fuel as [|f IH]; intros st k R ds g b room used acc Hrel Hfuel; [lia|].
  cbn [parse_input_loop].
  destruct (stepB st k R ds g b room Hrel) as [(r & C1 & R1 & ds1 & g1 & Heq & Hok)|(Heq & _)].
  2:{ right. rewrite Heq. reflexivity. }
  rewrite Heq. cbn [bind].
  destruct Hok as (HR & HC & Hin & Hcat & Hroom & Hrel1 & Hg & Hmore & Hprog).
  destruct (sr_more r) eqn:Hm.
  - specialize (Hmore eq_refl).
    assert (Hwin : drop (sr_in r) (take k R) = take (k - sr_in r) R1).
    { rewrite HR, <- HC. apply window_nextB. lia. }
    rewrite Hwin.
    destruct (IH (sr_st r) (k - sr_in r) R1 ds1 g1 b (room - len (sr_out r)) (used + sr_in r) (acc ++ sr_out r) Hrel1)
      as [(st' & C2 & R2 & o2 & ds2 & g2 & Hih & HR2 & HC2 & Hcat2 & Hroom2 & Hrel2 & Hg2 & _)|Hih]; [lia| |].
    + left. exists st', (C1 ++ C2), R2, (sr_out r ++ o2), ds2, g2. split.
      { rewrite Hih. rewrite len_app, app_assoc. f_equal. f_equal. f_equal. lia. }
      unfold LoopB. splitsB.
      * rewrite HR, HR2. apply app_assoc.
      * rewrite len_app. lia.
      * rewrite Hcat, Hcat2. apply app_assoc.
      * rewrite len_app. lia.
      * exact Hrel2.
      * rewrite len_app. lia.
      * intros _ _. rewrite len_app. lia.
    + right. exact Hih.
  - left. exists (sr_st r), C1, R1, (sr_out r), ds1, g1. split.
    { rewrite HC. reflexivity. }
    unfold LoopB. splitsB; try assumption; try lia.
Qed.

Lemma LoopB_weaken k k' R ds g b room st' C R' o ds' g' :
  k' = N.min k (len R) -> g + b <= len R ->
  LoopB k' R ds g b room st' C R' o ds' g' -> LoopB k R ds g b room st' C R' o ds' g'.
Proof.
  intros Hk Hlen (H1 & H2 & H3 & H4 & H5 & H6 & H7). unfold LoopB. splitsB; try assumption.
  - lia.
  - intros Ha Hb. apply H7; [lia|assumption].
Qed.

Lemma parse_inputB st k R ds g b room :
  relB st R ds g b ->
  (exists st' C R' o ds' g',
     parse_input st (take k R) room = Ok (st', len C, o) /\ LoopB k R ds g b room st' C R' o ds' g') \/
  parse_input st (take k R) room = Err ChunkExpectedCrLf.
Proof.
  intros Hrel. unfold parse_input.
  set (k' := N.min k (len R)).
  rewrite (take_min_len k). fold k'.
  destruct (parse_loopB (2 * List.length (take k' R) + 3) st k' R ds g b room 0 [] Hrel)
    as [(st' & C & R' & o & ds' & g' & Heq & Hok)|Herr].
  - pose proof (len_length (take k' R)) as HL. rewrite len_take in HL. lia.
  - left. exists st', C, R', o, ds', g'. split.
    + rewrite Heq. rewrite N.add_0_l. reflexivity.
    + eapply LoopB_weaken; [reflexivity|eapply relB_len; exact Hrel|exact Hok].
  - right. exact Herr.
Qed.

Lemma read_loopB stop : forall fuel st k R ds g b room used acc,
  relB st R ds g b -> k <= len R -> k < N.of_nat fuel ->
  (exists st' C R' o ds' g',
     read_chunked_loop fuel st (take k R) room stop used acc = Ok (st', used + len C, acc ++ o) /\
     LoopB k R ds g b room st' C R' o ds' g') \/
  read_chunked_loop fuel st (take k R) room stop used acc = Err ChunkExpectedCrLf.
Proof.
  induction fuel as [|f IH]; intros st k R ds g b room used acc Hrel Hk Hfuel; [lia|].
  cbn [read_chunked_loop].
  destruct (parse_inputB st k R ds g b room Hrel) as [(st1 & C1 & R1 & o1 & ds1 & g1 & Heq & Hok)|Herr].
  2:{ right. rewrite Herr. reflexivity. }
  rewrite Heq. cbn [bind].
  destruct Hok as (HR & HC & Hcat & Hroom & Hrel1 & Hg & Hprog).
  assert (Hexit : (exists st' C R' o ds' g',
             @Ok (dechunker * N * bytes) (st1, used + len C1, acc ++ o1) = Ok (st', used + len C, acc ++ o) /\
             LoopB k R ds g b room st' C R' o ds' g') \/
             @Ok (dechunker * N * bytes) (st1, used + len C1, acc ++ o1) = Err ChunkExpectedCrLf).
  { left. exists st1, C1, R1, o1, ds1, g1. split; [reflexivity|]. unfold LoopB. splitsB; auto. }
  destruct ((len C1 =? 0) || (len (drop (len C1) (take k R)) =? 0) || (room - len o1 =? 0)) eqn:Hc;
    [exact Hexit|].
  destruct (dech_is_ended st1) eqn:Hend; [exact Hexit|].
  destruct (stop && is_on_chunk_boundary st1) eqn:Hstop; [exact Hexit|].
  clear Hexit.
  apply orb_false_elim in Hc. destruct Hc as [Hc _]. apply orb_false_elim in Hc. destruct Hc as [Hc _].
  apply N.eqb_neq in Hc.
  assert (Hwin : drop (len C1) (take k R) = take (k - len C1) R1).
  { rewrite HR. apply window_nextB. lia. }
  rewrite Hwin.
  destruct (IH st1 (k - len C1) R1 ds1 g1 b (room - len o1) (used + len C1) (acc ++ o1) Hrel1)
    as [(st' & C2 & R2 & o2 & ds2 & g2 & Hih & HR2 & HC2 & Hcat2 & Hroom2 & Hrel2 & Hg2 & _)|Hih].
  { rewrite HR in Hk. rewrite len_app in Hk. lia. }
  { lia. }
  - left. exists st', (C1 ++ C2), R2, (o1 ++ o2), ds2, g2. split.
    { rewrite Hih. rewrite len_app, app_assoc. f_equal. f_equal. f_equal. lia. }
    unfold LoopB. splitsB.
    + rewrite HR, HR2. apply app_assoc.
    + rewrite len_app. lia.
    + rewrite Hcat, Hcat2. apply app_assoc.
    + rewrite len_app. lia.
    + exact Hrel2.
    + rewrite len_app. lia.
    + intros _ _. rewrite len_app. lia.
  - right. exact Hih.
Qed.

(** One [read_chunked] call on a stream that runs into a long line. *)
Lemma read_chunkedB st k R ds g b cap stop :
  relB st R ds g b ->
  (exists st' C R' o ds' g',
     read_chunked st (take k R) cap stop = Ok (st', len C, o) /\ LoopB k R ds g b cap st' C R' o ds' g') \/
  read_chunked st (take k R) cap stop = Err ChunkExpectedCrLf.
Proof.
  intros Hrel. unfold read_chunked.
  set (k' := N.min k (len R)).
  rewrite (take_min_len k). fold k'.
  destruct (read_loopB stop (List.length (take k' R) + 1) st k' R ds g b cap 0 [] Hrel)
    as [(st' & C & R' & o & ds' & g' & Heq & Hok)|Herr].
  - unfold k'. lia.
  - pose proof (len_length (take k' R)) as HL. rewrite len_take in HL. lia.
  - left. exists st', C, R', o, ds', g'. split.
    + rewrite Heq. rewrite N.add_0_l. reflexivity.
    + eapply LoopB_weaken; [reflexivity|eapply relB_len; exact Hrel|exact Hok].
  - right. exact Herr.
Qed.

(** ** Runs *)

(** [off]: offset of the long line in the stream; [P]: the data of the chunks in front of it. *)
Definition InvB (stream : bytes) (off : N) (P : bytes) (b : N) (t : ctrace) : Prop :=
  exists D R ds g,
    stream = D ++ R /\ len D = t_consumed t /\ t_consumed t + g = off /\
    P = t_out t ++ concat ds /\ relB (t_st t) R ds g b.

Lemma invB_step stream off P b t k cap stop :
  InvB stream off P b t ->
  (exists t', cstep stream t (k, cap, stop) = Ok t' /\ InvB stream off P b t' /\
              t_consumed t <= t_consumed t' /\
              (off + b <= t_consumed t + k -> 1 <= cap -> t_consumed t + 1 <= t_consumed t')) \/
  cstep stream t (k, cap, stop) = Err ChunkExpectedCrLf.
Proof.
  intros (D & R & ds & g & Hs & HD & Hoff & HP & Hrel).
  unfold cstep. rewrite Hs, <- HD, drop_app_exact.
  destruct (read_chunkedB (t_st t) k R ds g b cap stop Hrel)
    as [(st' & C & R' & o & ds' & g' & Heq & HR & HC & Hcat & Hcap & Hrel' & Hg & Hprog)|Herr].
  - left. rewrite Heq. cbn [bind]. eexists. split; [reflexivity|]. cbn [t_st t_consumed t_out]. split; [|split].
    + exists (D ++ C), R', ds', g'. cbn [t_st t_consumed t_out]. splitsB.
      * rewrite HR. apply app_assoc.
      * rewrite len_app. reflexivity.
      * lia.
      * rewrite HP, Hcat. apply app_assoc.
      * exact Hrel'.
    + lia.
    + intros H1 H2. assert (1 <= len C); [apply Hprog; lia|lia].
  - right. rewrite Herr. reflexivity.
Qed.

Lemma invB_run stream off P b sched : forall t,
  InvB stream off P b t ->
  (exists t', crun stream t sched = Ok t' /\ InvB stream off P b t') \/
  crun stream t sched = Err ChunkExpectedCrLf.
Proof.
  induction sched as [|[[k cap] stop] s IH]; intros t Hinv; cbn [crun].
  - left. exists t. auto.
  - destruct (invB_step stream off P b t k cap stop Hinv) as [(t1 & Heq & Hinv1 & _)|Herr].
    + rewrite Heq. cbn [bind]. apply IH. exact Hinv1.
    + right. rewrite Herr. reflexivity.
Qed.

Lemma invB_facts stream off P b t :
  InvB stream off P b t ->
  t_consumed t <= off /\ (exists P', P = t_out t ++ P') /\ dech_is_ended (t_st t) = false /\ t_st t <> DTrailer.
Proof.
  intros (D & R & ds & g & Hs & HD & Hoff & HP & Hrel).
  split; [lia|]. split; [eauto|]. apply (relB_not_ended _ _ _ _ _ Hrel).
Qed.

(** With the long line visible in every window and room for a byte, more than [off] reads cannot all
    succeed. *)
Lemma invB_rejected stream off P b : forall sched t,
  InvB stream off P b t ->
  Forall (fun o => off + b <= fst (fst o) /\ 1 <= snd (fst o)) sched ->
  off - t_consumed t < len sched ->
  crun stream t sched = Err ChunkExpectedCrLf.
Proof.
  induction sched as [|[[k cap] stop] s IH]; intros t Hinv Hall Hn; cbn [crun].
  - cbn [len] in Hn. lia.
  - inversion Hall as [|? ? [Hk Hcap] Hall']; subst. cbn [fst snd] in Hk, Hcap.
    destruct (invB_step stream off P b t k cap stop Hinv) as [(t1 & Heq & Hinv1 & Hmono & Hprog)|Herr].
    + rewrite Heq. cbn [bind]. apply IH; [assumption|assumption|].
      rewrite len_cons in Hn. specialize (Hprog ltac:(lia) Hcap).
      destruct (invB_facts _ _ _ _ _ Hinv1) as (Hle & _). lia.
    + rewrite Herr. reflexivity.
Qed.

(** ** From codings to positions *)

Definition within_limit (ck : chunk) : Prop := len (ck_line ck) <= SANITY_CHECK.

Lemma sizeposB_chunks cs line more :
  Forall valid_chunk cs -> Forall within_limit cs -> cr_free line -> SANITY_CHECK < len line ->
  SizePosB (concat (map enc_chunk cs) ++ line ++ CRLF ++ more) (map ck_data cs)
           (len (concat (map enc_chunk cs))) (len line + 2).
Proof.
  intros Hv Hl Hcr Hlong. induction cs as [|a cs IH]; cbn [map concat app].
  - apply SPB_bad; assumption.
  - inversion Hv as [|? ? (Hcra & Hsla & Hpos) Hv']; inversion Hl as [|? ? Hla Hl']; subst.
    replace (len (enc_chunk a ++ concat (map enc_chunk cs)))
      with (len (ck_line a) + 2 + len (ck_data a) + 2 + len (concat (map enc_chunk cs)))
      by (rewrite (len_app (enc_chunk a)); unfold enc_chunk; rewrite !len_app, !len_CRLF; lia).
    unfold enc_chunk at 1. rewrite <- !app_assoc.
    apply SPB_chunk; auto.
Qed.

Lemma first_long cs :
  Forall within_limit cs \/
  exists cs1 ck cs2, cs = cs1 ++ ck :: cs2 /\ Forall within_limit cs1 /\ SANITY_CHECK < len (ck_line ck).
Proof.
  induction cs as [|a cs IH]; [left; constructor|].
  destruct (N.le_gt_cases (len (ck_line a)) SANITY_CHECK) as [Ha|Ha].
  - destruct IH as [IH|(cs1 & ck & cs2 & -> & H1 & H2)].
    + left. constructor; assumption.
    + right. exists (a :: cs1), ck, cs2. split; [reflexivity|]. split; [constructor; assumption|exact H2].
  - right. exists [], a, cs. split; [reflexivity|]. split; [constructor|exact Ha].
Qed.

(** The first long size line of a valid coding outside the limit: the chunks in front of it, the line,
    what follows it. *)
Lemma f17_decompose c :
  valid c -> ~ line_limit_F17 c ->
  exists cs1 cs2 line more,
    cd_chunks c = cs1 ++ cs2 /\
    enc c = concat (map enc_chunk cs1) ++ line ++ CRLF ++ more /\
    Forall valid_chunk cs1 /\ Forall within_limit cs1 /\ cr_free line /\ SANITY_CHECK < len line.
Proof.
  intros (Hv & Hcr & Hsl & Hts) Hnl. unfold enc.
  destruct (first_long (cd_chunks c)) as [Hall|(cs1 & ck & cs2 & Hcs & H1 & H2)].
  - destruct (N.le_gt_cases (len (cd_last c)) SANITY_CHECK) as [Hl|Hl].
    + exfalso. apply Hnl. split; assumption.
    + exists (cd_chunks c), [], (cd_last c), (enc_trailers (cd_trailers c)).
      split; [rewrite app_nil_r; reflexivity|]. split; [reflexivity|]. auto.
  - rewrite Hcs in Hv. apply Forall_app in Hv. destruct Hv as [Hv1 Hv2].
    inversion Hv2 as [|? ? (Hcrk & _ & _) _]; subst.
    exists cs1, (ck :: cs2), (ck_line ck),
           (ck_data ck ++ CRLF ++ concat (map enc_chunk cs2) ++ enc_end (cd_last c) (cd_trailers c)).
    split; [exact Hcs|]. split; [|auto].
    rewrite Hcs, map_app, concat_app. cbn [map concat]. unfold enc_chunk at 2.
    rewrite <- !app_assoc. reflexivity.
Qed.

(** ** The class *)

(** Safety: any schedule either succeeds having consumed strictly less than the coding, with a prefix
    of the payload delivered and the body not reported ended, or fails with ChunkExpectedCrLf.
    Liveness: if every read sees the whole coding and has room for a byte, [len (enc c)] reads are
    enough for the failure. *)
Theorem f17_class c rest :
  valid c -> ~ line_limit_F17 c ->
  (forall sched,
     (exists t, crun (enc c ++ rest) cstart sched = Ok t /\
                t_consumed t < len (enc c) /\ (exists P', payload c = t_out t ++ P') /\
                dech_is_ended (t_st t) = false /\ t_st t <> DTrailer) \/
     crun (enc c ++ rest) cstart sched = Err ChunkExpectedCrLf) /\
  (forall sched, Forall (all_visible c) sched -> len (enc c) <= len sched ->
                 crun (enc c ++ rest) cstart sched = Err ChunkExpectedCrLf).
Proof.
  intros Hv Hnl.
  destruct (f17_decompose c Hv Hnl) as (cs1 & cs2 & line & more & Hcs & Henc & Hv1 & Hl1 & Hcr & Hlong).
  set (off := len (concat (map enc_chunk cs1))).
  set (P := concat (map ck_data cs1)).
  assert (Hlen : off + (len line + 2) <= len (enc c)).
  { rewrite Henc. unfold off. rewrite !len_app, len_CRLF. lia. }
  assert (Hpay : payload c = P ++ concat (map ck_data cs2)).
  { unfold payload, P. rewrite Hcs, map_app, concat_app. reflexivity. }
  assert (H0 : InvB (enc c ++ rest) off P (len line + 2) cstart).
  { exists [], (enc c ++ rest), (map ck_data cs1), off. cbn [cstart t_consumed t_out t_st app len relB].
    splitsB; try reflexivity.
    rewrite Henc, <- !app_assoc. apply sizeposB_chunks; assumption. }
  split.
  - intros sched. destruct (invB_run (enc c ++ rest) off P (len line + 2) sched cstart H0) as [(t & Heq & Hinv)|Herr].
    + left. exists t. split; [exact Heq|].
      destruct (invB_facts _ _ _ _ _ Hinv) as (H1 & (P' & H2) & H3 & H4).
      split; [lia|]. split; [|split; assumption].
      exists (P' ++ concat (map ck_data cs2)). rewrite Hpay, H2, <- app_assoc. reflexivity.
    + right. exact Herr.
  - intros sched Hall Hn.
    apply (invB_rejected (enc c ++ rest) off P (len line + 2) sched cstart H0).
    + eapply Forall_impl; [|exact Hall]. intros [[k cap] stop] [Hk Hcap]. cbn [fst snd]. split; lia.
    + cbn [cstart t_consumed]. lia.
Qed.

(** The precise form: where the run stops.  [cs1] are the chunks in front of the first long line; no
    run ever consumes more than their encoding or delivers more than their data. *)
Theorem f17_class_precise c :
  valid c -> ~ line_limit_F17 c ->
  exists cs1 cs2 line more,
    cd_chunks c = cs1 ++ cs2 /\
    enc c = concat (map enc_chunk cs1) ++ line ++ CRLF ++ more /\
    Forall within_limit cs1 /\ cr_free line /\ SANITY_CHECK < len line /\
    forall rest sched,
      (exists t, crun (enc c ++ rest) cstart sched = Ok t /\
                 t_consumed t <= len (concat (map enc_chunk cs1)) /\
                 (exists P', concat (map ck_data cs1) = t_out t ++ P') /\
                 dech_is_ended (t_st t) = false) \/
      crun (enc c ++ rest) cstart sched = Err ChunkExpectedCrLf.
Proof.
  intros Hv Hnl.
  destruct (f17_decompose c Hv Hnl) as (cs1 & cs2 & line & more & Hcs & Henc & Hv1 & Hl1 & Hcr & Hlong).
  exists cs1, cs2, line, more. repeat (split; [assumption|]).
  intros rest sched.
  set (off := len (concat (map enc_chunk cs1))).
  set (P := concat (map ck_data cs1)).
  assert (H0 : InvB (enc c ++ rest) off P (len line + 2) cstart).
  { exists [], (enc c ++ rest), (map ck_data cs1), off. cbn [cstart t_consumed t_out t_st app len relB].
    splitsB; try reflexivity.
    rewrite Henc, <- !app_assoc. apply sizeposB_chunks; assumption. }
  destruct (invB_run (enc c ++ rest) off P (len line + 2) sched cstart H0) as [(t & Heq & Hinv)|Herr].
  - left. exists t. split; [exact Heq|].
    destruct (invB_facts _ _ _ _ _ Hinv) as (H1 & H2 & H3 & _). auto.
  - right. exact Herr.
Qed.

(** The same at the flow ([frun] of proofs/C08_flowrun.v): the flow can never proceed, and fails as
    the decoder does. *)
Theorem f17_class_flow c rest f :
  valid c -> ~ line_limit_F17 c ->
  i_holder f = HRecvBody -> c_reader (i_call f) = Some (RChunked DSize) ->
  (forall sched,
     (exists t, frun (enc c ++ rest) (fstart f) sched = Ok t /\
                ft_consumed t < len (enc c) /\ (exists P', payload c = ft_out t ++ P') /\
                recv_body_can_proceed (ft_flow t) = Ok false) \/
     frun (enc c ++ rest) (fstart f) sched = Err ChunkExpectedCrLf) /\
  (forall sched, Forall (all_visible c) sched -> len (enc c) <= len sched ->
                 frun (enc c ++ rest) (fstart f) sched = Err ChunkExpectedCrLf).
Proof.
  intros Hv Hnl Hh Hr. destruct (f17_class c rest Hv Hnl) as [Hsafe Hlive]. split.
  - intros sched. destruct (Hsafe sched) as [(ct & Hrun & H1 & H2 & H3 & _)|Herr].
    + left. destruct (frun_of_crun (enc c ++ rest) sched f DSize 0 [] ct Hh Hr Hrun) as (t & Ht & G1 & G2 & G3 & G4 & _).
      exists t. split; [exact Ht|]. rewrite G3, G4. split; [exact H1|]. split; [exact H2|].
      rewrite (can_proceed_chunked (ft_flow t) (t_st ct) G1 G2), H3. reflexivity.
    + right. apply (frun_of_crun_err (enc c ++ rest) sched f DSize 0 [] ChunkExpectedCrLf Hh Hr Herr).
  - intros sched Hall Hn.
    apply (frun_of_crun_err (enc c ++ rest) sched f DSize 0 [] ChunkExpectedCrLf Hh Hr (Hlive sched Hall Hn)).
Qed.
