(** (redirect) The generated translation [Gen2.gen_as_new_flow] of [Flow<Redirect>::as_new_flow] (src/client/flow.rs),
    instantiated with the model's own readings of its parameters (the url crate's resolution of the Location header
    against the previous request's effective URI, [can_redirect_auth_header] on the ORIGINAL request's URI,
    [take_request] on the previous amended request, [Flow::new] on the rebuilt request), agrees with the hand-written
    model [Flow.as_new_flow]: same error, a panic exactly where the model panics, the same "not followed" answer,
    and when the redirect is followed the same method, target URI and suppression list of the next request.
    Also: the table of the suppression list for ANY instantiation of the parameters. *)
From Coq Require Import NArith Bool List String.
From Hoot Require Import Base Chunk Body Httparse Parser Url Request Call Flow GenLib Gen Gen2.
From Hoot.proofs Require Import Gen_equiv_ext.
Import ListNotations.
Open Scope N_scope.

(* ------------------------------------------------------------------ the model's readings of the parameters *)

(** [previous.new_uri_from_location(location)]: a base without scheme does not parse as a URL. *)
Definition resolve_of (prev : amended) (loc : bytes) : res uri :=
  match u_scheme (am_eff_uri prev) with
  | [] => Err BadLocationHeader
  | _ => match resolve (am_eff_uri prev) loc with None => Err BadLocationHeader | Some t => Ok t end
  end.

(** [can_redirect_auth_header(original uri, target)]: the URI of the ORIGINAL request ([am_req prev = Some orig],
    [rq_uri orig]), not the effective (possibly overridden) one. [am_request prev] is [orig] in that case
    (lemma [keep_of_some]); when the request was already taken the value is irrelevant (both sides panic before). *)
Definition keep_of (prev : amended) (target : uri) : bool :=
  can_redirect_auth_header (rq_uri (am_request prev)) target.

(** [previous.take_request()]. *)
Definition take_of (prev : amended) : res unit :=
  match am_req prev with
  | Some _ => Ok tt
  | None => Panic "amended.rs: body.unwrap() in take_request"
  end.

Lemma keep_of_some prev orig target :
  am_req prev = Some orig -> keep_of prev target = can_redirect_auth_header (rq_uri orig) target.
Proof. intros H. unfold keep_of, am_request. rewrite H. reflexivity. Qed.

(* ------------------------------------------------------------------ facts about the model *)

(** [Flow::new] never fails in the model (at most two pushes into an empty list of capacity CLOSE_REASON_CAP),
    and the new flow holds a fresh amended request around [r]. *)
Lemma flow_new_ok r : exists nf, flow_new r = Ok nf /\ c_req (i_call nf) = am_new r.
Proof.
  unfold flow_new, push_reason, CLOSE_REASON_CAP.
  destruct (rq_version r);
    destruct (headers_has (rq_headers r) (s2b "connection") (s2b "close"));
    cbn; eexists; split; reflexivity.
Qed.

Lemma flow_new_fresh r nf :
  flow_new r = Ok nf ->
  am_req (c_req (i_call nf)) = Some r /\ am_uri (c_req (i_call nf)) = None /\
  am_added (c_req (i_call nf)) = [] /\ am_unset (c_req (i_call nf)) = [].
Proof.
  intros H. destruct (flow_new_ok r) as [nf' [H1 H2]].
  rewrite H1 in H. inversion H; subst nf'. rewrite H2. repeat split; reflexivity.
Qed.

(** [am_unset_header] appends to the suppression list and leaves the rest alone. *)
Lemma am_unset_header_spec a k a' :
  am_unset_header a k = Ok a' ->
  am_unset a' = am_unset a ++ [k] /\ am_req a' = am_req a /\ am_uri a' = am_uri a /\ am_added a' = am_added a.
Proof.
  unfold am_unset_header. destruct (UNSET_CAP <=? len (am_unset a)); intros H; inversion H; subst.
  repeat split; reflexivity.
Qed.

(** The generated reading of [unset_header] on the list is the model's [am_unset_header]. *)
Lemma unset_header_list_am a k :
  unset_header_list (am_unset a) k =
  match am_unset_header a k with Ok a' => Ok (am_unset a', tt) | Err e => Err e | Panic s => Panic s end.
Proof.
  unfold unset_header_list, am_unset_header. destruct (UNSET_CAP <=? len (am_unset a)); reflexivity.
Qed.

(** [am_set_uri] sets the effective URI and nothing else. *)
Lemma am_set_uri_spec a u :
  am_eff_uri (am_set_uri a u) = u /\ am_req (am_set_uri a u) = am_req a /\
  am_added (am_set_uri a u) = am_added a /\ am_unset (am_set_uri a u) = am_unset a.
Proof. repeat split; reflexivity. Qed.

(* ------------------------------------------------------------------ the equivalence *)

(** After the decision on the method: take_request, Flow::new, the auth decision and the three suppressions. *)
Ltac redirect_tail f policy :=
  unfold take_of;
  let orig := fresh "orig" in
  let Hreq := fresh "Hreq" in
  destruct (am_req (c_req (i_call f))) as [orig|] eqn:Hreq;
  [ cbn [bind];
    match goal with
    | |- context [flow_new ?r] =>
        let nf := fresh "nf" in
        let Hnf := fresh "Hnf" in
        let Hc := fresh "Hc" in
        destruct (flow_new_ok r) as [nf [Hnf Hc]]; rewrite Hnf; cbn [bind]; rewrite Hc
    end;
    unfold keep_of, am_request; rewrite Hreq;
    destruct policy;
    [ vm_compute; reflexivity
    | match goal with
      | |- context [can_redirect_auth_header ?a ?b] =>
          destruct (can_redirect_auth_header a b); vm_compute; reflexivity
      end ]
  | eexists; reflexivity ].

Theorem gen_as_new_flow_ok : forall f policy,
  let g := gen_as_new_flow [] (i_location f) (i_status f) (am_method (c_req (i_call f))) policy
             (resolve_of (c_req (i_call f))) (keep_of (c_req (i_call f))) (take_of (c_req (i_call f))) (Ok tt) in
  match as_new_flow f policy with
  | Ok (_, Some nf) =>
      g = Ok (am_unset (c_req (i_call nf)),
              Some (am_method (c_req (i_call nf)), am_eff_uri (c_req (i_call nf))))
  | Ok (_, None) => g = Ok ([], None)
  | Err e => g = Err e
  | Panic _ => exists s, g = Panic s
  end.
Proof.
  intros f policy g; subst g.
  unfold as_new_flow, gen_as_new_flow.
  destruct (i_location f) as [loc|]; [|reflexivity].
  unfold hv_to_str.
  destruct (is_text loc); cbn [negb]; [|reflexivity].
  destruct (i_status f) as [st|]; [|eexists; reflexivity].
  unfold resolve_of.
  destruct (u_scheme (am_eff_uri (c_req (i_call f)))) as [|sc0 sc]; [reflexivity|].
  destruct (resolve (am_eff_uri (c_req (i_call f))) loc) as [target|]; [|reflexivity].
  cbn [bind].
  (* [rewrite gen_is_retaining_eq] would unify its left-hand side with the model's own [is_retaining st] (the two
     unfold to the same term), hence the detour through the destructed value. *)
  destruct (gen_is_retaining st) eqn:Hr;
    pose proof (eq_trans (eq_sym (gen_is_retaining_eq st)) Hr) as Hr'; rewrite Hr'; clear Hr Hr'.
  - destruct (gen_need_request_body (am_method (c_req (i_call f)))) eqn:Hn;
      pose proof (eq_trans (eq_sym (gen_need_request_body_eq _)) Hn) as Hn'; rewrite Hn'; clear Hn Hn';
      [reflexivity|].
    destruct (method_eqb (am_method (c_req (i_call f))) DELETE); [reflexivity|].
    redirect_tail f policy.
  - destruct (am_method (c_req (i_call f))); redirect_tail f policy.
Qed.

(* ------------------------------------------------------------------ the suppression table *)

(** For ANY instantiation of the parameters (starting from the empty suppression list of a fresh request): when the
    redirect is followed, the suppression list of the next request is authorization, cookie, content-length,
    unless the policy is SameHost and the auth decision on the returned target is positive: then cookie,
    content-length.  (Also: the returned target is the resolution of the Location header, the previous request was
    taken and Flow::new succeeded.) *)
Theorem gen_as_new_flow_unset_table :
  forall inner_location inner_status m policy
         (resolve_location : bytes -> res uri) (may_keep_auth : uri -> bool)
         (take_request_result flow_new_result : res unit) l nm target,
    gen_as_new_flow [] inner_location inner_status m policy resolve_location may_keep_auth
                    take_request_result flow_new_result = Ok (l, Some (nm, target)) ->
    l = (if match policy with Never => false | SameHost => may_keep_auth target end
         then [s2b "cookie"; s2b "content-length"]
         else [s2b "authorization"; s2b "cookie"; s2b "content-length"])
    /\ (exists loc, inner_location = Some loc /\ resolve_location loc = Ok target)
    /\ take_request_result = Ok tt /\ flow_new_result = Ok tt.
Proof.
  intros il ist m policy rl mk tr fr l nm target H.
  unfold gen_as_new_flow in H.
  destruct il as [loc|]; [|discriminate H].
  unfold hv_to_str in H.
  destruct (is_text loc); [|discriminate H].
  destruct ist as [st|]; [|discriminate H].
  destruct (rl loc) as [u| |] eqn:Hrl; cbn [bind] in H; try discriminate H.
  assert (T : forall nm0,
     bind tr (fun _ => bind fr (fun _ =>
       if negb match policy with Never => false | SameHost => mk u end
       then Ok ([s2b "authorization"; s2b "cookie"; s2b "content-length"], Some (nm0, u))
       else Ok ([s2b "cookie"; s2b "content-length"], Some (nm0, u)))) = Ok (l, Some (nm, target)) ->
     l = (if match policy with Never => false | SameHost => mk target end
          then [s2b "cookie"; s2b "content-length"]
          else [s2b "authorization"; s2b "cookie"; s2b "content-length"])
     /\ (exists loc0, Some loc = Some loc0 /\ rl loc0 = Ok target) /\ tr = Ok tt /\ fr = Ok tt).
  { intros nm0 HT.
    destruct tr as [[]| |]; cbn [bind] in HT; try discriminate HT.
    destruct fr as [[]| |]; cbn [bind] in HT; try discriminate HT.
    destruct policy; [| destruct (mk u) eqn:Hk ]; cbn [negb] in HT; inversion HT; subst;
      rewrite ?Hk; (split; [reflexivity | split; [eexists; split; [reflexivity|exact Hrl] | split; reflexivity]]). }
  destruct (gen_is_retaining st).
  - destruct (gen_need_request_body m); [discriminate H|].
    destruct (method_eqb m DELETE); [discriminate H|].
    apply (T m). exact H.
  - eapply T. exact H.
Qed.

(** The two rows are inhabited (the table is not vacuous). *)
Example gen_as_new_flow_unset_table_nonvacuous :
  let u := {| u_scheme := s2b "https"; u_auth := s2b "a.test"; u_pq := s2b "/x" |} in
  gen_as_new_flow [] (Some (s2b "/x")) (Some 302) POST Never (fun _ => Ok u) (fun _ => true) (Ok tt) (Ok tt)
    = Ok ([s2b "authorization"; s2b "cookie"; s2b "content-length"], Some (GET, u))
  /\ gen_as_new_flow [] (Some (s2b "/x")) (Some 307) GET SameHost (fun _ => Ok u) (fun _ => true) (Ok tt) (Ok tt)
    = Ok ([s2b "cookie"; s2b "content-length"], Some (GET, u))
  /\ gen_as_new_flow [] (Some (s2b "/x")) (Some 307) GET SameHost (fun _ => Ok u) (fun _ => false) (Ok tt) (Ok tt)
    = Ok ([s2b "authorization"; s2b "cookie"; s2b "content-length"], Some (GET, u)).
Proof. vm_compute. repeat split; reflexivity. Qed.

(* ------------------------------------------------------------------ every branch of the theorem is inhabited *)

Definition ex_req (m : method) : request :=
  {| rq_method := m; rq_version := V11;
     rq_uri := {| u_scheme := s2b "http"; u_auth := s2b "a.test"; u_pq := s2b "/p" |};
     rq_headers := [(s2b "authorization", s2b "x")] |}.
Definition ex_flow (m : method) (st : option N) (loc : option bytes) (taken : bool) : inner :=
  let c := call_new (ex_req m) new_none in
  let a := {| am_req := if taken then None else Some (ex_req m);
              am_uri := Some {| u_scheme := s2b "http"; u_auth := s2b "b.test"; u_pq := s2b "/q" |};
              am_added := []; am_unset := [] |} in
  {| i_call := set_req c a; i_holder := HRecvBody; i_reasons := []; i_should_send_body := false;
     i_await_100 := false; i_status := st; i_location := loc |}.
Definition ex_gen (f : inner) (policy : auth_policy) :=
  gen_as_new_flow [] (i_location f) (i_status f) (am_method (c_req (i_call f))) policy
    (resolve_of (c_req (i_call f))) (keep_of (c_req (i_call f))) (take_of (c_req (i_call f))) (Ok tt).

(** Followed: POST + 302 to the original host (the previous request was itself redirected to b.test): the auth
    decision looks at the ORIGINAL uri (a.test), so under SameHost authorization is kept; under Never it is not. *)
Example gen_as_new_flow_ok_nonvacuous :
  let f := ex_flow POST (Some 302) (Some (s2b "http://a.test/z")) false in
  let t := {| u_scheme := s2b "http"; u_auth := s2b "a.test"; u_pq := s2b "/z" |} in
  (exists f1 nf, as_new_flow f SameHost = Ok (f1, Some nf))
  /\ ex_gen f SameHost = Ok ([s2b "cookie"; s2b "content-length"], Some (GET, t))
  /\ ex_gen f Never = Ok ([s2b "authorization"; s2b "cookie"; s2b "content-length"], Some (GET, t))
  (* not followed: 307 with a method that needs a body *)
  /\ (exists f1, as_new_flow (ex_flow POST (Some 307) (Some (s2b "/z")) false) Never = Ok (f1, None))
  /\ ex_gen (ex_flow POST (Some 307) (Some (s2b "/z")) false) Never = Ok ([], None)
  (* errors *)
  /\ as_new_flow (ex_flow GET (Some 302) None false) Never = Err NoLocationHeader
  /\ ex_gen (ex_flow GET (Some 302) None false) Never = Err NoLocationHeader
  /\ as_new_flow (ex_flow GET (Some 302) (Some [200]) false) Never = Err BadLocationHeader
  /\ ex_gen (ex_flow GET (Some 302) (Some [200]) false) Never = Err BadLocationHeader
  (* the two panic sites: no status; request already taken *)
  /\ as_new_flow (ex_flow GET None (Some (s2b "/z")) false) Never = Panic "flow.rs: status.unwrap() in as_new_flow"
  /\ ex_gen (ex_flow GET None (Some (s2b "/z")) false) Never = Panic "src/client/flow.rs: unwrap() of None in as_new_flow"
  /\ as_new_flow (ex_flow GET (Some 302) (Some (s2b "/z")) true) Never = Panic "amended.rs: body.unwrap() in take_request"
  /\ ex_gen (ex_flow GET (Some 302) (Some (s2b "/z")) true) Never = Panic "amended.rs: body.unwrap() in take_request".
Proof. vm_compute. repeat split; try reflexivity; repeat eexists. Qed.

Print Assumptions keep_of_some.
Print Assumptions flow_new_ok.
Print Assumptions flow_new_fresh.
Print Assumptions am_unset_header_spec.
Print Assumptions unset_header_list_am.
Print Assumptions am_set_uri_spec.
Print Assumptions gen_as_new_flow_ok.
Print Assumptions gen_as_new_flow_unset_table.
Print Assumptions gen_as_new_flow_unset_table_nonvacuous.
Print Assumptions gen_as_new_flow_ok_nonvacuous.
