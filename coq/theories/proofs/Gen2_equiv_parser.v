(** src/parser.rs, translated (Gen2.gen_try_parse_response, gen_try_parse_partial_response, gen_try_parse_request), against the
    model's Parser.try_parse_response / try_parse_partial_response / try_parse_request.

    The translated functions take what httparse returned (outcome, version, code or method, stored fields) as values; the model's
    functions run the model of httparse (Httparse.parse_response / parse_request) first.  The theorems say: on what that parser model
    returns, the translated code computes exactly what the model's bridge computes.  Two facts about the parser model are needed for
    the partial parser, whose code re-checks what httparse guarantees: a stored version is 0 or 1, and a stored field name is not
    empty. *)
From Coq Require Import NArith Bool List Lia.
From Hoot Require Import Base Httparse Parser GenLib Gen Gen2.
Import ListNotations.
Open Scope N_scope.

Definition hp_of (st : hstat) : hp_result :=
  match st with
  | SComplete n => HpOk (HpComplete n)
  | SPartial => HpOk HpPartial
  | SError e => HpErr e
  end.

(* ------------------------------------------------------------------ the copy loops *)

Lemma parse_response_for_all hs : forall b : N * N * list header,
  gen_try_parse_response_for1 hs b = Ok (fst (fst b), snd (fst b), snd b ++ hs).
Proof.
  induction hs as [|h t IH]; intros [[ve st] acc]; cbn [gen_try_parse_response_for1 fst snd].
  - rewrite app_nil_r. reflexivity.
  - unfold builder_header. rewrite IH. cbn [fst snd]. rewrite <- app_assoc. destruct h; reflexivity.
Qed.

Lemma parse_request_for_all hs : forall b : N * bytes * list header,
  gen_try_parse_request_for1 hs b = Ok (fst (fst b), snd (fst b), snd b ++ hs).
Proof.
  induction hs as [|h t IH]; intros [[ve st] acc]; cbn [gen_try_parse_request_for1 fst snd].
  - rewrite app_nil_r. reflexivity.
  - unfold builder_header. rewrite IH. cbn [fst snd]. rewrite <- app_assoc. destruct h; reflexivity.
Qed.

Lemma len_zero_nil (l : bytes) : (len l =? 0) = match l with [] => true | _ => false end.
Proof.
  destruct l as [|x t]; [reflexivity|]. unfold len. cbn [length]. apply N.eqb_neq. lia.
Qed.

Lemma parse_partial_for_names hs : forall b : N * N * list header,
  Forall (fun h => fst h <> []) hs ->
  gen_try_parse_partial_response_for1 hs b = Ok (fst (fst b), snd (fst b), snd b ++ until_empty_value hs).
Proof.
  induction hs as [|h t IH]; intros [[ve st] acc] Hn; cbn [gen_try_parse_partial_response_for1 until_empty_value fst snd].
  - rewrite app_nil_r. reflexivity.
  - inversion Hn as [|h' t' Hh Ht]; subst h' t'.
    destruct h as [hn hv]. cbn [fst snd] in *.
    rewrite !len_zero_nil.
    destruct hn as [|n0 nt]; [contradiction|].
    destruct hv as [|v0 vt]; cbn [orb andb negb].
    + rewrite ?app_nil_r. reflexivity.
    + unfold builder_header. rewrite IH by exact Ht. cbn [fst snd]. rewrite <- app_assoc. reflexivity.
Qed.

(* ------------------------------------------------------------------ the complete response parser *)

Lemma status_from_u16_ok c :
  match status_ok (Some c) with
  | Ok n => status_from_u16 c = Some n
  | _ => status_from_u16 c = None
  end.
Proof.
  unfold status_ok, status_from_u16.
  replace (c <? 1000) with (c <=? 999) by (apply eq_true_iff_eq; rewrite N.leb_le, N.ltb_lt; lia).
  destruct ((100 <=? c) && (c <=? 999)); reflexivity.
Qed.

Theorem gen_try_parse_response_eq slots input :
  gen_try_parse_response input (hp_of (fst (parse_response slots input))) (hv_version (snd (parse_response slots input)))
    (hv_code (snd (parse_response slots input))) (hv_headers (snd (parse_response slots input)))
  = try_parse_response slots input.
Proof.
  unfold try_parse_response. destruct (parse_response slots input) as [st v]. cbn [fst snd].
  unfold gen_try_parse_response. cbv beta zeta.
  destruct st as [n| |e]; cbn [hp_of]; [|reflexivity|destruct e; reflexivity].
  unfold version_ok.
  destruct (hv_version v) as [ver|]; [|reflexivity].
  destruct ver as [|[p|p|]]; cbn [N.eqb Pos.eqb orb bind]; try reflexivity.
  all: destruct (hv_code v) as [c|]; [|reflexivity].
  all: pose proof (status_from_u16_ok c) as Hs; unfold status_ok in *.
  all: destruct ((100 <=? c) && (c <=? 999)); rewrite Hs; [|reflexivity].
  all: rewrite parse_response_for_all; unfold builder_new, resp_builder_body; cbn [bind fst snd app].
  all: destruct (builder_ok (hv_headers v)); reflexivity.
Qed.

(* ------------------------------------------------------------------ the request parser *)

Theorem gen_try_parse_request_eq slots input :
  gen_try_parse_request input (hp_of (fst (parse_request slots input))) (hq_version (snd (parse_request slots input)))
    (hq_method (snd (parse_request slots input))) (hq_headers (snd (parse_request slots input)))
  = try_parse_request slots input.
Proof.
  unfold try_parse_request. destruct (parse_request slots input) as [st v]. cbn [fst snd].
  unfold gen_try_parse_request. cbv beta zeta.
  destruct st as [n| |e]; cbn [hp_of]; [|reflexivity|destruct e; reflexivity].
  unfold version_ok.
  destruct (hq_version v) as [ver|]; [|reflexivity].
  destruct ver as [|[p|p|]]; cbn [N.eqb Pos.eqb orb bind]; try reflexivity.
  all: destruct (hq_method v) as [m|]; [|reflexivity].
  all: unfold method_from_bytes.
  all: destruct (match m with [] => false | _ => forallb is_http_method_char m end); [|reflexivity].
  all: rewrite parse_request_for_all; unfold builder_new, req_builder_body; cbn [bind fst snd app].
  all: destruct (builder_ok (hq_headers v)); reflexivity.
Qed.

(* ------------------------------------------------------------------ two facts about the parser model *)

Lemma parse_version_01 b ver r : parse_version b = Done ver r -> ver = 0 \/ ver = 1.
Proof.
  unfold parse_version, pbind.
  destruct (expect_lit EVersion [72; 84; 84; 80; 47; 49; 46] b) as [u r0| |e]; [|discriminate|discriminate].
  destruct r0 as [|d r']; [discriminate|].
  destruct (d =? 48); [intros H; injection H as <- _; left; reflexivity|].
  destruct (d =? 49); [intros H; injection H as <- _; right; reflexivity|discriminate].
Qed.

Lemma parse_response_version_01 slots b ver :
  hv_version (snd (parse_response slots b)) = Some ver -> ver = 0 \/ ver = 1.
Proof.
  unfold parse_response.
  destruct (skip_empty_lines b) as [u0 b0| |e0]; try (cbn; discriminate).
  destruct (parse_version b0) as [ver0 b1| |e1] eqn:Ev; try (cbn; discriminate).
  apply parse_version_01 in Ev.
  assert (Hgoal : forall x : hstat * hview, hv_version (snd x) = Some ver0 -> hv_version (snd x) = Some ver -> ver = 0 \/ ver = 1).
  { intros x H1 H2. rewrite H1 in H2. injection H2 as <-. exact Ev. }
  match goal with |- hv_version (snd ?x) = _ -> _ => apply (Hgoal x) end.
  destruct (expect_byte EVersion 32 b1) as [u2 b2| |e2]; try reflexivity.
  destruct (parse_code b2) as [code b3| |e3]; try reflexivity.
  destruct (parse_after_code b3) as [u4 b4| |e4]; try reflexivity.
  destruct (parse_headers slots b4) as [hs o]. destruct o; reflexivity.
Qed.

Lemma span_name_nonempty c t : is_name_token c = true -> fst (span is_name_token (c :: t)) <> [].
Proof.
  intros Hc. cbn [span]. rewrite Hc. destruct (span is_name_token t). cbn [fst]. discriminate.
Qed.

Lemma parse_line_name b h r : parse_line b = Done (Some h) r -> fst h <> [].
Proof.
  unfold parse_line. destruct b as [|c t]; [discriminate|].
  destruct (c =? 13); [unfold pbind; destruct (expect_byte ENewLine 10 t); discriminate|].
  destruct (c =? 10); [discriminate|].
  destruct (is_name_token c) eqn:Hc; cbn [negb]; [|discriminate].
  pose proof (span_name_nonempty c t Hc) as Hne.
  destruct (span is_name_token (c :: t)) as [name r0]. cbn [fst] in Hne.
  unfold pbind. destruct (expect_byte EHeaderName 58 r0) as [u1 r1| |e1]; [|discriminate|discriminate].
  destruct (drop_while is_sp_tab r1) as [|x r2]; [discriminate|].
  destruct (span is_value_token (x :: r2)) as [v r3].
  destruct (value_eol r3) as [u4 r4| |e4]; [|discriminate|discriminate].
  intros H. injection H as <- _. exact Hne.
Qed.

Lemma headers_loop_names fuel : forall slots b, Forall (fun h => fst h <> []) (fst (headers_loop fuel slots b)).
Proof.
  induction fuel as [|f IH]; intros slots b; cbn [headers_loop]; [constructor|].
  destruct (parse_line b) as [[h|] r| |e] eqn:El; try (cbn [fst]; constructor).
  destruct slots as [|k]; [cbn [fst]; constructor|].
  specialize (IH k r). destruct (headers_loop f k r) as [hs o]. cbn [fst] in *.
  constructor; [exact (parse_line_name b h r El)|exact IH].
Qed.

Lemma parse_response_names slots b : Forall (fun h => fst h <> []) (hv_headers (snd (parse_response slots b))).
Proof.
  unfold parse_response.
  destruct (skip_empty_lines b) as [u0 b0| |e0]; try (cbn; constructor).
  destruct (parse_version b0) as [ver0 b1| |e1]; try (cbn; constructor).
  destruct (expect_byte EVersion 32 b1) as [u2 b2| |e2]; try (cbn; constructor).
  destruct (parse_code b2) as [code b3| |e3]; try (cbn; constructor).
  destruct (parse_after_code b3) as [u4 b4| |e4]; try (cbn; constructor).
  pose proof (headers_loop_names (S (length b4)) slots b4) as Hn. unfold parse_headers.
  destruct (headers_loop (S (length b4)) slots b4) as [hs o]. cbn [fst] in Hn.
  destruct o; exact Hn.
Qed.

(* ------------------------------------------------------------------ the partial response parser *)

Lemma gen_partial_ok input s ver code hs :
  (forall x, ver = Some x -> x = 0 \/ x = 1) -> Forall (fun h : header => fst h <> []) hs ->
  gen_try_parse_partial_response input (HpOk s) ver code hs =
  match ver with
  | None => Ok None
  | Some ve =>
      match code with
      | None => Ok None
      | Some _ =>
          bind (status_ok code) (fun c =>
            let hs' := until_empty_value hs in
            if builder_ok hs'
            then Ok (Some {| rs_version := ve; rs_status := c; rs_headers := hm_of_list hs' |})
            else Err HttpParseFail)
      end
  end.
Proof.
  intros Hver Hnames.
  unfold gen_try_parse_partial_response. cbv beta zeta.
  destruct ver as [x|]; [|reflexivity].
  destruct (Hver x eq_refl) as [-> | ->].
  all: destruct code as [c|]; [|reflexivity].
  all: pose proof (status_from_u16_ok c) as Hs; unfold status_ok in *.
  all: destruct ((100 <=? c) && (c <=? 999)); rewrite Hs; [|reflexivity].
  all: rewrite parse_partial_for_names by exact Hnames; unfold builder_new, resp_builder_body; cbn [bind fst snd app].
  all: destruct (builder_ok (until_empty_value hs)); reflexivity.
Qed.

Theorem gen_try_parse_partial_response_eq slots input :
  gen_try_parse_partial_response input (hp_of (fst (parse_response slots input))) (hv_version (snd (parse_response slots input)))
    (hv_code (snd (parse_response slots input))) (hv_headers (snd (parse_response slots input)))
  = try_parse_partial_response slots input.
Proof.
  pose proof (parse_response_version_01 slots input) as Hver.
  pose proof (parse_response_names slots input) as Hnames.
  unfold try_parse_partial_response. destruct (parse_response slots input) as [st v]. cbn [fst snd] in *.
  destruct st as [n| |e]; cbn [hp_of].
  - apply gen_partial_ok; assumption.
  - apply gen_partial_ok; assumption.
  - unfold gen_try_parse_partial_response. destruct e; reflexivity.
Qed.
