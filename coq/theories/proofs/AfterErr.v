(** What a FAILED body read leaves behind.

    The Rust [Dechunker] is mutated in place: when [read] returns an error the decoder keeps the state
    it had reached at the transition that failed.  The model records that state with
    [parse_input_err_state] / [read_chunked_err_state] / [reader_after_err] (Body.v),
    [call_read_after_err] (Call.v) and [recv_body_after_err] (Flow.v); [Script.do_read] continues
    from [recv_body_after_err] after an [Err].

    This file has the facts every property needs about those functions:
    - the decoder is never left in the transient Trailer state, in fact a failed call leaves it in
      [DSize] or [DCrLf] (the only two transitions that can fail);
    - on a call that succeeds the functions return the state the call ends in;
    - only the reader of the call changes: every other field of the call and of the flow is the
      same, the reader keeps its kind, the flow invariant of C09 ([Inv TRecvBody]) is preserved. *)
From Coq Require Import Lia ZArith.
From Hoot Require Import Base Chunk Body Httparse Parser Url Request Call Flow.
From Hoot.proofs Require Import BytesLemmas C09_chunk C09_inv.
Open Scope N_scope.

(* ------------------------------------------------------------------ the decoder *)

(** Only [read_size] (state Size) and [expect_crlf] (state CrLf) can return an error. *)
Lemma dech_step_err_state d src room e : dech_step d src room = Err e -> d = DSize \/ d = DCrLf.
Proof.
  destruct d as [|lft| | | |]; cbn [dech_step]; intros H.
  - left; reflexivity.
  - unfold read_data in H. discriminate H.
  - right; reflexivity.
  - unfold trailer_or_ended in H. destruct (find_crlf src) as [i|]; [|discriminate H].
    destruct (i =? 0); discriminate H.
  - unfold trailer in H. destruct (find_crlf src) as [i|]; [|discriminate H].
    destruct (i =? 0); discriminate H.
  - discriminate H.
Qed.

(** The inner loop: if [parse_input] fails with an error, the recorded state is the one whose
    transition failed. *)
Lemma parse_input_err_state_cases : forall fuel d src room used out e,
  parse_input_loop fuel d src room used out = Err e ->
  parse_input_err_state fuel d src room = DSize \/ parse_input_err_state fuel d src room = DCrLf.
Proof.
  induction fuel as [|fuel IH]; intros d src room used out e H; cbn [parse_input_loop] in H; [discriminate H|].
  cbn [parse_input_err_state].
  destruct (dech_step d src room) as [r|e0|s] eqn:E; cbn [bind] in H.
  - destruct (sr_more r); [|discriminate H]. eapply IH. exact H.
  - apply dech_step_err_state in E. exact E.
  - discriminate H.
Qed.

(** ... and if it succeeds, the recorded state is the state it returns. *)
Lemma parse_input_err_state_ok : forall fuel d src room used out d' used' out',
  parse_input_loop fuel d src room used out = Ok (d', used', out') ->
  parse_input_err_state fuel d src room = d'.
Proof.
  induction fuel as [|fuel IH]; intros d src room used out d' used' out' H; cbn [parse_input_loop] in H;
    [discriminate H|].
  cbn [parse_input_err_state].
  destruct (dech_step d src room) as [r|e0|s] eqn:E; cbn [bind] in H; try discriminate H.
  destruct (sr_more r).
  - eapply IH. exact H.
  - inversion H; subst. reflexivity.
Qed.

(** The outer loop never records the Trailer state, whatever the fuel: a successful [parse_input]
    never returns it ([C09_chunk.parse_input_safe]: the Ending->Trailer step is always followed by the
    Trailer step on the same bytes), a failing one stops in Size or CrLf, and it never panics. *)
Lemma read_chunked_err_state_not_trailer : forall fuel d src room stop,
  d <> DTrailer -> read_chunked_err_state fuel d src room stop <> DTrailer.
Proof.
  induction fuel as [|fuel IH]; intros d src room stop Hd; cbn [read_chunked_err_state]; [exact Hd|].
  pose proof (parse_input_safe d src room Hd) as Hs.
  destruct (parse_input d src room) as [[[d' i] o]|e|s] eqn:E.
  - destruct ((i =? 0) || (len (drop i src) =? 0) || (room - len o =? 0)); [exact Hs|].
    destruct (dech_is_ended d'); [exact Hs|].
    destruct (stop && is_on_chunk_boundary d'); [exact Hs|].
    apply IH. exact Hs.
  - unfold parse_input in E. apply parse_input_err_state_cases in E.
    destruct E as [E|E]; rewrite E; discriminate.
  - contradiction.
Qed.

(** The precise form: a failed [read_chunked] leaves the decoder in Size or in CrLf. *)
Lemma read_chunked_loop_err_state : forall fuel d src room stop used out e,
  read_chunked_loop fuel d src room stop used out = Err e -> d <> DTrailer ->
  read_chunked_err_state fuel d src room stop = DSize \/ read_chunked_err_state fuel d src room stop = DCrLf.
Proof.
  induction fuel as [|fuel IH]; intros d src room stop used out e H Hd; cbn [read_chunked_loop] in H;
    [discriminate H|].
  cbn [read_chunked_err_state].
  pose proof (parse_input_safe d src room Hd) as Hs.
  destruct (parse_input d src room) as [[[d' i] o]|e0|s] eqn:E; cbn [bind] in H.
  - destruct ((i =? 0) || (len (drop i src) =? 0) || (room - len o =? 0)); [discriminate H|].
    destruct (dech_is_ended d'); [discriminate H|].
    destruct (stop && is_on_chunk_boundary d'); [discriminate H|].
    eapply IH; [exact H|exact Hs].
  - unfold parse_input in E. apply parse_input_err_state_cases in E. exact E.
  - discriminate H.
Qed.

Theorem read_chunked_err_state_cases d src room stop e :
  read_chunked d src room stop = Err e -> d <> DTrailer ->
  read_chunked_err_state (List.length src + 1) d src room stop = DSize \/
  read_chunked_err_state (List.length src + 1) d src room stop = DCrLf.
Proof. unfold read_chunked. apply read_chunked_loop_err_state. Qed.

(** On a successful call the recorded state is the state the call returns. *)
Lemma read_chunked_loop_err_state_ok : forall fuel d src room stop used out d' used' out',
  read_chunked_loop fuel d src room stop used out = Ok (d', used', out') ->
  read_chunked_err_state fuel d src room stop = d'.
Proof.
  induction fuel as [|fuel IH]; intros d src room stop used out d1 used1 out1 H; cbn [read_chunked_loop] in H;
    [discriminate H|].
  cbn [read_chunked_err_state].
  destruct (parse_input d src room) as [[[d' i] o]|e0|s] eqn:E; cbn [bind] in H; try discriminate H.
  destruct ((i =? 0) || (len (drop i src) =? 0) || (room - len o =? 0)); [inversion H; reflexivity|].
  destruct (dech_is_ended d'); [inversion H; reflexivity|].
  destruct (stop && is_on_chunk_boundary d'); [inversion H; reflexivity|].
  eapply IH. exact H.
Qed.

Theorem read_chunked_err_state_ok d src room stop d' i o :
  read_chunked d src room stop = Ok (d', i, o) ->
  read_chunked_err_state (List.length src + 1) d src room stop = d'.
Proof. unfold read_chunked. apply read_chunked_loop_err_state_ok. Qed.

(* ------------------------------------------------------------------ the body reader *)

Lemma reader_after_err_chunked d src room stop :
  reader_after_err (RChunked d) src room stop =
  RChunked (read_chunked_err_state (List.length src + 1) d src room stop).
Proof. reflexivity. Qed.

(** Only a chunked reader is touched. *)
Lemma reader_after_err_other r src room stop :
  (forall d, r <> RChunked d) -> reader_after_err r src room stop = r.
Proof. intros H. destruct r as [|lft|d|]; try reflexivity. exfalso. exact (H d eq_refl). Qed.

(** The reader keeps its kind. *)
Lemma reader_after_err_mode r src room stop :
  reader_mode (reader_after_err r src room stop) = reader_mode r.
Proof. destruct r; reflexivity. Qed.

Lemma reader_after_err_is_close r src room stop :
  reader_is_close (reader_after_err r src room stop) = reader_is_close r.
Proof. destruct r; reflexivity. Qed.

Lemma reader_after_err_kind r src room stop :
  match r, reader_after_err r src room stop with
  | RNoBody, RNoBody | RClose, RClose | RChunked _, RChunked _ => True
  | RLength a, RLength b => b = a
  | _, _ => False
  end.
Proof. destruct r; cbn [reader_after_err]; auto. Qed.

(** A reader that can exist between two calls ([C09_inv.reader_ok]: not chunked-in-Trailer) is again
    such a reader after a failed read. *)
Lemma reader_after_err_ok r src room stop : reader_ok r -> reader_ok (reader_after_err r src room stop).
Proof.
  unfold reader_ok. intros Hr. destruct r as [|lft|d|]; cbn [reader_after_err]; try discriminate.
  intros E. inversion E as [E1]. revert E1. apply read_chunked_err_state_not_trailer.
  intros Ed. apply Hr. rewrite Ed. reflexivity.
Qed.

(** Only the chunked reader can fail at all. *)
Lemma reader_read_err_chunked r src room stop e :
  reader_read r src room stop = Err e -> exists d, r = RChunked d /\ read_chunked d src room stop = Err e.
Proof.
  destruct r as [|lft|d|]; cbn [reader_read]; intros H; try discriminate H.
  exists d. split; [reflexivity|].
  destruct (read_chunked d src room stop) as [[[d' i] o]|e0|s]; cbn [bind] in H; try discriminate H.
  inversion H; reflexivity.
Qed.

(** After a failed read the reader is chunked and waits for a size line or for the CRLF behind a
    chunk. *)
Theorem reader_after_err_cases r src room stop e :
  reader_read r src room stop = Err e -> reader_ok r ->
  reader_after_err r src room stop = RChunked DSize \/ reader_after_err r src room stop = RChunked DCrLf.
Proof.
  intros H Hr. destruct (reader_read_err_chunked r src room stop e H) as (d & -> & Hd).
  rewrite reader_after_err_chunked.
  assert (Hnt : d <> DTrailer) by (intros Ed; apply Hr; rewrite Ed; reflexivity).
  destruct (read_chunked_err_state_cases d src room stop e Hd Hnt) as [E|E]; rewrite E; auto.
Qed.

(** For a read that succeeds, [reader_after_err] is the reader the read returns. *)
Theorem reader_after_err_on_ok r src room stop r' i o :
  reader_read r src room stop = Ok (r', i, o) ->
  match r with RChunked _ => reader_after_err r src room stop = r' | _ => reader_after_err r src room stop = r end.
Proof.
  destruct r as [|lft|d|]; try reflexivity. cbn [reader_read]. intros H.
  destruct (read_chunked d src room stop) as [[[d' i'] o']|e0|s] eqn:E; cbn [bind] in H; try discriminate H.
  inversion H; subst. rewrite reader_after_err_chunked, (read_chunked_err_state_ok _ _ _ _ _ _ _ E). reflexivity.
Qed.

(* ------------------------------------------------------------------ the call *)

Lemma set_reader_id c : set_reader c (c_reader c) = c.
Proof. destruct c; reflexivity. Qed.

(** The reader of the call after a failed read. *)
Definition reader_after (r : reader) (input : bytes) (cap : N) (stop : bool) : reader :=
  if reader_is_ended r then r else reader_after_err r input cap stop.

Lemma call_read_after_err_reader c input cap :
  c_reader (call_read_after_err c input cap) =
  match c_reader c with Some r => Some (reader_after r input cap (c_stop c)) | None => None end.
Proof.
  unfold call_read_after_err, reader_after. destruct (c_reader c) as [r|] eqn:E; [|exact E].
  destruct (reader_is_ended r); [exact E|reflexivity].
Qed.

(** Only [c_reader] changes. *)
Lemma call_read_after_err_eq c input cap :
  call_read_after_err c input cap = set_reader c (c_reader (call_read_after_err c input cap)).
Proof.
  unfold call_read_after_err. destruct (c_reader c) as [r|] eqn:E.
  - destruct (reader_is_ended r).
    + rewrite set_reader_id. reflexivity.
    + reflexivity.
  - rewrite set_reader_id. reflexivity.
Qed.

Lemma call_read_after_err_req c input cap : c_req (call_read_after_err c input cap) = c_req c.
Proof. rewrite call_read_after_err_eq. reflexivity. Qed.
Lemma call_read_after_err_analyzed c input cap : c_analyzed (call_read_after_err c input cap) = c_analyzed c.
Proof. rewrite call_read_after_err_eq. reflexivity. Qed.
Lemma call_read_after_err_phase c input cap : c_phase (call_read_after_err c input cap) = c_phase c.
Proof. rewrite call_read_after_err_eq. reflexivity. Qed.
Lemma call_read_after_err_writer c input cap : c_writer (call_read_after_err c input cap) = c_writer c.
Proof. rewrite call_read_after_err_eq. reflexivity. Qed.
Lemma call_read_after_err_skip c input cap : c_skip (call_read_after_err c input cap) = c_skip c.
Proof. rewrite call_read_after_err_eq. reflexivity. Qed.
Lemma call_read_after_err_stop c input cap : c_stop (call_read_after_err c input cap) = c_stop c.
Proof. rewrite call_read_after_err_eq. reflexivity. Qed.

Lemma reader_after_ok r input cap stop : reader_ok r -> reader_ok (reader_after r input cap stop).
Proof.
  intros H. unfold reader_after. destruct (reader_is_ended r); [exact H|].
  apply reader_after_err_ok. exact H.
Qed.

Lemma reader_after_mode r input cap stop : reader_mode (reader_after r input cap stop) = reader_mode r.
Proof. unfold reader_after. destruct (reader_is_ended r); [reflexivity|apply reader_after_err_mode]. Qed.

Lemma reader_after_is_close r input cap stop : reader_is_close (reader_after r input cap stop) = reader_is_close r.
Proof. unfold reader_after. destruct (reader_is_ended r); [reflexivity|apply reader_after_err_is_close]. Qed.

(** If [call_read] failed, the reader was present, not ended, and it is the reader that failed. *)
Lemma call_read_err c input cap e :
  call_read c input cap = Err e ->
  exists r, c_reader c = Some r /\ reader_is_ended r = false /\ reader_read r input cap (c_stop c) = Err e.
Proof.
  unfold call_read. destruct (c_reader c) as [r|]; [|discriminate].
  destruct (reader_is_ended r) eqn:Ee; [discriminate|]. intros H. exists r. split; [reflexivity|]. split; [exact Ee|].
  destruct (reader_read r input cap (c_stop c)) as [[[r' i] o]|e0|s]; cbn [bind] in H; try discriminate H.
  inversion H; reflexivity.
Qed.

(* ------------------------------------------------------------------ the flow *)

Lemma set_call_id f : set_call f (i_call f) = f.
Proof. destruct f; reflexivity. Qed.

Lemma recv_body_after_err_call f input cap :
  i_call (recv_body_after_err f input cap) =
  match i_holder f with HRecvBody => call_read_after_err (i_call f) input cap | _ => i_call f end.
Proof. unfold recv_body_after_err. destruct (i_holder f); reflexivity. Qed.

(** Only the reader of the call changes. *)
Lemma recv_body_after_err_eq f input cap :
  recv_body_after_err f input cap =
  set_call f (set_reader (i_call f) (c_reader (i_call (recv_body_after_err f input cap)))).
Proof.
  unfold recv_body_after_err. destruct (i_holder f);
    try (cbn [set_call i_call]; rewrite set_reader_id, set_call_id; reflexivity).
  cbn [set_call i_call]. rewrite <- call_read_after_err_eq. reflexivity.
Qed.

Lemma recv_body_after_err_holder f input cap : i_holder (recv_body_after_err f input cap) = i_holder f.
Proof. rewrite recv_body_after_err_eq. reflexivity. Qed.
Lemma recv_body_after_err_reasons f input cap : i_reasons (recv_body_after_err f input cap) = i_reasons f.
Proof. rewrite recv_body_after_err_eq. reflexivity. Qed.
Lemma recv_body_after_err_should f input cap :
  i_should_send_body (recv_body_after_err f input cap) = i_should_send_body f.
Proof. rewrite recv_body_after_err_eq. reflexivity. Qed.
Lemma recv_body_after_err_await f input cap : i_await_100 (recv_body_after_err f input cap) = i_await_100 f.
Proof. rewrite recv_body_after_err_eq. reflexivity. Qed.
Lemma recv_body_after_err_status f input cap : i_status (recv_body_after_err f input cap) = i_status f.
Proof. rewrite recv_body_after_err_eq. reflexivity. Qed.
Lemma recv_body_after_err_location f input cap : i_location (recv_body_after_err f input cap) = i_location f.
Proof. rewrite recv_body_after_err_eq. reflexivity. Qed.
Lemma recv_body_after_err_req f input cap : c_req (i_call (recv_body_after_err f input cap)) = c_req (i_call f).
Proof. rewrite recv_body_after_err_eq. reflexivity. Qed.
Lemma recv_body_after_err_analyzed f input cap :
  c_analyzed (i_call (recv_body_after_err f input cap)) = c_analyzed (i_call f).
Proof. rewrite recv_body_after_err_eq. reflexivity. Qed.
Lemma recv_body_after_err_phase f input cap :
  c_phase (i_call (recv_body_after_err f input cap)) = c_phase (i_call f).
Proof. rewrite recv_body_after_err_eq. reflexivity. Qed.
Lemma recv_body_after_err_writer f input cap :
  c_writer (i_call (recv_body_after_err f input cap)) = c_writer (i_call f).
Proof. rewrite recv_body_after_err_eq. reflexivity. Qed.
Lemma recv_body_after_err_skip f input cap :
  c_skip (i_call (recv_body_after_err f input cap)) = c_skip (i_call f).
Proof. rewrite recv_body_after_err_eq. reflexivity. Qed.
Lemma recv_body_after_err_stop f input cap :
  c_stop (i_call (recv_body_after_err f input cap)) = c_stop (i_call f).
Proof. rewrite recv_body_after_err_eq. reflexivity. Qed.

Lemma recv_body_after_err_is_redirect f input cap : is_redirect (recv_body_after_err f input cap) = is_redirect f.
Proof. unfold is_redirect. rewrite recv_body_after_err_status. reflexivity. Qed.

(** The reader, when the holder is the RecvBody variant (otherwise nothing changes at all). *)
Lemma recv_body_after_err_reader f input cap :
  i_holder f = HRecvBody ->
  c_reader (i_call (recv_body_after_err f input cap)) =
  match c_reader (i_call f) with
  | Some r => Some (reader_after r input cap (c_stop (i_call f)))
  | None => None
  end.
Proof. intros Hh. rewrite recv_body_after_err_call, Hh. apply call_read_after_err_reader. Qed.

Lemma recv_body_after_err_other f input cap : i_holder f <> HRecvBody -> recv_body_after_err f input cap = f.
Proof. intros Hh. unfold recv_body_after_err. destruct (i_holder f); try reflexivity. congruence. Qed.

(** If [recv_body_read] failed: the holder is RecvBody and the reader of the call failed. *)
Lemma recv_body_read_err f input cap e :
  recv_body_read f input cap = Err e ->
  i_holder f = HRecvBody /\
  exists r, c_reader (i_call f) = Some r /\ reader_is_ended r = false /\
            reader_read r input cap (c_stop (i_call f)) = Err e.
Proof.
  unfold recv_body_read, as_recv_body. destruct (i_holder f); cbn [bind]; try discriminate.
  intros H. split; [reflexivity|]. apply (call_read_err _ _ _ e).
  destruct (call_read (i_call f) input cap) as [[[c' i] o]|e0|s]; cbn [bind] in H; try discriminate H.
  inversion H; reflexivity.
Qed.

(** The reader in the real post-error state: chunked, in Size or in CrLf. *)
Theorem recv_body_after_err_reader_cases f input cap e :
  recv_body_read f input cap = Err e ->
  (forall r, c_reader (i_call f) = Some r -> reader_ok r) ->
  c_reader (i_call (recv_body_after_err f input cap)) = Some (RChunked DSize) \/
  c_reader (i_call (recv_body_after_err f input cap)) = Some (RChunked DCrLf).
Proof.
  intros H Hok. destruct (recv_body_read_err f input cap e H) as (Hh & r & Hr & Hne & Hrd).
  rewrite (recv_body_after_err_reader f input cap Hh), Hr. unfold reader_after. rewrite Hne.
  destruct (reader_after_err_cases r input cap _ e Hrd (Hok r Hr)) as [E|E]; rewrite E; auto.
Qed.

(** The flow invariant of the RecvBody state (C09) holds in the post-error state. *)
Theorem recv_body_after_err_inv f input cap : Inv TRecvBody f -> Inv TRecvBody (recv_body_after_err f input cap).
Proof.
  intros [Hnd (Hc & Hh & Hp & (rd & Er & Hrd))].
  split; [rewrite recv_body_after_err_reasons; exact Hnd|]. cbv zeta.
  unfold RecvCommon. rewrite recv_body_after_err_req, recv_body_after_err_holder, recv_body_after_err_phase.
  split; [exact Hc|]. split; [exact Hh|]. split; [exact Hp|].
  rewrite (recv_body_after_err_reader f input cap Hh), Er.
  eexists. split; [reflexivity|]. apply reader_after_ok. exact Hrd.
Qed.
