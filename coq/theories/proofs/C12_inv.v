(** C12, part 4: the flow-level theorems of C12_flow.v restated under the general flow invariant
    [Inv : tag -> inner -> Prop] of proofs/C09_inv.v.

    Only consequences of [Inv] are used (through the accessor lemmas of C09_inv.v where they exist),
    so that conjuncts can be appended to [Inv] without touching this file.  Preservation of [Inv]
    itself is C09's business; what is needed here for iteration is preserved by the C12 theorems
    themselves (holder, duplicate-free reasons, between-calls reader). *)
From Coq Require Import Lia ZArith.
From Hoot Require Import Base Chunk Body Httparse Parser Url Request Call Flow.
From Hoot.proofs Require Import BytesLemmas C09_inv C12_chunk C12_parsers C12_flow C12_after_err C12_session.
Open Scope N_scope.

(** The two formulations of "between-calls reader" agree. *)
Lemma reader_ok_iff r : C09_inv.reader_ok r <-> C12_chunk.reader_ok r.
Proof.
  unfold C09_inv.reader_ok, C12_chunk.reader_ok, dech_ok. split.
  - intros H. destruct r as [|n|d|]; try exact I. intros ->. apply H. reflexivity.
  - intros H E. subst r. apply H. reflexivity.
Qed.

(** Open an [Inv t f] assumption (a named premise) for a concrete tag into its conjuncts. *)
Ltac open_inv H :=
  let Hnd := fresh "Hnd" in
  destruct H as [Hnd H]; cbn in H; decompose [and] H; clear H.

(* ------------------------------------------------------------------ Await100 *)

Lemma inv_await_pre f :
  Inv TAwait100 f -> NoDup (i_reasons f) /\ i_holder f = HWithBody /\ c_analyzed (i_call f) = true.
Proof.
  intros H. pose proof (inv_nodup _ _ H) as Hn. pose proof (inv_holder _ _ H) as Hh. cbn in Hh.
  open_inv H. repeat split; assumption.
Qed.

(** [try_read_100] and the [proceed] after it, in any Await100 state; the side condition is the
    documented misuse (a 100 offered after a refusal), discharged by [inv_try100_discipline]. *)
Theorem inv_try100 f w :
  Inv TAwait100 f -> ~ (i_should_send_body f = false /\ parses_100 w) ->
  Try100Safe f w (try_read_100 f w) /\
  exists t f'', await_100_proceed (fst (try_read_100 f w)) = Ok (t, f'').
Proof.
  intros H Hmis. destruct (inv_await_pre f H) as (Hn & Hh & Ha). apply then_proceed_100; assumption.
Qed.

(** Under the re-presentation discipline no call of any schedule panics, starting from a state in
    which the body is still due (that is how Await100 is entered). *)
Theorem inv_try100_discipline f arrivals :
  Inv TAwait100 f -> i_should_send_body f = true -> run100_safe f [] arrivals.
Proof. intros H Hs. apply run100_discipline; [exact (inv_nodup _ _ H)|exact Hs]. Qed.

(* ------------------------------------------------------------------ RecvResponse *)

Lemma inv_recv_response_pre f :
  Inv TRecvResponse f ->
  i_holder f = HRecvResponse /\ NoDup (i_reasons f) /\ call_ok (i_call f).
Proof.
  intros H. pose proof (inv_nodup _ _ H) as Hn. pose proof (inv_holder _ _ H) as Hh. cbn in Hh.
  split; [exact Hh|]. split; [exact Hn|].
  open_inv H. intros r Hr. apply reader_ok_iff.
  match goal with Hk : forall r, c_reader _ = Some r -> C09_inv.reader_ok r |- _ => apply Hk; exact Hr end.
Qed.

Theorem inv_recv_try_response f w :
  Inv TRecvResponse f ->
  RecvTrySafe f w (recv_try_response f w) /\
  let f1 := match recv_try_response f w with Ok (f', _, _) => f' | _ => f end in
  match recv_response_proceed f1 with
  | Panic _ => False
  | Err _ => False
  | Ok None => True
  | Ok (Some (t, f2)) =>
      i_holder f2 = HRecvBody /\ NoDup (i_reasons f2) /\
      (exists r, c_reader (i_call f2) = Some r /\ C12_chunk.reader_ok r) /\
      (t = TRecvBody \/ (t = TRedirect /\ is_redirect f2 = true) \/ t = TCleanup)
  end.
Proof.
  intros H. destruct (inv_recv_response_pre f H) as (Hh & Hn & Hc). apply then_proceed_response; assumption.
Qed.

(* ------------------------------------------------------------------ RecvBody *)

Lemma inv_recv_body_pre f :
  Inv TRecvBody f ->
  i_holder f = HRecvBody /\ NoDup (i_reasons f) /\
  exists r, c_reader (i_call f) = Some r /\ C12_chunk.reader_ok r.
Proof.
  intros H. pose proof (inv_nodup _ _ H) as Hn. pose proof (inv_holder _ _ H) as Hh. cbn in Hh.
  destruct (inv_reader f H) as (r & Hr & Hok). repeat split; try assumption.
  exists r. split; [exact Hr|apply reader_ok_iff; exact Hok].
Qed.

Theorem inv_recv_body_read f w cap :
  Inv TRecvBody f ->
  match recv_body_read f w cap with
  | Panic _ => False
  | Err _ => True
  | Ok (f', i, out) =>
      i <= len w /\ len out <= cap /\ subseq out (take i w) /\
      exists r', f' = set_call f (set_reader (i_call f) (Some r')) /\ C12_chunk.reader_ok r'
  end.
Proof.
  intros H. destruct (inv_recv_body_pre f H) as (Hh & _ & r & Hr & Hok).
  apply (recv_body_read_safe f r); assumption.
Qed.

Theorem inv_body_schedule f ops : Inv TRecvBody f -> body_run_safe f ops.
Proof.
  intros H. destruct (inv_recv_body_pre f H) as (Hh & _ & r & Hr & Hok).
  apply (body_run_safe_all ops f r); assumption.
Qed.

(** After an error the flow is the real post-error flow ([recv_body_after_err]: the decoder keeps the
    state it reached). *)
Theorem inv_then_proceed_body f w cap :
  Inv TRecvBody f ->
  let f1 := match recv_body_read f w cap with
            | Ok (f', _, _) => f'
            | _ => recv_body_after_err f w cap
            end in
  match recv_body_proceed f1 with
  | Panic _ => False
  | Err _ => False
  | Ok None => True
  | Ok (Some (t, f2)) => f2 = f1 /\ ((t = TRedirect /\ is_redirect f1 = true) \/ t = TCleanup)
  end.
Proof.
  intros H. destruct (inv_recv_body_pre f H) as (Hh & _ & r & Hr & Hok).
  apply (then_proceed_body_real f r); assumption.
Qed.

(** Schedules that carry on through failed reads, from the state each failed read really leaves. *)
Theorem inv_body_schedule_through_errors f ops : Inv TRecvBody f -> body_run_through_errors f ops.
Proof.
  intros H. destruct (inv_recv_body_pre f H) as (Hh & _ & r & Hr & Hok).
  apply (body_run_through_errors_all ops f r); assumption.
Qed.

(* ------------------------------------------------------------------ Redirect *)

(** [as_new_flow] in Redirect, as long as the request has not been taken by an earlier call (F18). *)
Theorem inv_redirect f policy :
  Inv TRedirect f -> ~ Taken f ->
  match as_new_flow f policy with Panic _ => False | _ => True end.
Proof.
  intros H Hnt. destruct (inv_redirect_status f H) as (s & Hs & _).
  open_inv H.
  match goal with Hk : ~ Taken f -> abs_uri _ |- _ => destruct (Hk Hnt) as [Hsch _] end.
  apply (as_new_flow_safe f policy s); [exact Hs|exact Hsch|exact Hnt].
Qed.

(* ------------------------------------------------------------------ whole sessions *)

(** The invariant gives the per-state precondition of the session theorem. *)
Lemma inv_srv t f : Inv t f -> Srv t f.
Proof.
  intros H. destruct t; try exact I.
  - destruct (inv_await_pre f H) as (Hn & Hh & Ha). cbn. repeat split; try assumption.
    open_inv H. intros r Hr.
    match goal with Hk : SendCommon _ |- _ => unfold SendCommon in Hk; decompose [and] Hk; clear Hk end.
    match goal with Hnone : c_reader _ = None |- _ => rewrite Hnone in Hr end. discriminate Hr.
  - destruct (inv_recv_response_pre f H) as (Hh & Hn & Hc). cbn. auto.
  - destruct (inv_recv_body_pre f H) as (Hh & Hn & Hr). cbn. auto.
Qed.

Theorem inv_session t f ops : Inv t f -> session_safe t f ops.
Proof. intros H. apply session_safe_all. apply inv_srv. exact H. Qed.

(* ------------------------------------------------------------------ non-vacuity *)

(** A concrete flow satisfying [Inv TRecvBody] (GET http://a.test/, chunked response body), fed a
    hostile size line and a hostile schedule. *)
Definition inv_demo_req : request :=
  {| rq_method := GET; rq_version := V11;
     rq_uri := {| u_scheme := s2b "http"; u_auth := s2b "a.test"; u_pq := [47] |};
     rq_headers := [] |}.
Definition inv_demo_flow : inner :=
  {| i_call := {| c_req := am_new inv_demo_req; c_analyzed := true; c_phase := PRecvBody;
                  c_writer := new_none; c_reader := Some (RChunked DSize);
                  c_skip := false; c_stop := false |};
     i_holder := HRecvBody; i_reasons := []; i_should_send_body := false; i_await_100 := false;
     i_status := Some 200; i_location := None |}.

Example inv_demo_nonvacuous :
  Inv TRecvBody inv_demo_flow /\
  recv_body_read inv_demo_flow (s2b "FFFFFFFFFFFFFFFFF" ++ [13; 10]) 10 = Err ChunkLenNotANumber /\
  body_run_safe inv_demo_flow [BRead ([51; 13; 10] ++ s2b "ab") 1; BStop true; BRead (s2b "bc" ++ [13; 10; 128; 13; 10]) 9].
Proof.
  assert (H : Inv TRecvBody inv_demo_flow).
  { unfold Inv. split; [constructor|]. cbn.
    repeat match goal with
           | |- _ /\ _ => split
           | |- exists _, _ => eexists
           | |- _ = _ => reflexivity
           | |- _ <> _ => discriminate
           | |- C09_inv.reader_ok _ => unfold C09_inv.reader_ok
           | |- RecvCommon _ => unfold RecvCommon, abs_uri; cbn
           end. }
  split; [exact H|]. split; [vm_compute; reflexivity|]. apply inv_body_schedule. exact H.
Qed.

Print Assumptions reader_ok_iff.
Print Assumptions inv_try100.
Print Assumptions inv_try100_discipline.
Print Assumptions inv_recv_try_response.
Print Assumptions inv_recv_body_read.
Print Assumptions inv_body_schedule.
Print Assumptions inv_then_proceed_body.
Print Assumptions inv_body_schedule_through_errors.
Print Assumptions inv_redirect.
Print Assumptions inv_session.
Print Assumptions inv_demo_nonvacuous.
