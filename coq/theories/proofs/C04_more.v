(** C04 at the flow level: [Flow<SendBody>::write], [consume_direct_write], [can_proceed], starting
    from the flow that the REQUEST leads to (proofs/C02_entry.v). *)
From Coq Require Import Lia ZArith.
From Hoot Require Import Base Chunk Body Httparse Parser Url Request Call Flow.
From Hoot.proofs Require Import BytesLemmas C17_proofs C02_proofs C02_analysis C04_proofs C02_entry.
Open Scope N_scope.

(** One [Flow<SendBody>::write] on a Content-Length body: the whole result. *)
Lemma flow_write_sized g lft ended input cap :
  i_holder g = HWithBody -> sized_body (i_call g) lft ended ->
  send_body_write g input cap =
    if nonempty input && ended then Err BodyContentAfterFinish
    else if lft <? len input then Err BodyLargerThanContentLength
    else
      let n := N.min (N.min cap (len input)) lft in
      Ok (set_call g (set_writer (i_call g) {| w_mode := SSized (lft - n);
                                               w_ended := if lft - n =? 0 then true else ended |}),
          n, take n input).
Proof.
  intros Hh Hs. rewrite (send_body_write_eq g input cap Hh), (write_sized _ _ _ input cap Hs).
  destruct (nonempty input && ended); [reflexivity|]. destruct (lft <? len input); reflexivity.
Qed.

Lemma flow_direct_sized g lft ended amount :
  i_holder g = HWithBody -> sized_body (i_call g) lft ended ->
  send_body_direct g amount =
    if lft <? amount then Err BodyLargerThanContentLength
    else Ok (set_call g (set_writer (i_call g) {| w_mode := SSized (lft - amount);
                                                  w_ended := if lft - amount =? 0 then true else ended |})).
Proof.
  intros Hh Hs. rewrite (send_body_direct_eq g amount Hh), (direct_sized _ _ _ amount Hs).
  destruct (lft <? amount); reflexivity.
Qed.

Lemma flow_can_proceed_sized g lft ended :
  i_holder g = HWithBody -> sized_body (i_call g) lft ended -> send_body_can_proceed g = Ok ended.
Proof.
  intros Hh (_ & _ & Hw). rewrite (send_body_can_proceed_eq g Hh), Hw. reflexivity.
Qed.

(** Histories at the flow level: same operations and ghost accumulators as [C04_proofs.trace],
    through the Flow functions; a refused operation returns no new flow (the caller keeps its own). *)
Record ftrace := {
  ft_flow : inner;
  ft_accounted : N;
  ft_out : bytes;
  ft_in : bytes
}.

Definition fstep (t : ftrace) (o : bop) : ftrace :=
  match o with
  | BW input cap =>
      match send_body_write (ft_flow t) input cap with
      | Ok (f', n, out) =>
          {| ft_flow := f'; ft_accounted := ft_accounted t + n; ft_out := ft_out t ++ out;
             ft_in := ft_in t ++ take n input |}
      | _ => t
      end
  | BD a =>
      match send_body_direct (ft_flow t) a with
      | Ok f' => {| ft_flow := f'; ft_accounted := ft_accounted t + a; ft_out := ft_out t; ft_in := ft_in t |}
      | _ => t
      end
  end.

Definition frun (t : ftrace) (ops : list bop) : ftrace := fold_left fstep ops t.
Definition fstart (g : inner) : ftrace := {| ft_flow := g; ft_accounted := 0; ft_out := []; ft_in := [] |}.

(** The flow history is the call history, carried inside the flow. *)
Definition lift (g : inner) (t : trace) : ftrace :=
  {| ft_flow := set_call g (t_call t); ft_accounted := t_accounted t; ft_out := t_out t; ft_in := t_in t |}.

Lemma fstep_lift g t o : i_holder g = HWithBody -> fstep (lift g t) o = lift g (tstep t o).
Proof.
  intros Hh. destruct o as [input cap|a]; cbn [fstep tstep lift ft_flow ft_accounted ft_out ft_in].
  - rewrite send_body_write_eq by exact Hh. cbn [set_call i_call].
    destruct (call_write_body (t_call t) input cap) as [[[c' u] o]| |]; reflexivity.
  - rewrite send_body_direct_eq by exact Hh. cbn [set_call i_call].
    destruct (call_direct_write (t_call t) a) as [c'| |]; reflexivity.
Qed.

Lemma frun_lift g ops : i_holder g = HWithBody ->
  forall t, frun (lift g t) ops = lift g (trun t ops).
Proof.
  intros Hh. induction ops as [|o ops IH]; intros t; cbn [frun trun fold_left]; [reflexivity|].
  rewrite fstep_lift by exact Hh. apply IH.
Qed.

Lemma frun_start g ops : i_holder g = HWithBody ->
  frun (fstart g) ops = lift g (trun (start (i_call g)) ops).
Proof.
  intros Hh. rewrite <- frun_lift by exact Hh. f_equal. unfold lift, start, fstart.
  cbn [t_call t_accounted t_out t_in]. rewrite set_call_same. reflexivity.
Qed.

(** The C04 invariant for every history of Flow operations, with what [can_proceed] answers. *)
Lemma flow_invariant g total ops :
  i_holder g = HWithBody -> sized_body (i_call g) total false ->
  let ft := frun (fstart g) ops in
  exists lft ended,
    i_holder (ft_flow ft) = HWithBody /\
    sized_body (i_call (ft_flow ft)) lft ended /\
    ft_accounted ft + lft = total /\
    ft_out ft = ft_in ft /\
    (ended = true -> lft = 0) /\
    send_body_can_proceed (ft_flow ft) = Ok ended.
Proof.
  intros Hh Hs. cbv zeta. rewrite (frun_start g ops Hh).
  destruct (inv_run total ops (start (i_call g)) (inv_start _ total Hs)) as (lft & ended & H1 & H2 & H3 & H4).
  exists lft, ended. cbn [lift ft_flow ft_accounted ft_out ft_in set_call i_holder i_call].
  repeat split; try assumption.
  - apply H1. - apply H1. - apply H1.
  - apply flow_can_proceed_sized with (lft := lft); [exact Hh|exact H1].
Qed.

(** "Finished only when exactly N bytes are accounted for", as observed through [can_proceed]. *)
Lemma flow_finished_only_at_total g total ops :
  i_holder g = HWithBody -> sized_body (i_call g) total false ->
  let ft := frun (fstart g) ops in
  ft_accounted ft <= total /\
  (send_body_can_proceed (ft_flow ft) = Ok true -> ft_accounted ft = total).
Proof.
  intros Hh Hs. cbv zeta.
  destruct (flow_invariant g total ops Hh Hs) as (lft & ended & _ & _ & Hacc & _ & He & Hcp).
  split; [lia|]. rewrite Hcp. intros E. inversion E; subst. specialize (He eq_refl). lia.
Qed.

(** "... and always becomes finished once N is reached and the end is signalled": whatever the
    history, when the accounted bytes have reached N (N = 0 included), an empty write with any output
    size succeeds, emits and consumes nothing, and [can_proceed] is true afterwards. *)
Lemma flow_finish g total ops cap :
  i_holder g = HWithBody -> sized_body (i_call g) total false ->
  let ft := frun (fstart g) ops in
  ft_accounted ft = total ->
  exists g', send_body_write (ft_flow ft) [] cap = Ok (g', 0, []) /\
             send_body_can_proceed g' = Ok true.
Proof.
  intros Hh Hs. cbv zeta. intros Hacc.
  destruct (flow_invariant g total ops Hh Hs) as (lft & ended & Hh' & Hs' & Hacc' & _ & _ & Hcp).
  assert (lft = 0) by lia. subst lft.
  rewrite (flow_write_sized _ 0 ended [] cap Hh' Hs'). cbn [nonempty andb len].
  replace (0 <? 0) with false by reflexivity. cbv zeta. rewrite N.min_0_r. cbn [N.sub N.eqb take].
  eexists. split; [reflexivity|].
  apply flow_can_proceed_sized with (lft := 0); [exact Hh'|].
  eapply sized_body_set_writer. exact Hs'.
Qed.

(** From the request to the body: a prepared flow whose effective headers carry one Content-Length
    of value [n] and no chunked Transfer-Encoding, after its head has gone out over any buffers,
    satisfies the C04 invariant with N = n for every history of SendBody operations. *)
Lemma from_request f caps n ops :
  prepared f -> call_invalid (i_call f) = false -> sendable (i_call f) ->
  let a' := c_req (analysed_call (i_call f)) in
  let g := fw_flow (fwrun f caps) in
  send_request_can_proceed g = Ok true ->
  has_chunked_te a' = false ->
  (exists v, cls a' = [v] /\ is_nonempty v = true /\ forallb is_digit v = true /\ dec_value v = n) ->
  let ft := frun (fstart g) ops in
  exists lft ended,
    i_holder (ft_flow ft) = HWithBody /\
    sized_body (i_call (ft_flow ft)) lft ended /\
    ft_accounted ft + lft = n /\
    ft_out ft = ft_in ft /\
    (ended = true -> lft = 0) /\
    send_body_can_proceed (ft_flow ft) = Ok ended.
Proof.
  intros Hp Hi Hs a' g Hcp Hch Hcl.
  destruct (c04_entry_lemma f caps n Hp Hi Hs Hcp Hch Hcl) as (_ & Hh & _ & Hsz & _).
  apply flow_invariant; assumption.
Qed.
