(** C13: "nothing the caller added at an earlier hop survives", on histories of Script operations.

    For every history, the effective headers of the flow the script holds are made of
      (1) headers the caller offered with [header()] SINCE THIS FLOW WAS CREATED (by [new] or by
          [follow] after a redirect) -- [offered];
      (2) what the analysis of THIS flow appended: Host for the current URI, one framing header;
      (3) headers of the ORIGINAL request of the chain (minus the suppressed ones).
    In particular a header the caller added at hop h is not present at hop h+1 unless it is offered
    again or was in the original request. *)
From Coq Require Import Lia ZArith List.
From Hoot Require Import Base Chunk Body Httparse Parser Url Request Call Flow Script.
From Hoot.proofs Require Import AfterErr BytesLemmas C17_proofs C02_proofs C02_analysis
                                C13_proofs C13_script C13_examples C13_more.
Open Scope N_scope.

(* ------------------------------------------------------------------ one script step *)

Ltac c13_case H :=
  match type of H with
  | context [match ?x with _ => _ end] =>
      match x with
      | context [match _ with _ => _ end] => fail 1
      | _ => destruct x eqn:?
      end
  end.

Lemma try_read_100_faext' f input f' r : try_read_100 f input = (f', r) -> faext f f'.
Proof. intros H. pose proof (try_read_100_faext f input) as K. rewrite H in K. exact K. Qed.

Lemma await_100_bind_faext f x :
  (do y <- await_100_proceed f; Ok (Some y)) = Ok (Some x) -> faext f (snd x).
Proof.
  destruct (await_100_proceed f) as [[t f1]| |] eqn:E; cbn [bind]; try discriminate.
  intros H. inversion H; subst. cbn [snd]. eapply await_100_proceed_faext. exact E.
Qed.

(** Every operation of the script language other than [new], [header], [as_new_flow], [follow]
    leaves the request of the flow as it is or appends what the analysis computes. *)
Lemma script_step_faext s o t f t' f' :
  s_obj s = ObFlow t f -> s_obj (fst (step s o)) = ObFlow t' f' ->
  special o = false -> (forall k v, o <> OHeader k v) ->
  f' = f \/ faext f f'.
Proof.
  intros Hs H Hsp Hh.
  destruct o; try discriminate Hsp; try (exfalso; eapply Hh; reflexivity); clear Hsp Hh;
    unfold step, upd, do_proceed, do_premature, do_try100, do_try_response, do_read, do_write_body in H;
    rewrite ?Hs in H; cbn [fst snd] in H;
    repeat (c13_case H; cbn [fst snd s_obj with_flow with_obj add_consumed add_sent] in H; rewrite ?Hs in H);
    try discriminate;
    try (inversion H; subst; clear H);
    try (left; reflexivity);
    try (left; congruence);
    try (right;
         eauto using despite_faext, send_request_write_faext, send_request_proceed_faext,
                     try_read_100_faext', await_100_proceed_faext, send_body_write_faext,
                     send_body_direct_faext, send_body_proceed_faext, recv_try_response_faext,
                     recv_response_proceed_faext, recv_body_read_faext, recv_body_stop_faext,
                     recv_body_proceed_faext, recv_body_after_err_faext; fail).
  - right. apply (await_100_bind_faext f (t', f')). exact Heqr.
  - destruct a as [f1 out]. right. eapply send_request_write_faext. eassumption.
Qed.

(* ------------------------------------------------------------------ what the caller offered *)

(** [creates s o]: operation [o] in state [s] makes the script hold a newly created flow. *)
Definition creates (s : sstate) (o : op) : bool :=
  match o with
  | ONew r => match flow_new r with Ok _ => true | _ => false end
  | OFollow => match s_next s with Some _ => true | None => false end
  | _ => false
  end.

(** The (name, value) pairs passed to [header()] since the flow the script holds was created. *)
Definition offer (s : sstate) (acc : list header) (o : op) : list header :=
  if creates s o then []
  else match o with OHeader k v => acc ++ [(k, v)] | _ => acc end.

Definition run_offered (ops : list op) : sstate * list header :=
  fold_left (fun st o => (fst (step (fst st) o), offer (fst st) (snd st) o)) ops (s_init, []).

Definition offered (ops : list op) : list header := snd (run_offered ops).

Lemma fold_offered_state ops : forall s acc,
  fst (fold_left (fun st o => (fst (step (fst st) o), offer (fst st) (snd st) o)) ops (s, acc))
  = run_ops s ops.
Proof.
  induction ops as [|o t IH]; intros s acc; [reflexivity|].
  cbn [fold_left]. rewrite IH. reflexivity.
Qed.

Lemma run_offered_state ops : fst (run_offered ops) = run_ops s_init ops.
Proof. apply fold_offered_state. Qed.

Lemma run_offered_snoc ops o :
  run_offered (ops ++ [o]) =
    (fst (step (fst (run_offered ops)) o), offer (fst (run_offered ops)) (snd (run_offered ops)) o).
Proof. unfold run_offered. rewrite fold_left_app. reflexivity. Qed.

(* ------------------------------------------------------------------ the invariant *)

(** Where an added header of a live flow comes from. *)
Definition from_offer (acc : list header) (a : amended) (h : header) : Prop :=
  (exists k v, In (k, v) acc /\ h = (lower k, v)) \/ analysis_header a h.

Definition added_ok (acc : list header) (f : inner) : Prop :=
  am_req (req_of f) <> None -> forall h, In h (am_added (req_of f)) -> from_offer acc (req_of f) h.

Definition inv (s : sstate) (acc : list header) : Prop :=
  (forall t f, s_obj s = ObFlow t f -> added_ok acc f) /\
  (forall n, s_next s = Some n -> am_added (req_of n) = []).

Lemma from_offer_mono acc x a h : from_offer acc a h -> from_offer (acc ++ x) a h.
Proof.
  intros [(k & v & Hin & E)|H]; [left|right; exact H].
  exists k, v. split; [apply in_or_app; left; exact Hin|exact E].
Qed.

Lemma added_ok_mono acc x f : added_ok acc f -> added_ok (acc ++ x) f.
Proof. intros H Hr h Hh. apply from_offer_mono. apply H; assumption. Qed.

Lemma analysis_header_with_added a l h : analysis_header (with_added a l) h <-> analysis_header a h.
Proof. reflexivity. Qed.

Lemma added_ok_faext acc f f' : added_ok acc f -> faext f f' -> added_ok acc f'.
Proof.
  intros H (l & E & Hl) Hr h Hh. unfold faext in *. rewrite E in Hr, Hh |- *.
  cbn [with_added am_req am_added] in Hr, Hh.
  apply in_app_or in Hh. destruct Hh as [Hh|Hh].
  - destruct (H Hr h Hh) as [K|K]; [left; exact K|right; exact K].
  - right. rewrite Forall_forall in Hl. apply (Hl h Hh).
Qed.

Lemma added_ok_nil acc f : am_added (req_of f) = [] -> added_ok acc f.
Proof. intros E _ h Hh. rewrite E in Hh. contradiction. Qed.

Lemma added_ok_header acc f k v f' :
  added_ok acc f -> prepare_header f k v = Ok f' -> added_ok (acc ++ [(k, v)]) f'.
Proof.
  intros H Hp. apply prepare_header_inv in Hp. destruct Hp as (-> & _ & _).
  intros Hr h Hh. rewrite req_of_add_headers in Hr, Hh |- *.
  cbn [with_added am_req am_added] in Hr, Hh.
  apply in_app_or in Hh. destruct Hh as [Hh|[<-|[]]].
  - apply from_offer_mono. destruct (H Hr h Hh) as [K|K]; [left; exact K|right; exact K].
  - left. exists k, v. split; [apply in_or_app; right; left; reflexivity|reflexivity].
Qed.

Lemma offer_other s acc o :
  special o = false -> (forall k v, o <> OHeader k v) -> offer s acc o = acc.
Proof.
  intros Hs Hh. unfold offer, creates. destruct o; try reflexivity; try discriminate Hs.
  exfalso. eapply Hh. reflexivity.
Qed.

Lemma inv_other s acc o :
  special o = false -> (forall k v, o <> OHeader k v) ->
  inv s acc -> inv (fst (step s o)) (offer s acc o).
Proof.
  intros Hs Hh [I1 I2]. rewrite (offer_other s acc o Hs Hh).
  destruct (step_trans s o Hs) as [Tn To]. split.
  - intros t' f' E.
    destruct To as [To|[To|(t & f & t1 & f1 & E1 & E2 & _)]].
    + rewrite To in E. eapply I1. exact E.
    + exfalso. eapply To. exact E.
    + destruct (script_step_faext s o t f t' f' E1 E Hs Hh) as [->|Hx].
      * eapply I1. exact E1.
      * eapply added_ok_faext; [eapply I1; exact E1|exact Hx].
  - intros n E. rewrite Tn in E. apply I2. exact E.
Qed.

Lemma inv_header s acc k v : inv s acc -> inv (fst (step s (OHeader k v))) (offer s acc (OHeader k v)).
Proof.
  intros [I1 I2]. unfold offer, creates.
  assert (Same : inv s (acc ++ [(k, v)])).
  { split; [|exact I2]. intros t f E. apply added_ok_mono. eapply I1. exact E. }
  unfold step. destruct (s_obj s) as [|t f|h c] eqn:Eo; try exact Same.
  destruct t; try exact Same.
  unfold upd. destruct (prepare_header f k v) as [f'| |] eqn:Ep; cbn [fst]; try exact Same.
  split; cbn [with_flow with_obj s_obj s_next].
  - intros t1 f1 E. inversion E; subst. eapply added_ok_header; [eapply I1; reflexivity|exact Ep].
  - exact I2.
Qed.

Lemma inv_special s acc o : special o = true -> inv s acc -> inv (fst (step s o)) (offer s acc o).
Proof.
  intros Hs I. pose proof I as [I1 I2]. destruct o; try discriminate Hs; clear Hs; unfold offer, creates, step.
  - (* new *)
    destruct (flow_new r) as [f| |] eqn:E; cbn [fst]; try exact I.
    split; cbn [s_obj s_next]; [|discriminate].
    intros t f1 E1. inversion E1; subst. apply added_ok_nil.
    destruct (flow_new_fresh _ _ E) as (_ & Hr & _). unfold req_of. rewrite Hr. reflexivity.
  - (* as_new_flow *)
    destruct (s_obj s) as [|t f|h c] eqn:Eo; cbn [fst]; try exact I.
    destruct t; cbn [fst]; try exact I.
    destruct (as_new_flow f p) as [[f' nxt]| |] eqn:E; cbn [fst]; try exact I.
    destruct nxt as [nxt|].
    + pose proof (c13_rebuilt_lemma _ _ _ _ E) as (loc & orig & target & nm & _ & _ & _ & _ & _ & Ha & _ & _ & Ht).
      split; cbn [s_obj s_next].
      * intros t f1 E1. inversion E1; subst. intros Hr. contradiction.
      * intros n E1. inversion E1; subst. exact Ha.
    + apply as_new_flow_none in E. subst f'. split; cbn [s_obj s_next].
      * intros t f1 E1. inversion E1; subst. eapply I1. reflexivity.
      * exact I2.
  - (* follow *)
    destruct (s_next s) as [n|] eqn:En; cbn [fst]; [|exact I].
    split; cbn [s_obj s_next]; [|discriminate].
    intros t f E. inversion E; subst. apply added_ok_nil. apply I2. reflexivity.
Qed.

Lemma inv_step s acc o : inv s acc -> inv (fst (step s o)) (offer s acc o).
Proof.
  intros I. destruct (special o) eqn:Hs; [apply inv_special; assumption|].
  destruct o; try (apply inv_other; [exact Hs|discriminate|exact I]).
  apply inv_header. exact I.
Qed.

Lemma inv_run ops : inv (fst (run_offered ops)) (snd (run_offered ops)).
Proof.
  induction ops as [|o ops IH] using rev_ind.
  - split; cbn; intros; discriminate.
  - rewrite run_offered_snoc. cbn [fst snd]. apply inv_step. exact IH.
Qed.

(* ------------------------------------------------------------------ the theorem *)

(** The added headers of the flow a history holds: offered since the flow was created, or appended
    by the analysis of this flow. *)
Lemma added_from_this_hop ops t f :
  s_obj (run_ops s_init ops) = ObFlow t f -> am_req (req_of f) <> None ->
  forall h, In h (am_added (req_of f)) ->
    (exists k v, In (k, v) (offered ops) /\ h = (lower k, v)) \/ analysis_header (req_of f) h.
Proof.
  intros E Hr h Hh. destruct (inv_run ops) as [I1 _]. rewrite run_offered_state in I1.
  exact (I1 t f E Hr h Hh).
Qed.

(** All effective headers: this hop's additions, or headers of the ORIGINAL request of the chain. *)
Lemma nothing_survives ops t f :
  s_obj (run_ops s_init ops) = ObFlow t f -> am_req (req_of f) <> None ->
  exists orig hops,
    In (ONew orig) ops /\ chain orig hops f /\
    forall h, In h (am_headers (req_of f)) ->
      (exists k v, In (k, v) (offered ops) /\ h = (lower k, v)) \/
      analysis_header (req_of f) h \/
      (In h (rq_headers orig) /\ mem_bytes (fst h) (hop_unset orig hops) = false).
Proof.
  intros E Hr. destruct (c13_script_lemma ops t f E Hr) as (orig & hops & Hin & Hc).
  exists orig, hops. split; [exact Hin|]. split; [exact Hc|].
  intros h Hh. rewrite am_headers_split in Hh. apply in_app_or in Hh. destruct Hh as [Hh|Hh].
  - destruct (added_from_this_hop ops t f E Hr h Hh) as [K|K]; auto.
  - right. right. destruct (chain_inv _ _ _ Hc) as (m & added & Eq).
    unfold am_inherited in Hh. rewrite Eq in Hh. cbn [am_request am_req am_unset with_method rq_headers] in Hh.
    apply filter_In in Hh. destruct Hh as [H1 H2]. apply negb_true_iff in H2. split; assumption.
Qed.

(* ------------------------------------------------------------------ examples *)

(** At hop 0 the caller adds "x-token: 1" and "cookie: fresh=1"; the original request carries
    authorization, cookie and accept.  After a followed cross-host redirect the caller adds
    "cookie: c2".  The head of hop 1 carries that cookie, Host for the new target and the original
    accept field -- and neither x-token nor "fresh=1" nor the original cookie / authorization. *)
Definition ops_added : list op :=
  [ONew ex13_orig; OHeader (s2b "X-Token") (s2b "1"); OHeader (s2b "cookie") (s2b "fresh=1")] ++
  exchange loc_b SameHost ++ [OHeader (s2b "Cookie") (s2b "c2"); OProceed; OWriteHead 4096].

Lemma added_not_carried :
  heads (run_obs s_init ops_added) =
  [ s2b "GET /start HTTP/1.1" ++ CRLF ++ s2b "x-token: 1" ++ CRLF ++ s2b "cookie: fresh=1" ++ CRLF ++
    s2b "host: a.test" ++ CRLF ++ s2b "authorization: secret" ++ CRLF ++ s2b "cookie: c=1" ++ CRLF ++
    s2b "accept: */*" ++ CRLF ++ CRLF;
    s2b "GET /one HTTP/1.1" ++ CRLF ++ s2b "cookie: c2" ++ CRLF ++ s2b "host: b.test" ++ CRLF ++
    s2b "accept: */*" ++ CRLF ++ CRLF ] /\
  offered ops_added = [(s2b "Cookie", s2b "c2")] /\
  offered (firstn 3 ops_added) = [(s2b "X-Token", s2b "1"); (s2b "cookie", s2b "fresh=1")] /\
  exists t f, s_obj (run_ops s_init ops_added) = ObFlow t f /\ am_req (req_of f) <> None /\
              am_added (req_of f) = [(s2b "cookie", s2b "c2"); (s2b "host", s2b "b.test")].
Proof.
  split; [vm_compute; reflexivity|]. split; [vm_compute; reflexivity|]. split; [vm_compute; reflexivity|].
  destruct (s_obj (run_ops s_init ops_added)) as [|t f|h c] eqn:E; try (vm_compute in E; discriminate).
  exists t, f. split; [reflexivity|].
  assert (Ef : f = match s_obj (run_ops s_init ops_added) with ObFlow _ g => g | _ => dummy_flow end)
    by (rewrite E; reflexivity).
  rewrite Ef. split; [vm_compute; discriminate|vm_compute; reflexivity].
Qed.

(** Stale framing (observation): a POST that carries its own "transfer-encoding: chunked" and is
    answered 303: the new request is a GET, it still carries the inherited transfer-encoding (the
    suppression list has content-length only), and its first write is refused by the analysis with
    MethodForbidsBody -- the redirect cannot be followed. *)
Definition te_post : request :=
  {| rq_method := POST; rq_version := V11;
     rq_uri := {| u_scheme := s2b "http"; u_auth := s2b "a.test"; u_pq := s2b "/form" |};
     rq_headers := [(s2b "transfer-encoding", s2b "chunked"); (s2b "content-type", s2b "text/plain")] |}.

Definition response_303 (loc : bytes) : bytes :=
  s2b "HTTP/1.1 303 See Other" ++ CRLF ++ s2b "Location: " ++ loc ++ CRLF ++
  s2b "Content-Length: 0" ++ CRLF ++ CRLF.

Definition ops_te : list op :=
  [ONew te_post; OProceed; OWriteHead 4096; OProceed; OWriteBody (s2b "hello") 4096; OWriteBody [] 4096;
   OProceed; OSetStream (response_303 (s2b "/done")); OArrive (len (response_303 (s2b "/done")));
   OTryResponse; OProceed; OAsNewFlow Never; OFollow].

Lemma te_script :
  lower_names te_post /\
  heads (run_obs s_init ops_te) =
    [ s2b "POST /form HTTP/1.1" ++ CRLF ++ s2b "host: a.test" ++ CRLF ++
      s2b "transfer-encoding: chunked" ++ CRLF ++ s2b "content-type: text/plain" ++ CRLF ++ CRLF ] /\
  last (run_obs s_init ops_te) [] = [w "ok"] /\
  snd (step (run_ops s_init ops_te) OQMethod) = [TW (s2b "GET")] /\
  (exists t f, s_obj (run_ops s_init ops_te) = ObFlow t f /\
     am_headers (req_of f) = [(s2b "transfer-encoding", s2b "chunked"); (s2b "content-type", s2b "text/plain")]) /\
  last (run_obs s_init (ops_te ++ [OProceed; OWriteHead 4096])) [] = obs_err MethodForbidsBody.
Proof.
  split; [repeat constructor|]. split; [vm_compute; reflexivity|]. split; [vm_compute; reflexivity|].
  split; [vm_compute; reflexivity|]. split; [|vm_compute; reflexivity].
  destruct (s_obj (run_ops s_init ops_te)) as [|t f|h c] eqn:E; try (vm_compute in E; discriminate).
  exists t, f. split; [reflexivity|].
  assert (Ef : f = match s_obj (run_ops s_init ops_te) with ObFlow _ g => g | _ => dummy_flow end)
    by (rewrite E; reflexivity).
  rewrite Ef. vm_compute. reflexivity.
Qed.

(** The hypotheses of [auth_iff_ci] hold on the two-hop chain of C13_examples.v. *)
Lemma ci_nonvacuous :
  lower_names ex13_orig /\
  chain ex13_orig ([(SameHost, uri_b)] ++ [(SameHost, uri_a)]) (flow_at 19) /\
  In (s2b "authorization", s2b "secret") (am_inherited (req_of (flow_at 19))) /\
  ~ In (s2b "authorization", s2b "secret") (am_inherited (req_of (flow_at 10))).
Proof.
  split; [repeat constructor|]. split; [exact ex13_hop2|].
  split; [vm_compute; auto|]. vm_compute. intros [H|[]]. discriminate.
Qed.
