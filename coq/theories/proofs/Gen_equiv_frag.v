(** Fragments of functions that are otherwise modelled by hand: the expressions that decide HOW MANY bytes a body call moves and
    the guards that refuse a body call are translated from the Rust sources on every run (theories/Gen.v, tools/rs2coq.py
    FRAGMENTS) and proved here (i) equal to the formula of the statement (min of three, min of two, "more than what is left"),
    for ALL arguments, by linear arithmetic -- so any arithmetically equivalent rewrite is accepted -- and (ii) to be what
    the hand-written model computes, as equations on the model's own functions.  A change of one of these expressions that
    is not equivalent (a cap, an off-by-one, >= for >) breaks a lemma of this file and with it the property files that
    re-export it (C03 C04 C07 C08), whatever the generators of the correspondence check happen to produce.
    A fragment the translator does not find any more (renamed variable, restructured function) is replaced in Gen.v by the
    model's own formula and reported in the evidence; it is then tied by the correspondence check only. *)
(** Split into Gen_equiv_frag_c03 / _c04 / _c07 / _c08; this file re-exports them. *)
From Hoot.proofs Require Export Gen_equiv_frag_c03 Gen_equiv_frag_c04 Gen_equiv_frag_c07 Gen_equiv_frag_c08.
