(** Fragments of functions that are otherwise modelled by hand: the expressions that decide HOW MANY bytes a body call moves and
    the guards that refuse a body call are translated from the Rust sources on every run (theories/Gen.v, tools/rs2coq.py
    FRAGMENTS) and proved here (i) equal to the formula of the statement (min of three, min of two, "more than what is left"),
    for ALL arguments, by linear arithmetic -- so any arithmetically equivalent rewrite is accepted -- and (ii) to be what
    the hand-written model computes, as equations on the model's own functions.  A change of one of these expressions that
    is not equivalent (a cap, an off-by-one, >= for >) breaks a lemma of this file and with it the property files that
    re-export it (C03 C04 C07 C08), whatever the generators of the correspondence check happen to produce.
    A fragment the translator does not find any more (renamed variable, restructured function) is replaced in Gen.v by the
    model's own formula and reported in the evidence; it is then tied by the correspondence check only. *)
From Coq Require Import NArith ZArith Bool List Lia ZifyBool ZifyN.
From Hoot Require Import Base Chunk Body Url Request Call Gen.
Open Scope N_scope.

Ltac frag := intros; cbv beta delta [gen_sized_write_n gen_chunk_to_write gen_read_limit_n gen_read_unlimit_n gen_chunk_read_n
                                      gen_size_len_end gen_write_overshoot gen_write_after_finish gen_direct_overshoot];
             repeat match goal with |- context [if ?c then _ else _] => destruct c eqn:? end; try reflexivity; lia.

(** (i) the statement's formulas *)
Lemma gen_sized_write_n_spec a i l : gen_sized_write_n a i l = N.min (N.min a i) l.          Proof. frag. Qed.
Lemma gen_chunk_to_write_spec i m a : gen_chunk_to_write i m a = N.min (N.min i m) a.         Proof. frag. Qed.
Lemma gen_read_limit_n_spec s d l : gen_read_limit_n s d l = N.min (N.min s d) l.             Proof. frag. Qed.
Lemma gen_read_unlimit_n_spec s d : gen_read_unlimit_n s d = N.min s d.                       Proof. frag. Qed.
Lemma gen_chunk_read_n_spec s d l : gen_chunk_read_n s d l = N.min (N.min s d) l.             Proof. frag. Qed.
Lemma gen_size_len_end_spec b m i :
  gen_size_len_end b m i = N.min (if b then m else SANITY_CHECK + 1) i.
Proof. unfold SANITY_CHECK. frag. Qed.
Lemma gen_write_overshoot_spec i l : gen_write_overshoot i l = (l <? i).                      Proof. frag. Qed.
Lemma gen_direct_overshoot_spec a l : gen_direct_overshoot a l = (l <? a).                    Proof. frag. Qed.
Lemma gen_write_after_finish_spec e x : gen_write_after_finish e x = negb e && x.
Proof. destruct e, x; reflexivity. Qed.

(** (ii) the model computes exactly these *)
Lemma writer_write_sized_gen w lft input cap :
  w_mode w = SSized lft ->
  exists w', writer_write w input cap = Ok (w', gen_sized_write_n cap (len input) lft,
                                            take (gen_sized_write_n cap (len input) lft) input)
             /\ w_mode w' = SSized (lft - gen_sized_write_n cap (len input) lft).
Proof.
  intros H. unfold writer_write. rewrite H. rewrite ?gen_sized_write_n_spec.
  eexists. split; [reflexivity|reflexivity].
Qed.

Lemma write_chunk_gen input avail maxc :
  write_chunk input avail maxc =
  let n := gen_chunk_to_write (len input) maxc (max_chunk_fit avail maxc) in
  if n =? 0 then None
  else if len (enc_chunk_n n input) <=? avail then Some (n, enc_chunk_n n input) else None.
Proof. unfold write_chunk. cbv zeta. rewrite ?gen_chunk_to_write_spec. reflexivity. Qed.

Lemma reader_read_length_gen lft src room stop :
  reader_read (RLength lft) src room stop =
  Ok (RLength (lft - gen_read_limit_n (len src) room lft), gen_read_limit_n (len src) room lft,
      take (gen_read_limit_n (len src) room lft) src).
Proof. unfold reader_read. rewrite ?gen_read_limit_n_spec. reflexivity. Qed.

Lemma reader_read_close_gen src room stop :
  reader_read RClose src room stop =
  Ok (RClose, gen_read_unlimit_n (len src) room, take (gen_read_unlimit_n (len src) room) src).
Proof. unfold reader_read. rewrite ?gen_read_unlimit_n_spec. reflexivity. Qed.

Lemma read_data_gen lft src room :
  exists r, read_data lft src room = Ok r /\
            sr_in r = gen_chunk_read_n (len src) room lft /\
            sr_out r = take (gen_chunk_read_n (len src) room lft) src /\
            sr_st r = (if lft - gen_chunk_read_n (len src) room lft =? 0 then DCrLf
                       else DChunk (lft - gen_chunk_read_n (len src) room lft)).
Proof. unfold read_data. rewrite ?gen_chunk_read_n_spec. eexists. split; [reflexivity|]. cbn. auto. Qed.

(** The part of a size line handed to the number parser ends where the translated expression says. *)
Lemma read_size_gen src i :
  find_crlf src = Some i -> (SANITY_CHECK <? i) = false ->
  let mm := position (fun c => c =? 59) (take META_WINDOW src) in
  let raw := take (gen_size_len_end (match mm with Some _ => true | None => false end)
                                    (match mm with Some m => m | None => 0 end) i) src in
  read_size src =
  if negb (forallb (fun c => c <? 128) raw) then Err ChunkLenNotAscii else
  match parse_hex_usize (trim raw) with
  | None => Err ChunkLenNotANumber
  | Some n => Ok {| sr_st := if n =? 0 then DEnding else DChunk n; sr_in := i + 2; sr_out := []; sr_more := true |}
  end.
Proof.
  intros Hf Hs. cbv zeta. unfold read_size. rewrite Hf, Hs. rewrite ?gen_size_len_end_spec.
  destruct (position (fun c => c =? 59) (take META_WINDOW src)); reflexivity.
Qed.

(** The two refusals of [Call<WithBody>::write] and the refusal of [consume_direct_write] are the translated guards. *)
Lemma call_write_body_guards c c1 input cap :
  analyze_request c = Ok c1 -> is_prelude (c_phase c1) = false -> is_body (c_phase c1) = true ->
  call_write_body c input cap =
  if gen_write_after_finish (match input with [] => true | _ => false end) (w_ended (c_writer c1))
  then Err BodyContentAfterFinish
  else if match left_to_send (c_writer c1) with Some l => gen_write_overshoot (len input) l | None => false end
  then Err BodyLargerThanContentLength
  else do r <- writer_write (c_writer c1) input cap;
       let '(w, used, out) := r in Ok (set_writer c1 w, used, out).
Proof.
  intros Ha Hp Hb. unfold call_write_body. rewrite Ha. cbn [bind]. rewrite Hp, Hb.
  rewrite ?gen_write_after_finish_spec.
  replace (negb (match input with [] => true | _ => false end)) with (match input with [] => false | _ => true end)
    by (destruct input; reflexivity).
  destruct (left_to_send (c_writer c1)); [rewrite ?gen_write_overshoot_spec|]; reflexivity.
Qed.

Lemma call_direct_write_guard c amount :
  call_direct_write c amount =
  match left_to_send (c_writer c) with
  | Some l => if gen_direct_overshoot amount l then Err BodyLargerThanContentLength
              else do w <- writer_direct (c_writer c) amount; Ok (set_writer c w)
  | None => Err BodyIsChunked
  end.
Proof. unfold call_direct_write. destruct (left_to_send (c_writer c)); [rewrite ?gen_direct_overshoot_spec|]; reflexivity. Qed.

(** The conversion of the remaining declared length (a u64) to a buffer length: the identity below 2^64 (a truncating cast,
    `as u32`, is not). *)
Lemma gen_sized_left_usize_spec l : l < 18446744073709551616 -> gen_sized_left_usize l = l.
Proof. intros H. unfold gen_sized_left_usize. repeat (try lia; match goal with |- context [if ?c then _ else _] => destruct c eqn:? end); lia. Qed.
Lemma gen_read_left_usize_spec l : l < 18446744073709551616 -> gen_read_left_usize l = l.
Proof. intros H. unfold gen_read_left_usize. repeat (try lia; match goal with |- context [if ?c then _ else _] => destruct c eqn:? end); lia. Qed.
