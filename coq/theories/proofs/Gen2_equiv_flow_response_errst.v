(** What a FAILED Flow<RecvResponse>::try_response leaves behind (translated in error-state mode, Gen2.gen_try_response_errst: the
    values of the four fields of self.inner it touches wherever it returns an error): everything as it was -- the only error is the
    call's, and it comes first. *)
From Coq Require Import NArith Bool List String.
From Hoot Require Import Base Chunk Body Httparse Parser Request Call Flow GenLib Gen Gen2.
Open Scope N_scope.

Lemma add_reason_never_err rs r e : add_reason rs r <> Err e.
Proof.
  unfold add_reason, push_reason. destruct (existsb (reason_eqb r) rs); [discriminate|].
  destruct (CLOSE_REASON_CAP <=? len rs); discriminate.
Qed.

Theorem gen_try_response_errst_unchanged rs aw st loc cr x :
  gen_try_response_errst rs aw st loc cr = Some x -> x = (rs, aw, st, loc).
Proof.
  unfold gen_try_response_errst. cbv zeta.
  repeat match goal with
         | |- context [match add_reason ?a ?b with _ => _ end] => destruct (add_reason a b) eqn:?
         | |- context [match ?x with _ => _ end] => destruct x
         | |- context [if ?x then _ else _] => destruct x
         end;
    intros H; try discriminate H; try (injection H as <-; reflexivity);
    exfalso; eapply add_reason_never_err; eassumption.
Qed.
