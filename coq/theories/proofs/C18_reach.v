(** C18 / C19 strengthening (review 3, top findings 2 and 3).

    1. Length-delimited bodies through the public entry point [call_write_body]: what is accepted, what is
       REFUSED (offering more than what is left of the announced length is [Err BodyLargerThanContentLength];
       an [Err] carries no call, so nothing is consumed and the caller keeps the call it had).
    2. The flow-level entry points [send_body_write] / [send_body_max_input] (the property's observation
       points) expressed through the call-level ones.
    3. Reachability: a fresh with-body flow (what [flow_new] returns for POST/PUT/PATCH, or any flow after
       [send_body_despite_method]) whose head has been written by ANY sequence of [send_request_write]s and
       that [send_request_proceed] (or the 100-continue detour) moves to SendBody is in the state
       [chunked_body _ false] or [sized_body _ n false], and which of the two is read off the request. *)
From Coq Require Import Lia ZArith.
From Hoot Require Import Base Chunk Body Httparse Parser Url Request Call Flow.
From Hoot.proofs Require Import BytesLemmas C18_hex C18_proofs C04_proofs C17_proofs.
Open Scope N_scope.

(* ------------------------------------------------------------------ sized bodies, call level *)

(** Within the announced length a sized write is accepted and consumes min(capacity, input). *)
Lemma sized_accept c lft input cap :
  sized_body c lft false -> len input <= lft ->
  call_write_body c input cap =
    let n := N.min cap (len input) in
    Ok (set_writer c {| w_mode := SSized (lft - n); w_ended := if lft - n =? 0 then true else false |},
        n, take n input).
Proof.
  intros Hs Hl. rewrite (write_sized c lft false input cap Hs). rewrite andb_false_r.
  destruct (N.ltb_spec lft (len input)) as [H|_]; [lia|]. cbv zeta.
  replace (N.min (N.min cap (len input)) lft) with (N.min cap (len input)) by lia. reflexivity.
Qed.

(** Beyond it the write is refused, with this error, whatever the capacity. *)
Lemma sized_refusal c lft input cap :
  sized_body c lft false -> lft < len input ->
  call_write_body c input cap = Err BodyLargerThanContentLength.
Proof.
  intros Hs Hl. rewrite (write_sized c lft false input cap Hs). rewrite andb_false_r.
  destruct (N.ltb_spec lft (len input)) as [_|H]; [reflexivity|lia].
Qed.

Lemma sized_after c lft n :
  sized_body c lft false ->
  sized_body (set_writer c {| w_mode := SSized (lft - n); w_ended := if lft - n =? 0 then true else false |})
             (lft - n) (if lft - n =? 0 then true else false).
Proof. intros Hs. eapply sized_body_set_writer; eauto. Qed.

(** C18 for a sized body at the public entry point: an input of the advertised size (the buffer length n
    itself) that is within the announced length is consumed completely and forwarded unchanged. *)
Lemma sized_fits_call c lft input n :
  sized_body c lft false -> len input = n -> n <= lft ->
  exists c' e, call_write_body c input n = Ok (c', n, input) /\
               sized_body c' (lft - n) e /\ (e = true <-> lft - n = 0).
Proof.
  intros Hs Hn Hl. rewrite (sized_accept c lft input n Hs) by lia. cbv zeta.
  replace (N.min n (len input)) with n by lia. rewrite take_all by lia.
  do 2 eexists. split; [reflexivity|]. split; [apply sized_after; exact Hs|].
  destruct (N.eqb_spec (lft - n) 0); split; intros; auto; try discriminate; try lia.
Qed.

(** C19, "offering more input never reduces progress", on the accepted domain. *)
Lemma mono_input_sized c lft i1 i2 cap c1 n1 o1 :
  sized_body c lft false -> len i1 <= len i2 -> len i2 <= lft ->
  call_write_body c i1 cap = Ok (c1, n1, o1) ->
  exists c2 n2 o2, call_write_body c i2 cap = Ok (c2, n2, o2) /\ n1 <= n2.
Proof.
  intros Hs H12 H2 H1. rewrite (sized_accept c lft i1 cap Hs) in H1 by lia. cbv zeta in H1.
  inversion H1; subst; clear H1.
  rewrite (sized_accept c lft i2 cap Hs) by lia. cbv zeta.
  do 3 eexists. split; [reflexivity|]. lia.
Qed.

(** C19, "never less than with the advertised maximum offered": for a sized body the advertised maximum for a
    buffer of [cap] bytes is [cap]; offering more (within the announced length) gives EXACTLY the result of
    offering the first [cap] bytes only: [cap] bytes consumed. *)
Lemma not_below_max_sized c lft input cap :
  sized_body c lft false -> cap <= len input -> len input <= lft ->
  call_write_body c input cap = call_write_body c (take cap input) cap /\
  exists c', call_write_body c input cap = Ok (c', cap, take cap input).
Proof.
  intros Hs Hc Hl.
  assert (Ht : len (take cap input) = cap) by (rewrite len_take; lia).
  rewrite (sized_accept c lft input cap Hs) by lia.
  rewrite (sized_accept c lft (take cap input) cap Hs) by lia. cbv zeta.
  rewrite Ht. replace (N.min cap (len input)) with cap by lia. rewrite N.min_id.
  rewrite take_take, N.min_id. split; [reflexivity|]. eexists. reflexivity.
Qed.

(* ------------------------------------------------------------------ flow level through call level *)

Lemma set_call_id f : set_call f (i_call f) = f.
Proof. destruct f; reflexivity. Qed.

Lemma send_body_write_lift f input cap :
  i_holder f = HWithBody ->
  send_body_write f input cap =
    match call_write_body (i_call f) input cap with
    | Ok (c', used, out) => Ok (set_call f c', used, out)
    | Err e => Err e
    | Panic s => Panic s
    end.
Proof.
  intros Hh. unfold send_body_write, as_with_body. rewrite Hh. cbn [bind].
  destruct (call_write_body (i_call f) input cap) as [[[c' u] o]|e|s]; reflexivity.
Qed.

Lemma max_input_chunked f e n :
  i_holder f = HWithBody -> chunked_body (i_call f) e ->
  send_body_max_input f n = Ok (calculate_max_input n).
Proof.
  intros Hh (_ & _ & Hw). unfold send_body_max_input, as_with_body. rewrite Hh. cbn [bind]. rewrite Hw. reflexivity.
Qed.

Lemma max_input_sized f lft e n :
  i_holder f = HWithBody -> sized_body (i_call f) lft e -> send_body_max_input f n = Ok n.
Proof.
  intros Hh (_ & _ & Hw). unfold send_body_max_input, as_with_body. rewrite Hh. cbn [bind]. rewrite Hw. reflexivity.
Qed.

Lemma is_chunked_chunked f e :
  i_holder f = HWithBody -> chunked_body (i_call f) e -> send_body_is_chunked f = Ok true.
Proof.
  intros Hh (_ & _ & Hw). unfold send_body_is_chunked, as_with_body. rewrite Hh. cbn [bind]. rewrite Hw. reflexivity.
Qed.

Lemma is_chunked_sized f lft e :
  i_holder f = HWithBody -> sized_body (i_call f) lft e -> send_body_is_chunked f = Ok false.
Proof.
  intros Hh (_ & _ & Hw). unfold send_body_is_chunked, as_with_body. rewrite Hh. cbn [bind]. rewrite Hw. reflexivity.
Qed.

(** C18 at the property's observation points, chunked framing: whatever [calculate_max_input] (the flow
    method) reports for an n-byte buffer, an input of that size is consumed completely by one
    [Flow<SendBody>::write] into n bytes; the flow is unchanged. *)
Lemma fits_flow_chunked f n m input :
  i_holder f = HWithBody -> chunked_body (i_call f) false ->
  send_body_max_input f n = Ok m -> len input = m -> 0 < len input ->
  exists out, send_body_write f input n = Ok (f, len input, out) /\ len out <= n.
Proof.
  intros Hh Hc Hm Hl Hpos. rewrite (max_input_chunked f false n Hh Hc) in Hm.
  assert (Em : m = calculate_max_input n) by congruence. clear Hm. rewrite Em in Hl. clear Em.
  rewrite (send_body_write_lift f input n Hh).
  destruct (c18_fits_call (i_call f) n input Hc Hl Hpos) as (out & Hw & Hlen).
  rewrite Hw. rewrite set_call_id. eauto.
Qed.

(** ... and length-delimited framing: the reported size is n, and an input of that size within the announced
    length is consumed completely and forwarded verbatim. *)
Lemma fits_flow_sized f lft n m input :
  i_holder f = HWithBody -> sized_body (i_call f) lft false ->
  send_body_max_input f n = Ok m -> len input = m -> m <= lft ->
  m = n /\
  exists f' e, send_body_write f input n = Ok (f', len input, input) /\
               i_holder f' = HWithBody /\ sized_body (i_call f') (lft - n) e /\ (e = true <-> lft - n = 0).
Proof.
  intros Hh Hs Hm Hl Hle. rewrite (max_input_sized f lft false n Hh Hs) in Hm.
  assert (Em : m = n) by congruence. clear Hm. revert Hl Hle. rewrite Em. intros Hl Hle. clear Em.
  split; [reflexivity|].
  rewrite (send_body_write_lift f input n Hh).
  destruct (sized_fits_call (i_call f) lft input n Hs Hl Hle) as (c' & e & Hw & Hs' & He).
  rewrite Hw, Hl. exists (set_call f c'), e. split; [reflexivity|]. cbn [set_call i_holder i_call]. auto.
Qed.

(** The refusal at flow level. *)
Lemma flow_sized_refusal f lft input cap :
  i_holder f = HWithBody -> sized_body (i_call f) lft false -> lft < len input ->
  send_body_write f input cap = Err BodyLargerThanContentLength.
Proof.
  intros Hh Hs Hl. rewrite (send_body_write_lift f input cap Hh).
  rewrite (sized_refusal (i_call f) lft input cap Hs Hl). reflexivity.
Qed.

(* ------------------------------------------------------------------ reachability *)

(** While the head of the (accepted) request of the fresh call [c0] is being written, the call is [c0]
    itself (nothing written yet) or its analysed form in a later head phase. *)
Definition in_head (c0 c : call) : Prop :=
  c = c0 \/ exists p, is_prelude p = true /\ c = set_phase (analysed_call c0) p.

(** The head is out: the analysed call in the body phase. *)
Definition at_body (c0 c : call) : Prop := c = set_phase (analysed_call c0) PBody.

Lemma twp_phase a p cap p' out :
  is_prelude p = true -> try_write_prelude a p cap = Ok (p', out) -> is_prelude p' = true \/ p' = PBody.
Proof.
  intros Hp H. unfold try_write_prelude in H.
  destruct p; try discriminate Hp.
  - destruct (len (prelude_line a) <=? cap); [|discriminate].
    destruct (len (am_headers a) =? 0); [discriminate|].
    destruct (write_headers _ _ _ _ _) as [i' out'].
    destruct (i' =? len (am_headers a)); destruct out'; cbn [is_body] in H;
      try discriminate; inversion H; subst; cbn; auto.
  - destruct (len (am_headers a) =? 0); [discriminate|].
    destruct (write_headers _ _ _ _ _) as [i' out'].
    destruct (i' =? len (am_headers a)); destruct out'; cbn [is_body] in H;
      try discriminate; inversion H; subst; cbn; auto.
Qed.

Lemma in_head_not_body c0 c : fresh c0 -> in_head c0 c -> is_body (c_phase c) = false.
Proof.
  intros [_ Hp] [->|(p & Hpre & ->)]; [rewrite Hp; reflexivity|].
  cbn [set_phase c_phase]. destruct p; try discriminate; reflexivity.
Qed.

(** One [Call<WithBody>::write] during the head (any input, any capacity): no input is consumed and the
    call stays in the head or reaches the body phase.  (Single-call API: this is the step invariant; for
    flows see below.) *)
Lemma head_write_step c0 c input cap c' n out :
  fresh c0 -> call_invalid c0 = false -> sendable c0 ->
  in_head c0 c -> call_write_body c input cap = Ok (c', n, out) ->
  n = 0 /\ (in_head c0 c' \/ at_body c0 c').
Proof.
  intros [Ha Hp] Hi (Hu & Hl & Hv) Hin H.
  assert (Hgo : forall p, is_prelude p = true ->
            (do r <- try_write_prelude (c_req (analysed_call c0)) p cap;
             Ok (set_phase (analysed_call c0) (fst r), 0, snd r)) = Ok (c', n, out) ->
            n = 0 /\ (in_head c0 c' \/ at_body c0 c')).
  { intros p Hpre Hw.
    destruct (try_write_prelude (c_req (analysed_call c0)) p cap) as [[p' o]|e|s] eqn:Et;
      cbn [bind fst snd] in Hw; try discriminate.
    inversion Hw; subst; clear Hw. split; [reflexivity|].
    destruct (twp_phase _ _ _ _ _ Hpre Et) as [Hp'| ->].
    - left. right. exists p'. auto.
    - right. reflexivity. }
  destruct Hin as [->|(p & Hpre & ->)].
  - unfold call_write_body in H. rewrite (analyze_request_valid c0 Ha Hi Hl Hv) in H. cbn [bind] in H.
    replace (c_phase (analysed_call c0)) with PLine in H by (symmetry; exact Hp).
    cbn [is_prelude] in H. apply (Hgo PLine eq_refl). exact H.
  - unfold call_write_body in H.
    rewrite analysed_call_fix in H by reflexivity. cbn [bind] in H.
    cbn [set_phase c_phase c_req] in H. rewrite Hpre in H.
    apply (Hgo p Hpre). exact H.
Qed.

(** What the call is once the head is out, read off the request: chunked when a chunked transfer-encoding is
    effective or no content-length is (the default of the with-body constructor), otherwise counting down the
    value of the content-length field.  Not yet finished in both cases. *)
Definition body_state_of (c0 c : call) : Prop :=
  if has_chunked_te (c_req c0) then chunked_body c false
  else match cls (c_req c0) with
       | [] => chunked_body c false
       | v :: _ => sized_body c (dec_value v) false
       end.

Lemma at_body_state c0 c :
  at_body c0 c -> c_writer c0 = new_chunked -> body_state_of c0 c.
Proof.
  intros -> Hw. unfold body_state_of, chunked_body, sized_body.
  cbn [set_phase analysed_call c_analyzed c_phase c_writer]. unfold spec_mode. rewrite Hw.
  destruct (has_chunked_te (c_req c0)); [repeat split|].
  destruct (cls (c_req c0)); repeat split.
Qed.

Lemma body_state_cases c0 c :
  body_state_of c0 c -> chunked_body c false \/ exists n, sized_body c n false.
Proof.
  unfold body_state_of. destruct (has_chunked_te (c_req c0)); [auto|].
  destruct (cls (c_req c0)); eauto.
Qed.

(** Flows. *)
Definition flow_in_head (f0 f : inner) : Prop := exists c, f = set_call f0 c /\ in_head (i_call f0) c.
Definition flow_at_body (f0 f : inner) : Prop :=
  f = set_call f0 (set_phase (analysed_call (i_call f0)) PBody).

Lemma flow_head_write_step f0 f cap f' out :
  fresh_flow f0 -> i_holder f0 = HWithBody -> call_invalid (i_call f0) = false -> sendable (i_call f0) ->
  flow_in_head f0 f \/ flow_at_body f0 f ->
  send_request_write f cap = Ok (f', out) ->
  flow_in_head f0 f' \/ flow_at_body f0 f'.
Proof.
  intros [Hf _] Hh Hi Hs [(c & -> & Hin)| ->] H; unfold send_request_write in H;
    cbn [set_call i_holder i_call] in H; rewrite Hh in H.
  - rewrite (in_head_not_body _ _ Hf Hin) in H.
    destruct (call_write_body c [] cap) as [[[c1 n] o]|e|s] eqn:Ew; cbn [bind] in H; try discriminate.
    inversion H; subst; clear H.
    destruct (head_write_step _ _ _ _ _ _ _ Hf Hi Hs Hin Ew) as [_ [Hin'|Hb]].
    + left. exists c1. split; [reflexivity|exact Hin'].
    + right. unfold flow_at_body. unfold at_body in Hb. subst c1. reflexivity.
  - cbn [set_phase c_phase is_body] in H. inversion H; subst. right. reflexivity.
Qed.

Lemma fwrun_head f0 caps :
  fresh_flow f0 -> i_holder f0 = HWithBody -> call_invalid (i_call f0) = false -> sendable (i_call f0) ->
  flow_in_head f0 (fw_flow (fwrun f0 caps)) \/ flow_at_body f0 (fw_flow (fwrun f0 caps)).
Proof.
  intros Hf Hh Hi Hs. unfold fwrun.
  assert (H0 : flow_in_head f0 (fw_flow {| fw_flow := f0; fw_out := [] |}) \/
               flow_at_body f0 (fw_flow {| fw_flow := f0; fw_out := [] |})).
  { left. exists (i_call f0). split; [symmetry; apply set_call_id|left; reflexivity]. }
  revert H0. generalize {| fw_flow := f0; fw_out := [] |}.
  induction caps as [|cap caps IH]; intros t Ht; cbn [fold_left]; [exact Ht|].
  apply IH. unfold fwstep.
  destruct (send_request_write (fw_flow t) cap) as [[f' out]|e|s] eqn:Ew; try exact Ht.
  cbn [fw_flow]. eapply flow_head_write_step; eauto.
Qed.

Lemma in_head_cannot_proceed f0 f :
  fresh_flow f0 -> i_holder f0 = HWithBody -> flow_in_head f0 f -> send_request_can_proceed f = Ok false.
Proof.
  intros [Hf _] Hh (c & -> & Hin). unfold send_request_can_proceed. cbn [set_call i_holder i_call].
  rewrite Hh, (in_head_not_body _ _ Hf Hin). reflexivity.
Qed.

(** The state every route into SendBody ends in. *)
Definition body_call (f0 f : inner) : Prop :=
  i_holder f = HWithBody /\ at_body (i_call f0) (i_call f).

Lemma flow_at_body_call f0 f : i_holder f0 = HWithBody -> flow_at_body f0 f -> body_call f0 f.
Proof. intros Hh ->. split; [exact Hh|reflexivity]. Qed.

Lemma body_call_analyze f0 f : body_call f0 f -> analyze_request (i_call f) = Ok (i_call f).
Proof. intros [_ Hb]. apply analysed_call_fix. rewrite Hb. reflexivity. Qed.

(** Directly: [send_request_proceed] answers SendBody. *)
Lemma proceed_send_body f0 f f' :
  body_call f0 f -> send_request_proceed f = Ok (Some (TSendBody, f')) -> f' = f.
Proof.
  intros Hb H. pose proof (body_call_analyze f0 f Hb) as Ha. destruct Hb as [Hh Hb].
  unfold send_request_proceed, send_request_can_proceed in H. rewrite Hh in H. cbn [bind] in H.
  destruct (is_body (c_phase (i_call f))); cbn [negb] in H; [|discriminate].
  destruct (i_should_send_body f); [|discriminate].
  destruct (i_await_100 f); [discriminate|].
  rewrite Ha in H. cbn [bind] in H. inversion H. apply set_call_id.
Qed.

(** Through Await100: the flow is handed over unchanged, [try_read_100] never touches the call or the
    holder, and [await_100_proceed] answers SendBody with the same call. *)
Lemma proceed_await f0 f f' :
  body_call f0 f -> send_request_proceed f = Ok (Some (TAwait100, f')) -> f' = f.
Proof.
  intros [Hh Hb] H.
  unfold send_request_proceed, send_request_can_proceed in H. rewrite Hh in H. cbn [bind] in H.
  destruct (is_body (c_phase (i_call f))); cbn [negb] in H; [|discriminate].
  destruct (i_should_send_body f); [|discriminate].
  destruct (i_await_100 f).
  - inversion H. reflexivity.
  - destruct (analyze_request (i_call f)); cbn [bind] in H; discriminate.
Qed.

Lemma refuse_call f f' : refuse f = Ok f' -> i_call f' = i_call f /\ i_holder f' = i_holder f.
Proof.
  unfold refuse. destruct (add_reason (i_reasons f) Not100Continue); cbn [bind]; try discriminate.
  intros H. inversion H. split; reflexivity.
Qed.

Lemma try_read_100_call f w :
  i_call (fst (try_read_100 f w)) = i_call f /\ i_holder (fst (try_read_100 f w)) = i_holder f.
Proof.
  unfold try_read_100.
  destruct (try_parse_response 0 w) as [[[used r]|]|e|s].
  - destruct (rs_status r =? 100).
    + destruct (i_should_send_body f); split; reflexivity.
    + destruct (refuse f) as [f'|e|s] eqn:E; cbn [fst]; [apply refuse_call; exact E|auto|auto].
  - split; reflexivity.
  - destruct e; try (split; reflexivity).
    destruct (refuse f) as [f'|e|s] eqn:E; cbn [fst]; [apply refuse_call; exact E|auto|auto].
  - split; reflexivity.
Qed.

Definition reads_100 (f : inner) (ws : list bytes) : inner :=
  fold_left (fun g w => fst (try_read_100 g w)) ws f.

Lemma reads_100_body_call f0 ws : forall f, body_call f0 f -> body_call f0 (reads_100 f ws).
Proof.
  induction ws as [|w ws IH]; intros f Hb; cbn [reads_100 fold_left]; [exact Hb|].
  apply IH. destruct Hb as [Hh Hb]. destruct (try_read_100_call f w) as [Hc Hh'].
  split; [rewrite Hh'; exact Hh|]. unfold at_body in *. rewrite Hc. exact Hb.
Qed.

Lemma await_proceed_send_body f0 f f' :
  body_call f0 f -> await_100_proceed f = Ok (TSendBody, f') -> f' = f.
Proof.
  intros Hb H. pose proof (body_call_analyze f0 f Hb) as Ha. destruct Hb as [Hh Hb].
  unfold await_100_proceed in H. destruct (i_should_send_body f).
  - rewrite Ha in H. cbn [bind] in H. inversion H. apply set_call_id.
  - rewrite Hh in H. discriminate.
Qed.

(** The reachability theorems.  [f0] is a fresh with-body flow whose request analysis accepts; [caps] is any
    sequence of output-buffer sizes offered to [Flow<SendRequest>::write]. *)
Lemma send_body_reached f0 caps f' :
  fresh_flow f0 -> i_holder f0 = HWithBody -> c_writer (i_call f0) = new_chunked ->
  call_invalid (i_call f0) = false -> sendable (i_call f0) ->
  send_request_proceed (fw_flow (fwrun f0 caps)) = Ok (Some (TSendBody, f')) ->
  f' = fw_flow (fwrun f0 caps) /\ i_holder f' = HWithBody /\
  c_req (i_call f') = c_req (analysed_call (i_call f0)) /\
  body_state_of (i_call f0) (i_call f').
Proof.
  intros Hf Hh Hw Hi Hs H.
  destruct (fwrun_head f0 caps Hf Hh Hi Hs) as [Hin|Hb].
  - exfalso. unfold send_request_proceed in H.
    rewrite (in_head_cannot_proceed f0 _ Hf Hh Hin) in H. discriminate.
  - pose proof (flow_at_body_call f0 _ Hh Hb) as Hbc.
    pose proof (proceed_send_body f0 _ f' Hbc H) as ->.
    destruct Hbc as [Hh' Hb']. split; [reflexivity|]. split; [exact Hh'|].
    split; [rewrite Hb'; reflexivity|]. apply at_body_state; assumption.
Qed.

Lemma send_body_reached_100 f0 caps f1 ws f' :
  fresh_flow f0 -> i_holder f0 = HWithBody -> c_writer (i_call f0) = new_chunked ->
  call_invalid (i_call f0) = false -> sendable (i_call f0) ->
  send_request_proceed (fw_flow (fwrun f0 caps)) = Ok (Some (TAwait100, f1)) ->
  await_100_proceed (reads_100 f1 ws) = Ok (TSendBody, f') ->
  i_holder f' = HWithBody /\
  c_req (i_call f') = c_req (analysed_call (i_call f0)) /\
  body_state_of (i_call f0) (i_call f').
Proof.
  intros Hf Hh Hw Hi Hs H1 H2.
  destruct (fwrun_head f0 caps Hf Hh Hi Hs) as [Hin|Hb].
  - exfalso. unfold send_request_proceed in H1.
    rewrite (in_head_cannot_proceed f0 _ Hf Hh Hin) in H1. discriminate.
  - pose proof (flow_at_body_call f0 _ Hh Hb) as Hbc.
    pose proof (proceed_await f0 _ f1 Hbc H1) as ->.
    pose proof (reads_100_body_call f0 ws _ Hbc) as Hbc2.
    pose proof (await_proceed_send_body f0 _ f' Hbc2 H2) as ->.
    destruct Hbc2 as [Hh' Hb']. split; [exact Hh'|].
    split; [rewrite Hb'; reflexivity|]. apply at_body_state; assumption.
Qed.

(** Where fresh with-body flows come from. *)
Lemma flow_new_with_body r f0 :
  flow_new r = Ok f0 -> need_request_body (rq_method r) = true ->
  fresh_flow f0 /\ i_holder f0 = HWithBody /\ c_writer (i_call f0) = new_chunked /\
  c_req (i_call f0) = am_new r /\ c_skip (i_call f0) = false.
Proof.
  destruct (C17_proofs.flow_new_ok r) as (rs & ->). intros H Hn. inversion H; subst; clear H.
  rewrite Hn. unfold fresh_flow, fresh, call_new. cbn. repeat split; auto.
Qed.

Lemma despite_with_body f0 f1 :
  fresh_flow f0 -> i_holder f0 = HWithoutBody -> send_body_despite_method f0 = Ok f1 ->
  fresh_flow f1 /\ i_holder f1 = HWithBody /\ c_writer (i_call f1) = new_chunked /\
  c_req (i_call f1) = c_req (i_call f0) /\ c_skip (i_call f1) = true.
Proof.
  intros [[Ha Hp] _] Hh H. unfold send_body_despite_method in H. rewrite Hh in H.
  unfold into_send_body in H. rewrite Ha in H. cbn [bind] in H. inversion H; subst; clear H.
  unfold fresh_flow, fresh. cbn. repeat split; auto.
Qed.

Lemma header_keeps_fresh f k v f' :
  fresh_flow f -> prepare_header f k v = Ok f' ->
  fresh_flow f' /\ i_holder f' = i_holder f /\ c_writer (i_call f') = c_writer (i_call f) /\
  c_skip (i_call f') = c_skip (i_call f).
Proof.
  intros [[Ha Hp] Hh] H. unfold prepare_header in H.
  destruct (am_set_header (c_req (i_call f)) k v) as [a|e|s]; cbn [bind] in H; try discriminate.
  inversion H; subst; clear H. unfold fresh_flow, fresh. cbn. repeat split; auto.
Qed.
