(** C06, strengthening: the model's decision versus the independent rule [framing]
    (proofs/C06_spec.v); Content-Length errors at call / flow level; the composition
    "head parsed -> reader installed -> successor state" at flow level; status 100. *)
From Coq Require Import Lia ZArith.
From Hoot Require Import Base Chunk Body Httparse Parser Url Request Call Flow.
From Hoot.proofs Require Import BytesLemmas Reasons C08_proofs C06_proofs C06_spec C06_values
     C05_spec C20_proofs C05_proofs.
Open Scope N_scope.

(** ** The leaves of [rfc_body_mode] in terms of the specification's predicates *)

Lemma cl_value_check cl :
  cl_value cl = match cl with None => Ok None | Some v => cl_check v end.
Proof.
  destruct cl as [v|]; [|reflexivity]. unfold cl_value, cl_check.
  destruct (all_digits v); cbn [negb]; [|reflexivity]. destruct (parse_dec_u64 v); reflexivity.
Qed.

Lemma cl_value_ok cl : cl_acceptable cl -> cl_value cl = Ok (option_map dec_value cl).
Proof.
  intros H. rewrite cl_value_check. destruct cl as [v|]; [|reflexivity].
  cbn [cl_acceptable] in H. rewrite (cl_check_ok v H). reflexivity.
Qed.

Lemma cl_value_bad v : ~ cl_numeric v -> cl_value (Some v) = Err BadContentLengthHeader.
Proof. intros H. rewrite cl_value_check. apply cl_check_bad. exact H. Qed.

Lemma no_body_status_spec hd cn status :
  no_body_status hd cn status = true <-> no_body_response hd cn status.
Proof.
  unfold no_body_status, no_body_response.
  rewrite !Bool.orb_true_iff, !Bool.andb_true_iff, !N.leb_le, !N.eqb_eq. tauto.
Qed.

Lemma no_body_status_false hd cn status :
  ~ no_body_response hd cn status -> no_body_status hd cn status = false.
Proof.
  intros H. destruct (no_body_status hd cn status) eqn:E; [|reflexivity].
  apply no_body_status_spec in E. contradiction.
Qed.

Lemma is_redirect_status_spec status :
  is_redirect_status status = true <-> is_3xx status /\ status <> 304.
Proof.
  unfold is_redirect_status, is_3xx.
  rewrite !Bool.andb_true_iff, Bool.negb_true_iff, !N.leb_le, N.eqb_neq. tauto.
Qed.

Definition chunked_b (v11 : bool) (te : option bytes) : bool :=
  v11 && match te with Some v => te_has_chunked v | None => false end.

Lemma chunked_b_spec v11 te : te_plain te -> (chunked_b v11 te = true <-> chunked_declared v11 te).
Proof.
  intros Hp. unfold chunked_b, chunked_declared. rewrite Bool.andb_true_iff.
  destruct te as [v|]; cbn [te_plain] in Hp.
  - rewrite (te_has_chunked_spec v Hp). split.
    + intros [H1 H2]. split; [exact H1|]. exists v. split; [reflexivity|exact H2].
    + intros [H1 (v' & E & H2)]. inversion E; subst v'. split; assumption.
  - split; [intros [_ H]; discriminate|]. intros [_ (v' & E & _)]. discriminate.
Qed.

Lemma chunked_b_false v11 te : te_plain te -> ~ chunked_declared v11 te -> chunked_b v11 te = false.
Proof.
  intros Hp H. destruct (chunked_b v11 te) eqn:E; [|reflexivity].
  apply (chunked_b_spec v11 te Hp) in E. contradiction.
Qed.

(** [rfc_body_mode] once the Content-Length value is settled. *)
Lemma rbm_bad hd cn status v11 v te :
  ~ cl_numeric v -> rfc_body_mode hd cn status v11 (Some v) te = Err BadContentLengthHeader.
Proof. intros H. unfold rfc_body_mode. rewrite (cl_value_bad v H). reflexivity. Qed.

Lemma rbm_ok hd cn status v11 cl te :
  cl_acceptable cl ->
  rfc_body_mode hd cn status v11 cl te =
    if no_body_status hd cn status then Ok RNoBody
    else if chunked_b v11 te then Ok (RChunked DSize)
    else match option_map dec_value cl with
         | Some k => Ok (RLength k)
         | None => if is_redirect_status status && match te with None => true | Some _ => false end
                   then Ok RNoBody else Ok RClose
         end.
Proof. intros H. unfold rfc_body_mode. rewrite (cl_value_ok cl H). reflexivity. Qed.

(** ** The model decides as the statement prescribes (since the repair of the redirect finding:
    without exception) *)

Theorem framing_model hd cn status v11 cl te out :
  te_plain te ->
  (framing hd cn status v11 cl te out <-> rfc_body_mode hd cn status v11 cl te = out).
Proof.
  intros Hp. split.
  - intros H. inversion H as [v Hcl Hbad|Hcl Hnb|Hcl Hnb Hch|v Hnb Hch Hcl Hnum|Hnb Hcl Hte H3|Hnb Hch Hcl Hor]; subst.
    + apply rbm_bad. exact Hbad.
    + rewrite rbm_ok by exact Hcl. rewrite (proj2 (no_body_status_spec hd cn status) Hnb). reflexivity.
    + rewrite rbm_ok by exact Hcl. rewrite (no_body_status_false _ _ _ Hnb).
      rewrite (proj2 (chunked_b_spec v11 te Hp) Hch). reflexivity.
    + rewrite rbm_ok by exact Hnum. rewrite (no_body_status_false _ _ _ Hnb).
      rewrite (chunked_b_false v11 te Hp Hch). reflexivity.
    + rewrite rbm_ok by exact I. rewrite (no_body_status_false _ _ _ Hnb).
      unfold chunked_b. rewrite Bool.andb_false_r. cbn [option_map].
      assert (Hr : is_redirect_status status = true).
      { apply is_redirect_status_spec. split; [exact H3|]. intros E. apply Hnb. unfold no_body_response. auto. }
      rewrite Hr. reflexivity.
    + rewrite rbm_ok by exact I. rewrite (no_body_status_false _ _ _ Hnb).
      rewrite (chunked_b_false v11 te Hp Hch). cbn [option_map].
      destruct (is_redirect_status status) eqn:Hr; [|reflexivity].
      apply is_redirect_status_spec in Hr. destruct Hr as [H3 _].
      destruct Hor as [Hn|Hte]; [contradiction|].
      destruct te as [tv|]; [reflexivity|congruence].
  - intros <-. destruct cl as [v|].
    + destruct (cl_numeric_dec v) as [Hnum|Hbad].
      * rewrite rbm_ok by exact Hnum.
        destruct (no_body_status hd cn status) eqn:Hnb.
        { apply FR_no_body; [exact Hnum|apply no_body_status_spec; exact Hnb]. }
        assert (Hnb' : ~ no_body_response hd cn status).
        { intros H. apply no_body_status_spec in H. congruence. }
        destruct (chunked_b v11 te) eqn:Hch.
        { apply FR_chunked; [exact Hnum|exact Hnb'|apply chunked_b_spec; assumption]. }
        assert (Hch' : ~ chunked_declared v11 te).
        { intros H. apply (chunked_b_spec v11 te Hp) in H. congruence. }
        cbn [option_map]. apply FR_length; auto.
      * rewrite rbm_bad by exact Hbad. apply (FR_bad_length _ _ _ _ _ _ v); auto.
    + rewrite rbm_ok by exact I.
      destruct (no_body_status hd cn status) eqn:Hnb.
      { apply FR_no_body; [exact I|apply no_body_status_spec; exact Hnb]. }
      assert (Hnb' : ~ no_body_response hd cn status).
      { intros H. apply no_body_status_spec in H. congruence. }
      destruct (chunked_b v11 te) eqn:Hch.
      { apply FR_chunked; [exact I|exact Hnb'|apply chunked_b_spec; assumption]. }
      assert (Hch' : ~ chunked_declared v11 te).
      { intros H. apply (chunked_b_spec v11 te Hp) in H. congruence. }
      cbn [option_map].
      destruct (is_redirect_status status) eqn:Hr.
      * apply is_redirect_status_spec in Hr. destruct Hr as [H3 _].
        destruct te as [tv|]; cbn [andb].
        -- apply FR_close; auto. right. discriminate.
        -- apply FR_redirect; auto.
      * cbn [andb]. apply FR_close; auto. left. intros H3.
        assert (is_redirect_status status = true); [|congruence].
        apply is_redirect_status_spec. split; [exact H3|]. intros E. apply Hnb'. unfold no_body_response. auto.
Qed.

(** Regression for the former finding: on every member of [redirect_te_class] (a redirect whose only
    framing header is a Transfer-Encoding that does not give chunked framing) the decision is now
    close-delimited, as the statement prescribes. *)
Theorem redirect_te_class_model hd cn status v11 cl te :
  te_plain te -> redirect_te_class hd cn status v11 cl te ->
  rfc_body_mode hd cn status v11 cl te = Ok RClose /\
  framing hd cn status v11 cl te (Ok RClose).
Proof.
  intros Hp (Hnb & H3 & -> & Hte & Hch).
  assert (Hf : framing hd cn status v11 None te (Ok RClose)) by (apply FR_close; auto).
  split; [apply (framing_model hd cn status v11 None te (Ok RClose) Hp); exact Hf|exact Hf].
Qed.

(** The rule is a function: two prescribed outcomes for the same inputs are equal. *)
Theorem framing_functional hd cn status v11 cl te a b :
  framing hd cn status v11 cl te a -> framing hd cn status v11 cl te b -> a = b.
Proof.
  intros Ha Hb.
  inversion Ha; subst; inversion Hb; subst; try reflexivity;
    try congruence; try contradiction;
    try (match goal with
         | H1 : Some _ = Some _ |- _ => inversion H1; subst; try reflexivity; try contradiction
         end);
    try (match goal with
         | H : cl_acceptable (Some _) |- _ => cbn [cl_acceptable] in H; contradiction
         end);
    try (match goal with
         | H : ~ chunked_declared _ None |- _ => idtac
         end).
  all: try (match goal with
            | H : ~ is_3xx ?s \/ None <> None |- _ => destruct H as [H|H]; [contradiction|congruence]
            end).
  all: try (exfalso; match goal with
            | H : chunked_declared _ None |- _ => destruct H as [_ (? & E & _)]; discriminate
            end).
Qed.

(** ** Call level *)

Lemma header_defined_bad h10 v te :
  ~ cl_numeric v -> header_defined h10 (Some v) te = Err BadContentLengthHeader.
Proof.
  intros H. pose proof (cl_check_bad v H) as E. unfold cl_check in E. unfold header_defined.
  destruct (negb (all_digits v)); [reflexivity|].
  destruct (parse_dec_u64 v); [discriminate|reflexivity].
Qed.

Lemma for_response_bad h10 a b s v te :
  ~ cl_numeric v -> for_response h10 a b s (Some v) te = Err BadContentLengthHeader.
Proof. intros H. unfold for_response. rewrite (header_defined_bad h10 v te H). reflexivity. Qed.

Lemma digits_text v : Forall is_DIGIT v -> is_text v = true.
Proof.
  intros H. unfold is_text. apply forallb_forall. rewrite Forall_forall in H. intros x Hx.
  destruct (H x Hx) as [H1 H2]. unfold is_visible_ascii.
  destruct (N.leb_spec 32 x); [|lia]. destruct (N.ltb_spec x 127); [|lia]. reflexivity.
Qed.

Lemma deliver_bad c used r v :
  hm_get (rs_headers r) (s2b "content-length") = Some v -> ~ cl_numeric v ->
  deliver c used r = Err BadContentLengthHeader.
Proof.
  intros Hg Hbad. unfold deliver. rewrite Hg.
  destruct (is_text v) eqn:T; cbn [negb]; [|reflexivity].
  unfold lookup_text at 1. rewrite Hg, T. rewrite for_response_bad by exact Hbad. reflexivity.
Qed.

Lemma deliver_good c used r v :
  hm_get (rs_headers r) (s2b "content-length") = Some v -> cl_numeric v ->
  exists rd, deliver c used r = Ok (set_reader c (Some rd), Some (used, r)).
Proof.
  intros Hg Hnum. unfold deliver. rewrite Hg.
  assert (T : is_text v = true) by (apply digits_text; apply Hnum).
  rewrite T. cbn [negb]. unfold lookup_text at 1. rewrite Hg, T.
  rewrite <- (Bool.negb_involutive (rs_version r =? 0)). rewrite for_response_rfc.
  rewrite rbm_ok by exact Hnum. cbn [option_map].
  destruct (no_body_status _ _ _); [eexists; reflexivity|].
  destruct (chunked_b _ _); eexists; reflexivity.
Qed.

(** A complete head whose first Content-Length field is not 1*DIGIT below 2^64 -- including values
    that are not text at all -- is refused, whatever the status (other than 100) and method. *)
Theorem try_response_bad_cl c h rest v :
  wf_resp_head h -> rh_status h <> 100 -> (List.length (rh_fields h) <= LIMIT)%nat ->
  hm_get (rs_headers (response_of h)) (s2b "content-length") = Some v -> ~ cl_numeric v ->
  call_try_response c (render_response_head h ++ rest) = Err BadContentLengthHeader.
Proof.
  intros Hwf Hs Hn Hg Hbad. rewrite try_response_complete by assumption. apply deliver_bad with v; assumption.
Qed.

Theorem try_response_good_cl c h rest v :
  wf_resp_head h -> rh_status h <> 100 -> (List.length (rh_fields h) <= LIMIT)%nat ->
  hm_get (rs_headers (response_of h)) (s2b "content-length") = Some v -> cl_numeric v ->
  exists rd, call_try_response c (render_response_head h ++ rest) =
             Ok (set_reader c (Some rd), Some (len (render_response_head h), response_of h)).
Proof.
  intros Hwf Hs Hn Hg Hnum. rewrite try_response_complete by assumption. apply deliver_good with v; assumption.
Qed.

(** On ANY input: a response (status other than 100) is only ever returned if its first
    Content-Length field, when present, is text and numeric. *)
Theorem try_response_cl_numeric c input c' used rsp v :
  call_try_response c input = Ok (c', Some (used, rsp)) -> rs_status rsp <> 100 ->
  hm_get (rs_headers rsp) (s2b "content-length") = Some v ->
  is_text v = true /\ cl_numeric v.
Proof.
  unfold call_try_response. intros H Hs Hg.
  destruct (try_parse_response _ input) as [first|e|s]; cbn [bind] in H; try discriminate.
  match type of H with (bind ?X _ = _) => destruct X as [got|e|s] eqn:Eg end; cbn [bind] in H; try discriminate.
  destruct got as [[u r0]|]; [|discriminate].
  destruct (N.eqb_spec (rs_status r0) 100) as [E100|E100].
  - destruct (rs_headers r0); [|discriminate]. inversion H; subst. congruence.
  - destruct (match hm_get (rs_headers r0) (s2b "content-length") with
              | Some v => negb (is_text v) | None => false end) eqn:Ht; [discriminate|].
    match type of H with (bind ?X _ = _) => destruct X as [rd|e|s] eqn:Er end; cbn [bind] in H; try discriminate.
    inversion H; subst. rewrite Hg in Ht. apply Bool.negb_false_iff in Ht. split; [exact Ht|].
    destruct (cl_numeric_dec v) as [Hn|Hb]; [exact Hn|].
    unfold lookup_text at 1 in Er. rewrite Hg, Ht in Er. rewrite for_response_bad in Er by exact Hb. discriminate.
Qed.

(** Status 100: the interim response is handed back, the call is unchanged (no reader installed), and
    it carries no header (otherwise [HeadersWith100]). *)
Theorem try_response_100 c input c' used rsp :
  call_try_response c input = Ok (c', Some (used, rsp)) -> rs_status rsp = 100 ->
  c' = c /\ rs_headers rsp = [].
Proof.
  unfold call_try_response. intros H Hs.
  destruct (try_parse_response _ input) as [first|e|s]; cbn [bind] in H; try discriminate.
  match type of H with (bind ?X _ = _) => destruct X as [got|e|s] eqn:Eg end; cbn [bind] in H; try discriminate.
  destruct got as [[u r0]|]; [|discriminate].
  destruct (N.eqb_spec (rs_status r0) 100) as [E100|E100].
  - destruct (rs_headers r0) eqn:Eh; [|discriminate]. inversion H; subst. split; [reflexivity|exact Eh].
  - destruct (match hm_get (rs_headers r0) (s2b "content-length") with
              | Some v => negb (is_text v) | None => false end); [discriminate|].
    match type of H with (bind ?X _ = _) => destruct X as [rd|e|s] eqn:Er end; cbn [bind] in H; try discriminate.
    inversion H; subst. contradiction.
Qed.

(** The rule of the statement applied to the returned head (specification form of [c06_applied]). *)
Theorem try_response_framing c input c' used rsp :
  call_try_response c input = Ok (c', Some (used, rsp)) -> rs_status rsp <> 100 ->
  let hd := method_eqb (am_method (c_req c)) HEAD in
  let cn := method_eqb (am_method (c_req c)) CONNECT in
  let v11 := negb (rs_version rsp =? 0) in
  let cl := lookup_text (rs_headers rsp) (s2b "content-length") in
  let te := lookup_text (rs_headers rsp) (s2b "transfer-encoding") in
  te_plain te /\
  exists r, c_reader c' = Some r /\ framing hd cn (rs_status rsp) v11 cl te (Ok r).
Proof.
  intros H Hs hd cn v11 cl te.
  assert (Hp : te_plain te).
  { unfold te, lookup_text. destruct (hm_get _ _) as [v|]; [|exact I].
    destruct (is_text v) eqn:T; [|exact I]. cbn [te_plain]. apply text_plain. exact T. }
  split; [exact Hp|].
  destruct (try_response_mode c input c' used rsp H Hs) as (r & Hr & Hm).
  exists r. split; [exact Hr|]. apply framing_model; assumption.
Qed.

(** ** Flow level *)

Lemma recv_try_response_err f input e :
  i_holder f = HRecvResponse -> call_try_response (i_call f) input = Err e ->
  recv_try_response f input = Err e.
Proof.
  intros Hh He. unfold recv_try_response, as_recv_response. rewrite Hh. cbn [bind]. rewrite He. reflexivity.
Qed.

Lemma add_reason_nodup rs r rs' : NoDup rs -> add_reason rs r = Ok rs' -> NoDup rs'.
Proof.
  intros Hnd Ha. destruct (add_reason_ok rs r Hnd) as (rs'' & Ha' & Hnd' & _).
  rewrite Ha in Ha'. inversion Ha'; subst. exact Hnd'.
Qed.

(** What [recv_try_response] does to the flow when it returns a response. *)
Lemma recv_try_response_some f input f' used rsp :
  i_holder f = HRecvResponse ->
  recv_try_response f input = Ok (f', used, Some rsp) ->
  exists c',
    call_try_response (i_call f) input = Ok (c', Some (used, rsp)) /\
    i_call f' = c' /\ i_holder f' = HRecvResponse /\ i_status f' = Some (rs_status rsp) /\
    i_await_100 f' = i_await_100 f /\
    (rs_status rsp =? 100) && i_await_100 f = false /\
    (NoDup (i_reasons f) -> NoDup (i_reasons f')).
Proof.
  intros Hh H. unfold recv_try_response, as_recv_response in H. rewrite Hh in H. cbn [bind] in H.
  destruct (call_try_response (i_call f) input) as [[c' got]|e|s]; cbn [bind] in H; try discriminate.
  destruct got as [[u r]|]; [|discriminate].
  cbn [set_call i_await_100 i_reasons i_call i_holder i_should_send_body] in H.
  destruct ((rs_status r =? 100) && i_await_100 f) eqn:E100; [discriminate|].
  destruct (headers_has (hm_iter (rs_headers r)) (s2b "connection") (s2b "close")).
  - destruct (add_reason (i_reasons f) ServerConnectionClose) as [rs|e|s] eqn:Ea; cbn [bind] in H; try discriminate.
    inversion H; subst. exists c'. cbn. repeat split; try reflexivity; try assumption.
    intros Hnd. eapply add_reason_nodup; eassumption.
  - cbn [bind] in H. inversion H; subst. exists c'. cbn. repeat split; try reflexivity; try assumption.
    intros Hnd. exact Hnd.
Qed.

(** Composition: the head actually parsed determines the reader and, through [successor], the state
    the flow moves to. *)
Theorem after_head f input f' used rsp :
  i_holder f = HRecvResponse -> NoDup (i_reasons f) ->
  recv_try_response f input = Ok (f', used, Some rsp) -> rs_status rsp <> 100 ->
  exists r f'',
    rfc_body_mode (method_eqb (am_method (c_req (i_call f))) HEAD)
                  (method_eqb (am_method (c_req (i_call f))) CONNECT)
                  (rs_status rsp) (negb (rs_version rsp =? 0))
                  (lookup_text (rs_headers rsp) (s2b "content-length"))
                  (lookup_text (rs_headers rsp) (s2b "transfer-encoding")) = Ok r /\
    c_reader (i_call f') = Some r /\ i_status f' = Some (rs_status rsp) /\
    recv_response_proceed f' = Ok (Some (successor r (rs_status rsp), f'')) /\
    c_reader (i_call f'') = Some r /\ i_holder f'' = HRecvBody /\ i_status f'' = Some (rs_status rsp).
Proof.
  intros Hh Hnd H Hs.
  destruct (recv_try_response_some f input f' used rsp Hh H) as (c' & Hc & Hcall & Hh' & Hst & _ & _ & Hnd').
  destruct (try_response_mode (i_call f) input c' used rsp Hc Hs) as (r & Hr & Hm).
  assert (Hr' : c_reader (i_call f') = Some r) by (rewrite Hcall; exact Hr).
  destruct (successor_state f' r (rs_status rsp) Hh' Hr' Hst (Hnd' Hnd)) as (f'' & Hp & H1 & H2 & H3).
  exists r, f''. repeat split; assumption.
Qed.

(** Status 100 at flow level (only reachable when the flow is not awaiting 100-continue): nothing is
    installed, the flow keeps waiting for the real response. *)
Theorem status_100_flow f input f' used rsp :
  i_holder f = HRecvResponse ->
  recv_try_response f input = Ok (f', used, Some rsp) -> rs_status rsp = 100 ->
  i_await_100 f = false /\ rs_headers rsp = [] /\
  i_call f' = i_call f /\ i_holder f' = HRecvResponse /\
  (c_reader (i_call f) = None -> recv_response_can_proceed f' = Ok false /\ recv_response_proceed f' = Ok None).
Proof.
  intros Hh H Hs.
  destruct (recv_try_response_some f input f' used rsp Hh H) as (c' & Hc & Hcall & Hh' & _ & _ & Haw & _).
  destruct (try_response_100 (i_call f) input c' used rsp Hc Hs) as [-> Hhd].
  rewrite Hs in Haw. cbn [N.eqb Pos.eqb andb] in Haw.
  repeat split; try assumption.
  - unfold recv_response_can_proceed, as_recv_response. rewrite Hh'. cbn [bind]. rewrite Hcall, H0. reflexivity.
  - unfold recv_response_proceed, recv_response_can_proceed, as_recv_response. rewrite Hh'. cbn [bind].
    rewrite Hcall, H0. reflexivity.
Qed.

Lemma lookup_text_plain m k : te_plain (lookup_text m k).
Proof.
  unfold lookup_text. destruct (hm_get m k) as [v|]; [|exact I].
  destruct (is_text v) eqn:T; [|exact I]. cbn [te_plain]. apply text_plain. exact T.
Qed.

(** Regression for the former finding at the flow: when the parsed head is a member of
    [redirect_te_class], the reader installed is close-delimited, [proceed] enters the body state (not
    Redirect), and the connection is marked for closing. *)
Theorem redirect_te_regression_flow f input f' used rsp :
  i_holder f = HRecvResponse -> NoDup (i_reasons f) ->
  recv_try_response f input = Ok (f', used, Some rsp) ->
  redirect_te_class (method_eqb (am_method (c_req (i_call f))) HEAD)
                    (method_eqb (am_method (c_req (i_call f))) CONNECT)
                    (rs_status rsp) (negb (rs_version rsp =? 0))
                    (lookup_text (rs_headers rsp) (s2b "content-length"))
                    (lookup_text (rs_headers rsp) (s2b "transfer-encoding")) ->
  c_reader (i_call f') = Some RClose /\
  exists f'',
    recv_response_proceed f' = Ok (Some (TRecvBody, f'')) /\
    In CloseDelimitedBody (i_reasons f'') /\ must_close f'' = true /\
    c_reader (i_call f'') = Some RClose /\ i_holder f'' = HRecvBody.
Proof.
  intros Hh Hnd H Hc.
  assert (Hs : rs_status rsp <> 100).
  { destruct Hc as (_ & [H3 _] & _). intros E. rewrite E in H3. lia. }
  destruct (recv_try_response_some f input f' used rsp Hh H) as (c' & Hcall & Hc' & Hh' & _ & _ & _ & Hnd').
  destruct (try_response_mode (i_call f) input c' used rsp Hcall Hs) as (r & Hr & Hm).
  destruct (redirect_te_class_model _ _ _ _ _ _ (lookup_text_plain _ _) Hc) as [E _].
  rewrite E in Hm. inversion Hm; subst r.
  assert (Hr' : c_reader (i_call f') = Some RClose) by (rewrite Hc'; exact Hr).
  split; [exact Hr'|]. apply close_delimited_marks; auto.
Qed.
