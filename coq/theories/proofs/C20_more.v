(** C20, strengthening (review 2):
    - "never reports an incomplete field" lifted to [try_parse_partial_response] for ARBITRARY input bytes:
      whatever it reports after [b] it still reports, in the same places, after [b ++ x] (unless [b ++ x] is refused);
    - what happens to a request whose method is an RFC token outside http's method table: RequestInvalidMethod,
      so the method premise of [request_complete] is exact. *)
From Coq Require Import Lia ZArith Permutation.
From Hoot Require Import Base Httparse Parser.
From Hoot.proofs Require Import BytesLemmas C05_stable C05_spec C05_roundtrip C20_proofs C05_hmap C05_rfc_bytes.
Open Scope N_scope.

(** ** The partial parser, arbitrary input *)

Lemma until_empty_value_app hs t : exists t', until_empty_value (hs ++ t) = until_empty_value hs ++ t'.
Proof.
  induction hs as [|h hs IH]; cbn [app until_empty_value].
  - eexists. reflexivity.
  - destruct (snd h); [exists []; reflexivity|]. destruct IH as [t' Ht']. exists t'. rewrite Ht'. reflexivity.
Qed.

(** What the wrapper does, in terms of the view left by httparse. *)
Lemma partial_wrapper_some slots b r :
  try_parse_partial_response slots b = Ok (Some r) ->
  exists ver c,
    hv_version (snd (parse_response slots b)) = Some ver /\ hv_code (snd (parse_response slots b)) = Some c /\
    rs_version r = ver /\ rs_status r = c /\
    rs_headers r = hm_of_list (until_empty_value (hv_headers (snd (parse_response slots b)))).
Proof.
  unfold try_parse_partial_response. destruct (parse_response slots b) as [st v]. cbn [snd].
  intros H.
  assert (H' : match hv_version v with
               | None => Ok None
               | Some ver =>
                   match hv_code v with
                   | None => Ok None
                   | Some _ =>
                       do code <- status_ok (hv_code v);
                       if builder_ok (until_empty_value (hv_headers v))
                       then Ok (Some {| rs_version := ver; rs_status := code;
                                        rs_headers := hm_of_list (until_empty_value (hv_headers v)) |})
                       else Err HttpParseFail
                   end
               end = Ok (Some r)).
  { destruct st; [exact H|exact H|discriminate]. }
  clear H. destruct (hv_version v) as [ver|]; [|discriminate].
  destruct (hv_code v) as [c|] eqn:Ec; [|discriminate].
  unfold status_ok in H'. destruct ((100 <=? c) && (c <=? 999)); cbn [bind] in H'; [|discriminate].
  destruct (builder_ok _); [|discriminate]. inversion H'; subst. cbn. eauto 10.
Qed.

(** For ARBITRARY [b] and [x]: once the partial parser has reported a response after [b], then after [b ++ x] it
    either refuses the input (an error: the new bytes were malformed) or reports the same version and status and a
    field list that EXTENDS the one reported before -- the header map is built from [hs ++ t] where the earlier one
    was built from [hs].  Nothing reported is ever retracted or altered by later bytes: reported fields were
    complete. *)
Theorem partial_wrapper_mono slots b x r :
  try_parse_partial_response slots b = Ok (Some r) ->
  (exists e, try_parse_partial_response slots (b ++ x) = Err e) \/
  (exists r' hs t,
     try_parse_partial_response slots (b ++ x) = Ok (Some r') /\
     rs_version r' = rs_version r /\ rs_status r' = rs_status r /\
     rs_headers r = hm_of_list hs /\ rs_headers r' = hm_of_list (hs ++ t)).
Proof.
  intros H. destruct (partial_wrapper_some slots b r H) as (ver & c & Hv & Hc & Hrv & Hrs & Hrh).
  pose proof (response_view_mono slots b x) as Hm. cbv zeta in Hm. destruct Hm as (Hm1 & Hm2 & (t & Hm3)).
  rewrite Hv in Hm1. rewrite Hc in Hm2.
  destruct Hm1 as [Hm1|Hm1]; [discriminate|]. destruct Hm2 as [Hm2|Hm2]; [discriminate|].
  assert (Hst : status_ok (Some c) = Ok c).
  { revert H. unfold try_parse_partial_response. destruct (parse_response slots b) as [st v]. cbn [snd] in *.
    rewrite Hv, Hc. intros H.
    assert (H' : (do code <- status_ok (Some c);
                  if builder_ok (until_empty_value (hv_headers v))
                  then Ok (Some {| rs_version := ver; rs_status := code;
                                   rs_headers := hm_of_list (until_empty_value (hv_headers v)) |})
                  else Err HttpParseFail) = Ok (Some r)).
    { destruct st; [exact H|exact H|discriminate]. }
    unfold status_ok in *. destruct ((100 <=? c) && (c <=? 999)); [reflexivity|discriminate]. }
  unfold try_parse_partial_response.
  destruct (parse_response slots (b ++ x)) as [st' v']. cbn [snd] in *.
  destruct (until_empty_value_app (hv_headers (snd (parse_response slots b))) t) as [t' Ht'].
  assert (Hgoal :
    (exists e, match hv_version v' with
               | None => Ok None
               | Some ver0 =>
                   match hv_code v' with
                   | None => Ok None
                   | Some _ =>
                       do code <- status_ok (hv_code v');
                       if builder_ok (until_empty_value (hv_headers v'))
                       then Ok (Some {| rs_version := ver0; rs_status := code;
                                        rs_headers := hm_of_list (until_empty_value (hv_headers v')) |})
                       else Err HttpParseFail
                   end
               end = Err e) \/
    (exists r' hs t0,
       match hv_version v' with
       | None => Ok None
       | Some ver0 =>
           match hv_code v' with
           | None => Ok None
           | Some _ =>
               do code <- status_ok (hv_code v');
               if builder_ok (until_empty_value (hv_headers v'))
               then Ok (Some {| rs_version := ver0; rs_status := code;
                                rs_headers := hm_of_list (until_empty_value (hv_headers v')) |})
               else Err HttpParseFail
           end
       end = Ok (Some r') /\
       rs_version r' = rs_version r /\ rs_status r' = rs_status r /\
       rs_headers r = hm_of_list hs /\ rs_headers r' = hm_of_list (hs ++ t0))).
  { rewrite Hm1, Hm2, Hst. cbn [bind]. rewrite Hm3, Ht'.
    destruct (builder_ok _); [right|left; eexists; reflexivity].
    eexists. exists (until_empty_value (hv_headers (snd (parse_response slots b)))), t'.
    split; [reflexivity|]. cbn [rs_version rs_status rs_headers]. repeat split; congruence. }
  destruct st' as [n| |e]; [exact Hgoal|exact Hgoal|left; eexists; reflexivity].
Qed.

(** The same in terms that do not mention how the map is built (proofs/C05_hmap.v): every name keeps the values it
    had, in order, with possibly more after them; and iteration yields the earlier fields plus the new ones. *)
Corollary partial_wrapper_mono_values slots b x r r' :
  try_parse_partial_response slots b = Ok (Some r) ->
  try_parse_partial_response slots (b ++ x) = Ok (Some r') ->
  rs_version r' = rs_version r /\ rs_status r' = rs_status r /\
  exists t, (forall k, hm_get_all (rs_headers r') k = hm_get_all (rs_headers r) k ++ map snd (fields_named k t)) /\
            Permutation (hm_iter (rs_headers r')) (hm_iter (rs_headers r) ++ map norm_header t).
Proof.
  intros H H'. destruct (partial_wrapper_mono slots b x r H) as [[e He]|(r'' & hs & t & H1 & H2 & H3 & H4 & H5)].
  - rewrite He in H'. discriminate.
  - rewrite H1 in H'. inversion H'; subst r''. split; [exact H2|]. split; [exact H3|]. exists t. split.
    + intros k. rewrite H4, H5, !hm_get_all_of_list. unfold fields_named. rewrite filter_app, map_app. reflexivity.
    + rewrite H4, H5. eapply Permutation_trans; [apply hm_iter_of_list_perm|].
      rewrite map_app. apply Permutation_app_tail. apply Permutation_sym. apply hm_iter_of_list_perm.
Qed.

(** Nothing reported is ever followed by "nothing yet". *)
Corollary partial_wrapper_not_none slots b x r :
  try_parse_partial_response slots b = Ok (Some r) -> try_parse_partial_response slots (b ++ x) <> Ok None.
Proof.
  intros H. destruct (partial_wrapper_mono slots b x r H) as [[e He]|(r' & hs & t & H1 & _)]; congruence.
Qed.

(** ** Requests whose method http refuses *)

Theorem request_bad_method slots h rest :
  wf_req_head h -> forallb is_http_method_char (qh_method h) = false ->
  (List.length (qh_fields h) <= slots)%nat ->
  try_parse_request slots (render_request_head h ++ rest) = Err RequestInvalidMethod.
Proof.
  intros Hwf Hm Hn. pose proof Hwf as (Hne & _ & _ & _ & Hv & Hfs).
  unfold try_parse_request. rewrite request_roundtrip by assumption.
  cbn [request_view hq_version hq_method hq_headers].
  rewrite version_ok_wf by exact Hv. cbn [bind].
  destruct (qh_method h) as [|c m] eqn:Em; [congruence|]. rewrite Hm. reflexivity.
Qed.

(** So the method premise of [request_complete] is exact. *)
Corollary request_complete_iff slots h rest :
  wf_req_head h -> (List.length (qh_fields h) <= slots)%nat ->
  (try_parse_request slots (render_request_head h ++ rest) = Ok (Some (len (render_request_head h), request_of h))
   <-> forallb is_http_method_char (qh_method h) = true).
Proof.
  intros Hwf Hn. split.
  - intros H. destruct (forallb is_http_method_char (qh_method h)) eqn:E; [reflexivity|].
    rewrite (request_bad_method slots h rest Hwf E Hn) in H. discriminate.
  - intros Hm. apply request_complete; assumption.
Qed.

(** For a head that is well-formed by the RFC grammar (method = token): refused exactly when the method contains
    one of the five token characters  # $ % & '  that http's table lacks. *)
Theorem rfc_request_method slots h rest :
  rfc_wf_req_head h -> (List.length (qh_fields h) <= slots)%nat ->
  (existsb (one_of "#$%&'") (qh_method h) = true ->
     try_parse_request slots (render_request_head h ++ rest) = Err RequestInvalidMethod) /\
  (existsb (one_of "#$%&'") (qh_method h) = false ->
     try_parse_request slots (render_request_head h ++ rest) = Ok (Some (len (render_request_head h), request_of h))).
Proof.
  intros Hrfc Hn. pose proof (rfc_wf_req_head_wf h Hrfc) as Hwf. destruct Hrfc as (_ & Htok & _).
  pose proof (rfc_method_refused_iff (qh_method h) Htok) as Hiff. split.
  - intros H. apply request_bad_method; [exact Hwf|apply Hiff; exact H|exact Hn].
  - intros H. apply request_complete; [exact Hwf| |exact Hn].
    destruct (forallb is_http_method_char (qh_method h)) eqn:E; [reflexivity|].
    assert (Hx : existsb (one_of "#$%&'") (qh_method h) = true) by (apply Hiff; reflexivity). congruence.
Qed.

(** A request with an RFC-token method that http refuses:  A#B /x HTTP/1.1 / Host: h *)
Definition odd_method_request : req_head :=
  {| qh_method := s2b "A#B"; qh_target := s2b "/x"; qh_version := 1;
     qh_fields := [ {| f_name := s2b "Host"; f_ows1 := [32]; f_value := s2b "h"; f_ows2 := [] |} ] |}.

Lemma odd_method_request_rfc_wf : rfc_wf_req_head odd_method_request.
Proof.
  unfold rfc_wf_req_head, odd_method_request. cbn [qh_method qh_target qh_version qh_fields].
  split; [discriminate|]. split; [reflexivity|]. split; [discriminate|]. split; [reflexivity|].
  split; [right; reflexivity|]. constructor; [|constructor].
  unfold rfc_wf_field. cbn [f_name f_ows1 f_value f_ows2].
  repeat split; try discriminate; try reflexivity.
Qed.
