(** The resumable request-head writer (src/client/call.rs: try_write_prelude, try_write_prelude_part,
    do_write_send_line, do_write_headers), translated from the source on every run (theories/Gen2.v:
    [gen_write_send_line], [gen_write_headers], [gen_write_prelude_part], [gen_write_prelude]; the output
    Writer is the pair (bytes available, bytes written so far), writes are all-or-nothing), corresponds to
    the model's [write_headers] / [try_write_prelude] (theories/Call.v).

    The request is represented on the generated side by the three rendered pieces of its request line
    and by its list of effective headers.  With zero effective headers the Rust code computes
    [header_count - 1], which underflows: the model has an explicit Panic branch for that, the
    translation uses truncated subtraction, so the main theorem excludes that case.

    The proofs avoid mentioning generated sub-terms literally: each generated definition is unfolded
    once, inside a small characterising lemma, and compared with a statement phrased with model terms. *)
From Coq Require Import Lia NArith List Bool.
From Hoot Require Import Base Chunk Body Httparse Parser Url Request Call GenLib Gen Gen2.
From Hoot.proofs Require Import BytesLemmas.
Import ListNotations.
Open Scope N_scope.

(** Equality of two [Ok] tuples that differ in arithmetic components only. *)
Ltac tuple_eq :=
  repeat match goal with
         | |- Ok _ = Ok _ => f_equal
         | |- (_, _) = (_, _) => f_equal
         end;
  try reflexivity; try lia.

(** ** The model's header loop only appends *)

Lemma write_headers_len_mono hs : forall index last avail out0,
  len out0 <= len (snd (write_headers hs index last avail out0)).
Proof.
  induction hs as [|h t IH]; intros index last avail out0; cbn [write_headers].
  - cbn [snd]. lia.
  - cbv zeta.
    destruct (len (header_line h (index =? last)) <=? avail) eqn:E.
    + specialize (IH (N.succ index) last (avail - len (header_line h (index =? last)))
                     (out0 ++ header_line h (index =? last))).
      rewrite len_app in IH. lia.
    + cbn [snd]. lia.
Qed.

(** ** do_write_headers *)

Lemma gen_write_headers_for1_spec hs : forall index last avail out0,
  gen_write_headers_for1 hs last index avail out0 =
  Ok (fst (write_headers hs index last avail out0),
      avail - (len (snd (write_headers hs index last avail out0)) - len out0),
      snd (write_headers hs index last avail out0)).
Proof.
  induction hs as [|h t IH]; intros index last avail out0;
    cbn [gen_write_headers_for1 write_headers].
  - cbn [fst snd]. tuple_eq.
  - cbv zeta.
    set (line := header_line h (index =? last)).
    (* the generated rendering of the line is convertible to the model's [header_line] *)
    repeat match goal with
           | |- context [len ?l <=? avail] => progress change l with line
           end.
    destruct (len line <=? avail) eqn:E.
    + replace (N.succ index) with (index + 1) by lia.
      rewrite IH.
      pose proof (write_headers_len_mono t (index + 1) last (avail - len line) (out0 ++ line)) as Hm.
      destruct (write_headers t (index + 1) last (avail - len line) (out0 ++ line)) as [i' out'].
      cbn [fst snd] in *. rewrite len_app in *.
      apply N.leb_le in E.
      tuple_eq.
    + cbn [fst snd]. tuple_eq.
Qed.

Lemma gen_write_headers_spec hs index last avail out0 :
  gen_write_headers hs index last avail out0 =
  Ok (fst (write_headers hs index last avail out0),
      avail - (len (snd (write_headers hs index last avail out0)) - len out0),
      snd (write_headers hs index last avail out0), tt).
Proof.
  unfold gen_write_headers. rewrite gen_write_headers_for1_spec. reflexivity.
Qed.

(** 1. The generated header loop against the model's [write_headers]. *)
Theorem gen_write_headers_equiv hs index last avail out0 :
  let '(i', out') := write_headers hs index last avail out0 in
  gen_write_headers hs index last avail out0 = Ok (i', avail - (len out' - len out0), out', tt).
Proof.
  rewrite gen_write_headers_spec.
  destruct (write_headers hs index last avail out0) as [i' out']. reflexivity.
Qed.

(** ** do_write_send_line *)

Lemma gen_write_send_line_spec lm lp lv avail out0 :
  gen_write_send_line lm lp lv avail out0 =
  if len (lm ++ [32] ++ lp ++ [32] ++ lv ++ CRLF) <=? avail
  then Ok (avail - len (lm ++ [32] ++ lp ++ [32] ++ lv ++ CRLF),
           out0 ++ (lm ++ [32] ++ lp ++ [32] ++ lv ++ CRLF), true)
  else Ok (avail, out0, false).
Proof.
  unfold gen_write_send_line, CRLF. cbv zeta.
  destruct (_ <=? avail); reflexivity.
Qed.

(** The request line of the model is made of the three pieces handed to the generated code. *)
Lemma prelude_line_pieces a :
  prelude_line a =
  method_name (am_method a) ++ [32] ++
  (match u_pq (am_eff_uri a) with [] => [47] | q => q end) ++ [32] ++
  version_name (am_version a) ++ CRLF.
Proof. reflexivity. Qed.

Lemma prelude_line_len_pos a : 0 < len (prelude_line a).
Proof.
  rewrite prelude_line_pieces. rewrite !len_app.
  change (len CRLF) with 2. lia.
Qed.

(** ** try_write_prelude_part, one phase at a time *)

Lemma gen_write_prelude_part_line lm lp lv hs avail out0 :
  gen_write_prelude_part lm lp lv hs PLine avail out0 =
  if len (lm ++ [32] ++ lp ++ [32] ++ lv ++ CRLF) <=? avail
  then Ok (PHeaders 0, avail - len (lm ++ [32] ++ lp ++ [32] ++ lv ++ CRLF),
           out0 ++ (lm ++ [32] ++ lp ++ [32] ++ lv ++ CRLF), true)
  else Ok (PLine, avail, out0, false).
Proof.
  unfold gen_write_prelude_part. rewrite gen_write_send_line_spec.
  destruct (_ <=? avail); reflexivity.
Qed.

Lemma gen_write_prelude_part_headers lm lp lv hs i avail out0 :
  gen_write_prelude_part lm lp lv hs (PHeaders i) avail out0 =
  Ok ((if fst (write_headers (drop i hs) i (len hs - 1) avail out0) =? len hs
       then PBody else PHeaders (fst (write_headers (drop i hs) i (len hs - 1) avail out0))),
      avail - (len (snd (write_headers (drop i hs) i (len hs - 1) avail out0)) - len out0),
      snd (write_headers (drop i hs) i (len hs - 1) avail out0), false).
Proof.
  unfold gen_write_prelude_part. cbv zeta. rewrite gen_write_headers_spec.
  cbn [bind].
  destruct (_ =? len hs); reflexivity.
Qed.

Lemma gen_write_prelude_part_other lm lp lv hs p avail out0 :
  is_prelude p = false ->
  gen_write_prelude_part lm lp lv hs p avail out0 = Ok (p, avail, out0, false).
Proof.
  destruct p; cbn [is_prelude]; intros H; try discriminate H; reflexivity.
Qed.

(** ** try_write_prelude: the last iteration of the loop (the one whose part does not ask to go on) *)

Lemma gen_write_prelude_loop1_headers fuel lm lp lv hs i avail out0 start :
  gen_write_prelude_loop1 (S fuel) lm lp lv hs (PHeaders i) avail out0 start =
  let W := write_headers (drop i hs) i (len hs - 1) avail out0 in
  let p' := if fst W =? len hs then PBody else PHeaders (fst W) in
  if (0 <? len (snd W) - start) || is_body p'
  then Ok (p', avail - (len (snd W) - len out0), snd W, tt)
  else Err OutputOverflow.
Proof.
  cbn [gen_write_prelude_loop1]. rewrite gen_write_prelude_part_headers.
  cbn [bind]. cbv zeta. reflexivity.
Qed.

Lemma gen_write_prelude_loop1_other fuel lm lp lv hs p avail out0 start :
  is_prelude p = false ->
  gen_write_prelude_loop1 (S fuel) lm lp lv hs p avail out0 start =
  if (0 <? len out0 - start) || is_body p
  then Ok (p, avail, out0, tt)
  else Err OutputOverflow.
Proof.
  intros Hp. cbn [gen_write_prelude_loop1]. rewrite gen_write_prelude_part_other by exact Hp.
  cbn [bind]. cbv zeta. reflexivity.
Qed.

Lemma gen_write_prelude_loop1_line fuel lm lp lv hs avail out0 start :
  gen_write_prelude_loop1 (S fuel) lm lp lv hs PLine avail out0 start =
  if len (lm ++ [32] ++ lp ++ [32] ++ lv ++ CRLF) <=? avail
  then gen_write_prelude_loop1 fuel lm lp lv hs (PHeaders 0)
         (avail - len (lm ++ [32] ++ lp ++ [32] ++ lv ++ CRLF))
         (out0 ++ (lm ++ [32] ++ lp ++ [32] ++ lv ++ CRLF)) start
  else if (0 <? len out0 - start) || false
       then Ok (PLine, avail, out0, tt)
       else Err OutputOverflow.
Proof.
  cbn [gen_write_prelude_loop1]. rewrite gen_write_prelude_part_line.
  destruct (_ <=? avail); cbn [bind]; cbv zeta; reflexivity.
Qed.

(** ** The model's headers part, named (it is a local definition of [try_write_prelude]) *)

Definition headers_part_model (hs : list header) (i avail : N) (out0 : bytes) : res (phase * bytes) :=
  if len hs =? 0 then Panic "call.rs: header_count - 1 underflow" else
  let '(i', out') := write_headers (drop i hs) i (len hs - 1) avail out0 in
  let p' := if i' =? len hs then PBody else PHeaders i' in
  match out' with
  | [] => if is_body p' then Ok (p', out') else Err OutputOverflow
  | _ => Ok (p', out')
  end.

Lemma try_write_prelude_unfold a p cap :
  try_write_prelude a p cap =
  match p with
  | PLine =>
      if len (prelude_line a) <=? cap
      then headers_part_model (am_headers a) 0 (cap - len (prelude_line a)) (prelude_line a)
      else Err OutputOverflow
  | PHeaders i => headers_part_model (am_headers a) i cap []
  | PBody => Ok (p, [])
  | _ => Err OutputOverflow
  end.
Proof. reflexivity. Qed.

Lemma len_nonempty_hs (hs : list header) : hs <> [] -> (len hs =? 0) = false.
Proof.
  intros H. destruct hs as [|h t]; [congruence|].
  rewrite len_cons. apply N.eqb_neq. lia.
Qed.

(** One headers iteration of the generated loop against the model's headers part, started with
    [out0] already written since [start = 0] (the call started with an empty output). *)
Lemma headers_iteration_equiv fuel lm lp lv hs i avail out0 :
  hs <> [] ->
  match headers_part_model hs i avail out0 with
  | Ok (p', out) =>
      gen_write_prelude_loop1 (S fuel) lm lp lv hs (PHeaders i) avail out0 0 =
      Ok (p', avail - (len out - len out0), out, tt)
  | Err e => gen_write_prelude_loop1 (S fuel) lm lp lv hs (PHeaders i) avail out0 0 = Err e
  | Panic _ => False
  end.
Proof.
  intros Hne. rewrite gen_write_prelude_loop1_headers. cbv zeta.
  unfold headers_part_model. rewrite (len_nonempty_hs hs Hne).
  destruct (write_headers (drop i hs) i (len hs - 1) avail out0) as [i' out'] eqn:EW.
  cbn [fst snd].
  destruct out' as [|b t].
  - assert (Hz : (0 <? len (@nil N) - 0) = false) by reflexivity.
    rewrite Hz. cbn [orb].
    destruct (is_body (if i' =? len hs then PBody else PHeaders i')); reflexivity.
  - assert (Hpos : (0 <? len (b :: t) - 0) = true).
    { apply N.ltb_lt. rewrite len_cons. lia. }
    rewrite Hpos. cbn [orb]. reflexivity.
Qed.

(** 2. The generated resumable writer against the model's [try_write_prelude]. *)
Theorem gen_write_prelude_equiv a p cap :
  am_headers a <> [] ->
  match try_write_prelude a p cap with
  | Ok (p', out) =>
      gen_write_prelude (method_name (am_method a))
                        (match u_pq (am_eff_uri a) with [] => [47] | q => q end)
                        (version_name (am_version a)) (am_headers a) p cap [] =
      Ok (p', cap - len out, out, tt)
  | Err e =>
      gen_write_prelude (method_name (am_method a))
                        (match u_pq (am_eff_uri a) with [] => [47] | q => q end)
                        (version_name (am_version a)) (am_headers a) p cap [] = Err e
  | Panic _ => False
  end.
Proof.
  intros Hne. rewrite try_write_prelude_unfold.
  unfold gen_write_prelude. cbv zeta. change (len (@nil N)) with 0.
  destruct p as [|i| | |].
  - (* PLine *)
    rewrite gen_write_prelude_loop1_line. rewrite <- prelude_line_pieces.
    rewrite app_nil_l.
    destruct (len (prelude_line a) <=? cap) eqn:E.
    + apply N.leb_le in E.
      pose proof (headers_iteration_equiv 1%nat (method_name (am_method a))
                    (match u_pq (am_eff_uri a) with [] => [47] | q => q end)
                    (version_name (am_version a)) (am_headers a) 0
                    (cap - len (prelude_line a)) (prelude_line a) Hne) as Hit.
      pose proof (prelude_line_len_pos a) as Hpos.
      assert (Hmono : forall p' out,
                 headers_part_model (am_headers a) 0 (cap - len (prelude_line a)) (prelude_line a)
                 = Ok (p', out) -> len (prelude_line a) <= len out).
      { intros p' out. unfold headers_part_model. rewrite (len_nonempty_hs _ Hne).
        pose proof (write_headers_len_mono (drop 0 (am_headers a)) 0 (len (am_headers a) - 1)
                      (cap - len (prelude_line a)) (prelude_line a)) as Hm.
        destruct (write_headers (drop 0 (am_headers a)) 0 (len (am_headers a) - 1)
                    (cap - len (prelude_line a)) (prelude_line a)) as [i' out'].
        cbn [snd] in Hm.
        destruct out' as [|b t].
        - change (len (@nil N)) with 0 in Hm. lia.
        - intros H. injection H as _ <-. exact Hm. }
      destruct (headers_part_model (am_headers a) 0 (cap - len (prelude_line a)) (prelude_line a))
        as [[p' out]|e|s] eqn:EM.
      * rewrite Hit. specialize (Hmono p' out eq_refl).
        tuple_eq.
      * exact Hit.
      * exact Hit.
    + change (0 <? len (@nil N) - 0) with false. reflexivity.
  - (* PHeaders i *)
    pose proof (headers_iteration_equiv 2%nat (method_name (am_method a))
                  (match u_pq (am_eff_uri a) with [] => [47] | q => q end)
                  (version_name (am_version a)) (am_headers a) i cap [] Hne) as Hit.
    destruct (headers_part_model (am_headers a) i cap []) as [[p' out]|e|s] eqn:EM.
    + rewrite Hit. change (len (@nil N)) with 0. tuple_eq.
    + exact Hit.
    + exact Hit.
  - (* PBody *)
    rewrite gen_write_prelude_loop1_other by reflexivity.
    change (len (@nil N)) with 0. cbn [is_body]. rewrite orb_true_r.
    tuple_eq.
  - (* PRecvResponse *)
    rewrite gen_write_prelude_loop1_other by reflexivity.
    change (len (@nil N)) with 0. reflexivity.
  - (* PRecvBody *)
    rewrite gen_write_prelude_loop1_other by reflexivity.
    change (len (@nil N)) with 0. reflexivity.
Qed.

(** 3. Non-vacuity: GET /a HTTP/1.1 (17 bytes with its CRLF), headers "host: h" (9 bytes with CRLF)
    and "a: b" (6 bytes with CRLF, 8 with the blank line), written through buffers of 20, 9 and 100
    bytes: the first call writes the request line only, the second the first header, the third the
    last header and the blank line; a 5 byte buffer at the start is an OutputOverflow. *)
Definition ex_req : amended :=
  am_new {| rq_method := GET; rq_version := V11;
            rq_uri := {| u_scheme := s2b "http"; u_auth := s2b "h"; u_pq := s2b "/a" |};
            rq_headers := [(s2b "host", s2b "h"); (s2b "a", s2b "b")] |}.

Example gen_write_prelude_nonvacuous :
  am_headers ex_req <> [] /\
  gen_write_prelude (s2b "GET") (s2b "/a") (s2b "HTTP/1.1") (am_headers ex_req) PLine 20 [] =
    Ok (PHeaders 0, 3, s2b "GET /a HTTP/1.1" ++ CRLF, tt) /\
  try_write_prelude ex_req PLine 20 = Ok (PHeaders 0, s2b "GET /a HTTP/1.1" ++ CRLF) /\
  gen_write_prelude (s2b "GET") (s2b "/a") (s2b "HTTP/1.1") (am_headers ex_req) (PHeaders 0) 9 [] =
    Ok (PHeaders 1, 0, s2b "host: h" ++ CRLF, tt) /\
  try_write_prelude ex_req (PHeaders 0) 9 = Ok (PHeaders 1, s2b "host: h" ++ CRLF) /\
  gen_write_prelude (s2b "GET") (s2b "/a") (s2b "HTTP/1.1") (am_headers ex_req) (PHeaders 1) 100 [] =
    Ok (PBody, 92, s2b "a: b" ++ CRLF ++ CRLF, tt) /\
  try_write_prelude ex_req (PHeaders 1) 100 = Ok (PBody, s2b "a: b" ++ CRLF ++ CRLF) /\
  gen_write_prelude (s2b "GET") (s2b "/a") (s2b "HTTP/1.1") (am_headers ex_req) PLine 100 [] =
    Ok (PBody, 66, s2b "GET /a HTTP/1.1" ++ CRLF ++ s2b "host: h" ++ CRLF ++ s2b "a: b" ++ CRLF ++ CRLF, tt) /\
  gen_write_prelude (s2b "GET") (s2b "/a") (s2b "HTTP/1.1") (am_headers ex_req) PLine 5 [] =
    Err OutputOverflow /\
  gen_write_prelude (s2b "GET") (s2b "/a") (s2b "HTTP/1.1") (am_headers ex_req) (PHeaders 1) 7 [] =
    Err OutputOverflow.
Proof.
  split; [vm_compute; discriminate|].
  repeat split; vm_compute; reflexivity.
Qed.

Print Assumptions write_headers_len_mono.
Print Assumptions gen_write_headers_for1_spec.
Print Assumptions gen_write_headers_spec.
Print Assumptions gen_write_headers_equiv.
Print Assumptions gen_write_send_line_spec.
Print Assumptions prelude_line_pieces.
Print Assumptions prelude_line_len_pos.
Print Assumptions gen_write_prelude_part_line.
Print Assumptions gen_write_prelude_part_headers.
Print Assumptions gen_write_prelude_part_other.
Print Assumptions gen_write_prelude_loop1_headers.
Print Assumptions gen_write_prelude_loop1_other.
Print Assumptions gen_write_prelude_loop1_line.
Print Assumptions try_write_prelude_unfold.
Print Assumptions len_nonempty_hs.
Print Assumptions headers_iteration_equiv.
Print Assumptions gen_write_prelude_equiv.
Print Assumptions gen_write_prelude_nonvacuous.
