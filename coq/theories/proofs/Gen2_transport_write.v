(** Transport lemmas (writer half): what the model returns is what the translated code returns, in the shape the property files use. *)
From Coq Require Import Lia.
From Hoot Require Import Base Chunk Body GenLib Gen Gen2.
From Hoot.proofs Require Import BytesLemmas Gen2_equiv_rel Gen2_equiv_writer.
Open Scope N_scope.

Lemma gen_write_ok_of_model : forall m e input avail out0 w' used bs,
  sized_fits m avail input ->
  writer_write {| w_mode := m; w_ended := e |} input avail = Ok (w', used, bs) ->
  gen_bw_write m e input avail out0 = Ok (w_mode w', w_ended w', avail - len bs, out0 ++ bs, used) /\ len bs <= avail.
Proof.
  intros m e input avail out0 w' used bs Hf Hm.
  pose proof (gen_bw_write_equiv m e input avail out0 Hf) as H. rewrite Hm in H. unfold wr_rel in H.
  destruct (gen_bw_write m e input avail out0) as [[[[[m1 e1] a1] o1] u1]|er|s]; try contradiction.
  destruct H as (-> & -> & -> & -> & -> & Hle). split; [reflexivity|exact Hle].
Qed.

Lemma gen_write_never_err : forall m e input avail out0 er,
  sized_fits m avail input -> gen_bw_write m e input avail out0 <> Err er.
Proof.
  intros m e input avail out0 er Hf Hg.
  pose proof (gen_bw_write_equiv m e input avail out0 Hf) as H. rewrite Hg in H. unfold wr_rel in H.
  destruct (writer_write {| w_mode := m; w_ended := e |} input avail) as [[[w u] b]|e2|s]; contradiction.
Qed.

Lemma gen_write_panic_only_if_model : forall m e input avail out0 s,
  sized_fits m avail input ->
  gen_bw_write m e input avail out0 = Panic s -> exists s', writer_write {| w_mode := m; w_ended := e |} input avail = Panic s'.
Proof.
  intros m e input avail out0 s Hf Hg.
  pose proof (gen_bw_write_equiv m e input avail out0 Hf) as H. rewrite Hg in H. unfold wr_rel in H.
  destruct (writer_write {| w_mode := m; w_ended := e |} input avail) as [[[w u] b]|e2|s']; try contradiction. eauto.
Qed.

Lemma gen_direct_ok_of_model : forall m e amount w',
  writer_direct {| w_mode := m; w_ended := e |} amount = Ok w' ->
  exists u, gen_bw_consume_direct_write m e amount = Ok (w_mode w', w_ended w', u).
Proof.
  intros m e amount w' Hm.
  pose proof (gen_bw_direct_equiv m e amount) as H. rewrite Hm in H. unfold dw_rel in H.
  destruct (gen_bw_consume_direct_write m e amount) as [[[m1 e1] u]|er|s]; try contradiction.
  destruct H as (-> & ->). eauto.
Qed.
