(** Composition for C05: Call<RecvResponse>::try_response calls the two response parsers of src/parser.rs.  All three are
    translated; chained, the translated code from httparse's outcome to the call's answer is the model's [call_try_response]. *)
From Coq Require Import NArith Bool List String.
From Hoot Require Import Base Chunk Body Httparse Parser Request Call Flow GenLib Gen Gen2.
From Hoot.proofs Require Import Gen2_equiv_call Gen2_equiv_parser.
Open Scope N_scope.

Definition gen_parse_n (slots : nat) (input : bytes) : res (option (N * response)) :=
  gen_try_parse_response input (hp_of (fst (parse_response slots input))) (hv_version (snd (parse_response slots input)))
    (hv_code (snd (parse_response slots input))) (hv_headers (snd (parse_response slots input))).
Definition gen_parse_partial_n (slots : nat) (input : bytes) : res (option response) :=
  gen_try_parse_partial_response input (hp_of (fst (parse_response slots input))) (hv_version (snd (parse_response slots input)))
    (hv_code (snd (parse_response slots input))) (hv_headers (snd (parse_response slots input))).

Theorem gen_call_try_response_chain c input :
  gen_call_try_response (c_reader c) (am_method (c_req c)) input
    (gen_parse_n (N.to_nat MAX_RESPONSE_HEADERS) input)
    (gen_parse_partial_n (N.to_nat MAX_RESPONSE_HEADERS) input)
  = lift_try (call_try_response c input).
Proof.
  unfold gen_parse_n, gen_parse_partial_n.
  rewrite gen_try_parse_response_eq, gen_try_parse_partial_response_eq.
  exact (gen_call_try_response_eq c input).
Qed.
