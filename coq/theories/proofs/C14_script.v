(** C14: the relation [flow_step] covers every operation of the script language (Script.v) that
    acts on a flow, except creating a flow, following a redirect and switching to the new flow. *)
From Hoot Require Import Base Chunk Body Httparse Parser Url Request Call Flow Script.
From Hoot.proofs Require Import C14_proofs.
Open Scope N_scope.

Ltac c14_case H :=
  match type of H with
  | context [match ?x with _ => _ end] =>
      match x with
      | context [match _ with _ => _ end] => fail 1
      | _ => destruct x eqn:?
      end
  end.

Lemma script_step_flow s o t f t' f' :
  s_obj s = ObFlow t f -> s_obj (fst (step s o)) = ObFlow t' f' ->
  f' = f \/ flow_step f f' \/ (exists r, o = ONew r) \/ o = OFollow \/ (exists p, o = OAsNewFlow p).
Proof.
  intros Hs H.
  destruct o; try (right; right; eauto; fail);
    unfold step, upd, do_proceed, do_premature, do_try100, do_try_response, do_read, do_write_body in H;
    rewrite ?Hs in H; cbn [fst snd] in H;
    repeat (c14_case H; cbn [fst snd s_obj with_flow with_obj add_consumed add_sent] in H; rewrite ?Hs in H);
    try discriminate;
    try (inversion H; subst; clear H);
    try (left; reflexivity);
    try (right; left; eauto using flow_step; fail).
  - apply c14_bind_ok in Heqr. destruct Heqr as ([t0 f0] & Hx & Hy). inversion Hy; subst.
    right; left; eauto using flow_step.
  - destruct a as [f1 out]. right; left; eauto using flow_step.
  - left; congruence.
  - left; congruence.
  - left; congruence.
  - left; congruence.
Qed.

Lemma script_covered s o t f t' f' :
  s_obj s = ObFlow t f -> s_obj (fst (step s o)) = ObFlow t' f' ->
  (f' = f \/ flow_step f f') \/
  (exists r, o = ONew r) \/ o = OFollow \/ (exists p, o = OAsNewFlow p).
Proof.
  intros Hs H. destruct (script_step_flow s o t f t' f' Hs H) as [E|[E|E]]; auto.
Qed.

Lemma script_preserves_uri s o t f t' f' :
  s_obj s = ObFlow t f -> s_obj (fst (step s o)) = ObFlow t' f' ->
  (forall r, o <> ONew r) -> o <> OFollow -> (forall p, o <> OAsNewFlow p) ->
  cur_uri f' = cur_uri f.
Proof.
  intros Hs H H1 H2 H3.
  destruct (script_step_flow s o t f t' f' Hs H) as [E|[E|[(r & E)|[E|(p & E)]]]].
  - subst. reflexivity.
  - apply keeps_cur_uri, flow_step_keeps, E.
  - exfalso. eapply H1; eauto.
  - contradiction.
  - exfalso. eapply H3; eauto.
Qed.
