(** Transport lemmas (reader half): what the model returns is what the translated code returns, in the shape the property files use. *)
From Coq Require Import Lia.
From Hoot Require Import Base Chunk Body GenLib Gen Gen2.
From Hoot.proofs Require Import BytesLemmas Gen2_equiv_rel Gen2_equiv_reader Gen2_equiv_reader_chunked Gen2_equiv_reader_all.
Open Scope N_scope.

Lemma gen_read_ok_of_model : forall r src dst stop r' i out,
  limit_fits r src dst ->
  reader_read r src (len dst) stop = Ok (r', i, out) ->
  gen_br_read r src dst stop = Ok (r', out ++ drop (len out) dst, (i, len out)).
Proof.
  intros r src dst stop r' i out Hf Hm.
  pose proof (gen_br_read_equiv r src dst stop Hf) as H. rewrite Hm in H. unfold rd_rel in H.
  destruct (gen_br_read r src dst stop) as [[[r1 d1] [i1 o1]]|e|s]; try contradiction.
  destruct H as (-> & -> & -> & ->). reflexivity.
Qed.

Lemma gen_read_err_of_model : forall r src dst stop e,
  limit_fits r src dst ->
  reader_read r src (len dst) stop = Err e -> gen_br_read r src dst stop = Err e.
Proof.
  intros r src dst stop e Hf Hm.
  pose proof (gen_br_read_equiv r src dst stop Hf) as H. rewrite Hm in H. unfold rd_rel in H.
  destruct (gen_br_read r src dst stop) as [[[r1 d1] [i1 o1]]|e1|s]; try contradiction. congruence.
Qed.

Lemma gen_read_panic_only_if_model : forall r src dst stop s,
  limit_fits r src dst ->
  gen_br_read r src dst stop = Panic s -> exists s', reader_read r src (len dst) stop = Panic s'.
Proof.
  intros r src dst stop s Hf Hg.
  pose proof (gen_br_read_equiv r src dst stop Hf) as H. rewrite Hg in H. unfold rd_rel in H.
  destruct (reader_read r src (len dst) stop) as [[[r2 i2] o2]|e|s']; try contradiction. eauto.
Qed.

