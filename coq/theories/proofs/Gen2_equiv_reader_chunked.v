(** (src/body.rs, BodyReader::read_chunked and BodyReader::read) The functions translated from the Rust sources by
    tools/rs2coq2.py (theories/Gen2.v, regenerated on every run) agree with the hand-written model (theories/Chunk.v
    [read_chunked], theories/Body.v [reader_read]).

    The generated outer loop keeps the input [src] and the destination buffer whole and advances the offsets
    [input_used] / [output_used]; each round it hands [drop input_used src] and [drop output_used dst_buf] to the decoder
    ([gen_dech_parse_input], tied to the model's [parse_input] by Gen2_equiv_chunk.gen_parse_input_equiv) and writes the
    returned view back behind the first [output_used] bytes.  The model's loop recurses on the rest of the input with the
    remaining room and accumulates the output.  The two are related by a lock-step induction on the common fuel; the
    only facts about the decoder it needs are the equivalence of [parse_input] and that the model's [parse_input] never
    reports more input than it was given nor more output than there is room.

    The lock-step lemma quantifies every argument of both loops and ties them by equations, so it applies whatever
    the generated code passes to the recursive call; the conditionals of both sides are split one at a time and
    contradictory combinations pruned by linear arithmetic (with the lengths normalised). *)
From Coq Require Import NArith ZArith Bool List Lia ZifyBool ZifyN.
From Hoot Require Import Base Chunk Body GenLib Gen Gen2.
From Hoot.proofs Require Import BytesLemmas Gen2_equiv_chunk Gen2_equiv_rel.
Open Scope N_scope.

(* ------------------------------------------------------------------ the model's parse_input consumes at most its input *)

Lemma fc_aux_bound b : forall k i, find_crlf_aux b k = Some i -> k <= i /\ i + 2 <= k + len b.
Proof.
  induction b as [|c t IH]; intros k i H; cbn [find_crlf_aux] in H; [discriminate|].
  rewrite len_cons.
  destruct (c =? 13).
  - destruct t as [|d t']; [discriminate|]. destruct (d =? 10); [|discriminate].
    inversion H; subst. rewrite len_cons. lia.
  - apply IH in H. lia.
Qed.

Lemma fc_bound src i : find_crlf src = Some i -> i + 2 <= len src.
Proof. intros H. apply fc_aux_bound in H. lia. Qed.

Lemma dech_step_in_le d src room r : dech_step d src room = Ok r -> sr_in r <= len src.
Proof.
  destruct d; cbn [dech_step].
  - unfold read_size. destruct (find_crlf src) as [i|] eqn:Ef.
    + apply fc_bound in Ef. destruct (SANITY_CHECK <? i); [discriminate|]. cbv zeta.
      destruct (negb _); [discriminate|]. destruct (parse_hex_usize _); [|discriminate].
      intros E. inversion E. cbn [sr_in]. lia.
    + intros E. inversion E. cbn [sr_in]. lia.
  - unfold read_data. cbv zeta. intros E. inversion E. cbn [sr_in]. lia.
  - unfold expect_crlf. destruct (find_crlf src) as [i|] eqn:Ef.
    + apply fc_bound in Ef. destruct (0 <? i); [discriminate|]. intros E. inversion E. cbn [sr_in]. lia.
    + intros E. inversion E. cbn [sr_in]. lia.
  - unfold trailer_or_ended. destruct (find_crlf src) as [i|] eqn:Ef.
    + apply fc_bound in Ef. destruct (i =? 0); intros E; inversion E; cbn [sr_in]; lia.
    + intros E. inversion E. cbn [sr_in]. lia.
  - unfold trailer. destruct (find_crlf src) as [i|] eqn:Ef.
    + apply fc_bound in Ef. destruct (i =? 0); [discriminate|]. intros E. inversion E. cbn [sr_in]. lia.
    + intros E. inversion E. cbn [sr_in]. lia.
  - intros E. inversion E. cbn [sr_in]. lia.
Qed.

Lemma parse_input_loop_in_le : forall fuel d src room used out d' i out',
  parse_input_loop fuel d src room used out = Ok (d', i, out') -> i <= used + len src.
Proof.
  induction fuel as [|f IH]; intros d src room used out d' i out' H; cbn [parse_input_loop] in H.
  - discriminate.
  - destruct (dech_step d src room) as [r|e|s] eqn:S; cbn [bind] in H; try discriminate.
    cbv zeta in H. pose proof (dech_step_in_le _ _ _ _ S) as B.
    destruct (sr_more r).
    + apply IH in H. rewrite len_drop in H. lia.
    + inversion H; subst. lia.
Qed.

Lemma parse_input_in_le d src room d' i out : parse_input d src room = Ok (d', i, out) -> i <= len src.
Proof. intros H. unfold parse_input in H. apply parse_input_loop_in_le in H. lia. Qed.

(* ------------------------------------------------------------------ D. the outer loop *)

(** Relation between the results of the two loops; [dst0] is the destination buffer the call started with. *)
Definition rc_rel (dst0 : bytes) (g : res (reader * bytes * dechunker * N * N)) (m : res (dechunker * N * bytes)) : Prop :=
  match g, m with
  | Ok (r1, dst1, d1, i1, o1), Ok (d2, i2, out2) =>
      r1 = RChunked d2 /\ d1 = d2 /\ i1 = i2 /\ o1 = len out2 /\ dst1 = out2 ++ drop (len out2) dst0
  | Err e1, Err e2 => e1 = e2
  | Panic _, Panic _ => True
  | _, _ => False
  end.

Lemma buf_view (dst0 out : bytes) : drop (len out) (out ++ drop (len out) dst0) = drop (len out) dst0.
Proof. apply drop_app_exact. Qed.

Lemma buf_back (dst0 out o : bytes) :
  take (len out) (out ++ drop (len out) dst0) ++ o ++ drop (len o) (drop (len out) dst0)
  = (out ++ o) ++ drop (len (out ++ o)) dst0.
Proof. rewrite take_app_exact, drop_drop, len_app, app_assoc. reflexivity. Qed.

Lemma gen_br_read_chunked_loop1_equiv (src dst0 : bytes) (stop : bool) :
  forall fuel self d dstg iu ou msrc room used out,
    msrc = drop iu src -> used = iu -> ou = len out -> len out <= len dst0 ->
    dstg = out ++ drop (len out) dst0 -> room = len dst0 - len out ->
    rc_rel dst0 (gen_br_read_chunked_loop1 fuel src stop self dstg d iu ou)
                (read_chunked_loop fuel d msrc room stop used out).
Proof.
  induction fuel as [|f IH]; intros self d dstg iu ou msrc room used out -> -> -> Hle -> ->.
  - exact I.
  - cbn [gen_br_read_chunked_loop1 read_chunked_loop].
    rewrite ?buf_view.
    pose proof (gen_parse_input_equiv d (drop iu src) (drop (len out) dst0)) as HP.
    rewrite len_drop in HP.
    destruct (gen_dech_parse_input d (drop iu src) (drop (len out) dst0)) as [[[d1 buf1] [i1 o1]]|e1|s1];
      destruct (parse_input d (drop iu src) (len dst0 - len out)) as [[[d2 i2] o2]|e2|s2] eqn:Hpi;
      cbn [pi_rel] in HP; cbn [bind rc_rel]; try contradiction; try exact HP; try exact I.
    destruct HP as (-> & -> & -> & ->).
    pose proof (parse_input_in_le _ _ _ _ _ _ Hpi) as Hin.
    pose proof (parse_input_out_le _ _ _ _ _ _ Hpi) as Hout.
    rewrite len_drop in Hin.
    rewrite ?gen_dech_is_ended_eq, ?gen_dech_is_on_chunk_boundary_eq.
    rewrite ?buf_back.
    assert (Hlen : len ((out ++ o2) ++ drop (len (out ++ o2)) dst0) = len dst0)
      by arith.
    rewrite ?Hlen.
    repeat split_if; cbn [rc_rel];
      try (repeat match goal with |- _ /\ _ => split end; try reflexivity; try arith; fail).
    eapply IH.
    + rewrite drop_drop. reflexivity.
    + reflexivity.
    + arith.
    + arith.
    + reflexivity.
    + arith.
Qed.

(** [BodyReader::read_chunked]. *)
Theorem gen_br_read_chunked_equiv d src dst stop :
  rd_rel dst (gen_br_read_chunked (RChunked d) src dst stop) (reader_read (RChunked d) src (len dst) stop).
Proof.
  unfold gen_br_read_chunked, reader_read, read_chunked. cbv zeta.
  pose proof (gen_br_read_chunked_loop1_equiv src dst stop (List.length src + 1) (RChunked d) d dst 0 0 src (len dst) 0 []
                (eq_sym (drop_0 src)) eq_refl eq_refl (N.le_0_l _) (eq_sym (drop_0 dst)) (eq_sym (N.sub_0_r _))) as H.
  destruct (gen_br_read_chunked_loop1 _ _ _ _ _ _ _ _) as [[[[[r1 b1] d1] i1] o1]|e1|s1];
    destruct (read_chunked_loop _ _ _ _ _ _ _) as [[[d2 i2] out2]|e2|s2];
    cbn [rc_rel] in H; cbn [bind rd_rel]; try contradiction; try exact H; try exact I.
  destruct H as (-> & -> & -> & -> & ->). repeat split.
Qed.

(** [BodyReader::read], every reader state. *)
(** [BodyReader::read] on a chunked reader (the dispatcher reduces to [read_chunked]). *)
Theorem gen_br_read_on_chunked d src dst stop :
  rd_rel dst (gen_br_read (RChunked d) src dst stop) (reader_read (RChunked d) src (len dst) stop).
Proof. unfold gen_br_read. cbv zeta. apply rd_rel_forward, gen_br_read_chunked_equiv. Qed.

(* ------------------------------------------------------------------ E. *)
Print Assumptions fc_aux_bound.
Print Assumptions fc_bound.
Print Assumptions dech_step_in_le.
Print Assumptions parse_input_loop_in_le.
Print Assumptions parse_input_in_le.
Print Assumptions buf_view.
Print Assumptions buf_back.
Print Assumptions gen_br_read_chunked_loop1_equiv.
Print Assumptions gen_br_read_chunked_equiv.
Print Assumptions gen_br_read_on_chunked.
