(** C01 (part 2): basic facts about a well-formed exchange; the prologue reaches [start x]; the
    invariant holds there; operations that do not match the state are no-ops; queries are pure. *)
From Coq Require Import Lia ZArith List.
From Hoot Require Import Base Chunk Body Httparse Parser Url Request Call Flow Script.
From Hoot.proofs Require Import BytesLemmas Reasons C17_proofs C02_proofs C03_proofs C05_spec C20_proofs
                                C05_proofs C07_spec C11_proofs C01_defs.
Open Scope N_scope.

(* ------------------------------------------------------------------ the prologue *)

Lemma flow_new_explicit r :
  flow_new r =
    Ok {| i_call := call_new r (if need_request_body (rq_method r) then new_chunked else new_none);
          i_holder := if need_request_body (rq_method r) then HWithBody else HWithoutBody;
          i_reasons := (match rq_version r with V10 => [Http10] | _ => [] end) ++
                       (if headers_has (rq_headers r) (s2b "connection") (s2b "close")
                        then [ClientConnectionClose] else []);
          i_should_send_body := need_request_body (rq_method r);
          i_await_100 := headers_has (rq_headers r) (s2b "expect") (s2b "100-continue");
          i_status := None; i_location := None |}.
Proof.
  unfold flow_new.
  destruct (rq_version r); destruct (headers_has (rq_headers r) (s2b "connection") (s2b "close"));
    reflexivity.
Qed.

Lemma prologue_start x : x_pre x = [] -> run_ops s_init (prologue x) = start x.
Proof.
  intros Hpre. assert (Hoff : x_off x = 0) by (unfold x_off; rewrite Hpre; reflexivity).
  unfold prologue, run_ops. cbn [app fold_left].
  assert (E1 : fst (step (fst (step (fst (step s_init (OSetStream (x_stream x)))) (OSetBody (x_body x))))
                         (ONew (x_req x))) =
               {| s_obj := ObFlow TPrepare
                    {| i_call := call_new (x_req x) (if x_need x then new_chunked else new_none);
                       i_holder := if x_need x then HWithBody else HWithoutBody;
                       i_reasons := x_rs0 x; i_should_send_body := x_need x; i_await_100 := x_aw0 x;
                       i_status := None; i_location := None |};
                  s_next := None; s_stream := x_stream x; s_arrived := 0; s_consumed := 0;
                  s_body := x_body x; s_sent := 0 |}).
  { unfold step at 1. cbn [s_obj s_init]. rewrite flow_new_explicit. cbn [fst].
    unfold x_rs0, x_h10, x_ccl, x_need, x_aw0. destruct (rq_version (x_req x)); reflexivity. }
  destruct (x_despite x) eqn:Ed; cbn [fold_left]; rewrite E1.
  - unfold step. cbn [s_obj]. unfold send_body_despite_method. cbn [i_holder i_call].
    unfold start, x_f0, x_c0, x_hold0, x_due. rewrite Ed, Hoff.
    destruct (x_need x); cbn [orb andb negb]; reflexivity.
  - unfold start, x_f0, x_c0, x_hold0, x_due. rewrite Ed, Hoff. rewrite Bool.orb_false_r.
    cbn [andb]. reflexivity.
Qed.

(* ------------------------------------------------------------------ the analysed request *)

Lemma x_ca_eq x : x_ca x = cl x PLine (x_wm x) None false.
Proof. reflexivity. Qed.

Lemma x_c0_fresh x : fresh (x_c0 x).
Proof. split; reflexivity. Qed.

Lemma x_f0_fresh x : fresh_flow (x_f0 x).
Proof. split; [apply x_c0_fresh|]. cbn. unfold x_hold0. destruct (x_due x); auto. Qed.

Lemma x_sendable x : WfX x -> sendable (x_c0 x).
Proof.
  intros (Hu & Hv & _). unfold sendable. cbn. split; [exact Hu|]. split; [unfold MAX_EXTRA_HEADERS; lia|exact Hv].
Qed.

Lemma x_analyze x : WfX x -> analyze_request (x_c0 x) = Ok (x_ca x).
Proof.
  intros H. pose proof (x_sendable x H) as (Hu & Hl & Hv). destruct H as (_ & _ & Hi & _).
  apply analyze_request_valid; [reflexivity|exact Hi|exact Hl|exact Hv].
Qed.

Lemma x_headers_ne x : WfX x -> am_headers (x_a x) <> [].
Proof. intros H. apply analysed_headers_nonempty. destruct H as (Hu & _). exact Hu. Qed.

Lemma x_lines_len x : WfX x -> len (x_lines x) = len (am_headers (x_a x)) + 1.
Proof. intros H. apply len_head_lines. apply x_headers_ne. exact H. Qed.

Lemma x_flow_head0 x : WfX x -> flow_head (x_a x) (x_f0 x) 0.
Proof.
  intros H. apply fresh_flow_head; [apply x_f0_fresh| |apply (x_sendable x H)].
  destruct H as (_ & _ & Hi & _). exact Hi.
Qed.

Lemma x_flow_headA x ph :
  wf_phase (len (am_headers (x_a x))) ph ->
  flow_head (x_a x) (snd (flow_of x (PHeadA ph))) (k_of (len (x_lines x)) ph).
Proof.
  intros Hw. split; [cbn; unfold x_hold0; destruct (x_due x); auto|].
  left. cbn. auto.
Qed.

Lemma x_method x : am_method (x_a x) = rq_method (x_req x).
Proof. reflexivity. Qed.

(** The body writer analysis settles on. *)
Lemma x_wm_cases x :
  x_wm x = new_chunked \/ (exists n, x_wm x = new_sized n) \/
  (x_wm x = (if x_due x then new_chunked else new_none)).
Proof.
  unfold x_wm, x_ca, analysed_call. cbn [c_writer]. unfold spec_mode.
  destruct (has_chunked_te _); [left; reflexivity|].
  destruct (cls _) as [|v t]; [right; right; reflexivity|right; left; eexists; reflexivity].
Qed.

Lemma x_wm_nodue x : WfX x -> x_due x = false -> x_wm x = new_none.
Proof.
  intros (_ & _ & Hi & _) Hd.
  unfold call_invalid in Hi.
  assert (Hskip : c_skip (x_c0 x) = false).
  { change (x_despite x && negb (x_need x) = false).
    unfold x_due in Hd. apply Bool.orb_false_elim in Hd. destruct Hd as [_ ->]. reflexivity. }
  assert (Hneed : need_request_body (am_method (c_req (x_c0 x))) = false).
  { change (need_request_body (rq_method (x_req x)) = false).
    unfold x_due, x_need in Hd. apply Bool.orb_false_elim in Hd. exact (proj1 Hd). }
  assert (Hw : c_writer (x_c0 x) = new_none) by (cbn; rewrite Hd; reflexivity).
  unfold invalid in Hi. rewrite Hskip, Hneed, Hw in Hi. cbn [negb andb] in Hi.
  repeat (apply Bool.orb_false_elim in Hi; destruct Hi as [Hi ?]).
  match goal with H : body_announced _ _ = false |- _ => rename H into Hb end.
  unfold body_announced in Hb. apply Bool.orb_false_elim in Hb. destruct Hb as [Hf _].
  unfold x_wm, x_ca, analysed_call. cbn [c_writer]. rewrite Hw.
  assert (Hinv : invalid (c_req (x_c0 x)) new_none false = false).
  { unfold invalid. rewrite Hneed. cbn [negb andb].
    unfold body_announced. rewrite Hf. cbn [has_body new_none w_mode orb].
    repeat match goal with H : _ = false |- _ => rewrite H; clear H end. reflexivity. }
  exact (proj1 (valid_no_framing_mode _ _ _ Hinv Hf)).
Qed.

Lemma x_wm_due x : x_due x = true -> w_mode (x_wm x) <> SNone.
Proof.
  intros Hd. destruct (x_wm_cases x) as [E|[(n & E)|E]]; rewrite E; try rewrite Hd; cbn; discriminate.
Qed.

Lemma x_wm_chunked x : w_mode (x_wm x) = SChunked -> x_wm x = new_chunked.
Proof.
  intros Hm. destruct (x_wm_cases x) as [E|[(n & E)|E]]; rewrite E in *; [reflexivity|discriminate|].
  destruct (x_due x); [reflexivity|discriminate].
Qed.

Lemma x_wm_sized x n : w_mode (x_wm x) = SSized n -> x_wm x = new_sized n.
Proof.
  intros Hm. destruct (x_wm_cases x) as [E|[(n' & E)|E]]; rewrite E in *; try discriminate.
  - cbn in Hm. congruence.
  - destruct (x_due x); discriminate.
Qed.

(* ------------------------------------------------------------------ close reasons *)

Lemma x_rs0_nodup x : NoDup (x_rs0 x).
Proof.
  unfold x_rs0. destruct (x_h10 x), (x_ccl x); cbn [app]; repeat constructor; cbn; intuition discriminate.
Qed.

Lemma x_rs1_nodup x : NoDup (x_rs1 x).
Proof. unfold x_rs1. destruct (x_scl x); [apply reasons_with_nodup|]; apply x_rs0_nodup. Qed.

Lemma x_rs2_nodup x : NoDup (x_rs2 x).
Proof. unfold x_rs2. destruct (x_cdl x); [apply reasons_with_nodup|]; apply x_rs1_nodup. Qed.

(* ------------------------------------------------------------------ the start state *)

(** Any state at the beginning of an exchange satisfies the invariant. *)
Lemma sim_begin x s :
  s_obj s = ObFlow TPrepare (x_f0 x) -> s_stream s = x_stream x -> s_body s = x_body x ->
  s_sent s = 0 -> s_consumed s = x_off x -> s_arrived s <= x_off x + len (x_h100 x) ->
  Sim x s acc0.
Proof.
  intros Ho Hs Hb Hsent Hc Ha. exists PPrep. split; [exact Ho|]. split.
  - split; [exact Hs|]. split; [exact Hb|]. unfold x_stream. rewrite !len_app. unfold x_off in Ha. lia.
  - cbn [pos_ok]. unfold BodyNone, RespNone, Early. cbn [acc0 a_head a_body a_resp a_rbody a_term].
    rewrite Hc, N.add_0_r. repeat split; auto; discriminate.
Qed.

Lemma sim_start x : Sim x (start x) acc0.
Proof. apply sim_begin; try reflexivity. cbn [start s_arrived]. lia. Qed.

(* ------------------------------------------------------------------ the step, operation by operation *)

Lemma step_proceed s t f : s_obj s = ObFlow t f -> step s OProceed = do_proceed s t f.
Proof. intros H. unfold step. rewrite H. reflexivity. Qed.

Lemma step_write_head s t f cap :
  s_obj s = ObFlow t f ->
  step s (OWriteHead cap) =
    match t with
    | TSendRequest => upd s TSendRequest (send_request_write f cap) fst
                          (fun r => [w "ok"; TN (len (snd r)); TH (snd r)])
    | _ => (s, obs_np)
    end.
Proof. intros H. unfold step. rewrite H. destruct t; reflexivity. Qed.

Lemma step_write_from s tk cap :
  step s (OWriteFrom tk cap) = do_write_body s (take tk (drop (s_sent s) (s_body s))) cap true true.
Proof. unfold step. destruct (s_obj s); reflexivity. Qed.

Lemma step_arrive s k :
  step s (OArrive k) =
    ({| s_obj := s_obj s; s_next := s_next s; s_stream := s_stream s;
        s_arrived := N.min (len (s_stream s)) (s_arrived s + k);
        s_consumed := s_consumed s; s_body := s_body s; s_sent := s_sent s |}, [w "ok"]).
Proof. unfold step. destruct (s_obj s); reflexivity. Qed.

Lemma step_try100 s t f :
  s_obj s = ObFlow t f ->
  step s OTry100 = match t with TAwait100 => do_try100 s f (window s) true | _ => (s, obs_np) end.
Proof. intros H. unfold step. rewrite H. destruct t; reflexivity. Qed.

Lemma step_try_response s t f :
  s_obj s = ObFlow t f ->
  step s OTryResponse =
    match t with TRecvResponse => do_try_response s f (window s) true | _ => (s, obs_np) end.
Proof. intros H. unfold step. rewrite H. destruct t; reflexivity. Qed.

Lemma step_read s t f cap :
  s_obj s = ObFlow t f ->
  step s (ORead cap) = match t with TRecvBody => do_read s f (window s) cap true | _ => (s, obs_np) end.
Proof. intros H. unfold step. rewrite H. destruct t; reflexivity. Qed.

Lemma step_stop s t f b :
  s_obj s = ObFlow t f ->
  step s (OStop b) =
    match t with
    | TRecvBody => upd s TRecvBody (recv_body_stop f b) (fun x => x) (fun _ => [w "ok"])
    | _ => (s, obs_np)
    end.
Proof. intros H. unfold step. rewrite H. destruct t; reflexivity. Qed.

(** Queries are pure in the model: the state does not change (and no accumulator does). *)
Lemma query_pure s o : is_query o = true -> fst (step s o) = s.
Proof.
  intros H. destruct o; try discriminate H; unfold step;
    destruct (s_obj s) as [|t f|h c]; try reflexivity; try (destruct t; reflexivity);
    try (destruct h; reflexivity).
Qed.

Lemma query_astep s a o : is_query o = true -> astep s a o = a.
Proof.
  intros H. destruct o; try discriminate H; unfold astep; destruct (s_obj s) as [|t f|h c]; reflexivity.
Qed.

(* ------------------------------------------------------------------ transport of the invariant *)

(** [pos_ok] and [Base] read only these fields of the state. *)
Lemma pos_ok_ext x p s s' a :
  s_sent s' = s_sent s -> s_consumed s' = s_consumed s -> s_arrived s' = s_arrived s ->
  pos_ok x p s a -> pos_ok x p s' a.
Proof.
  intros E1 E2 E3. destruct p; cbn [pos_ok];
    unfold BodyNone, RespNone, Early, BodyDone, Received; rewrite ?E1, ?E2, ?E3; auto.
Qed.

Lemma base_ext x s s' :
  s_stream s' = s_stream s -> s_body s' = s_body s -> s_arrived s' = s_arrived s ->
  Base x s -> Base x s'.
Proof. intros E1 E2 E3. unfold Base. rewrite E1, E2, E3. auto. Qed.

(** The canonical flow determines the tag. *)
Lemma sim_same x s a p :
  s_obj s = ObFlow (fst (flow_of x p)) (snd (flow_of x p)) -> Base x s -> pos_ok x p s a -> Sim x s a.
Proof. intros H1 H2 H3. exists p. auto. Qed.
