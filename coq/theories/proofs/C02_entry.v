(** C02 / C03 / C04: from the REQUEST to the state in which the body is sent.

    [prepared f]: what [Flow::new], [header] and [send_body_despite_method] establish in Prepare.
    After the head has been written over any sequence of buffers and the flow reports it complete,
    the flow is the flow it was, with the call replaced by the analysed call in phase Body
    ([head_at f PBody]); the writer it then holds is determined by the effective headers; a body
    follows exactly when the writer has one; and advancing leads (directly or through Await100) to
    SendBody with this very flow. *)
From Coq Require Import Lia ZArith.
From Hoot Require Import Base Chunk Body Httparse Parser Url Request Call Flow.
From Hoot.proofs Require Import BytesLemmas C17_proofs C02_proofs C02_analysis C04_proofs C18_proofs.
Open Scope N_scope.

(* ------------------------------------------------------------------ with-body writer, any input *)

(** In the head phases the with-body writer ignores its input (consumes nothing of it). *)
Lemma write_body_prelude_any c input cap :
  is_prelude (c_phase c) = true ->
  call_write_body c input cap =
    match call_write_nobody c cap with
    | Ok (c', o) => Ok (c', 0, o)
    | Err e => Err e
    | Panic s => Panic s
    end.
Proof.
  intros Hp. unfold call_write_body, call_write_nobody.
  destruct (analyze_request c) as [c1| |] eqn:E; cbn [bind]; try reflexivity.
  rewrite (analyze_request_phase _ _ E), Hp.
  destruct (try_write_prelude _ _ _) as [r| |]; reflexivity.
Qed.

(* ------------------------------------------------------------------ the flow while the head is sent *)

(** The flow [f] after analysis, at phase [p] of the head. *)
Definition head_at (f : inner) (p : phase) : inner :=
  set_call f (set_phase (analysed_call (i_call f)) p).

Lemma srw_fresh f cap f' out :
  fresh_flow f -> call_invalid (i_call f) = false -> sendable (i_call f) ->
  send_request_write f cap = Ok (f', out) -> exists p, f' = head_at f p.
Proof.
  intros [[Ha Hp] Hh] Hi (Hu & Hl & Hv). unfold send_request_write.
  pose proof (analyze_request_valid _ Ha Hi Hl Hv) as Han.
  destruct Hh as [Hh|Hh]; rewrite Hh.
  - unfold call_write_nobody. rewrite Han. cbn [bind].
    destruct (try_write_prelude _ _ _) as [r| |]; cbn [bind]; try discriminate.
    intros H. inversion H; subst. exists (fst r). reflexivity.
  - rewrite Hp. cbn [is_body]. unfold call_write_body. rewrite Han. cbn [bind].
    cbn [analysed_call c_phase]. rewrite Hp. cbn [is_prelude].
    destruct (try_write_prelude _ _ _) as [r| |]; cbn [bind]; try discriminate.
    intros H. inversion H; subst. exists (fst r). reflexivity.
Qed.

Lemma srw_head_at f p cap f' out :
  send_request_write (head_at f p) cap = Ok (f', out) -> exists p', f' = head_at f p'.
Proof.
  unfold send_request_write. cbn [head_at set_call i_holder i_call].
  assert (Han : analyze_request (set_phase (analysed_call (i_call f)) p) =
                Ok (set_phase (analysed_call (i_call f)) p)) by (apply analysed_call_fix; reflexivity).
  destruct (i_holder f); try discriminate.
  - unfold call_write_nobody. rewrite Han. cbn [bind].
    destruct (try_write_prelude _ _ _) as [r| |]; cbn [bind]; try discriminate.
    intros H. inversion H; subst. exists (fst r). reflexivity.
  - cbn [set_phase c_phase]. destruct (is_body p) eqn:Eb.
    + intros H. inversion H; subst. exists p. reflexivity.
    + unfold call_write_body. rewrite Han. cbn [bind]. cbn [set_phase c_phase]. rewrite Eb.
      destruct (is_prelude p).
      * destruct (try_write_prelude _ _ _) as [r| |]; cbn [bind]; try discriminate.
        intros H. inversion H; subst. exists (fst r). reflexivity.
      * intros H. inversion H; subst. exists p. reflexivity.
Qed.

Definition head_state (f g : inner) : Prop := g = f \/ exists p, g = head_at f p.

Lemma head_state_step f t cap :
  fresh_flow f -> call_invalid (i_call f) = false -> sendable (i_call f) ->
  head_state f (fw_flow t) -> head_state f (fw_flow (fwstep t cap)).
Proof.
  intros Hf Hi Hs H. unfold fwstep.
  destruct (send_request_write (fw_flow t) cap) as [[f' out]| |] eqn:E; try exact H.
  cbn [fw_flow]. right. destruct H as [H|(p & H)]; rewrite H in E.
  - eapply srw_fresh; eassumption.
  - eapply srw_head_at; eassumption.
Qed.

Lemma head_state_run f caps :
  fresh_flow f -> call_invalid (i_call f) = false -> sendable (i_call f) ->
  head_state f (fw_flow (fwrun f caps)).
Proof.
  intros Hf Hi Hs. unfold fwrun.
  assert (H0 : head_state f (fw_flow {| fw_flow := f; fw_out := [] |})) by (left; reflexivity).
  revert H0. generalize {| fw_flow := f; fw_out := [] |}.
  induction caps as [|cap caps IH]; intros t H; cbn [fold_left]; [exact H|].
  apply IH. apply head_state_step; assumption.
Qed.

(** Head complete: the flow is [f] with the analysed call in phase Body -- every other field of the
    flow and of the call (writer chosen by analysis, reader, flags) is as analysis left it. *)
Lemma head_done_state f caps :
  fresh_flow f -> call_invalid (i_call f) = false -> sendable (i_call f) ->
  send_request_can_proceed (fw_flow (fwrun f caps)) = Ok true ->
  fw_flow (fwrun f caps) = head_at f PBody.
Proof.
  intros Hf Hi Hs Hp.
  destruct (head_state_run f caps Hf Hi Hs) as [E|(p & E)].
  - rewrite E, (fresh_flow_cannot_proceed f Hf) in Hp. discriminate.
  - pose proof (fresh_flow_headers_nonempty f Hs) as Hne.
    destruct (head_prefix _ f caps Hne (fresh_flow_head f Hf Hi Hs)) as (k & [Hh Hk] & _).
    rewrite E in *. clear E.
    assert (Hw : wf_phase (len (am_headers (c_req (analysed_call (i_call f))))) p).
    { destruct Hk as [(_ & _ & Hw & _)|((Ha & _) & _)]; [exact Hw|discriminate Ha]. }
    unfold send_request_can_proceed in Hp. cbn [head_at set_call i_holder i_call set_phase c_phase] in Hp, Hh.
    destruct Hh as [Hh|Hh]; rewrite Hh in Hp;
      destruct p; cbn [wf_phase is_prelude is_body negb] in *; try contradiction; try discriminate;
      reflexivity.
Qed.

(* ------------------------------------------------------------------ what Prepare establishes *)

(** Either the method decides (body iff the method takes one; the flow expects to send chunked
    unless the headers say otherwise), or [send_body_despite_method] was called on a method
    without body (body check skipped, chunked by default). *)
Definition prepared (f : inner) : Prop :=
  fresh_flow f /\
  let need := need_request_body (am_method (c_req (i_call f))) in
  ((c_skip (i_call f) = false /\ i_should_send_body f = need /\
    c_writer (i_call f) = (if need then new_chunked else new_none) /\
    i_holder f = (if need then HWithBody else HWithoutBody))
   \/
   (c_skip (i_call f) = true /\ i_should_send_body f = true /\
    c_writer (i_call f) = new_chunked /\ i_holder f = HWithBody)).

Lemma flow_new_prepared r f : flow_new r = Ok f -> prepared f.
Proof.
  intros H. destruct (flow_new_fresh r f H) as (Hf & _).
  destruct (flow_new_ok r) as (rs & E). rewrite E in H. inversion H; subst; clear H.
  split; [exact Hf|]. cbv zeta. left. cbn. auto.
Qed.

Lemma prepare_header_prepared f k v f' :
  prepared f -> prepare_header f k v = Ok f' -> prepared f'.
Proof.
  intros [[[Ha Hp] Hh] H] E. unfold prepare_header, am_set_header in E.
  destruct (negb _); [discriminate|]. destruct (_ <=? _); [discriminate|].
  cbn [bind] in E. inversion E; subst; clear E.
  split; [split; [split|]; assumption|exact H].
Qed.

Lemma despite_prepared f f' :
  prepared f -> send_body_despite_method f = Ok f' -> prepared f'.
Proof.
  intros [[[Ha Hp] Hh] H] E. unfold send_body_despite_method in E. cbv zeta in H.
  destruct H as [(Hs & Hb & Hw & Hho)|(Hs & Hb & Hw & Hho)].
  - destruct (need_request_body (am_method (c_req (i_call f)))) eqn:En; rewrite Hho in E.
    + inversion E; subst; clear E. split; [split; [split; assumption|right; first [reflexivity|exact Hho]]|].
      cbv zeta. cbn [i_call i_should_send_body i_holder]. rewrite En. left. auto.
    + unfold into_send_body in E. rewrite Ha in E. cbn [bind] in E. inversion E; subst; clear E.
      split; [split; [split; cbn; first [assumption|reflexivity]|right; reflexivity]|]. cbv zeta. right. cbn. auto.
  - rewrite Hho in E. inversion E; subst; clear E.
    split; [split; [split; assumption|right; first [reflexivity|exact Hho]]|]. cbv zeta. right. cbn. auto.
Qed.

(* ------------------------------------------------------------------ "when a body follows" *)

(** For a request analysis accepts: the flow intends to send a body iff the writer selected by
    analysis has one (iff a framing header goes out, C02 [framing_mode_iff]); and then the flow
    holds a with-body call. *)
Lemma body_follows f :
  prepared f -> call_invalid (i_call f) = false ->
  has_body (c_writer (analysed_call (i_call f))) = i_should_send_body f /\
  (i_should_send_body f = true -> i_holder f = HWithBody) /\
  (i_should_send_body f = false -> i_holder f = HWithoutBody).
Proof.
  intros [_ H] Hi. cbv zeta in H. rewrite (mode_has_body _ Hi).
  unfold call_invalid, invalid in Hi.
  apply orb_false_elim in Hi. destruct Hi as [_ Hi].
  destruct H as [(Hs & Hb & Hw & Hh)|(Hs & Hb & Hw & Hh)]; rewrite Hs in Hi; cbn [negb andb] in Hi.
  - rewrite Hb, Hh. destruct (need_request_body _).
    + destruct (body_announced _ _); [|discriminate]. repeat split; congruence.
    + rewrite Hi. repeat split; congruence.
  - rewrite Hb, Hh, Hw. unfold body_announced. cbn [has_body new_chunked w_mode].
    rewrite orb_true_r. repeat split; congruence.
Qed.

(** The writer analysis selects for a prepared flow is one of the three constructor values. *)
Lemma prepared_writer f :
  prepared f ->
  let w' := c_writer (analysed_call (i_call f)) in
  w' = match w_mode w' with SNone => new_none | SSized n => new_sized n | SChunked => new_chunked end.
Proof.
  intros [_ H]. cbv zeta in *. cbn [analysed_call c_writer]. unfold spec_mode.
  destruct (has_chunked_te _); [reflexivity|]. destruct (cls _); [|reflexivity].
  destruct H as [(_ & _ & Hw & _)|(_ & _ & Hw & _)]; rewrite Hw; [|reflexivity].
  destruct (need_request_body _); reflexivity.
Qed.

(** The writer, read off the effective headers that go out. *)
Lemma entry_modes f :
  prepared f -> call_invalid (i_call f) = false ->
  let a' := c_req (analysed_call (i_call f)) in
  let w' := c_writer (analysed_call (i_call f)) in
  (w' = new_none <-> cls a' = [] /\ has_chunked_te a' = false) /\
  (forall n, w' = new_sized n <->
             has_chunked_te a' = false /\
             exists v, cls a' = [v] /\ is_nonempty v = true /\ forallb is_digit v = true /\
                       dec_value v = n) /\
  (w' = new_chunked <-> has_chunked_te a' = true).
Proof.
  intros Hp Hi. cbv zeta. pose proof (prepared_writer f Hp) as Hc. cbv zeta in Hc.
  destruct (framing_mode_iff _ Hi) as (H1 & H2 & H3). cbv zeta in H1, H2, H3.
  set (w' := c_writer (analysed_call (i_call f))) in *.
  split; [|split].
  - rewrite <- H1. split; [intros ->; reflexivity|]. intros E. rewrite Hc, E. reflexivity.
  - intros n. rewrite <- H2. split; [intros ->; reflexivity|]. intros E. rewrite Hc, E. reflexivity.
  - rewrite <- H3. split; [intros ->; reflexivity|]. intros E. rewrite Hc, E. reflexivity.
Qed.

(* ------------------------------------------------------------------ advancing *)

Lemma head_at_analysed f p : analyze_request (i_call (head_at f p)) = Ok (i_call (head_at f p)).
Proof. apply analysed_call_fix. reflexivity. Qed.

(** From the completed head: a body follows -> Await100 or SendBody with the very same flow; and
    Await100 hands the same flow on to SendBody. *)
Lemma proceed_to_body f :
  i_should_send_body f = true -> i_holder f = HWithBody ->
  let f' := head_at f PBody in
  send_request_proceed f' = Ok (Some (if i_await_100 f then TAwait100 else TSendBody, f')) /\
  await_100_proceed f' = Ok (TSendBody, f').
Proof.
  intros Hb Hh. cbv zeta. unfold send_request_proceed, send_request_can_proceed, await_100_proceed.
  rewrite head_at_analysed. cbn [head_at set_call i_holder i_call i_should_send_body i_await_100].
  rewrite Hh, Hb. cbn [set_phase c_phase is_body bind negb].
  split; [destruct (i_await_100 f); reflexivity|reflexivity].
Qed.

(** No body follows: the writer is the finished no-body writer and the flow goes on to receive. *)
Lemma proceed_no_body f :
  prepared f -> call_invalid (i_call f) = false -> i_should_send_body f = false ->
  let f' := head_at f PBody in
  c_writer (i_call f') = new_none /\
  send_request_proceed f' =
    Ok (Some (TRecvResponse, set_call_holder f' (set_phase (i_call f') PRecvResponse) HRecvResponse)).
Proof.
  intros Hp Hi Hb. cbv zeta.
  destruct (body_follows f Hp Hi) as (Hhb & _ & Hh). specialize (Hh Hb). rewrite Hb in Hhb.
  pose proof (prepared_writer f Hp) as Hc. cbv zeta in Hc.
  assert (Hw : c_writer (analysed_call (i_call f)) = new_none).
  { rewrite Hc. unfold has_body in Hhb. destruct (w_mode _); [reflexivity|discriminate|discriminate]. }
  split; [exact Hw|].
  unfold send_request_proceed, send_request_can_proceed, into_receive.
  cbn [head_at set_call i_holder i_call i_should_send_body i_await_100].
  rewrite Hh, Hb. cbn [set_phase c_phase is_prelude bind negb c_writer]. rewrite Hw. reflexivity.
Qed.

(* ------------------------------------------------------------------ entry into C04 / C03 *)

Lemma sized_entry f n :
  c_writer (analysed_call (i_call f)) = new_sized n -> sized_body (i_call (head_at f PBody)) n false.
Proof. intros H. split; [reflexivity|split; [reflexivity|exact H]]. Qed.

Lemma chunked_entry f :
  c_writer (analysed_call (i_call f)) = new_chunked -> chunked_body (i_call (head_at f PBody)) false.
Proof. intros H. split; [reflexivity|split; [reflexivity|exact H]]. Qed.

(** The flow that enters SendBody for a request carrying one Content-Length of value [n] and no
    chunked Transfer-Encoding (among the effective headers). *)
Lemma c04_entry_lemma f caps n :
  prepared f -> call_invalid (i_call f) = false -> sendable (i_call f) ->
  let a' := c_req (analysed_call (i_call f)) in
  let f' := fw_flow (fwrun f caps) in
  send_request_can_proceed f' = Ok true ->
  has_chunked_te a' = false ->
  (exists v, cls a' = [v] /\ is_nonempty v = true /\ forallb is_digit v = true /\ dec_value v = n) ->
  c_req (i_call f') = a' /\ i_holder f' = HWithBody /\ i_should_send_body f' = true /\
  sized_body (i_call f') n false /\
  send_request_proceed f' = Ok (Some (if i_await_100 f then TAwait100 else TSendBody, f')) /\
  await_100_proceed f' = Ok (TSendBody, f').
Proof.
  intros Hp Hi Hs a' f' Hcp Hch Hcl.
  pose proof Hp as [Hf _].
  assert (E : f' = head_at f PBody) by (apply head_done_state; assumption).
  destruct (entry_modes f Hp Hi) as (_ & H2 & _). cbv zeta in H2.
  assert (Hw : c_writer (analysed_call (i_call f)) = new_sized n) by (apply H2; split; assumption).
  destruct (body_follows f Hp Hi) as (Hhb & Hh & _). rewrite Hw in Hhb. cbn in Hhb.
  symmetry in Hhb. specialize (Hh Hhb).
  destruct (proceed_to_body f Hhb Hh) as [P1 P2]. cbv zeta in P1, P2.
  rewrite E. split; [reflexivity|]. split; [exact Hh|]. split; [exact Hhb|].
  split; [apply sized_entry; exact Hw|]. split; assumption.
Qed.

(** ... and for a request whose effective headers carry a chunked Transfer-Encoding (the caller's,
    or the one analysis adds by default for a body method or after [send_body_despite_method]). *)
Lemma c03_entry_lemma f caps :
  prepared f -> call_invalid (i_call f) = false -> sendable (i_call f) ->
  let a' := c_req (analysed_call (i_call f)) in
  let f' := fw_flow (fwrun f caps) in
  send_request_can_proceed f' = Ok true ->
  has_chunked_te a' = true ->
  c_req (i_call f') = a' /\ i_holder f' = HWithBody /\ i_should_send_body f' = true /\
  chunked_body (i_call f') false /\
  send_request_proceed f' = Ok (Some (if i_await_100 f then TAwait100 else TSendBody, f')) /\
  await_100_proceed f' = Ok (TSendBody, f').
Proof.
  intros Hp Hi Hs a' f' Hcp Hch.
  pose proof Hp as [Hf _].
  assert (E : f' = head_at f PBody) by (apply head_done_state; assumption).
  destruct (entry_modes f Hp Hi) as (_ & _ & H3). cbv zeta in H3.
  assert (Hw : c_writer (analysed_call (i_call f)) = new_chunked) by (apply H3; assumption).
  destruct (body_follows f Hp Hi) as (Hhb & Hh & _). rewrite Hw in Hhb. cbn in Hhb.
  symmetry in Hhb. specialize (Hh Hhb).
  destruct (proceed_to_body f Hhb Hh) as [P1 P2]. cbv zeta in P1, P2.
  rewrite E. split; [reflexivity|]. split; [exact Hh|]. split; [exact Hhb|].
  split; [apply chunked_entry; exact Hw|]. split; assumption.
Qed.

(* ------------------------------------------------------------------ chunked: no Content-Length added *)

(** Analysis never adds a Content-Length next to a chunked Transfer-Encoding: when the effective
    headers after analysis are chunked, their Content-Length fields are the caller's. *)
Lemma chunked_cls c :
  call_invalid c = false -> has_chunked_te (c_req (analysed_call c)) = true ->
  cls (c_req (analysed_call c)) = cls (c_req c).
Proof.
  intros Hi Hch. unfold cls at 1. rewrite analysed_field_values, host_added_no_cl. cbn [app].
  assert (Hfa : get_all (framing_added (c_req c) (c_writer c)) (s2b "content-length") = []).
  { unfold framing_added. destruct (framing_present (c_req c)) eqn:Hf; [reflexivity|].
    destruct (valid_no_framing_mode _ _ _ Hi Hf) as [Hm _].
    destruct (framing_mode_iff c Hi) as (_ & _ & H3). cbv zeta in H3. apply H3 in Hch.
    cbn [analysed_call c_writer] in Hch. rewrite Hm in Hch.
    unfold framing_header. rewrite Hch. reflexivity. }
  rewrite Hfa. cbn [app]. unfold cls. rewrite field_values_split. reflexivity.
Qed.

(* ------------------------------------------------------------------ flow-level operations *)

Lemma send_body_write_eq f input cap :
  i_holder f = HWithBody ->
  send_body_write f input cap =
    match call_write_body (i_call f) input cap with
    | Ok (c', used, out) => Ok (set_call f c', used, out)
    | Err e => Err e
    | Panic s => Panic s
    end.
Proof.
  intros H. unfold send_body_write, as_with_body. rewrite H. cbn [bind].
  destruct (call_write_body _ _ _) as [[[c' u] o]| |]; reflexivity.
Qed.

Lemma send_body_direct_eq f amount :
  i_holder f = HWithBody ->
  send_body_direct f amount =
    match call_direct_write (i_call f) amount with
    | Ok c' => Ok (set_call f c')
    | Err e => Err e
    | Panic s => Panic s
    end.
Proof.
  intros H. unfold send_body_direct, as_with_body. rewrite H. cbn [bind].
  destruct (call_direct_write _ _) as [c'| |]; reflexivity.
Qed.

Lemma send_body_can_proceed_eq f :
  i_holder f = HWithBody -> send_body_can_proceed f = Ok (w_ended (c_writer (i_call f))).
Proof. intros H. unfold send_body_can_proceed, as_with_body. rewrite H. reflexivity. Qed.

(** The redirect target flow is again a prepared flow (C02 applies to it as to a new one). *)
Lemma as_new_flow_prepared f p f1 g :
  as_new_flow f p = Ok (f1, Some g) -> prepared g.
Proof.
  unfold as_new_flow. destruct (i_location f) as [loc|]; [|discriminate].
  destruct (negb (is_text loc)); [discriminate|]. destruct (i_status f) as [st|]; [|discriminate].
  destruct (u_scheme _); [discriminate|]. destruct (resolve _ _) as [target|]; [|discriminate].
  match goal with |- match ?nm with Some _ => _ | None => _ end = _ -> _ => destruct nm as [nm'|] end;
    [|intros H; inversion H].
  destruct (am_req (c_req (i_call f))) as [orig|]; [|discriminate].
  match goal with |- (do next <- flow_new ?r; _) = _ -> _ =>
    destruct (flow_new r) as [next| |] eqn:En end; cbn [bind]; try discriminate.
  pose proof (flow_new_prepared _ _ En) as [[[Ha Hp] Hh] H].
  destruct (flow_new_ok {| rq_method := nm'; rq_version := rq_version orig; rq_uri := rq_uri orig;
                           rq_headers := rq_headers orig |}) as (rs & Eok).
  rewrite Eok in En. inversion En; subst next; clear En.
  unfold am_unset_header.
  repeat match goal with
         | |- context [if ?b then Ok ?x else _] => destruct b
         | |- context [UNSET_CAP <=? ?n] => destruct (UNSET_CAP <=? n)
         | _ => progress cbn [bind]
         end; try discriminate;
  intros E; inversion E; subst; clear E;
  (split; [split; [split; reflexivity|cbn; destruct (need_request_body nm'); auto]|]);
  cbv zeta; left; cbn; auto.
Qed.
