(** C14, flow level: which URI a followed redirect is resolved against, which Location field is
    used, what the next head carries, and the error cases.
    (The comparison of [Url.resolve] with RFC 3986 section 5.2 is in C14_spec.v / C14_rfc.v.) *)
From Coq Require Import Lia ZArith.
From Hoot Require Import Base Chunk Body Httparse Parser Url Request Call Flow.
From Hoot.proofs Require Import AfterErr BytesLemmas C17_proofs C02_proofs C02_analysis.
Open Scope N_scope.

(* ------------------------------------------------------------------ vocabulary *)

(** The URI of the request a flow is making: the override installed by a redirect if there is
    one, otherwise the URI of the request itself. *)
Definition cur_uri (f : inner) : uri := am_eff_uri (c_req (i_call f)).

(** What every operation between Prepare and Redirect leaves alone: the request, the URI
    override and the list of suppressed headers. *)
Definition same_target (a a' : amended) : Prop :=
  am_req a' = am_req a /\ am_uri a' = am_uri a /\ am_unset a' = am_unset a.

Definition keeps (f f' : inner) : Prop := same_target (c_req (i_call f)) (c_req (i_call f')).

Lemma same_target_refl a : same_target a a.
Proof. repeat split. Qed.

Lemma same_target_trans a b c : same_target a b -> same_target b c -> same_target a c.
Proof. intros (A1 & A2 & A3) (B1 & B2 & B3). repeat split; congruence. Qed.

Lemma same_target_eff a a' : same_target a a' -> am_eff_uri a' = am_eff_uri a.
Proof. intros (H1 & H2 & _). unfold am_eff_uri, am_request. rewrite H1, H2. reflexivity. Qed.

Lemma keeps_refl f : keeps f f.
Proof. apply same_target_refl. Qed.

Lemma keeps_trans f g h : keeps f g -> keeps g h -> keeps f h.
Proof. apply same_target_trans. Qed.

Lemma keeps_cur_uri f f' : keeps f f' -> cur_uri f' = cur_uri f.
Proof. apply same_target_eff. Qed.

Lemma keeps_call f f' : c_req (i_call f') = c_req (i_call f) -> keeps f f'.
Proof. intros H. unfold keeps. rewrite H. apply same_target_refl. Qed.

Lemma c14_bind_ok {A B} (r : res A) (k : A -> res B) b :
  bind r k = Ok b -> exists a, r = Ok a /\ k a = Ok b.
Proof. destruct r; cbn [bind]; intros H; try discriminate. eauto. Qed.

(* ------------------------------------------------------------------ amended / call level *)

Lemma set_header_same a k v a' : am_set_header a k v = Ok a' -> same_target a a'.
Proof.
  unfold am_set_header. destruct (negb _); [discriminate|]. destruct (_ <=? _); [discriminate|].
  intros H. inversion H; subst. repeat split.
Qed.

Lemma analyze_request_same c c' : analyze_request c = Ok c' -> same_target (c_req c) (c_req c').
Proof.
  unfold analyze_request. destruct (c_analyzed c).
  - intros H. inversion H; subst. apply same_target_refl.
  - intros H. apply c14_bind_ok in H. destruct H as (info & _ & H).
    apply c14_bind_ok in H. destruct H as (a1 & H1 & H).
    apply c14_bind_ok in H. destruct H as (a2 & H2 & H).
    inversion H; subst; clear H. cbn [c_req].
    assert (S1 : same_target (c_req c) a1).
    { destruct (ri_host info); [inversion H1; subst; apply same_target_refl|].
      destruct (u_auth _); [inversion H1; subst; apply same_target_refl|].
      eapply set_header_same; eauto. }
    assert (S2 : same_target a1 a2).
    { destruct (negb _ && _).
      - apply c14_bind_ok in H2. destruct H2 as (h & _ & H2). eapply set_header_same; eauto.
      - inversion H2; subst. apply same_target_refl. }
    eapply same_target_trans; eauto.
Qed.

Lemma write_nobody_same c cap c' out :
  call_write_nobody c cap = Ok (c', out) -> same_target (c_req c) (c_req c').
Proof.
  unfold call_write_nobody. intros H.
  apply c14_bind_ok in H. destruct H as (c1 & H1 & H).
  apply c14_bind_ok in H. destruct H as (r & _ & H).
  inversion H; subst; clear H. cbn [set_phase c_req]. apply analyze_request_same. exact H1.
Qed.

Lemma write_body_same c input cap c' used out :
  call_write_body c input cap = Ok (c', used, out) -> same_target (c_req c) (c_req c').
Proof.
  unfold call_write_body. intros H.
  apply c14_bind_ok in H. destruct H as (c1 & H1 & H).
  apply analyze_request_same in H1.
  destruct (is_prelude (c_phase c1)).
  - apply c14_bind_ok in H. destruct H as (r & _ & H). inversion H; subst; clear H. exact H1.
  - destruct (is_body (c_phase c1)).
    + destruct (_ && _); [discriminate|].
      destruct (match left_to_send _ with Some _ => _ | None => _ end); [discriminate|].
      apply c14_bind_ok in H. destruct H as (r & _ & H). destruct r as [[w u] o].
      inversion H; subst; clear H. exact H1.
    + inversion H; subst; clear H. exact H1.
Qed.

Lemma direct_write_req c amount c' : call_direct_write c amount = Ok c' -> c_req c' = c_req c.
Proof.
  unfold call_direct_write. destruct (left_to_send _); [|discriminate].
  destruct (_ <? _); [discriminate|]. intros H.
  apply c14_bind_ok in H. destruct H as (w & _ & H). inversion H; subst. reflexivity.
Qed.

Lemma into_receive_req c c' : into_receive c = Ok c' -> c_req c' = c_req c.
Proof. unfold into_receive. destruct (w_ended _); [|discriminate]. intros H. inversion H; subst. reflexivity. Qed.

Lemma try_response_req c input c' got : call_try_response c input = Ok (c', got) -> c_req c' = c_req c.
Proof.
  unfold call_try_response. intros H.
  apply c14_bind_ok in H. destruct H as (first & _ & H).
  apply c14_bind_ok in H. destruct H as (g & _ & H).
  destruct g as [[used r]|]; [|inversion H; subst; reflexivity].
  destruct (rs_status r =? 100).
  - destruct (rs_headers r); [|discriminate]. inversion H; subst. reflexivity.
  - destruct (match hm_get _ _ with Some _ => _ | None => _ end); [discriminate|].
    apply c14_bind_ok in H. destruct H as (rd & _ & H). inversion H; subst. reflexivity.
Qed.

Lemma call_read_req c input cap c' i o : call_read c input cap = Ok (c', i, o) -> c_req c' = c_req c.
Proof.
  unfold call_read. destruct (c_reader c) as [r|]; [|discriminate].
  destruct (reader_is_ended r); [intros H; inversion H; subst; reflexivity|].
  intros H. apply c14_bind_ok in H. destruct H as (x & _ & H). destruct x as [[r' i'] o'].
  inversion H; subst. reflexivity.
Qed.

(* ------------------------------------------------------------------ one lemma per operation *)

Lemma prepare_header_keeps f k v f' : prepare_header f k v = Ok f' -> keeps f f'.
Proof.
  unfold prepare_header. intros H. apply c14_bind_ok in H. destruct H as (a & Ha & H).
  inversion H; subst; clear H. unfold keeps. cbn [set_call i_call set_req c_req].
  eapply set_header_same; eauto.
Qed.

Lemma despite_keeps f f' : send_body_despite_method f = Ok f' -> keeps f f'.
Proof.
  unfold send_body_despite_method. destruct (i_holder f).
  - intros H. apply c14_bind_ok in H. destruct H as (c & Hc & H). inversion H; subst; clear H.
    unfold into_send_body in Hc. destruct (c_analyzed _); [discriminate|]. inversion Hc; subst.
    apply keeps_call. reflexivity.
  - intros H; inversion H; subst. apply keeps_call. reflexivity.
  - intros H; inversion H; subst. apply keeps_call. reflexivity.
  - intros H; inversion H; subst. apply keeps_call. reflexivity.
Qed.

Lemma send_request_write_keeps f cap f' out : send_request_write f cap = Ok (f', out) -> keeps f f'.
Proof.
  unfold send_request_write. destruct (i_holder f); try discriminate.
  - intros H. apply c14_bind_ok in H. destruct H as ([c o] & Hc & H). inversion H; subst; clear H.
    unfold keeps. cbn [set_call i_call fst]. eapply write_nobody_same; eauto.
  - destruct (is_body _); [intros H; inversion H; subst; apply keeps_refl|].
    intros H. apply c14_bind_ok in H. destruct H as ([[c u] o] & Hc & H). inversion H; subst; clear H.
    unfold keeps. cbn [set_call i_call]. eapply write_body_same; eauto.
Qed.

Lemma send_request_proceed_keeps f t f' : send_request_proceed f = Ok (Some (t, f')) -> keeps f f'.
Proof.
  unfold send_request_proceed. intros H. apply c14_bind_ok in H. destruct H as (ok & _ & H).
  destruct (negb ok); [discriminate|].
  destruct (i_should_send_body f).
  - destruct (i_await_100 f); [inversion H; subst; apply keeps_refl|].
    apply c14_bind_ok in H. destruct H as (c & Hc & H). inversion H; subst; clear H.
    unfold keeps. cbn [set_call i_call]. apply analyze_request_same. exact Hc.
  - destruct (i_holder f); try discriminate.
    destruct (into_receive (i_call f)) as [c| |] eqn:Hc; try discriminate.
    inversion H; subst; clear H. apply keeps_call. cbn [set_call_holder i_call].
    apply into_receive_req. exact Hc.
Qed.

Lemma refuse_call f f' : refuse f = Ok f' -> i_call f' = i_call f.
Proof.
  unfold refuse. intros H. apply c14_bind_ok in H. destruct H as (rs & _ & H).
  inversion H; subst. reflexivity.
Qed.

Lemma try_read_100_keeps f input f' r : try_read_100 f input = (f', r) -> keeps f f'.
Proof.
  unfold try_read_100.
  assert (R : forall g x, match refuse f with
                          | Ok f1 => (f1, Ok 0)
                          | Err e => (f, Err e)
                          | Panic s => (f, Panic s)
                          end = (g, x) -> keeps f g).
  { intros g x. destruct (refuse f) as [f1| |] eqn:Hr; intros H; inversion H; subst.
    - apply keeps_call. rewrite (refuse_call _ _ Hr). reflexivity.
    - apply keeps_refl.
    - apply keeps_refl. }
  destruct (try_parse_response 0 input) as [[[used rsp]|]|e|s].
  - destruct (rs_status rsp =? 100).
    + destruct (i_should_send_body f); intros H; inversion H; subst; apply keeps_call; reflexivity.
    + apply R.
  - intros H; inversion H; subst. apply keeps_refl.
  - destruct e; try (intros H; inversion H; subst; apply keeps_call; reflexivity). apply R.
  - intros H; inversion H; subst. apply keeps_refl.
Qed.

Lemma await_100_proceed_keeps f t f' : await_100_proceed f = Ok (t, f') -> keeps f f'.
Proof.
  unfold await_100_proceed. destruct (i_should_send_body f).
  - intros H. apply c14_bind_ok in H. destruct H as (c & Hc & H). inversion H; subst; clear H.
    unfold keeps. cbn [set_call i_call]. apply analyze_request_same. exact Hc.
  - destruct (i_holder f); try discriminate. intros H; inversion H; subst. apply keeps_call. reflexivity.
Qed.

Lemma as_with_body_call f c : as_with_body f = Ok c -> c = i_call f.
Proof. unfold as_with_body. destruct (i_holder f); try discriminate. intros H; inversion H; reflexivity. Qed.

Lemma send_body_write_keeps f input cap f' used out :
  send_body_write f input cap = Ok (f', used, out) -> keeps f f'.
Proof.
  unfold send_body_write. intros H. apply c14_bind_ok in H. destruct H as (c & Hc & H).
  apply as_with_body_call in Hc. subst c.
  apply c14_bind_ok in H. destruct H as ([[c' u] o] & Hw & H). inversion H; subst; clear H.
  unfold keeps. cbn [set_call i_call]. eapply write_body_same; eauto.
Qed.

Lemma send_body_direct_keeps f amount f' : send_body_direct f amount = Ok f' -> keeps f f'.
Proof.
  unfold send_body_direct. intros H. apply c14_bind_ok in H. destruct H as (c & Hc & H).
  apply as_with_body_call in Hc. subst c.
  apply c14_bind_ok in H. destruct H as (c' & Hw & H). inversion H; subst; clear H.
  apply keeps_call. cbn [set_call i_call]. eapply direct_write_req; eauto.
Qed.

Lemma send_body_proceed_keeps f t f' : send_body_proceed f = Ok (Some (t, f')) -> keeps f f'.
Proof.
  unfold send_body_proceed. intros H. apply c14_bind_ok in H. destruct H as (ok & _ & H).
  destruct (negb ok); [discriminate|].
  destruct (into_receive (i_call f)) as [c| |] eqn:Hc; try discriminate.
  inversion H; subst; clear H. apply keeps_call. cbn [set_call_holder i_call].
  apply into_receive_req. exact Hc.
Qed.

Lemma as_recv_response_call f c : as_recv_response f = Ok c -> c = i_call f.
Proof. unfold as_recv_response. destruct (i_holder f); try discriminate. intros H; inversion H; reflexivity. Qed.

Lemma recv_try_response_keeps f input f' used got :
  recv_try_response f input = Ok (f', used, got) -> keeps f f'.
Proof.
  unfold recv_try_response. intros H. apply c14_bind_ok in H. destruct H as (c & Hc & H).
  apply as_recv_response_call in Hc. subst c.
  apply c14_bind_ok in H. destruct H as ([c' g] & Hr & H).
  apply try_response_req in Hr.
  destruct g as [[u rsp]|].
  - destruct (_ && _).
    + inversion H; subst; clear H. apply keeps_call. cbn [set_await set_call i_call]. exact Hr.
    + apply c14_bind_ok in H. destruct H as (rs & _ & H). inversion H; subst; clear H.
      apply keeps_call. cbn [set_call i_call]. exact Hr.
  - inversion H; subst; clear H. apply keeps_call. cbn [set_call i_call]. exact Hr.
Qed.

Lemma recv_response_proceed_keeps f t f' : recv_response_proceed f = Ok (Some (t, f')) -> keeps f f'.
Proof.
  unfold recv_response_proceed. intros H. apply c14_bind_ok in H. destruct H as (ok & _ & H).
  destruct (negb ok); [discriminate|].
  destruct (need_response_body (i_call f)).
  - apply c14_bind_ok in H. destruct H as (rs & _ & H). inversion H; subst; clear H.
    apply keeps_call. reflexivity.
  - inversion H; subst; clear H. apply keeps_call. reflexivity.
Qed.

Lemma as_recv_body_call f c : as_recv_body f = Ok c -> c = i_call f.
Proof. unfold as_recv_body. destruct (i_holder f); try discriminate. intros H; inversion H; reflexivity. Qed.

Lemma recv_body_read_keeps f input cap f' i o : recv_body_read f input cap = Ok (f', i, o) -> keeps f f'.
Proof.
  unfold recv_body_read. intros H. apply c14_bind_ok in H. destruct H as (c & Hc & H).
  apply as_recv_body_call in Hc. subst c.
  apply c14_bind_ok in H. destruct H as ([[c' i'] o'] & Hr & H). inversion H; subst; clear H.
  apply keeps_call. cbn [set_call i_call]. eapply call_read_req; eauto.
Qed.

Lemma recv_body_stop_keeps f b f' : recv_body_stop f b = Ok f' -> keeps f f'.
Proof.
  unfold recv_body_stop. intros H. apply c14_bind_ok in H. destruct H as (c & Hc & H).
  apply as_recv_body_call in Hc. subst c. inversion H; subst. apply keeps_call. reflexivity.
Qed.

Lemma recv_body_proceed_keeps f t f' : recv_body_proceed f = Ok (Some (t, f')) -> keeps f f'.
Proof.
  unfold recv_body_proceed. intros H. apply c14_bind_ok in H. destruct H as (ok & _ & H).
  destruct (negb ok); [discriminate|]. inversion H; subst. apply keeps_refl.
Qed.

(* ------------------------------------------------------------------ histories *)

(** A failed body read: the caller keeps its flow, but the chunked decoder inside it was mutated in
    place and stays in the state it had reached ([recv_body_after_err], Flow.v; proofs/AfterErr.v).
    The request is untouched. *)
Lemma recv_body_after_err_keeps f input cap : keeps f (recv_body_after_err f input cap).
Proof. apply keeps_call. apply recv_body_after_err_req. Qed.

(** One operation of the flow API between Prepare and Redirect, with any arguments, in any state
    (the relation over-approximates the type-state discipline of the Rust API).  A failed operation
    leaves the flow as it was, except a failed body read ([st_read_err]). *)
Inductive flow_step : inner -> inner -> Prop :=
| st_header f k v f' : prepare_header f k v = Ok f' -> flow_step f f'
| st_despite f f' : send_body_despite_method f = Ok f' -> flow_step f f'
| st_write_head f cap f' out : send_request_write f cap = Ok (f', out) -> flow_step f f'
| st_send_request_proceed f t f' : send_request_proceed f = Ok (Some (t, f')) -> flow_step f f'
| st_try_100 f input f' r : try_read_100 f input = (f', r) -> flow_step f f'
| st_await_proceed f t f' : await_100_proceed f = Ok (t, f') -> flow_step f f'
| st_write_body f input cap f' used out : send_body_write f input cap = Ok (f', used, out) -> flow_step f f'
| st_direct f amount f' : send_body_direct f amount = Ok f' -> flow_step f f'
| st_send_body_proceed f t f' : send_body_proceed f = Ok (Some (t, f')) -> flow_step f f'
| st_try_response f input f' used got : recv_try_response f input = Ok (f', used, got) -> flow_step f f'
| st_recv_response_proceed f t f' : recv_response_proceed f = Ok (Some (t, f')) -> flow_step f f'
| st_read f input cap f' i o : recv_body_read f input cap = Ok (f', i, o) -> flow_step f f'
| st_read_err f input cap e : recv_body_read f input cap = Err e -> flow_step f (recv_body_after_err f input cap)
| st_stop f b f' : recv_body_stop f b = Ok f' -> flow_step f f'
| st_recv_body_proceed f t f' : recv_body_proceed f = Ok (Some (t, f')) -> flow_step f f'.

Inductive flow_steps : inner -> inner -> Prop :=
| fs_refl f : flow_steps f f
| fs_cons f f1 f2 : flow_step f f1 -> flow_steps f1 f2 -> flow_steps f f2.

Lemma flow_step_keeps f f' : flow_step f f' -> keeps f f'.
Proof.
  intros H. destruct H.
  - eapply prepare_header_keeps; eauto.
  - eapply despite_keeps; eauto.
  - eapply send_request_write_keeps; eauto.
  - eapply send_request_proceed_keeps; eauto.
  - eapply try_read_100_keeps; eauto.
  - eapply await_100_proceed_keeps; eauto.
  - eapply send_body_write_keeps; eauto.
  - eapply send_body_direct_keeps; eauto.
  - eapply send_body_proceed_keeps; eauto.
  - eapply recv_try_response_keeps; eauto.
  - eapply recv_response_proceed_keeps; eauto.
  - eapply recv_body_read_keeps; eauto.
  - apply recv_body_after_err_keeps.
  - eapply recv_body_stop_keeps; eauto.
  - eapply recv_body_proceed_keeps; eauto.
Qed.

Lemma flow_steps_keeps f f' : flow_steps f f' -> keeps f f'.
Proof.
  induction 1 as [f|f f1 f2 H1 _ IH]; [apply keeps_refl|].
  eapply keeps_trans; [apply flow_step_keeps; exact H1|exact IH].
Qed.

Lemma flow_steps_cur_uri f f' : flow_steps f f' -> cur_uri f' = cur_uri f.
Proof. intros H. apply keeps_cur_uri, flow_steps_keeps, H. Qed.

Lemma flow_steps_trans f g h : flow_steps f g -> flow_steps g h -> flow_steps f h.
Proof. induction 1; [auto|]. intros H2. econstructor; eauto. Qed.

Lemma flow_steps_one f g : flow_step f g -> flow_steps f g.
Proof. intros H. econstructor; [exact H|constructor]. Qed.

Lemma flow_step_def f f' :
  flow_step f f' <->
  (exists k v, prepare_header f k v = Ok f') \/
  send_body_despite_method f = Ok f' \/
  (exists cap out, send_request_write f cap = Ok (f', out)) \/
  (exists t, send_request_proceed f = Ok (Some (t, f'))) \/
  (exists input r, try_read_100 f input = (f', r)) \/
  (exists t, await_100_proceed f = Ok (t, f')) \/
  (exists input cap used out, send_body_write f input cap = Ok (f', used, out)) \/
  (exists amount, send_body_direct f amount = Ok f') \/
  (exists t, send_body_proceed f = Ok (Some (t, f'))) \/
  (exists input used got, recv_try_response f input = Ok (f', used, got)) \/
  (exists t, recv_response_proceed f = Ok (Some (t, f'))) \/
  (exists input cap i o, recv_body_read f input cap = Ok (f', i, o)) \/
  (exists input cap e, recv_body_read f input cap = Err e /\ f' = recv_body_after_err f input cap) \/
  (exists b, recv_body_stop f b = Ok f') \/
  (exists t, recv_body_proceed f = Ok (Some (t, f'))).
Proof.
  split.
  - intros H. destruct H; eauto 25.
  - intros H.
    repeat (destruct H as [H|H];
            [repeat match type of H with ex _ => destruct H as [? H] end;
             match type of H with _ /\ _ => destruct H as [H ->] | _ => idtac end;
             econstructor; eassumption|]).
    destruct H as [t H]. eapply st_recv_body_proceed; eassumption.
Qed.

Lemma flow_steps_def f f' :
  flow_steps f f' <-> f' = f \/ exists f1, flow_step f f1 /\ flow_steps f1 f'.
Proof.
  split.
  - intros H. destruct H; [left; reflexivity|right; eauto].
  - intros [->|(f1 & H1 & H2)]; [constructor|econstructor; eauto].
Qed.

(* ------------------------------------------------------------------ as_new_flow *)

(** The headers a followed redirect suppresses. *)
Definition redirect_unset (keep_auth : bool) : list bytes :=
  (if keep_auth then [] else [s2b "authorization"]) ++ [s2b "cookie"; s2b "content-length"].

Definition keep_auth_of (policy : auth_policy) (orig_uri target : uri) : bool :=
  match policy with Never => false | SameHost => can_redirect_auth_header orig_uri target end.

(** The request of the next hop: everything of the original but the method. *)
Definition with_method (r : request) (m : method) : request :=
  {| rq_method := m; rq_version := rq_version r; rq_uri := rq_uri r; rq_headers := rq_headers r |}.

Lemma unset_three {B} a0 (keep : bool) (K : amended -> res B) :
  am_unset a0 = [] ->
  (do a1 <- (if keep then Ok a0 else am_unset_header a0 (s2b "authorization"));
   do a2 <- am_unset_header a1 (s2b "cookie");
   do a3 <- am_unset_header a2 (s2b "content-length");
   K a3) =
  K {| am_req := am_req a0; am_uri := am_uri a0; am_added := am_added a0;
       am_unset := redirect_unset keep |}.
Proof.
  intros H. destruct a0 as [r u ad un]. cbn [am_unset] in H. subst un.
  destruct keep; reflexivity.
Qed.

Lemma as_new_flow_inv f p f' next :
  as_new_flow f p = Ok (f', Some next) ->
  exists loc status target orig nm next0,
    i_location f = Some loc /\ is_text loc = true /\ i_status f = Some status /\
    u_scheme (cur_uri f) <> [] /\
    resolve (cur_uri f) loc = Some target /\
    am_req (c_req (i_call f)) = Some orig /\
    flow_new (with_method orig nm) = Ok next0 /\
    next = set_call next0 (set_req (i_call next0)
             {| am_req := Some (with_method orig nm); am_uri := Some target; am_added := [];
                am_unset := redirect_unset (keep_auth_of p (rq_uri orig) target) |}).
Proof.
  unfold as_new_flow. fold (cur_uri f).
  destruct (i_location f) as [loc|]; [|discriminate].
  destruct (is_text loc) eqn:Ht; cbn [negb]; [|discriminate].
  destruct (i_status f) as [status|]; [|discriminate].
  destruct (u_scheme (cur_uri f)) as [|s0 s1] eqn:Hs; [discriminate|].
  destruct (resolve (cur_uri f) loc) as [target|] eqn:Hres; [|discriminate].
  match goal with |- match ?x with Some _ => _ | None => _ end = _ -> _ => destruct x as [nm|] end;
    [|discriminate].
  destruct (am_req (c_req (i_call f))) as [orig|]; [|discriminate].
  fold (with_method orig nm). fold (keep_auth_of p (rq_uri orig) target).
  intros H. apply c14_bind_ok in H. destruct H as (next0 & Hn & H).
  destruct (flow_new_fresh _ _ Hn) as (_ & Hreq & _).
  rewrite unset_three in H by (rewrite Hreq; reflexivity).
  cbn [bind] in H. inversion H; subst; clear H.
  exists loc, status, target, orig, nm, next0.
  repeat split; try assumption; try discriminate.
  cbn [am_set_uri am_req am_uri am_added]. rewrite Hreq. reflexivity.
Qed.

(** A followed redirect is resolved against the URI of the request just made. *)
Lemma as_new_flow_uri f p f' next :
  as_new_flow f p = Ok (f', Some next) ->
  exists loc target,
    i_location f = Some loc /\ resolve (cur_uri f) loc = Some target /\ cur_uri next = target.
Proof.
  intros H. destruct (as_new_flow_inv _ _ _ _ H) as (loc & st & target & orig & nm & n0 & Hl & _ & _ & _ & Hr & _ & _ & ->).
  exists loc, target. repeat split; assumption.
Qed.

(* ------------------------------------------------------------------ chains *)

Definition resolve_opt (acc : option uri) (loc : bytes) : option uri :=
  match acc with Some u => resolve u loc | None => None end.

(** [redirect_chain f locs fin]: starting from [f], the responses carried the (selected) Locations
    [locs], each redirect was followed, and [fin] is the flow of the last hop; any operations in
    between. *)
Inductive redirect_chain : inner -> list bytes -> inner -> Prop :=
| rc_done f f' : flow_steps f f' -> redirect_chain f [] f'
| rc_hop f f1 f1' p loc next locs fin :
    flow_steps f f1 -> i_location f1 = Some loc -> as_new_flow f1 p = Ok (f1', Some next) ->
    redirect_chain next locs fin -> redirect_chain f (loc :: locs) fin.

Lemma chain_uri f locs fin :
  redirect_chain f locs fin -> fold_left resolve_opt locs (Some (cur_uri f)) = Some (cur_uri fin).
Proof.
  induction 1 as [f f' Hs|f f1 f1' p loc next locs fin Hs Hl Ha _ IH].
  - cbn [fold_left]. rewrite (flow_steps_cur_uri _ _ Hs). reflexivity.
  - cbn [fold_left resolve_opt].
    destruct (as_new_flow_uri _ _ _ _ Ha) as (loc' & target & Hl' & Hr & Hu).
    assert (loc' = loc) by congruence. subst loc'.
    rewrite <- (flow_steps_cur_uri _ _ Hs), Hr, <- Hu. exact IH.
Qed.

Lemma redirect_chain_def f locs fin :
  redirect_chain f locs fin <->
  match locs with
  | [] => flow_steps f fin
  | loc :: rest =>
      exists f1 f1' p next,
        flow_steps f f1 /\ i_location f1 = Some loc /\ as_new_flow f1 p = Ok (f1', Some next) /\
        redirect_chain next rest fin
  end.
Proof.
  split.
  - intros H. destruct H; [assumption|]. eauto 10.
  - destruct locs as [|loc rest].
    + intros H. constructor. exact H.
    + intros (f1 & f1' & p & next & H1 & H2 & H3 & H4). econstructor; eauto.
Qed.

(* ------------------------------------------------------------------ which Location *)

Lemma try_response_location f input f' used rsp :
  recv_try_response f input = Ok (f', used, Some rsp) ->
  i_location f' = last_opt (hm_get_all (rs_headers rsp) (s2b "location")) /\
  i_status f' = Some (rs_status rsp).
Proof.
  unfold recv_try_response. intros H. apply c14_bind_ok in H. destruct H as (c & _ & H).
  apply c14_bind_ok in H. destruct H as ([c' g] & _ & H).
  destruct g as [[u r]|]; [|discriminate].
  destruct (_ && _); [discriminate|].
  apply c14_bind_ok in H. destruct H as (rs & _ & H). inversion H; subst; clear H.
  split; reflexivity.
Qed.

Lemma last_opt_none {A} (l : list A) : last_opt l = None <-> l = [].
Proof. destruct l; cbn [last_opt]; split; intros H; try reflexivity; discriminate. Qed.

Lemma last_opt_snoc {A} (l : list A) x : last_opt (l ++ [x]) = Some x.
Proof.
  destruct l as [|y l]; [reflexivity|]. cbn [app last_opt]. f_equal. apply last_last.
Qed.

(* ------------------------------------------------------------------ errors, no panic *)

Lemma as_new_flow_no_location f p : i_location f = None -> as_new_flow f p = Err NoLocationHeader.
Proof. intros H. unfold as_new_flow. rewrite H. reflexivity. Qed.

Lemma as_new_flow_not_text f p loc :
  i_location f = Some loc -> is_text loc = false -> as_new_flow f p = Err BadLocationHeader.
Proof. intros H Ht. unfold as_new_flow. rewrite H, Ht. reflexivity. Qed.

Lemma as_new_flow_unresolvable f p loc :
  i_location f = Some loc -> i_status f <> None -> u_scheme (cur_uri f) <> [] ->
  resolve (cur_uri f) loc = None -> as_new_flow f p = Err BadLocationHeader.
Proof.
  intros H Hs Hu Hr. unfold as_new_flow. fold (cur_uri f). rewrite H.
  destruct (is_text loc); cbn [negb]; [|reflexivity].
  destruct (i_status f); [|congruence].
  destruct (u_scheme (cur_uri f)); [congruence|]. rewrite Hr. reflexivity.
Qed.

(** The state a flow is in when it reaches Redirect for the first time. *)
Definition redirect_ready (f : inner) : Prop :=
  i_status f <> None /\ am_req (c_req (i_call f)) <> None /\ u_scheme (cur_uri f) <> [].

(** Complete case analysis of [as_new_flow] in that state, for every Location value. *)
Lemma as_new_flow_outcomes f p :
  redirect_ready f ->
  (i_location f = None /\ as_new_flow f p = Err NoLocationHeader) \/
  (exists loc, i_location f = Some loc /\
     ((is_text loc = false \/ resolve (cur_uri f) loc = None) /\ as_new_flow f p = Err BadLocationHeader
      \/ is_text loc = true /\ exists target, resolve (cur_uri f) loc = Some target /\
           (as_new_flow f p = Ok (f, None) \/
            exists f' next, as_new_flow f p = Ok (f', Some next) /\ cur_uri next = target))).
Proof.
  intros (Hs & Hq & Hu). unfold as_new_flow. fold (cur_uri f).
  destruct (i_location f) as [loc|]; [right; exists loc; split; [reflexivity|]|left; split; reflexivity].
  destruct (is_text loc) eqn:Ht; cbn [negb]; [|left; split; [left; reflexivity|reflexivity]].
  destruct (i_status f) as [status|]; [|congruence].
  destruct (u_scheme (cur_uri f)) as [|s0 s1]; [congruence|].
  destruct (resolve (cur_uri f) loc) as [target|]; [|left; split; [right; reflexivity|reflexivity]].
  right. split; [reflexivity|]. exists target. split; [reflexivity|].
  match goal with |- match ?x with Some _ => _ | None => _ end = _ \/ _ => destruct x as [nm|] end;
    [|left; reflexivity].
  destruct (am_req (c_req (i_call f))) as [orig|]; [|congruence].
  right. fold (with_method orig nm). fold (keep_auth_of p (rq_uri orig) target).
  destruct (flow_new_ok (with_method orig nm)) as (rs & Hn). rewrite Hn. cbn [bind].
  rewrite unset_three by reflexivity. cbn [bind].
  eexists. eexists. split; [reflexivity|]. reflexivity.
Qed.

Lemma as_new_flow_no_panic f p site : redirect_ready f -> as_new_flow f p <> Panic site.
Proof.
  intros Hr.
  destruct (as_new_flow_outcomes f p Hr) as [[_ H]|(loc & _ & [[_ H]|(_ & t & _ & [H|(f' & n & H & _)])])];
    rewrite H; discriminate.
Qed.

(** The Redirect state is only entered with a status. *)
Lemma recv_response_proceed_status f f' :
  recv_response_proceed f = Ok (Some (TRedirect, f')) -> i_status f' <> None.
Proof.
  unfold recv_response_proceed. intros H. apply c14_bind_ok in H. destruct H as (ok & _ & H).
  destruct (negb ok); [discriminate|].
  destruct (need_response_body (i_call f)).
  - apply c14_bind_ok in H. destruct H as (rs & _ & H). inversion H.
  - destruct (is_redirect _) eqn:Hr; inversion H; subst; clear H.
    unfold is_redirect in Hr. cbn [set_call_holder i_status] in *.
    destruct (i_status f); [discriminate|discriminate].
Qed.

Lemma recv_body_proceed_status f f' :
  recv_body_proceed f = Ok (Some (TRedirect, f')) -> i_status f' <> None.
Proof.
  unfold recv_body_proceed. intros H. apply c14_bind_ok in H. destruct H as (ok & _ & H).
  destruct (negb ok); [discriminate|].
  destruct (is_redirect f) eqn:Hr; inversion H; subst; clear H.
  unfold is_redirect in Hr. destruct (i_status f'); [discriminate|discriminate].
Qed.

(** The URI a resolution produces has a scheme, an authority and a path-and-query. *)
Lemma norm_auth_nonempty s a x : norm_auth s a = Some x -> x <> [].
Proof.
  unfold norm_auth. destruct (lower (until 58 a)) as [|h t] eqn:E; [discriminate|].
  destruct (after 58 a); [|intros H; inversion H; discriminate].
  destruct (parse_port _) as [[n|]|]; [| |discriminate].
  - destruct (default_port s) as [d|]; [destruct (n =? d)|]; intros H; inversion H; discriminate.
  - intros H; inversion H; discriminate.
Qed.

Lemma resolve_auth_nonempty base loc t : resolve base loc = Some t -> u_auth t <> [].
Proof.
  unfold resolve. destruct (match r_scheme (parse_ref loc) with Some _ => _ | None => _ end) as [[[sch au] pa] qu].
  destruct (norm_auth sch au) as [a|] eqn:E; [|discriminate].
  intros H; inversion H; subst. cbn [u_auth]. eapply norm_auth_nonempty; eauto.
Qed.

Lemma mk_pq_nonempty p q : mk_pq p q <> [].
Proof. unfold mk_pq. destruct p; discriminate. Qed.

Lemma resolve_pq_nonempty base loc t : resolve base loc = Some t -> u_pq t <> [].
Proof.
  unfold resolve. destruct (match r_scheme (parse_ref loc) with Some _ => _ | None => _ end) as [[[sch au] pa] qu].
  destruct (norm_auth sch au) as [a|]; [|discriminate].
  intros H; inversion H; subst. cbn [u_pq]. apply mk_pq_nonempty.
Qed.

(** The scanning loop of [split_scheme]. *)
Definition scheme_go :=
  fix go (l acc : bytes) : option (bytes * bytes) :=
    match l with
    | [] => None
    | b :: t => if b =? 58 then Some (rev acc, t)
                else if is_scheme_char b then go t (b :: acc) else None
    end.

Lemma split_scheme_unfold s :
  split_scheme s = match s with
                   | [] => None
                   | c :: _ => if negb (is_alpha c) then None else scheme_go s []
                   end.
Proof. reflexivity. Qed.

Lemma scheme_go_spec l : forall acc a r,
  scheme_go l acc = Some (a, r) <->
  exists m, a = rev acc ++ m /\ l = m ++ 58 :: r /\ forallb is_scheme_char m = true.
Proof.
  induction l as [|b t IH]; intros acc a r.
  - cbn [scheme_go]. split; [discriminate|]. intros (m & _ & H & _). destruct m; discriminate.
  - cbn [scheme_go]. fold scheme_go. destruct (N.eqb_spec b 58) as [E|E].
    + subst b. split.
      * intros H. inversion H; subst. exists []. rewrite app_nil_r. repeat split.
      * intros (m & Ha & Hl & Hm). destruct m as [|x m].
        -- cbn [app] in Hl. inversion Hl; subst. rewrite app_nil_r. reflexivity.
        -- cbn [app] in Hl. inversion Hl; subst. cbn [forallb] in Hm.
           apply andb_prop in Hm. destruct Hm as [Hm _]. vm_compute in Hm. discriminate.
    + destruct (is_scheme_char b) eqn:Hb.
      * rewrite IH. split.
        -- intros (m & Ha & Hl & Hm). exists (b :: m). cbn [rev] in Ha. rewrite <- app_assoc in Ha.
           cbn [app forallb]. rewrite Hb, Hm. subst. repeat split.
        -- intros (m & Ha & Hl & Hm). destruct m as [|x m]; cbn [app] in Hl; inversion Hl; subst; [congruence|].
           exists m. cbn [forallb] in Hm. apply andb_prop in Hm. destruct Hm as [_ Hm].
           cbn [rev]. rewrite <- app_assoc. repeat split; assumption.
      * split; [discriminate|]. intros (m & Ha & Hl & Hm).
        destruct m as [|x m]; cbn [app] in Hl; inversion Hl; subst; [congruence|].
        cbn [forallb] in Hm. rewrite Hb in Hm. discriminate.
Qed.

Lemma alpha_scheme_char c : is_alpha c = true -> is_scheme_char c = true.
Proof. intros H. unfold is_scheme_char. rewrite H. reflexivity. Qed.

(** [split_scheme s = Some (a, r)] iff [s] = [a] ":" [r] with [a] a scheme per RFC 3986 3.1. *)
Lemma split_scheme_spec s a r :
  split_scheme s = Some (a, r) <->
  s = a ++ 58 :: r /\ forallb is_scheme_char a = true /\
  match a with c :: _ => is_alpha c = true | [] => False end.
Proof.
  rewrite split_scheme_unfold. destruct s as [|c t].
  - split; [discriminate|]. intros (H & _). destruct a; discriminate.
  - destruct (is_alpha c) eqn:Hc; cbn [negb].
    + rewrite scheme_go_spec. cbn [rev app]. split.
      * intros (m & -> & Hl & Hm). split; [exact Hl|]. split; [exact Hm|].
        destruct m as [|x m]; cbn [app] in Hl; inversion Hl; subst; [discriminate|exact Hc].
      * intros (Hl & Hm & _). exists a. auto.
    + split; [discriminate|]. intros (Hl & _ & Ha). destruct a as [|x a]; [contradiction|].
      cbn [app] in Hl. inversion Hl; subst. congruence.
Qed.

Lemma lower_nonempty s : s <> [] -> lower s <> [].
Proof. destruct s; [congruence|discriminate]. Qed.

(** [resolve] with the three-way test on the reference's path spelled with booleans. *)
Definition starts_slash (p : bytes) : bool := match p with b :: _ => b =? 47 | [] => false end.

Definition resolve_parts (base : uri) (r : ref) : bytes * bytes * bytes * option bytes :=
  let bscheme := lower (u_scheme base) in
  let bpath := match uri_path base with [] => [47] | p => p end in
  match r_scheme r with
  | Some s => (lower s, match r_auth r with Some a => a | None => [] end,
               remove_dot_segments (r_path r), r_query r)
  | None =>
      match r_auth r with
      | Some a => (bscheme, a, remove_dot_segments (r_path r), r_query r)
      | None =>
          match r_path r with
          | [] => (bscheme, u_auth base, remove_dot_segments bpath,
                   match r_query r with Some q => Some q | None => uri_query base end)
          | _ => if starts_slash (r_path r)
                 then (bscheme, u_auth base, remove_dot_segments (r_path r), r_query r)
                 else (bscheme, u_auth base, remove_dot_segments (merge bpath (r_path r)), r_query r)
          end
      end
  end.

Lemma resolve_eq base loc :
  resolve base loc =
    let '(scheme, auth, path, query) := resolve_parts base (parse_ref loc) in
    match norm_auth scheme auth with
    | None => None
    | Some a => Some {| u_scheme := scheme; u_auth := a; u_pq := mk_pq path query |}
    end.
Proof.
  unfold resolve, resolve_parts.
  destruct (r_scheme (parse_ref loc)); [reflexivity|].
  destruct (r_auth (parse_ref loc)); [reflexivity|].
  destruct (r_path (parse_ref loc)) as [|x y]; [reflexivity|].
  destruct x as [|p]; [reflexivity|].
  do 6 (destruct p as [p|p|]; try reflexivity).
Qed.

Lemma parse_ref_scheme_nonempty loc s : r_scheme (parse_ref loc) = Some s -> s <> [].
Proof.
  unfold parse_ref. destruct (split_scheme (until 35 loc)) as [[s' r]|] eqn:E.
  - destruct (match r with 47 :: 47 :: _ => _ | _ => _ end) as [au re]. cbn [r_scheme].
    intros H; inversion H; subst.
    apply split_scheme_spec in E. destruct E as (_ & _ & E). destruct s; [contradiction|discriminate].
  - destruct (match until 35 loc with 47 :: 47 :: _ => _ | _ => _ end) as [au re]. discriminate.
Qed.

Lemma resolve_scheme_nonempty base loc t :
  resolve base loc = Some t -> u_scheme base <> [] -> u_scheme t <> [].
Proof.
  rewrite resolve_eq. intros H Hb.
  assert (Hs : fst (fst (fst (resolve_parts base (parse_ref loc)))) <> []).
  { unfold resolve_parts.
    destruct (r_scheme (parse_ref loc)) as [s|] eqn:Es.
    - cbn [fst]. apply lower_nonempty. eapply parse_ref_scheme_nonempty; eauto.
    - destruct (r_auth (parse_ref loc)); [cbn [fst]; apply lower_nonempty, Hb|].
      destruct (r_path (parse_ref loc)); [cbn [fst]; apply lower_nonempty, Hb|].
      destruct (starts_slash _); cbn [fst]; apply lower_nonempty, Hb. }
  destruct (resolve_parts base (parse_ref loc)) as [[[sch au] pa] qu]. cbn [fst] in Hs.
  destruct (norm_auth sch au); [|discriminate]. inversion H; subst. exact Hs.
Qed.

(* ------------------------------------------------------------------ the next head *)

(** Any number of accepted [header()] calls in Prepare, none of them naming Host. *)
Inductive prepared : inner -> inner -> Prop :=
| prep_refl f : prepared f f
| prep_step f f1 f2 k v :
    prepared f f1 -> beq_bytes (lower k) (s2b "host") = false -> prepare_header f1 k v = Ok f2 ->
    prepared f f2.

Lemma prepared_def f g :
  prepared f g <->
  g = f \/ exists g1 k v, prepared f g1 /\ beq_bytes (lower k) (s2b "host") = false /\
                          prepare_header g1 k v = Ok g.
Proof.
  split.
  - intros H. destruct H; [left; reflexivity|right; eauto 10].
  - intros [->|(g1 & k & v & H1 & H2 & H3)]; [constructor|econstructor; eauto].
Qed.

Lemma get_all_filter_unset hs U k :
  mem_bytes k U = false ->
  get_all (filter (fun h => negb (mem_bytes (fst h) U)) hs) k = get_all hs k.
Proof.
  intros Hk. unfold get_all. induction hs as [|h t IH]; [reflexivity|].
  cbn [filter]. destruct (beq_bytes (fst h) k) eqn:E.
  - assert (Hm : mem_bytes (fst h) U = false).
    { apply beq_bytes_eq in E. rewrite E. exact Hk. }
    rewrite Hm. cbn [negb filter]. rewrite E. cbn [map]. rewrite IH. reflexivity.
  - destruct (negb _); cbn [filter]; rewrite ?E; exact IH.
Qed.

Lemma host_not_unset keep : mem_bytes (s2b "host") (redirect_unset keep) = false.
Proof. destruct keep; reflexivity. Qed.

(** State of a flow prepared from the flow a redirect produced. *)
Definition next_shape (req : request) (target : uri) (keep : bool) (f : inner) : Prop :=
  am_req (c_req (i_call f)) = Some req /\ am_uri (c_req (i_call f)) = Some target /\
  am_unset (c_req (i_call f)) = redirect_unset keep /\
  get_all (am_added (c_req (i_call f))) (s2b "host") = [] /\
  c_analyzed (i_call f) = false.

Lemma prepared_shape req target keep f0 f :
  next_shape req target keep f0 -> prepared f0 f -> next_shape req target keep f.
Proof.
  intros H0. induction 1 as [|f f1 f2 k v _ IH Hk Hp]; [exact H0|].
  specialize (IH H0). destruct IH as (A & B & C & D & E).
  unfold prepare_header in Hp. apply c14_bind_ok in Hp. destruct Hp as (a & Ha & Hp).
  inversion Hp; subst; clear Hp. unfold next_shape. cbn [set_call i_call set_req c_req c_analyzed].
  unfold am_set_header in Ha. destruct (negb _); [discriminate|]. destruct (_ <=? _); [discriminate|].
  inversion Ha; subst; clear Ha. cbn [am_req am_uri am_unset am_added].
  repeat split; try assumption.
  rewrite get_all_app, D. unfold get_all. cbn [app filter fst]. rewrite Hk. reflexivity.
Qed.

Lemma next_shape_hosts req target keep f :
  next_shape req target keep f ->
  hosts (c_req (i_call f)) = get_all (rq_headers req) (s2b "host").
Proof.
  intros (A & B & C & D & E). unfold hosts, field_values, am_headers, am_request.
  rewrite get_all_app, D, A, C. cbn [app]. apply get_all_filter_unset. apply host_not_unset.
Qed.

(** A successful analysis of a call that had not been analysed returns [analysed_call]. *)
Lemma set_header_ok_inv a k v a' :
  am_set_header a k v = Ok a' -> a' = with_added a [(lower k, v)].
Proof.
  unfold am_set_header. destruct (negb _); [discriminate|]. destruct (_ <=? _); [discriminate|].
  intros H; inversion H; reflexivity.
Qed.

Lemma analyze_request_ok_inv c c' :
  c_analyzed c = false -> analyze_request c = Ok c' ->
  call_invalid c = false /\ c' = analysed_call c.
Proof.
  intros Ha H. unfold analyze_request in H. rewrite Ha in H.
  unfold call_invalid.
  destruct (invalid (c_req c) (c_writer c) (c_skip c)) eqn:Hi.
  { destruct (analyze_invalid _ _ _ Hi) as (e & He & _). rewrite He in H. discriminate. }
  split; [reflexivity|].
  rewrite (analyze_valid _ _ _ Hi) in H. cbn [bind ri_host ri_mode ri_body_header] in H.
  apply c14_bind_ok in H. destruct H as (a1 & H1 & H).
  apply c14_bind_ok in H. destruct H as (a2 & H2 & H).
  inversion H; subst; clear H. unfold analysed_call. f_equal.
  set (a := c_req c) in *. set (w := c_writer c) in *.
  assert (E1 : a1 = with_added a (host_added a)).
  { unfold host_added. destruct (hosts a) as [|h t]; cbn [is_nonempty] in H1.
    - destruct (u_auth (am_eff_uri a)) as [|x y].
      + inversion H1; subst. symmetry. apply with_added_nil.
      + apply set_header_ok_inv in H1. exact H1.
    - inversion H1; subst. symmetry. apply with_added_nil. }
  subst a1. unfold framing_added.
  destruct (framing_present a) eqn:Hf; cbn [negb andb] in H2.
  - inversion H2; subst. rewrite app_nil_r. reflexivity.
  - destruct (valid_no_framing_mode _ _ _ Hi Hf) as [Hm _]. fold a w in Hm. rewrite Hm in H2.
    rewrite <- with_added_app.
    destruct (has_body w) eqn:Hb.
    + apply c14_bind_ok in H2. destruct H2 as (h & Hh & H2). apply set_header_ok_inv in H2.
      subst a2. f_equal. unfold framing_header. unfold body_header in Hh.
      destruct (w_mode w); [discriminate| |]; inversion Hh; subst; reflexivity.
    + inversion H2; subst. unfold framing_header. unfold has_body in Hb.
      destruct (w_mode w); try discriminate. rewrite with_added_nil. reflexivity.
Qed.

Lemma analysed_eff_uri c : am_eff_uri (c_req (analysed_call c)) = am_eff_uri (c_req c).
Proof. reflexivity. Qed.

Lemma as_new_flow_shape f p f' next :
  as_new_flow f p = Ok (f', Some next) ->
  exists orig nm keep,
    am_req (c_req (i_call f)) = Some orig /\
    next_shape (with_method orig nm) (cur_uri next) keep next.
Proof.
  intros H. destruct (as_new_flow_inv _ _ _ _ H)
    as (loc & st & target & orig & nm & n0 & _ & _ & _ & _ & _ & Hq & Hn & ->).
  exists orig, nm, (keep_auth_of p (rq_uri orig) target). split; [exact Hq|].
  destruct (flow_new_fresh _ _ Hn) as ([[Han _] _] & _).
  unfold next_shape. cbn. repeat split. exact Han.
Qed.

(** The head of the next hop: request line over the resolved URI; exactly one Host, naming the
    host of the resolved URI, provided the original request had no Host field of its own. *)
Lemma next_head f p f' next g c' :
  as_new_flow f p = Ok (f', Some next) -> prepared next g -> analyze_request (i_call g) = Ok c' ->
  let target := cur_uri next in
  prelude_line (c_req c') =
    method_name (am_method (c_req (i_call next))) ++ [32] ++ u_pq target ++ [32] ++
    version_name (am_version (c_req (i_call f))) ++ CRLF /\
  (get_all (rq_headers (am_request (c_req (i_call f)))) (s2b "host") = [] ->
   hosts (c_req c') = [uri_host target]).
Proof.
  intros H Hp Ha. cbv zeta.
  destruct (as_new_flow_uri _ _ _ _ H) as (loc & target & _ & Hr & Hu).
  destruct (as_new_flow_shape _ _ _ _ H) as (orig & nm & keep & Hq & Hs).
  pose proof (prepared_shape _ _ _ _ _ Hs Hp) as Hg.
  pose proof Hs as (A0 & B0 & _). pose proof Hg as (A & B & C & D & E).
  destruct (analyze_request_ok_inv _ _ E Ha) as (Hi & ->).
  assert (Heff : am_eff_uri (c_req (i_call g)) = cur_uri next).
  { unfold am_eff_uri. rewrite B. reflexivity. }
  split.
  - unfold prelude_line. rewrite analysed_eff_uri, Heff.
    assert (M : am_method (c_req (analysed_call (i_call g))) = am_method (c_req (i_call next))).
    { unfold am_method, am_request, analysed_call. cbn [c_req with_added am_req]. rewrite A, A0. reflexivity. }
    assert (V : am_version (c_req (analysed_call (i_call g))) = am_version (c_req (i_call f))).
    { unfold am_version, am_request, analysed_call. cbn [c_req with_added am_req]. rewrite A, Hq. reflexivity. }
    rewrite M, V. rewrite Hu.
    destruct (u_pq target) eqn:Epq; [|reflexivity].
    exfalso. eapply resolve_pq_nonempty; eauto.
  - intros Hh.
    assert (Hau : u_auth (am_eff_uri (c_req (i_call g))) <> []).
    { rewrite Heff, Hu. eapply resolve_auth_nonempty; eauto. }
    destruct (host_once _ Hi Hau) as (v & Hv & Hv1 & _).
    rewrite Hv. f_equal. rewrite <- Heff. apply Hv1.
    rewrite (next_shape_hosts _ _ _ _ Hg). cbn [with_method rq_headers].
    unfold am_request in Hh. rewrite Hq in Hh. exact Hh.
Qed.

(* ------------------------------------------------------------------ statements as exported *)

Lemma step_preserves f f' :
  flow_step f f' ->
  cur_uri f' = cur_uri f /\ am_req (c_req (i_call f')) = am_req (c_req (i_call f)) /\
  am_unset (c_req (i_call f')) = am_unset (c_req (i_call f)).
Proof.
  intros H. pose proof (flow_step_keeps _ _ H) as K. split; [apply keeps_cur_uri; exact K|].
  destruct K as (K1 & _ & K3). auto.
Qed.

Lemma last_location f input f' used rsp :
  recv_try_response f input = Ok (f', used, Some rsp) ->
  let ls := hm_get_all (rs_headers rsp) (s2b "location") in
  (ls = [] -> i_location f' = None) /\
  (forall l x, ls = l ++ [x] -> i_location f' = Some x) /\
  i_status f' = Some (rs_status rsp).
Proof.
  intros H. destruct (try_response_location _ _ _ _ _ H) as [Hl Hs].
  cbv zeta. rewrite Hl. split; [intros ->; reflexivity|]. split; [|exact Hs].
  intros l x ->. apply last_opt_snoc.
Qed.

Lemma next_wire f p f' next g c' :
  as_new_flow f p = Ok (f', Some next) -> prepared next g -> analyze_request (i_call g) = Ok c' ->
  let target := cur_uri next in
  let line := method_name (am_method (c_req (i_call next))) ++ [32] ++ u_pq target ++ [32] ++
              version_name (am_version (c_req (i_call f))) ++ CRLF in
  u_pq target <> [] /\
  prelude_line (c_req c') = line /\
  render_request_head (c_req c') = line ++ concat (map field_line (am_headers (c_req c'))) ++ CRLF /\
  (~ (get_all (rq_headers (am_request (c_req (i_call f)))) (s2b "host") <> []) ->
   get_all (am_headers (c_req c')) (s2b "host") = [uri_host target]).
Proof.
  intros H Hp Ha. cbv zeta.
  destruct (next_head _ _ _ _ _ _ H Hp Ha) as [H1 H2].
  split; [|split; [exact H1|split]].
  - destruct (as_new_flow_uri _ _ _ _ H) as (loc & t & _ & Hr & <-). eapply resolve_pq_nonempty; eauto.
  - rewrite render_flat, H1. reflexivity.
  - intros Hk. apply H2.
    destruct (get_all _ _); [reflexivity|exfalso; apply Hk; discriminate].
Qed.

Lemma headers_inherited f p f' next :
  as_new_flow f p = Ok (f', Some next) ->
  rq_headers (am_request (c_req (i_call next))) = rq_headers (am_request (c_req (i_call f))).
Proof.
  intros H. destruct (as_new_flow_shape _ _ _ _ H) as (orig & nm & keep & Hq & (A & _)).
  unfold am_request. rewrite A, Hq. reflexivity.
Qed.

Lemma redirect_errors f p :
  (i_location f = None -> as_new_flow f p = Err NoLocationHeader) /\
  (forall loc, i_location f = Some loc -> is_text loc = false ->
               as_new_flow f p = Err BadLocationHeader) /\
  (forall loc, i_location f = Some loc -> i_status f <> None -> u_scheme (cur_uri f) <> [] ->
               resolve (cur_uri f) loc = None -> as_new_flow f p = Err BadLocationHeader).
Proof.
  split; [apply as_new_flow_no_location|]. split.
  - intros loc. apply as_new_flow_not_text.
  - intros loc. apply as_new_flow_unresolvable.
Qed.

Lemma redirect_has_status f f' :
  recv_response_proceed f = Ok (Some (TRedirect, f')) \/ recv_body_proceed f = Ok (Some (TRedirect, f')) ->
  i_status f' <> None.
Proof.
  intros [H|H]; [eapply recv_response_proceed_status|eapply recv_body_proceed_status]; eauto.
Qed.

Lemma target_absolute base loc t :
  resolve base loc = Some t -> u_scheme base <> [] ->
  u_scheme t <> [] /\ u_auth t <> [] /\ u_pq t <> [].
Proof.
  intros H Hb. split; [eapply resolve_scheme_nonempty; eauto|].
  split; [eapply resolve_auth_nonempty; eauto|eapply resolve_pq_nonempty; eauto].
Qed.

(* ------------------------------------------------------------------ concrete driving (examples) *)

(** Drive a body-less flow through one exchange: write the head, proceed, read the response head,
    proceed to Redirect, follow.  Returns the head written, the Location selected and the next flow. *)
Definition run_hop (f : inner) (rsp : bytes) (p : auth_policy) : option (bytes * bytes * inner) :=
  match send_request_write f 65536 with
  | Ok (f1, head) =>
      match send_request_proceed f1 with
      | Ok (Some (_, f2)) =>
          match recv_try_response f2 rsp with
          | Ok (f3, _, _) =>
              match recv_response_proceed f3 with
              | Ok (Some (_, f4)) =>
                  match i_location f4, as_new_flow f4 p with
                  | Some loc, Ok (_, Some next) => Some (head, loc, next)
                  | _, _ => None
                  end
              | _ => None
              end
          | _ => None
          end
      | _ => None
      end
  | _ => None
  end.

Definition or_dummy (o : option inner) (d : inner) : inner := match o with Some f => f | None => d end.

Lemma run_hop_chain f rsp p head loc next :
  run_hop f rsp p = Some (head, loc, next) ->
  exists f4 f4', flow_steps f f4 /\ i_location f4 = Some loc /\
                 as_new_flow f4 p = Ok (f4', Some next).
Proof.
  unfold run_hop.
  destruct (send_request_write f 65536) as [[f1 h]| |] eqn:H1; try discriminate.
  destruct (send_request_proceed f1) as [[[t2 f2]|]| |] eqn:H2; try discriminate.
  destruct (recv_try_response f2 rsp) as [[[f3 u] g]| |] eqn:H3; try discriminate.
  destruct (recv_response_proceed f3) as [[[t4 f4]|]| |] eqn:H4; try discriminate.
  destruct (i_location f4) as [l|] eqn:Hl; try discriminate.
  destruct (as_new_flow f4 p) as [[f4' [n|]]| |] eqn:H5; try discriminate.
  intros H; inversion H; subst; clear H.
  exists f4, f4'. split; [|split; [assumption|assumption]].
  eapply fs_cons; [eapply st_write_head; eauto|].
  eapply fs_cons; [eapply st_send_request_proceed; eauto|].
  eapply fs_cons; [eapply st_try_response; eauto|].
  eapply fs_cons; [eapply st_recv_response_proceed; eauto|]. constructor.
Qed.

(** A 3xx response head with the given Location fields and no body. *)
Definition redirect_response (status : bytes) (locs : list bytes) : bytes :=
  s2b "HTTP/1.1 " ++ status ++ s2b " R" ++ CRLF ++
  concat (map (fun l => s2b "Location: " ++ l ++ CRLF) locs) ++
  s2b "Content-Length: 0" ++ CRLF ++ CRLF.

Definition get_request (scheme auth pq : string) (hs : list header) : request :=
  {| rq_method := GET; rq_version := V11;
     rq_uri := {| u_scheme := s2b scheme; u_auth := s2b auth; u_pq := s2b pq |}; rq_headers := hs |}.

Definition dummy_flow : inner :=
  {| i_call := call_new (get_request "" "" "" []) new_none; i_holder := HRecvBody; i_reasons := [];
     i_should_send_body := false; i_await_100 := false; i_status := None; i_location := None |}.

Definition start_flow (r : request) : inner :=
  match flow_new r with Ok f => f | _ => dummy_flow end.

(** Follow one redirect per response (each response may carry several Location fields).
    Returns the heads written, the Locations selected and the last flow. *)
Fixpoint run_chain (f : inner) (rsps : list (list bytes)) : option (list bytes * list bytes * inner) :=
  match rsps with
  | [] => Some ([], [], f)
  | ls :: t =>
      match run_hop f (redirect_response (s2b "302") ls) Never with
      | Some (head, loc, next) =>
          match run_chain next t with
          | Some (heads, locs, fin) => Some (head :: heads, loc :: locs, fin)
          | None => None
          end
      | None => None
      end
  end.

Lemma run_chain_sound : forall rsps f heads locs fin,
  run_chain f rsps = Some (heads, locs, fin) -> redirect_chain f locs fin.
Proof.
  induction rsps as [|ls t IH]; intros f heads locs fin H.
  - inversion H; subst. constructor; constructor.
  - cbn [run_chain] in H.
    destruct (run_hop f _ Never) as [[[head loc] next]|] eqn:Hh; [|discriminate].
    destruct (run_chain next t) as [[[hs locs'] fin']|] eqn:Hc; [|discriminate].
    inversion H; subst; clear H.
    destruct (run_hop_chain _ _ _ _ _ _ Hh) as (f4 & f4' & Hs & Hl & Ha).
    econstructor; eauto.
Qed.
