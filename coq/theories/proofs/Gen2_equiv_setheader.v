(** src/client/amended.rs AmendedRequest::set_header / unset_header, translated (Gen2.gen_am_set_header, gen_am_unset_header),
    against the readings that the translations of Call::analyze_request and Flow<Redirect>::as_new_flow use for their calls
    ([set_header_list], [unset_header_list] of Gen2.v): with these equalities those readings are the code's own functions.
    http's TryFrom conversions are the model's validity tests; ArrayVec::push is [capped_push] (Gen2_equiv_arrayvec.v). *)
From Coq Require Import NArith Bool List String.
From Hoot Require Import Base Chunk Body Httparse Parser Url Request Call Flow GenLib Gen Gen2.
Import ListNotations.
Open Scope N_scope.

Theorem gen_am_set_header_eq added k v : gen_am_set_header added k v = set_header_list added k v.
Proof.
  unfold gen_am_set_header, set_header_list, header_name_try_from, header_value_try_from, capped_push.
  destruct (valid_header_name k), (valid_header_value v); cbn [andb negb]; try reflexivity.
  destruct (MAX_EXTRA_HEADERS <=? len added); reflexivity.
Qed.
