(** (close-reason part) Small functions of src/client/flow.rs and src/client/call.rs, translated (Gen2.v), against the model: the close-reason list
    ([add_close_reason]: each reason once; [close_reason] / [must_close_connection]: the first reason, explained), the redirect
    test on the recorded status, whether a response body is expected, the body mode reported to the caller, and the questions
    the flow asks of the response body reader.  These are the functions that the larger translations take as flags or as the
    model's reading ([add_reason], [is_redirect], [need_response_body], ...): with these equalities the flags are the code's. *)
From Coq Require Import NArith Bool List Lia String.
From Hoot Require Import Base Chunk Body Request Call Flow GenLib Gen Gen2.
Import ListNotations.
Open Scope N_scope.

(** Same outcome; a panic corresponds to a panic (the site texts differ between model and translation). *)
Definition same_res {A : Type} (x y : res A) : Prop :=
  match x, y with
  | Ok a, Ok b => a = b
  | Err e, Err e' => e = e'
  | Panic _, Panic _ => True
  | _, _ => False
  end.

(* ------------------------------------------------------------------ close reasons *)

Lemma reason_eqb_sym a b : reason_eqb a b = reason_eqb b a.
Proof. destruct a, b; reflexivity. Qed.

Lemma existsb_reason_flip r rs : existsb (fun x => reason_eqb x r) rs = existsb (reason_eqb r) rs.
Proof.
  induction rs as [|x t IH]; cbn [existsb]; [reflexivity|]. rewrite IH, (reason_eqb_sym x r). reflexivity.
Qed.

(** The membership test may be written either way round ([contains(&reason)], [iter().any(|r| *r == reason)]), with or without an
    early return: the proof normalises the test and then only does case analysis. *)
Theorem gen_add_close_reason_eq rs r :
  gen_add_close_reason rs r = bind (add_reason rs r) (fun rs' => Ok (rs', tt)).
Proof.
  unfold gen_add_close_reason, add_reason. cbv zeta. rewrite ?existsb_reason_flip.
  destruct (existsb (reason_eqb r) rs); cbn [negb bind]; try reflexivity.
  all: destruct (push_reason rs r); reflexivity.
Qed.

Theorem gen_explain_eq r : gen_explain r = explain r.
Proof. destruct r; reflexivity. Qed.

Theorem gen_close_reason_eq f : gen_close_reason (i_reasons f) = close_reason f.
Proof.
  unfold gen_close_reason, close_reason. destruct (i_reasons f) as [|r t]; cbn [hd_error option_map]; [reflexivity|].
  rewrite gen_explain_eq. reflexivity.
Qed.

Theorem gen_redirect_close_reason_eq f : gen_redirect_close_reason (i_reasons f) = close_reason f.
Proof.
  unfold gen_redirect_close_reason, close_reason. destruct (i_reasons f) as [|r t]; cbn [hd_error option_map]; [reflexivity|].
  rewrite gen_explain_eq. reflexivity.
Qed.

Theorem gen_must_close_eq f : gen_must_close (i_reasons f) = must_close f.
Proof.
  unfold gen_must_close, must_close. rewrite gen_close_reason_eq. unfold close_reason.
  destruct (i_reasons f); reflexivity.
Qed.

Theorem gen_redirect_must_close_eq f : gen_redirect_must_close (i_reasons f) = must_close f.
Proof.
  unfold gen_redirect_must_close, must_close. rewrite gen_redirect_close_reason_eq. unfold close_reason.
  destruct (i_reasons f); reflexivity.
Qed.

(** The connection must be closed exactly when some reason was recorded, and the reason given is the first recorded one. *)
Theorem gen_must_close_iff rs : gen_must_close rs = true <-> rs <> [].
Proof.
  unfold gen_must_close, gen_close_reason. destruct rs as [|r t]; cbn [hd_error option_map]; split; intros H; try discriminate;
    try reflexivity. contradiction.
Qed.

