(** src/util.rs ArrayVec (push, truncate, deref), translated (Gen2.v): the fixed-capacity vector behind the close reasons (capacity 5),
    the added headers and the suppression list (capacity 3).  The model keeps these as plain lists with a capacity test before every
    append ([Flow.push_reason], [unset_header_list], [set_header_list]); here the code's own [push] is shown to be that: on the visible
    part [arr[..len]] it appends, and it panics exactly when the vector is full. *)
From Coq Require Import NArith Bool List Lia.
From Hoot Require Import Base Request Call Flow GenLib Gen Gen2.
Import ListNotations.
Open Scope N_scope.

Lemma av_take_0 {T} (l : list T) : take 0 l = [].
Proof. destruct l; reflexivity. Qed.

Lemma av_len_set {T} (arr : list T) : forall k v, len (list_set arr k v) = len arr.
Proof.
  induction arr as [|x t IH]; intros k v; cbn [list_set len]; [reflexivity|].
  destruct (k =? 0); cbn [len]; [reflexivity|]. rewrite IH. reflexivity.
Qed.

Lemma av_take_set_snoc {T} (arr : list T) : forall k v,
  k < len arr -> take (k + 1) (list_set arr k v) = take k arr ++ [v].
Proof.
  induction arr as [|x t IH]; intros k v Hk; cbn [len] in Hk; [lia|].
  cbn [list_set take]. destruct (k =? 0) eqn:Ek.
  - apply N.eqb_eq in Ek. subst k. cbn [take N.add N.eqb Pos.eqb N.pred Pos.pred_N]. rewrite av_take_0. reflexivity.
  - apply N.eqb_neq in Ek. cbn [take].
    replace (k + 1 =? 0) with false by (symmetry; apply N.eqb_neq; lia).
    replace (N.pred (k + 1)) with (N.pred k + 1) by lia.
    rewrite IH by lia. reflexivity.
Qed.

(** push on a vector that is not full: the visible part grows by the value, capacity and invariant are kept. *)
Theorem gen_arrayvec_push_ok T n arr v :
  n < len arr ->
  exists arr', gen_arrayvec_push T n arr v = Ok (n + 1, arr', tt) /\
               len arr' = len arr /\
               gen_arrayvec_deref T (n + 1) arr' = gen_arrayvec_deref T n arr ++ [v].
Proof.
  intros Hn. unfold gen_arrayvec_push, array_set. apply N.ltb_lt in Hn. rewrite Hn. apply N.ltb_lt in Hn. cbn [bind].
  exists (list_set arr n v). split; [reflexivity|]. split; [apply av_len_set|].
  unfold gen_arrayvec_deref. apply av_take_set_snoc. exact Hn.
Qed.

(** push on a full vector panics (the index is out of bounds). *)
Theorem gen_arrayvec_push_full T n arr v :
  len arr <= n -> exists site, gen_arrayvec_push T n arr v = Panic site.
Proof.
  intros Hn. unfold gen_arrayvec_push, array_set. apply N.ltb_ge in Hn. rewrite Hn. cbn [bind]. eexists. reflexivity.
Qed.

(** The model's close-reason list is the visible part of such a vector of capacity CLOSE_REASON_CAP: [push_reason] is [push]. *)
Theorem gen_arrayvec_push_is_push_reason n (arr : list reason) r :
  len arr = CLOSE_REASON_CAP -> n <= len arr ->
  match push_reason (gen_arrayvec_deref reason n arr) r with
  | Ok rs' => exists arr', gen_arrayvec_push reason n arr r = Ok (n + 1, arr', tt) /\ len arr' = len arr /\
                           gen_arrayvec_deref reason (n + 1) arr' = rs'
  | Panic _ => exists site, gen_arrayvec_push reason n arr r = Panic site
  | Err _ => False
  end.
Proof.
  intros Hcap Hn.
  assert (Hlen : len (gen_arrayvec_deref reason n arr) = n).
  { unfold gen_arrayvec_deref. clear Hcap. revert n Hn. induction arr as [|x t IH]; intros n Hn; cbn [len] in Hn.
    - cbn [take len]. lia.
    - cbn [take]. destruct (n =? 0) eqn:En.
      + apply N.eqb_eq in En. subst n. reflexivity.
      + apply N.eqb_neq in En. cbn [len]. rewrite IH by lia. lia. }
  unfold push_reason. rewrite Hlen. destruct (CLOSE_REASON_CAP <=? n) eqn:Ec.
  - apply N.leb_le in Ec. apply gen_arrayvec_push_full. lia.
  - apply N.leb_gt in Ec. destruct (gen_arrayvec_push_ok reason n arr r) as [arr' [H1 [H2 H3]]]; [lia|].
    exists arr'. repeat split; assumption.
Qed.

(** The same for any capacity: the visible part of a vector with [len arr = cap] behaves as a list with a capacity test before the
    append -- the shape of the model's [unset_header_list] (capacity UNSET_CAP) and of the append in [set_header_list]
    (capacity MAX_EXTRA_HEADERS). *)
Lemma av_len_deref {T} (arr : list T) : forall n, n <= len arr -> len (gen_arrayvec_deref T n arr) = n.
Proof.
  unfold gen_arrayvec_deref. induction arr as [|x t IH]; intros n Hn; cbn [len] in Hn.
  - cbn [take len]. lia.
  - cbn [take]. destruct (n =? 0) eqn:En.
    + apply N.eqb_eq in En. subst n. reflexivity.
    + apply N.eqb_neq in En. cbn [len]. rewrite IH by lia. lia.
Qed.

Theorem gen_arrayvec_push_capped T cap n (arr : list T) v :
  len arr = cap -> n <= cap ->
  if cap <=? len (gen_arrayvec_deref T n arr)
  then exists site, gen_arrayvec_push T n arr v = Panic site
  else exists arr', gen_arrayvec_push T n arr v = Ok (n + 1, arr', tt) /\ len arr' = cap /\
                    gen_arrayvec_deref T (n + 1) arr' = gen_arrayvec_deref T n arr ++ [v].
Proof.
  intros Hcap Hn. rewrite av_len_deref by lia. destruct (cap <=? n) eqn:Ec.
  - apply N.leb_le in Ec. apply gen_arrayvec_push_full. lia.
  - apply N.leb_gt in Ec. destruct (gen_arrayvec_push_ok T n arr v) as [arr' [H1 [H2 H3]]]; [lia|].
    exists arr'. repeat split; [exact H1|lia|exact H3].
Qed.

(** Instance: the suppression list of AmendedRequest ([unset_header_list] of Gen2.v, the reading used in [gen_as_new_flow]). *)
Theorem gen_arrayvec_push_is_unset n (arr : list bytes) k :
  len arr = UNSET_CAP -> n <= len arr ->
  match unset_header_list (gen_arrayvec_deref bytes n arr) k with
  | Ok (l', _) => exists arr', gen_arrayvec_push bytes n arr k = Ok (n + 1, arr', tt) /\ len arr' = len arr /\
                               gen_arrayvec_deref bytes (n + 1) arr' = l'
  | Panic _ => exists site, gen_arrayvec_push bytes n arr k = Panic site
  | Err _ => False
  end.
Proof.
  intros Hcap Hn. pose proof (gen_arrayvec_push_capped bytes UNSET_CAP n arr k Hcap ltac:(lia)) as H.
  unfold unset_header_list. destruct (UNSET_CAP <=? len (gen_arrayvec_deref bytes n arr)); [exact H|].
  destruct H as [arr' [H1 [H2 H3]]]. exists arr'. repeat split; [exact H1|lia|exact H3].
Qed.

(** [capped_push] -- how the translations of set_header / unset_header read `self.headers.push(..)` -- is the translated push. *)
Theorem gen_arrayvec_push_is_capped_push T cap site n (arr : list T) v :
  len arr = cap -> n <= cap ->
  match capped_push cap site (gen_arrayvec_deref T n arr) v with
  | Ok l' => exists arr', gen_arrayvec_push T n arr v = Ok (n + 1, arr', tt) /\ len arr' = cap /\ gen_arrayvec_deref T (n + 1) arr' = l'
  | Panic _ => exists s, gen_arrayvec_push T n arr v = Panic s
  | Err _ => False
  end.
Proof.
  intros Hcap Hn. pose proof (gen_arrayvec_push_capped T cap n arr v Hcap Hn) as H. unfold capped_push.
  destruct (cap <=? len (gen_arrayvec_deref T n arr)); exact H.
Qed.
