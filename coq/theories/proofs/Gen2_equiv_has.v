(** src/ext.rs HeaderIterExt::has (translated) equals the model's headers_has. *)
From Hoot Require Import Base Chunk Body Url Request GenLib Gen Gen2.
From Hoot.proofs Require Import BytesLemmas.
Open Scope N_scope.
(* ------------------------------------------------------------------ src/ext.rs: HeaderIterExt::has *)
From Hoot Require Import Httparse Parser.
Theorem gen_headers_has_eq l k v : gen_headers_has l k v = headers_has l k v.
Proof.
  unfold gen_headers_has, headers_has.
  induction l as [|h l IH]; cbn [filter existsb]; [reflexivity|].
  destruct (beq_bytes (fst h) k); cbn [existsb andb]; rewrite IH; reflexivity.
Qed.
Print Assumptions gen_headers_has_eq.

(** [HeaderIterExt::has_expect_100], translated: some Expect field has the value 100-continue (the flag [has_expect] of
    [gen_flow_new]). *)
Theorem gen_has_expect_100_eq l : gen_has_expect_100 l = headers_has l (s2b "expect") (s2b "100-continue").
Proof. unfold gen_has_expect_100. apply gen_headers_has_eq. Qed.
