(** C01 (part 5): every allowed operation preserves [Sim]; runs of any length; the outcome of a
    complete exchange is a function of the exchange alone. *)
From Coq Require Import Lia ZArith List.
From Hoot Require Import Base Chunk Body Httparse Parser Url Request Call Flow Script.
From Hoot.proofs Require Import BytesLemmas Reasons C17_proofs C02_proofs C18_proofs C03_proofs C04_proofs
                                C05_spec C20_proofs C05_proofs C07_spec C07_proofs C07_call C08_proofs
                                C11_proofs C01_defs C01_start C01_send C01_recv.
Open Scope N_scope.

(* ------------------------------------------------------------------ arrivals and queries *)

Lemma pres_arrive x s a k :
  WfX x -> Sim x s a -> allowed x s (OArrive k) ->
  Sim x (fst (step s (OArrive k))) (astep s a (OArrive k)).
Proof.
  intros HW (p & Hobj & HB & Hok) (_ & Hal).
  assert (Ea : astep s a (OArrive k) = a) by (apply astep_other; exact I). rewrite Ea. clear Ea.
  rewrite step_arrive. cbn [fst]. destruct HB as (Hst & Hbd & Har).
  set (s' := {| s_obj := s_obj s; s_next := s_next s; s_stream := s_stream s;
                s_arrived := N.min (len (s_stream s)) (s_arrived s + k);
                s_consumed := s_consumed s; s_body := s_body s; s_sent := s_sent s |}).
  assert (HB' : Base x s').
  { split; [exact Hst|]. split; [exact Hbd|]. cbn [s' s_arrived]. rewrite Hst. lia. }
  assert (HE : match p with PPrep | PHead0 | PHeadA _ | PAwait _ | PSend _ _ => Early x s' | _ => True end).
  { unfold recv_or_later in Hal. rewrite Hobj in Hal.
    destruct p; cbn [flow_of fst snd] in Hal; try exact I;
      (destruct Hal as [Hal|Hal]; [contradiction|exact Hal]). }
  exists p. split; [exact Hobj|]. split; [exact HB'|].
  destruct p; cbn [pos_ok] in *; unfold BodyNone, RespNone, BodyDone, Received in *;
    cbn [s' s_sent s_consumed] in *; intuition.
Qed.

Lemma pres_query x s a o : is_query o = true -> Sim x s a -> Sim x (fst (step s o)) (astep s a o).
Proof. intros Hq H. rewrite (query_pure s o Hq), (query_astep s a o Hq). exact H. Qed.

Lemma pres_proceed x s a : WfX x -> Sim x s a -> Sim x (fst (step s OProceed)) (astep s a OProceed).
Proof.
  intros HW (p & Hobj & HB & Hok).
  destruct p; [apply (pres_proceed_send x s a _ HW Hobj HB Hok I)..|idtac|idtac|idtac|idtac];
    apply (pres_proceed_recv x s a _ HW Hobj HB Hok I).
Qed.

(** Every allowed operation, in every reachable state. *)
Theorem pres_step x s a o :
  WfX x -> Sim x s a -> allowed x s o -> Sim x (fst (step s o)) (astep s a o).
Proof.
  intros HW HS Hal. pose proof Hal as (Hop & _).
  destruct o; try discriminate Hop; try (apply pres_query; [reflexivity|exact HS]).
  - apply pres_proceed; assumption.
  - apply pres_write_head; assumption.
  - apply pres_write_from; assumption.
  - apply pres_arrive; assumption.
  - apply pres_try100; assumption.
  - apply pres_try_response; assumption.
  - apply pres_read; assumption.
  - apply pres_stop; assumption.
Qed.

Theorem sim_run x : WfX x -> forall ops s a,
  Sim x s a -> allowed_run x s ops -> Sim x (fst (irun s a ops)) (snd (irun s a ops)).
Proof.
  intros HW. induction ops as [|o t IH]; intros s a HS Hal; [exact HS|].
  destruct Hal as [Ho Ht]. cbn [irun]. apply IH; [apply pres_step; assumption|exact Ht].
Qed.

(* ------------------------------------------------------------------ what the invariant says at the end *)

(** The connection-reuse verdict of C10 for this exchange (no refusal: Not100Continue never holds). *)
Definition x_must_close (x : exch) : bool := x_h10 x || x_ccl x || x_scl x || x_cdl x.
Definition x_close_reason (x : exch) : option bytes :=
  if x_h10 x then Some (explain Http10)
  else if x_ccl x then Some (explain ClientConnectionClose)
  else if x_scl x then Some (explain ServerConnectionClose)
  else if x_cdl x then Some (explain CloseDelimitedBody)
  else None.

Definition spec_outcome (x : exch) : outcome :=
  {| o_head := x_reqhead x; o_sent := len (x_body x); o_payload := x_body x;
     o_resp := [x_rsp x]; o_rbody := x_payload x;
     o_term := Some (if x_redirect x then TRedirect else TCleanup);
     o_must_close := x_must_close x; o_close_reason := x_close_reason x;
     o_consumed := x_base x + len (x_wire x) |}.

Lemma rs2_verdict x :
  match x_rs2 x with _ :: _ => true | [] => false end = x_must_close x /\
  match x_rs2 x with r :: _ => Some (explain r) | [] => None end = x_close_reason x.
Proof.
  unfold x_rs2, x_rs1, x_rs0, x_must_close, x_close_reason.
  destruct (x_h10 x), (x_ccl x), (x_scl x), (x_cdl x); split; reflexivity.
Qed.

(** A reader that reports the end has consumed the whole wire form and delivered the payload. *)
Lemma rd_rel_ended x rd i out :
  WfX x -> RdRel x rd i out -> reader_is_ended rd = true ->
  i = len (x_wire x) /\ out = x_payload x.
Proof.
  intros (_ & _ & _ & _ & _ & _ & _ & _ & _ & _ & Hw) Hrel He. unfold wire_ok in Hw. unfold x_payload.
  destruct rd as [|lft|st|]; cbn [RdRel reader_is_ended] in *.
  - destruct Hrel as (E0 & -> & ->). rewrite E0 in *. rewrite Hw. split; reflexivity.
  - destruct Hrel as (n & E0 & Hsum & ->). rewrite E0 in *. apply N.eqb_eq in He. subst lft.
    split; [lia|]. apply take_all. lia.
  - destruct Hrel as (E0 & C & R & ds & Hwire & Hi & Hrel & Hpay). rewrite E0 in *.
    destruct st; try discriminate He. cbn [rel] in Hrel. destruct Hrel as [-> ->].
    rewrite app_nil_r in Hwire. cbn [concat] in Hpay. rewrite app_nil_r in Hpay.
    split; [rewrite Hwire; exact Hi|symmetry; exact Hpay].
  - discriminate.
Qed.

Lemma rd_rel_bound x rd i out : WfX x -> RdRel x rd i out -> i <= len (x_wire x).
Proof.
  intros (_ & _ & _ & _ & _ & _ & _ & _ & _ & _ & Hw) Hrel. unfold wire_ok in Hw.
  destruct rd as [|lft|st|]; cbn [RdRel] in *.
  - destruct Hrel as (_ & -> & _). lia.
  - destruct Hrel as (n & E0 & Hsum & _). rewrite E0 in Hw. lia.
  - destruct Hrel as (_ & C & R & ds & Hwire & Hi & _). rewrite Hwire, len_app. lia.
  - destruct Hrel as (_ & Hi & _). exact Hi.
Qed.

(** Never a byte of [rest] (the next message) is consumed, in any reachable state. *)
Lemma sim_consumed_bound x s a : WfX x -> Sim x s a -> s_consumed s <= x_base x + len (x_wire x).
Proof.
  intros HW (p & _ & _ & Hok). unfold x_base.
  destruct p; cbn [pos_ok] in Hok; unfold RespNone, Received in Hok.
  1-6: (decompose [and] Hok;
        match goal with H : s_consumed _ = _ |- _ => rewrite H end;
        match goal with |- context [if ?c then _ else _] => destruct c | _ => idtac end; lia).
  - decompose [and] Hok. match goal with H : s_consumed _ = _ |- _ => rewrite H end. unfold x_base. lia.
  - destruct Hok as (_ & _ & (_ & i & Hc & Hrel) & _). rewrite Hc. unfold x_base.
    pose proof (rd_rel_bound x _ _ _ HW Hrel). lia.
  - destruct Hok as (_ & _ & (_ & i & Hc & Hrel) & _). rewrite Hc. unfold x_base.
    pose proof (rd_rel_bound x _ _ _ HW Hrel). lia.
Qed.

Lemma stream_len x : len (x_stream x) = x_base x + len (x_wire x) + len (x_rest x).
Proof. unfold x_stream, x_base, x_off. rewrite !len_app. lia. Qed.

(** The outcome of a complete exchange. *)
Theorem sim_complete x s a :
  WfX x -> Sim x s a -> complete x s ->
  outcome_of s a = spec_outcome x /\ body_final x (a_body a).
Proof.
  intros HW (p & Hobj & HB & Hok) (Hfin & Hclose). rewrite Hobj in Hfin.
  destruct p as [| |ph|c|c w|c w|w|w rd stop|t w rd stop]; cbn [flow_of fst snd] in Hfin; try contradiction.
  cbn [flow_of fst snd] in Hobj.
  destruct Hok as (Hhd & (Hsent & Hbf) & (Hresp & i & Hcons & Hrel) & Hend & Hterm & _).
  destruct HB as (_ & Hbody & _).
  assert (Hfull : i = len (x_wire x) /\ a_rbody a = x_payload x).
  { destruct Hend as [He| ->]; [exact (rd_rel_ended x rd i _ HW Hrel He)|].
    cbn [RdRel] in Hrel. destruct Hrel as (E0 & Hi & Hout). specialize (Hclose E0).
    pose proof HW as (_ & _ & _ & _ & _ & _ & _ & _ & _ & _ & Hw). unfold wire_ok in Hw. rewrite E0 in Hw.
    rewrite stream_len, Hw in Hclose. cbn [len] in Hclose.
    assert (Hi' : i = len (x_wire x)) by lia. split; [exact Hi'|].
    unfold x_payload. rewrite E0, Hout, Hi'. apply take_all. lia. }
  destruct Hfull as [Hi Hrb]. split; [|exact Hbf].
  unfold outcome_of, spec_outcome. rewrite Hobj. unfold must_close, close_reason, mk. cbn [i_reasons].
  destruct (rs2_verdict x) as [-> ->].
  rewrite Hhd, Hsent, Hbody, Hresp, Hrb, Hterm, Hcons, Hi. rewrite take_all by lia. reflexivity.
Qed.

(* ------------------------------------------------------------------ the theorems *)

Theorem c01_from x s a ops :
  WfX x -> Sim x s a -> allowed_run x s ops ->
  complete x (fst (irun s a ops)) ->
  outcome_of (fst (irun s a ops)) (snd (irun s a ops)) = spec_outcome x /\
  body_final x (a_body (snd (irun s a ops))).
Proof.
  intros HW HS Hal Hc. apply sim_complete; [exact HW| |exact Hc]. apply sim_run; assumption.
Qed.

Theorem c01_main x ops :
  WfX x -> allowed_run x (start x) ops ->
  complete x (fst (irun (start x) acc0 ops)) ->
  outcome_of (fst (irun (start x) acc0 ops)) (snd (irun (start x) acc0 ops)) = spec_outcome x /\
  body_final x (a_body (snd (irun (start x) acc0 ops))).
Proof. intros HW Hal Hc. apply c01_from; [exact HW|apply sim_start|exact Hal|exact Hc]. Qed.

Theorem c01_independent_main x ops1 ops2 :
  WfX x -> allowed_run x (start x) ops1 -> allowed_run x (start x) ops2 ->
  complete x (fst (irun (start x) acc0 ops1)) -> complete x (fst (irun (start x) acc0 ops2)) ->
  outcome_of (fst (irun (start x) acc0 ops1)) (snd (irun (start x) acc0 ops1)) =
  outcome_of (fst (irun (start x) acc0 ops2)) (snd (irun (start x) acc0 ops2)).
Proof.
  intros HW H1 H2 C1 C2.
  rewrite (proj1 (c01_main x ops1 HW H1 C1)), (proj1 (c01_main x ops2 HW H2 C2)). reflexivity.
Qed.

(** In every reachable state (complete or not) no byte of the next message has been consumed. *)
Theorem c01_never_overreads x ops :
  WfX x -> allowed_run x (start x) ops ->
  s_consumed (fst (irun (start x) acc0 ops)) <= x_base x + len (x_wire x).
Proof.
  intros HW Hal. eapply sim_consumed_bound; [exact HW|]. apply sim_run; [exact HW|apply sim_start|exact Hal].
Qed.

(** After a complete exchange the unconsumed part of the stream is exactly [rest]. *)
Theorem c01_rest x ops :
  WfX x -> allowed_run x (start x) ops ->
  let s := fst (irun (start x) acc0 ops) in
  complete x s ->
  s_stream s = x_stream x /\
  s_consumed s = x_base x + len (x_wire x) /\
  drop (s_consumed s) (s_stream s) = x_rest x /\
  window s = take (s_arrived s - s_consumed s) (x_rest x).
Proof.
  intros HW Hal s Hc.
  pose proof (sim_run x HW ops (start x) acc0 (sim_start x) Hal) as HS. fold s in HS.
  pose proof (proj1 (sim_complete x s _ HW HS Hc)) as Ho.
  apply (f_equal o_consumed) in Ho. cbn [outcome_of spec_outcome o_consumed] in Ho.
  destruct HS as (p & _ & (Hst & _) & _).
  assert (Hd : drop (s_consumed s) (s_stream s) = x_rest x).
  { rewrite Hst, Ho, stream_drop_base, drop_app_exact. reflexivity. }
  split; [exact Hst|]. split; [exact Ho|]. split; [exact Hd|]. unfold window. rewrite Hd. reflexivity.
Qed.

(** The next exchange on the same connection: set the next request body, create the next flow. *)
Definition next_prologue (x : exch) : list op :=
  [OSetBody (x_body x); ONew (x_req x)] ++ (if x_despite x then [ODespite] else []).

Lemma next_prologue_state x s :
  let s' := run_ops s (next_prologue x) in
  s_obj s' = ObFlow TPrepare (x_f0 x) /\ s_stream s' = s_stream s /\ s_body s' = x_body x /\
  s_sent s' = 0 /\ s_consumed s' = s_consumed s /\ s_arrived s' = s_arrived s.
Proof.
  unfold next_prologue, run_ops. cbn [app fold_left].
  set (s1 := fst (step s (OSetBody (x_body x)))).
  assert (E1 : fst (step s1 (ONew (x_req x))) =
               {| s_obj := ObFlow TPrepare
                    {| i_call := call_new (x_req x) (if x_need x then new_chunked else new_none);
                       i_holder := if x_need x then HWithBody else HWithoutBody;
                       i_reasons := x_rs0 x; i_should_send_body := x_need x; i_await_100 := x_aw0 x;
                       i_status := None; i_location := None |};
                  s_next := None; s_stream := s_stream s; s_arrived := s_arrived s;
                  s_consumed := s_consumed s; s_body := x_body x; s_sent := 0 |}).
  { unfold step at 1. rewrite flow_new_explicit.
    assert (Hs1 : s_stream s1 = s_stream s /\ s_arrived s1 = s_arrived s /\ s_consumed s1 = s_consumed s /\
                  s_body s1 = x_body x).
    { unfold s1, step. destruct (s_obj s); cbn; auto. }
    destruct Hs1 as (-> & -> & -> & ->).
    unfold x_rs0, x_h10, x_ccl, x_need, x_aw0.
    destruct (s_obj s1); destruct (rq_version (x_req x)); reflexivity. }
  destruct (x_despite x) eqn:Ed; cbn [fold_left]; rewrite E1.
  - unfold step. cbn [s_obj]. unfold send_body_despite_method. cbn [i_holder i_call].
    unfold x_f0, x_c0, x_hold0, x_due. rewrite Ed.
    destruct (x_need x); cbn [orb andb negb]; repeat split; reflexivity.
  - unfold x_f0, x_c0, x_hold0, x_due. rewrite Ed. rewrite Bool.orb_false_r.
    cbn [andb]. repeat split; reflexivity.
Qed.

(** Hence, on a reusable connection, the same theorems apply to the next exchange [x2] whose stream
    is the same byte string with everything up to [rest] as its consumed prefix -- provided nothing
    of its final response has arrived before its request is sent (causality again). *)
Theorem c01_next x ops x2 :
  WfX x -> allowed_run x (start x) ops ->
  let s := fst (irun (start x) acc0 ops) in
  complete x s ->
  x_pre x2 = x_pre x ++ x_h100 x ++ x_H x ++ x_wire x ->
  x_rest x = x_h100 x2 ++ x_H x2 ++ x_wire x2 ++ x_rest x2 ->
  s_arrived s <= x_off x2 + len (x_h100 x2) ->
  Sim x2 (run_ops s (next_prologue x2)) acc0.
Proof.
  intros HW Hal s Hc Hpre Hrest Harr.
  destruct (c01_rest x ops HW Hal Hc) as (Hst & Hcons & _). fold s in Hst, Hcons.
  destruct (next_prologue_state x2 s) as (Ho & Hs' & Hb' & Hsent' & Hc' & Ha').
  assert (Hstream : x_stream x2 = x_stream x).
  { unfold x_stream. rewrite Hpre, Hrest, <- !app_assoc. reflexivity. }
  assert (Hoff : x_off x2 = x_base x + len (x_wire x)).
  { unfold x_off, x_base. rewrite Hpre, !len_app. unfold x_off. lia. }
  apply sim_begin; auto.
  - rewrite Hs', Hst. symmetry. exact Hstream.
  - rewrite Hc', Hcons. symmetry. exact Hoff.
  - rewrite Ha'. exact Harr.
Qed.

(* ------------------------------------------------------------------ the chunked request body decodes to the payload *)

From Hoot.proofs Require Import C03_roundtrip.

(** For a chunked request body the emitted bytes depend on the schedule (the chunking follows the
    buffer sizes); what does not is what they decode to: on EVERY read schedule the C07 decoder reads
    exactly the emitted bytes (followed by anything) back into the payload. *)
Theorem body_final_roundtrip x out rest sched :
  w_mode (x_wm x) = SChunked -> body_final x out ->
  exists d, crun (out ++ rest) cstart sched = Ok d /\
    t_consumed d <= len out /\
    (exists P', x_body x = C07_spec.t_out d ++ P') /\
    (dech_is_ended (t_st d) = true <-> t_consumed d = len out) /\
    (dech_is_ended (t_st d) = true -> C07_spec.t_out d = x_body x).
Proof.
  intros Hm Hbf. unfold body_final in Hbf. rewrite Hm in Hbf. destruct Hbf as (cs & Hcs & Hcat & ->).
  destruct (valid_coding_of cs Hcs) as [Hv Hl].
  destruct (run_safe (coding_of cs) rest sched Hv Hl) as (d & Hrun & Hle & Hpre & Hiff & Hend & _).
  rewrite enc_coding_of, payload_coding_of, Hcat in *. exists d. auto.
Qed.
