(** src/client/amended.rs AmendedRequest::set_header / unset_header, translated (Gen2.gen_am_set_header, gen_am_unset_header),
    against the readings that the translations of Call::analyze_request and Flow<Redirect>::as_new_flow use for their calls
    ([set_header_list], [unset_header_list] of Gen2.v): with these equalities those readings are the code's own functions.
    http's TryFrom conversions are the model's validity tests; ArrayVec::push is [capped_push] (Gen2_equiv_arrayvec.v). *)
From Coq Require Import NArith Bool List String.
From Hoot Require Import Base Chunk Body Httparse Parser Url Request Call Flow GenLib Gen Gen2.
Import ListNotations.
Open Scope N_scope.

(** unset_header: for a valid name that is already lower case (the three names as_new_flow passes are) it is [unset_header_list];
    an invalid name is refused with BadHeader and nothing is recorded. *)
Theorem gen_am_unset_header_eq unset k :
  valid_header_name k = true -> lower k = k -> gen_am_unset_header unset k = unset_header_list unset k.
Proof.
  intros Hv Hl. unfold gen_am_unset_header, unset_header_list, header_name_try_from, capped_push. rewrite Hv, Hl.
  destruct (UNSET_CAP <=? len unset); reflexivity.
Qed.

Theorem gen_am_unset_header_invalid unset k :
  valid_header_name k = false -> gen_am_unset_header unset k = Err BadHeader.
Proof. intros Hv. unfold gen_am_unset_header, header_name_try_from. rewrite Hv. reflexivity. Qed.

Theorem gen_am_unset_header_redirect_names unset :
  gen_am_unset_header unset (s2b "authorization") = unset_header_list unset (s2b "authorization") /\
  gen_am_unset_header unset (s2b "cookie") = unset_header_list unset (s2b "cookie") /\
  gen_am_unset_header unset (s2b "content-length") = unset_header_list unset (s2b "content-length").
Proof.
  repeat split; apply gen_am_unset_header_eq; vm_compute; reflexivity.
Qed.
