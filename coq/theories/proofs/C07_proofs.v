(** C07, part 3: from codings to positions, schedules, boundary stop, progress. *)
From Coq Require Import Lia ZArith.
From Hoot Require Import Base Chunk Body.
From Hoot.proofs Require Import BytesLemmas C07_spec C07_sizeline C07_sim.
Open Scope N_scope.

(** ** The start of a valid coding is a size position *)

Lemma enc_trailers_cons t ts : enc_trailers (t :: ts) = t ++ CRLF ++ enc_trailers ts.
Proof. unfold enc_trailers. cbn [map concat]. rewrite <- !app_assoc. reflexivity. Qed.

Lemma endpos_trailers ts : Forall valid_trailer ts -> EndPos (enc_trailers ts).
Proof.
  induction ts as [|t ts IH]; intros H.
  - exact EP_end.
  - inversion H as [|? ? [Hne Hcr] Hts]; subst. rewrite enc_trailers_cons. apply EP_trailer; auto.
Qed.

Lemma sizepos_enc cs last ts :
  Forall valid_chunk cs -> Forall (fun ck => len (ck_line ck) <= SANITY_CHECK) cs ->
  cr_free last -> size_line last 0 -> len last <= SANITY_CHECK -> Forall valid_trailer ts ->
  SizePos (concat (map enc_chunk cs) ++ enc_end last ts) (map ck_data cs).
Proof.
  intros Hv Hl Hcr Hsl Hsan Hts. induction cs as [|a cs IH]; cbn [map concat app].
  - unfold enc_end. apply SP_last; auto using endpos_trailers.
  - inversion Hv as [|? ? (Hcra & Hsla & Hpos) Hv']; inversion Hl as [|? ? Hla Hl']; subst.
    unfold enc_chunk at 1. rewrite <- !app_assoc. apply SP_chunk; auto.
Qed.

Lemma rel_start c :
  valid c -> line_limit_F17 c -> rel DSize (enc c) (map ck_data (cd_chunks c)).
Proof.
  intros (Hv & Hcr & Hsl & Hts) (Hl & Hsan). cbn [rel]. unfold enc. apply sizepos_enc; assumption.
Qed.

(** ** The pieces stay a tail of the coding's chunk datas, the head piece possibly trimmed *)

Definition Tail (c : coding) (ds : list bytes) : Prop :=
  ds = [] \/
  exists pre d0 p tl, ds = p :: tl /\ map ck_data (cd_chunks c) = pre ++ (d0 ++ p) :: tl.

Lemma tail_start c : Tail c (map ck_data (cd_chunks c)).
Proof.
  unfold Tail. destruct (map ck_data (cd_chunks c)) as [|p tl]; [left; reflexivity|].
  right. exists [], [], p, tl. auto.
Qed.

Lemma shrink_tail c ds ds' : Shrink ds ds' -> Tail c ds -> Tail c ds'.
Proof.
  unfold Tail. intros H. induction H as [ds|d1 d2 tl ds' _ IH|d tl ds' _ IH]; intros Hs.
  - exact Hs.
  - apply IH. destruct Hs as [Hs|(pre & d0 & p & tl0 & E & Hm)]; [discriminate Hs|].
    inversion E; subst. right. exists pre, (d0 ++ d1), d2, tl0. split; [reflexivity|].
    rewrite Hm, <- app_assoc. reflexivity.
  - apply IH. destruct Hs as [Hs|(pre & d0 & p & tl0 & E & Hm)]; [discriminate Hs|].
    inversion E; subst. destruct tl0 as [|p' tl']; [left; reflexivity|].
    right. exists (pre ++ [d0 ++ p]), [], p', tl'. split; [reflexivity|].
    rewrite Hm, <- app_assoc. reflexivity.
Qed.

(** With the output bounded by the budget, one read's output is a prefix of the head piece. *)
Lemma budget_prefix st ds o ds' :
  concat ds = o ++ concat ds' -> len o <= budget st ds ->
  o = [] \/ exists p tl d2, ds = p :: tl /\ p = o ++ d2.
Proof.
  intros Hcat Hb. destruct ds as [|p tl].
  - left. apply len_zero_nil. destruct st; cbn [budget hd len] in Hb; lia.
  - right. exists p, tl, (drop (len o) p). split; [reflexivity|].
    cbn [concat] in Hcat. eapply app_prefix_len; [exact Hcat|].
    destruct st; cbn [budget hd] in Hb; lia.
Qed.

(** ** Invariant of a run over a stream [enc c ++ rest] *)

Definition Inv (c : coding) (t : ctrace) : Prop :=
  exists D R ds,
    enc c = D ++ R /\ len D = t_consumed t /\
    payload c = t_out t ++ concat ds /\
    rel (t_st t) R ds /\ Tail c ds.

Lemma inv_start c : valid c -> line_limit_F17 c -> Inv c cstart.
Proof.
  intros Hv Hl. exists [], (enc c), (map ck_data (cd_chunks c)). cbn [cstart t_consumed t_out t_st app len].
  repeat split; auto using rel_start, tail_start.
Qed.

Lemma inv_step c rest t k cap stop :
  Inv c t ->
  exists t' i out,
    cstep (enc c ++ rest) t (k, cap, stop) = Ok t' /\ Inv c t' /\
    t_consumed t' = t_consumed t + i /\ t_out t' = t_out t ++ out /\ len out <= cap /\
    (stop = true ->
     out = [] \/ exists pre d1 d2 post,
                   map ck_data (cd_chunks c) = pre ++ (d1 ++ out ++ d2) :: post /\
                   t_out t = concat pre ++ d1) /\
    (len (enc c) <= t_consumed t + k -> 1 <= cap -> dech_is_ended (t_st t) = false -> 1 <= i).
Proof.
  intros (D & R & ds & Henc & HD & Hpay & Hrel & Hsuf).
  destruct (read_chunked_sim rest (t_st t) k R ds cap stop Hrel)
    as (st' & C & R' & out & ds' & Heq & HR & HC & Hcat & Hcap & Hrel' & Hsh & Hb & Hprog).
  unfold cstep. rewrite Henc, <- HD, <- app_assoc, drop_app_exact. rewrite Heq. cbn [bind].
  eexists; exists (len C), out. split; [reflexivity|]. cbn [t_st t_consumed t_out].
  split.
  { exists (D ++ C), R', ds'. cbn [t_st t_consumed t_out]. repeat split.
    - rewrite Henc, HR. apply app_assoc.
    - rewrite len_app. reflexivity.
    - rewrite Hpay, Hcat. apply app_assoc.
    - exact Hrel'.
    - eapply shrink_tail; eassumption. }
  split; [rewrite HD; reflexivity|]. split; [reflexivity|]. split; [assumption|]. split.
  - intros Hs. destruct (budget_prefix (t_st t) ds out ds' Hcat (Hb Hs)) as [->|(p & tl & d2 & -> & ->)].
    + left; reflexivity.
    + right. destruct Hsuf as [Hs0|(pre & d0 & p0 & tl0 & E & Hm)]; [discriminate Hs0|].
      inversion E; subst p0 tl0. exists pre, d0, d2, tl. split; [exact Hm|].
      unfold payload in Hpay. rewrite Hm in Hpay. rewrite concat_app in Hpay. cbn [concat] in Hpay.
      rewrite <- (app_assoc d0) in Hpay. rewrite (app_assoc (concat pre)) in Hpay.
      apply app_inv_tail in Hpay. symmetry. exact Hpay.
  - intros H1 H2 H3. apply Hprog; [|assumption|intros E; rewrite E in H3; discriminate].
    rewrite len_app in H1. lia.
Qed.

Lemma inv_run c rest sched : forall t,
  Inv c t -> exists t', crun (enc c ++ rest) t sched = Ok t' /\ Inv c t'.
Proof.
  induction sched as [|[[k cap] stop] s IH]; intros t Hinv; cbn [crun].
  - exists t. auto.
  - destruct (inv_step c rest t k cap stop Hinv) as (t1 & i & out & Heq & Hinv1 & _).
    rewrite Heq. cbn [bind]. apply IH. exact Hinv1.
Qed.

Lemma inv_facts c t :
  Inv c t ->
  t_consumed t <= len (enc c) /\
  (exists P', payload c = t_out t ++ P') /\
  (dech_is_ended (t_st t) = true <-> t_consumed t = len (enc c)) /\
  (dech_is_ended (t_st t) = true -> t_out t = payload c) /\
  t_st t <> DTrailer.
Proof.
  intros (D & R & ds & Henc & HD & Hpay & Hrel & Hsuf).
  assert (Hlen : len (enc c) = t_consumed t + len R) by (rewrite Henc, len_app; lia).
  split; [lia|]. split; [eauto|]. split; [|split].
  - split.
    + intros He. destruct (t_st t); try discriminate He. cbn [rel] in Hrel. destruct Hrel as [-> _].
      cbn [len] in Hlen. lia.
    + intros Hc. rewrite (rel_done _ _ _ Hrel); [reflexivity|lia].
  - intros He. destruct (t_st t); try discriminate He. cbn [rel] in Hrel. destruct Hrel as [_ ->].
    cbn [concat] in Hpay. rewrite app_nil_r in Hpay. auto.
  - intros E. rewrite E in Hrel. exact Hrel.
Qed.

(** ** Any schedule *)

Lemma run_safe c rest sched :
  valid c -> line_limit_F17 c ->
  exists t, crun (enc c ++ rest) cstart sched = Ok t /\
    t_consumed t <= len (enc c) /\
    (exists P', payload c = t_out t ++ P') /\
    (dech_is_ended (t_st t) = true <-> t_consumed t = len (enc c)) /\
    (dech_is_ended (t_st t) = true -> t_out t = payload c) /\
    t_st t <> DTrailer.
Proof.
  intros Hv Hl. destruct (inv_run c rest sched cstart (inv_start c Hv Hl)) as (t & Heq & Hinv).
  exists t. split; [exact Heq|]. apply inv_facts. exact Hinv.
Qed.

(** One more read, with boundary stopping, after any history: the output continues exactly the chunk
    in which delivery stands ([pre] = the chunk datas fully delivered, [d1] = the delivered part of
    the current one) and stays inside it. *)
Lemma run_boundary_pos c rest sched k cap t :
  valid c -> line_limit_F17 c ->
  crun (enc c ++ rest) cstart sched = Ok t ->
  exists t' out,
    cstep (enc c ++ rest) t (k, cap, true) = Ok t' /\ t_out t' = t_out t ++ out /\
    (out = [] \/ exists pre d1 d2 post,
                   map ck_data (cd_chunks c) = pre ++ (d1 ++ out ++ d2) :: post /\
                   t_out t = concat pre ++ d1).
Proof.
  intros Hv Hl Hrun. destruct (inv_run c rest sched cstart (inv_start c Hv Hl)) as (t0 & Heq & Hinv).
  rewrite Hrun in Heq. inversion Heq; subst t0.
  destruct (inv_step c rest t k cap true Hinv) as (t' & i & out & Hs & _ & _ & Ho & _ & Hb & _).
  exists t', out. auto.
Qed.

Lemma run_boundary c rest sched k cap t :
  valid c -> line_limit_F17 c ->
  crun (enc c ++ rest) cstart sched = Ok t ->
  exists t' out,
    cstep (enc c ++ rest) t (k, cap, true) = Ok t' /\ t_out t' = t_out t ++ out /\
    (out = [] \/ exists ck d1 d2, In ck (cd_chunks c) /\ ck_data ck = d1 ++ out ++ d2).
Proof.
  intros Hv Hl Hrun.
  destruct (run_boundary_pos c rest sched k cap t Hv Hl Hrun) as (t' & out & Hs & Ho & Hb).
  exists t', out. split; [assumption|]. split; [assumption|].
  destruct Hb as [->|(pre & d1 & d2 & post & Hm & _)]; [left; reflexivity|right].
  assert (Hin : In (d1 ++ out ++ d2) (map ck_data (cd_chunks c))).
  { rewrite Hm. apply in_or_app. right. left. reflexivity. }
  apply in_map_iff in Hin. destruct Hin as (ck & Hd & Hin). exists ck, d1, d2. auto.
Qed.

(** ** Liveness: with the whole coding visible and room for a byte, reads reach the end *)

Definition all_visible (c : coding) (o : N * N * bool) : Prop :=
  let '(k, cap, _) := o in len (enc c) <= k /\ 1 <= cap.

Lemma run_reaches_end_inv c rest : forall sched t,
  Inv c t -> Forall (all_visible c) sched -> len (enc c) - t_consumed t <= len sched ->
  exists t', crun (enc c ++ rest) t sched = Ok t' /\ Inv c t' /\ dech_is_ended (t_st t') = true.
Proof.
  induction sched as [|[[k cap] stop] s IH]; intros t Hinv Hall Hn; cbn [crun].
  - exists t. split; [reflexivity|]. split; [assumption|].
    destruct (inv_facts c t Hinv) as (H1 & _ & H3 & _). apply H3. cbn [len] in Hn. lia.
  - inversion Hall as [|? ? Hvis Hall']; subst. unfold all_visible in Hvis. destruct Hvis as [Hk Hcap].
    destruct (inv_step c rest t k cap stop Hinv) as (t1 & i & out & Heq & Hinv1 & Hc1 & _ & _ & _ & Hprog).
    rewrite Heq. cbn [bind]. apply IH; [assumption|assumption|].
    rewrite len_cons in Hn. rewrite Hc1.
    destruct (dech_is_ended (t_st t)) eqn:He.
    + destruct (inv_facts c t Hinv) as (_ & _ & H3 & _). apply H3 in He. lia.
    + assert (1 <= i) by (apply Hprog; [lia|assumption|reflexivity]). lia.
Qed.

Lemma run_reaches_end c rest sched :
  valid c -> line_limit_F17 c ->
  Forall (all_visible c) sched -> len (enc c) <= len sched ->
  exists t, crun (enc c ++ rest) cstart sched = Ok t /\
    dech_is_ended (t_st t) = true /\ t_consumed t = len (enc c) /\ t_out t = payload c.
Proof.
  intros Hv Hl Hall Hn.
  destruct (run_reaches_end_inv c rest sched cstart (inv_start c Hv Hl) Hall) as (t & Heq & Hinv & He).
  { cbn [cstart t_consumed]. lia. }
  exists t. destruct (inv_facts c t Hinv) as (_ & _ & H3 & H4 & _).
  split; [assumption|]. split; [assumption|]. split; [apply H3; assumption|apply H4; assumption].
Qed.

(** ** The same step through [BodyReader::read] *)

Lemma reader_read_chunked st src cap stop st' i out :
  read_chunked st src cap stop = Ok (st', i, out) ->
  reader_read (RChunked st) src cap stop = Ok (RChunked st', i, out).
Proof. intros H. cbn [reader_read]. rewrite H. reflexivity. Qed.

(** ** Helpers for concrete codings *)

Lemma size_line_intro hex ws ext n :
  hex <> [] -> forallb is_hex hex = true -> forallb is_blank ws = true ->
  (ext = [] \/ exists e, ext = 59 :: e) -> hex_value hex = n -> n < U64_LIMIT ->
  size_line (hex ++ ws ++ ext) n.
Proof. intros. exists hex, ws, ext. repeat split; assumption. Qed.

Lemma cr_free_b l : forallb (fun b => negb (b =? 13)) l = true -> cr_free l.
Proof.
  intros H. rewrite forallb_forall in H. apply Forall_forall. intros b Hb Hc. subst b.
  specialize (H 13 Hb). discriminate H.
Qed.

(** ** Packaged single-read statements *)

(** Safety of one read, stop-agnostic. *)
Lemma step_safe st R ds rest k cap stop :
  rel st R ds ->
  exists st' C R' out ds',
    read_chunked st (take k (R ++ rest)) cap stop = Ok (st', len C, out) /\
    R = C ++ R' /\ len C <= k /\
    concat ds = out ++ concat ds' /\ len out <= cap /\
    rel st' R' ds' /\ st' <> DTrailer.
Proof.
  intros Hrel.
  destruct (read_chunked_sim rest st k R ds cap stop Hrel)
    as (st' & C & R' & out & ds' & Heq & HR & HC & Hcat & Hcap & Hrel' & _).
  exists st', C, R', out, ds'. repeat (split; [assumption|]). intros E. rewrite E in Hrel'. exact Hrel'.
Qed.

(** With boundary stopping, the output of one read is a prefix of the head piece. *)
Lemma step_boundary st R ds rest k cap st' i out :
  rel st R ds ->
  read_chunked st (take k (R ++ rest)) cap true = Ok (st', i, out) ->
  out = [] \/ exists p tl d2, ds = p :: tl /\ p = out ++ d2.
Proof.
  intros Hrel Hread.
  destruct (read_chunked_sim rest st k R ds cap true Hrel)
    as (st1 & C & R' & out1 & ds' & Heq & _ & _ & Hcat & _ & _ & _ & Hb & _).
  rewrite Hread in Heq. inversion Heq; subst. eapply budget_prefix; [exact Hcat|]. apply Hb. reflexivity.
Qed.

(** With the remaining coding visible and room for one byte, a read in a non-ended state consumes. *)
Lemma step_progress st R ds rest k cap stop st' i out :
  rel st R ds -> len R <= k -> 1 <= cap -> dech_is_ended st = false ->
  read_chunked st (take k (R ++ rest)) cap stop = Ok (st', i, out) ->
  1 <= i.
Proof.
  intros Hrel Hk Hcap He Hread.
  destruct (read_chunked_sim rest st k R ds cap stop Hrel)
    as (st1 & C & R' & out1 & ds' & Heq & _ & _ & _ & _ & _ & _ & _ & Hprog).
  rewrite Hread in Heq. inversion Heq; subst. apply Hprog; try assumption.
  intros E. rewrite E in He. discriminate He.
Qed.

(** [rel] at the ended state and at the empty remainder. *)
Lemma rel_ended_iff st R ds : rel st R ds -> (dech_is_ended st = true <-> R = []).
Proof.
  intros Hrel. split.
  - intros He. destruct st; try discriminate He. cbn [rel] in Hrel. tauto.
  - intros ->. rewrite (rel_done _ _ _ Hrel); reflexivity.
Qed.

(** Proves [size_line] on a concrete line, given its three parts. *)
Ltac size_line_tac hex ws ext :=
  apply (size_line_intro hex ws ext);
  [ discriminate | reflexivity | reflexivity
  | first [left; reflexivity | right; eexists; reflexivity]
  | vm_compute; reflexivity | vm_compute; reflexivity ].

