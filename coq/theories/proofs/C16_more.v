(** C16, strengthening (review 3).
    Part 1: one output buffer that is large enough takes the whole head in a single write.
    Part 2: [send_body_despite_method] among the [header] calls: the added headers survive it.
    Part 3: Script histories: every Prepare flow that a history of [Script.step]s holds (a fresh one,
            or one produced by following redirects to any depth) has not written yet; the flow
            produced by a followed redirect starts without added headers; the bytes observed by
            "header*, proceed, write_head" are exactly the expected head. *)
From Coq Require Import Lia ZArith List.
From Hoot Require Import Base Chunk Body Httparse Parser Url Request Call Flow Script.
From Hoot.proofs Require Import BytesLemmas C17_proofs C02_proofs C02_analysis C13_proofs C13_examples.
Open Scope N_scope.

(* ------------------------------------------------------------------ part 1: one buffer *)

Lemma greedy_all (ls : list bytes) : forall avail, len (concat ls) <= avail -> greedy ls avail = len ls.
Proof.
  induction ls as [|l t IH]; intros avail H; [reflexivity|].
  rewrite concat_cons, len_app in H. cbn [greedy].
  destruct (N.leb_spec (len l) avail) as [Hl|Hl]; [|lia].
  rewrite IH by lia. rewrite len_cons. lia.
Qed.

Lemma one_shot_head a f cap :
  am_headers a <> [] -> flow_head a f 0 -> len (render_request_head a) <= cap ->
  exists g, send_request_write f cap = Ok (g, render_request_head a) /\
            flow_head a g (len (head_lines a)) /\ send_request_can_proceed g = Ok true.
Proof.
  intros Hne Hf Hc.
  pose proof (flow_step a f 0 cap Hne Hf) as Hs. cbv zeta in Hs.
  rewrite drop_0 in Hs. unfold render_request_head in Hc.
  rewrite (greedy_all _ _ Hc) in Hs.
  pose proof (len_head_lines a Hne) as Hl.
  destruct (N.eqb_spec (len (head_lines a)) 0) as [E|E]; [lia|]. cbn [andb] in Hs.
  destruct Hs as (g & Hw & Hg). rewrite take_all in Hw by lia. rewrite N.add_0_l in Hg.
  exists g. split; [exact Hw|]. split; [exact Hg|].
  rewrite (flow_can_proceed a g _ Hne Hg), N.eqb_refl. reflexivity.
Qed.

(** The head of a flow that has not written yet, field by field: request line, added headers,
    what analysis adds (Host and / or framing), inherited headers, empty line. *)
Definition head_of (f : inner) : bytes :=
  prelude_line (req_of f) ++
  concat (map field_line (am_added (req_of f))) ++
  concat (map field_line (host_added (req_of f) ++ framing_added (req_of f) (c_writer (i_call f)))) ++
  concat (map field_line (am_inherited (req_of f))) ++ CRLF.

Lemma head_of_render f : render_request_head (c_req (analysed_call (i_call f))) = head_of f.
Proof. unfold head_of, req_of. apply render_analysed. Qed.

Lemma one_shot_fresh f cap :
  fresh_flow f -> call_invalid (i_call f) = false -> sendable (i_call f) ->
  len (head_of f) <= cap ->
  exists g, send_request_write f cap = Ok (g, head_of f) /\ send_request_can_proceed g = Ok true.
Proof.
  intros Hf Hi Hs Hc. rewrite <- head_of_render in *.
  destruct (one_shot_head _ f cap (fresh_flow_headers_nonempty f Hs) (fresh_flow_head f Hf Hi Hs) Hc)
    as (g & Hw & _ & Hp).
  exists g. auto.
Qed.

(* ------------------------------------------------------------------ part 2: despite among the additions *)

(** What the caller does to a Prepare flow: [header k v] or [send_body_despite_method], in any order. *)
Inductive prep := PH (k v : bytes) | PD.

Definition prep_op (p : prep) : op := match p with PH k v => OHeader k v | PD => ODespite end.

Fixpoint run_prep (f : inner) (ps : list prep) : res inner :=
  match ps with
  | [] => Ok f
  | PH k v :: t => do f1 <- prepare_header f k v; run_prep f1 t
  | PD :: t => do f1 <- send_body_despite_method f; run_prep f1 t
  end.

(** The headers among the operations, in order. *)
Definition prep_kvs (ps : list prep) : list header :=
  flat_map (fun p => match p with PH k v => [(k, v)] | PD => [] end) ps.

Definition header_preps (kvs : list header) : list prep := map (fun kv => PH (fst kv) (snd kv)) kvs.
Definition header_ops (kvs : list header) : list op := map (fun kv => OHeader (fst kv) (snd kv)) kvs.

Lemma header_ops_preps kvs : map prep_op (header_preps kvs) = header_ops kvs.
Proof. unfold header_preps, header_ops. rewrite map_map. reflexivity. Qed.

Lemma prep_kvs_headers kvs : prep_kvs (header_preps kvs) = kvs.
Proof.
  induction kvs as [|[k v] t IH]; [reflexivity|].
  unfold prep_kvs, header_preps in *. cbn [map flat_map fst snd app]. rewrite IH. reflexivity.
Qed.

Lemma run_prep_headers kvs : forall f, run_prep f (header_preps kvs) = prepare_headers f kvs.
Proof.
  induction kvs as [|[k v] t IH]; intros f; [reflexivity|].
  unfold header_preps in *. cbn [map run_prep prepare_headers fst snd].
  destruct (prepare_header f k v) as [f1| |]; cbn [bind]; auto.
Qed.

Lemma despite_req f f' : send_body_despite_method f = Ok f' -> req_of f' = req_of f.
Proof.
  unfold send_body_despite_method, req_of. destruct (i_holder f).
  - destruct (into_send_body (i_call f)) as [c| |] eqn:E; cbn [bind]; try discriminate.
    intros H. inversion H; subst. cbn. apply into_send_body_req. exact E.
  - intros H. inversion H. reflexivity.
  - intros H. inversion H. reflexivity.
  - intros H. inversion H. reflexivity.
Qed.

Lemma despite_ok f : fresh_flow f -> exists f', send_body_despite_method f = Ok f'.
Proof.
  intros [[Ha _] Hh]. unfold send_body_despite_method. destruct Hh as [Hh|Hh]; rewrite Hh.
  - unfold into_send_body. rewrite Ha. cbn [bind]. eauto.
  - eauto.
Qed.

Lemma run_prep_inv ps : forall f f',
  run_prep f ps = Ok f' ->
  req_of f' = with_added (req_of f) (map lower_kv (prep_kvs ps)) /\
  forallb valid_kv (prep_kvs ps) = true.
Proof.
  induction ps as [|[k v|] t IH]; intros f f' H.
  - cbn [run_prep] in H. inversion H; subst. cbn [prep_kvs flat_map map forallb].
    rewrite with_added_nil. auto.
  - cbn [run_prep] in H.
    destruct (prepare_header f k v) as [f1| |] eqn:E; cbn [bind] in H; try discriminate.
    apply prepare_header_inv in E. destruct E as (-> & Hv & _).
    apply IH in H. destruct H as (Hq & Hvt).
    change (prep_kvs (PH k v :: t)) with ((k, v) :: prep_kvs t).
    cbn [map forallb]. rewrite Hv, Hvt. split; [|reflexivity].
    rewrite Hq, req_of_add_headers, with_added_app. reflexivity.
  - cbn [run_prep] in H.
    destruct (send_body_despite_method f) as [f1| |] eqn:E; cbn [bind] in H; try discriminate.
    apply despite_req in E. apply IH in H. destruct H as (Hq & Hvt).
    change (prep_kvs (PD :: t)) with (prep_kvs t). rewrite Hq, E. auto.
Qed.

Lemma run_prep_fresh ps : forall f f', fresh_flow f -> run_prep f ps = Ok f' -> fresh_flow f'.
Proof.
  induction ps as [|[k v|] t IH]; intros f f' Hf H.
  - cbn [run_prep] in H. inversion H; subst. exact Hf.
  - cbn [run_prep] in H.
    destruct (prepare_header f k v) as [f1| |] eqn:E; cbn [bind] in H; try discriminate.
    apply prepare_header_inv in E. destruct E as (-> & _ & _).
    eapply IH; [|exact H]. apply add_headers_fresh. exact Hf.
  - cbn [run_prep] in H.
    destruct (send_body_despite_method f) as [f1| |] eqn:E; cbn [bind] in H; try discriminate.
    eapply IH; [|exact H]. eapply despite_fresh; eassumption.
Qed.

(** All of it succeeds when the headers are valid and fit and the flow has not written yet. *)
Lemma run_prep_ok ps : forall f,
  fresh_flow f -> forallb valid_kv (prep_kvs ps) = true ->
  len (am_added (req_of f)) + len (prep_kvs ps) <= MAX_EXTRA_HEADERS ->
  exists f', run_prep f ps = Ok f'.
Proof.
  induction ps as [|[k v|] t IH]; intros f Hf Hv Hl.
  - eexists. reflexivity.
  - change (prep_kvs (PH k v :: t)) with ((k, v) :: prep_kvs t) in Hv, Hl.
    cbn [forallb] in Hv. apply andb_prop in Hv. destruct Hv as [Hv1 Hv2]. rewrite len_cons in Hl.
    cbn [run_prep]. rewrite prepare_header_ok by (assumption || lia). cbn [bind].
    apply IH; [apply add_headers_fresh; exact Hf|exact Hv2|].
    rewrite req_of_add_headers. unfold with_added. cbn [am_added]. rewrite len_app, len_cons. cbn [len]. lia.
  - change (prep_kvs (PD :: t)) with (prep_kvs t) in Hv, Hl.
    destruct (despite_ok f Hf) as (f1 & E). cbn [run_prep]. rewrite E. cbn [bind].
    apply IH; [eapply despite_fresh; eassumption|exact Hv|].
    rewrite (despite_req _ _ E). exact Hl.
Qed.

Lemma head_of_prep f ps f' :
  run_prep f ps = Ok f' ->
  head_of f' =
    prelude_line (req_of f) ++
    concat (map field_line (am_added (req_of f) ++ map lower_kv (prep_kvs ps))) ++
    concat (map field_line (host_added (req_of f') ++ framing_added (req_of f') (c_writer (i_call f')))) ++
    concat (map field_line (am_inherited (req_of f))) ++ CRLF.
Proof.
  intros H. apply run_prep_inv in H. destruct H as (Hq & _).
  assert (H1 : prelude_line (req_of f') = prelude_line (req_of f)) by (rewrite Hq; reflexivity).
  assert (H2 : am_added (req_of f') = am_added (req_of f) ++ map lower_kv (prep_kvs ps)) by (rewrite Hq; reflexivity).
  assert (H3 : am_inherited (req_of f') = am_inherited (req_of f)) by (rewrite Hq; reflexivity).
  unfold head_of. rewrite H1, H2, H3. reflexivity.
Qed.

Lemma c16_despite_order_lemma f ps f' :
  run_prep f ps = Ok f' ->
  am_headers (req_of f') = (am_added (req_of f) ++ map lower_kv (prep_kvs ps)) ++ am_inherited (req_of f) /\
  am_added (req_of f') = am_added (req_of f) ++ map lower_kv (prep_kvs ps) /\
  am_inherited (req_of f') = am_inherited (req_of f) /\
  am_req (req_of f') = am_req (req_of f) /\ am_uri (req_of f') = am_uri (req_of f) /\
  am_unset (req_of f') = am_unset (req_of f) /\
  forallb valid_kv (prep_kvs ps) = true /\
  (fresh_flow f -> fresh_flow f').
Proof.
  intros H. pose proof (run_prep_fresh ps f f') as Hfr.
  pose proof (run_prep_inv ps f f' H) as (Hq & Hv). rewrite Hq.
  split; [rewrite am_headers_with_added, app_assoc; reflexivity|].
  do 5 (split; [reflexivity|]). split; [exact Hv|].
  intros Hf. apply Hfr; assumption.
Qed.

(** The special case the seeded change broke: additions, then despite, then more additions. *)
Lemma c16_despite_keeps_lemma f kvs1 f1 f2 kvs2 f3 :
  prepare_headers f kvs1 = Ok f1 -> send_body_despite_method f1 = Ok f2 -> prepare_headers f2 kvs2 = Ok f3 ->
  req_of f2 = req_of f1 /\
  am_added (req_of f3) = am_added (req_of f) ++ map lower_kv kvs1 ++ map lower_kv kvs2 /\
  am_headers (req_of f3) =
    (am_added (req_of f) ++ map lower_kv kvs1 ++ map lower_kv kvs2) ++ am_inherited (req_of f).
Proof.
  intros H1 H2 H3. apply prepare_headers_inv in H1. destruct H1 as (-> & _).
  apply prepare_headers_inv in H3. destruct H3 as (-> & _).
  pose proof (despite_req _ _ H2) as Hq. split; [exact Hq|].
  rewrite !req_of_add_headers, Hq, req_of_add_headers, with_added_app.
  split; [reflexivity|]. rewrite am_headers_with_added, <- !app_assoc. reflexivity.
Qed.

Lemma c16_despite_wire_lemma f ps f' cap :
  fresh_flow f -> run_prep f ps = Ok f' ->
  call_invalid (i_call f') = false -> sendable (i_call f') ->
  let head :=
    prelude_line (req_of f) ++
    concat (map field_line (am_added (req_of f) ++ map lower_kv (prep_kvs ps))) ++
    concat (map field_line (host_added (req_of f') ++ framing_added (req_of f') (c_writer (i_call f')))) ++
    concat (map field_line (am_inherited (req_of f))) ++ CRLF in
  len head <= cap ->
  exists g, send_request_write f' cap = Ok (g, head) /\ send_request_can_proceed g = Ok true.
Proof.
  intros Hf Hp Hi Hs. cbv zeta. rewrite <- (head_of_prep f ps f' Hp). intros Hc.
  apply one_shot_fresh; auto. eapply run_prep_fresh; eassumption.
Qed.

Lemma despite_writer_fresh f f' :
  fresh_flow f -> send_body_despite_method f = Ok f' ->
  c_writer (i_call f') = (match i_holder f with HWithoutBody => new_chunked | _ => c_writer (i_call f) end).
Proof.
  intros Hf H. destruct (despite_fresh f f' Hf H) as (_ & _ & H1 & H2).
  destruct Hf as [_ [Hh|Hh]]; rewrite Hh.
  - apply H1. exact Hh.
  - rewrite (H2 Hh). reflexivity.
Qed.

(** One buffer, no despite: the reviewer's [c16_one_shot]. *)
Lemma c16_one_shot_lemma f kvs f' cap :
  fresh_flow f -> prepare_headers f kvs = Ok f' ->
  call_invalid (i_call f') = false -> sendable (i_call f') ->
  let head :=
    prelude_line (req_of f) ++
    concat (map field_line (am_added (req_of f) ++ map lower_kv kvs)) ++
    concat (map field_line (host_added (req_of f') ++ framing_added (req_of f') (c_writer (i_call f)))) ++
    concat (map field_line (am_inherited (req_of f))) ++ CRLF in
  len head <= cap ->
  head = render_request_head (c_req (analysed_call (i_call f'))) /\
  exists g, send_request_write f' cap = Ok (g, head) /\ send_request_can_proceed g = Ok true /\
            fwrun f' [cap] = {| fw_flow := g; fw_out := head |}.
Proof.
  intros Hf Hp Hi Hs. cbv zeta.
  pose proof Hp as Hp'. rewrite <- run_prep_headers in Hp'.
  pose proof (c16_despite_wire_lemma f (header_preps kvs) f' cap Hf Hp' Hi Hs) as H. cbv zeta in H.
  rewrite prep_kvs_headers in H.
  assert (Hw : c_writer (i_call f') = c_writer (i_call f)).
  { apply prepare_headers_inv in Hp. destruct Hp as (-> & _). reflexivity. }
  rewrite Hw in H. intros Hc. split.
  - rewrite head_of_render, (head_of_prep f (header_preps kvs) f' Hp'), prep_kvs_headers, Hw. reflexivity.
  - destruct (H Hc) as (g & Hg & Hcp). exists g. split; [exact Hg|]. split; [exact Hcp|].
    unfold fwrun. cbn [fold_left]. unfold fwstep. cbn [fw_flow fw_out]. rewrite Hg. reflexivity.
Qed.

(* ------------------------------------------------------------------ part 3: Script histories *)

(** Invariant of every history: a Prepare flow has not written yet; the pending flow produced by
    the last followed [as_new_flow] has not written yet and has no added headers. *)
Definition prep_ok (s : sstate) : Prop :=
  (forall f, s_obj s = ObFlow TPrepare f -> fresh_flow f) /\
  (forall n, s_next s = Some n -> fresh_flow n /\ am_added (req_of n) = []).

(** Transitions that cannot break it: the pending flow is untouched, the object is the same or is
    not a Prepare flow. *)
Definition keeps (s s' : sstate) : Prop :=
  s_next s' = s_next s /\ (s_obj s' = s_obj s \/ forall f, s_obj s' <> ObFlow TPrepare f).

Lemma keeps_ok s s' : keeps s s' -> prep_ok s -> prep_ok s'.
Proof.
  intros [Hn Ho] [H1 H2]. split.
  - intros f E. destruct Ho as [Ho|Ho]; [apply H1; rewrite <- Ho; exact E|exfalso; eapply Ho; exact E].
  - intros n E. apply H2. rewrite <- Hn. exact E.
Qed.

Lemma keeps_same s s' : s_next s' = s_next s -> s_obj s' = s_obj s -> keeps s s'.
Proof. intros H1 H2. split; auto. Qed.

Lemma keeps_refl s : keeps s s.
Proof. apply keeps_same; reflexivity. Qed.

Lemma keeps_tag s s' : s_next s' = s_next s -> (forall f, s_obj s' <> ObFlow TPrepare f) -> keeps s s'.
Proof. intros H1 H2. split; auto. Qed.

Lemma upd_keeps {A} s t (r : res A) getf k : t <> TPrepare -> keeps s (fst (upd s t r getf k)).
Proof.
  intros Ht. unfold upd. destruct r as [a| |]; cbn [fst]; try apply keeps_refl.
  apply keeps_tag; [reflexivity|]. cbn. intros f E. inversion E. contradiction.
Qed.

Ltac case_in H :=
  match type of H with
  | context [match ?x with _ => _ end] =>
      match x with
      | context [match _ with _ => _ end] => fail 1
      | _ => destruct x eqn:?
      end
  end.

Ltac tag_not_prepare H :=
  unfold bind in H; repeat (case_in H; try discriminate); inversion H; subst; discriminate.

Lemma sr_proceed_tag f t f' : send_request_proceed f = Ok (Some (t, f')) -> t <> TPrepare.
Proof. unfold send_request_proceed. intros H. tag_not_prepare H. Qed.

Lemma await_proceed_tag f t f' : await_100_proceed f = Ok (t, f') -> t <> TPrepare.
Proof. unfold await_100_proceed. intros H. tag_not_prepare H. Qed.

Lemma sb_proceed_tag f t f' : send_body_proceed f = Ok (Some (t, f')) -> t <> TPrepare.
Proof. unfold send_body_proceed. intros H. tag_not_prepare H. Qed.

Lemma rr_proceed_tag f t f' : recv_response_proceed f = Ok (Some (t, f')) -> t <> TPrepare.
Proof. unfold recv_response_proceed. intros H. tag_not_prepare H. Qed.

Lemma rb_proceed_tag f t f' : recv_body_proceed f = Ok (Some (t, f')) -> t <> TPrepare.
Proof. unfold recv_body_proceed. intros H. tag_not_prepare H. Qed.

Lemma do_proceed_keeps s t f : keeps s (fst (do_proceed s t f)).
Proof.
  unfold do_proceed.
  assert (Hopt : forall r : res (option (tag * inner)),
             (forall t' f', r = Ok (Some (t', f')) -> t' <> TPrepare) ->
             keeps s (fst (match r with
                           | Ok (Some (t', f')) => (with_flow s t' f', [w "state"; tag_name t'])
                           | Ok None => (s, [w "stay"])
                           | Err e => (with_obj s ObNone, obs_err e)
                           | Panic _ => (s, obs_panic)
                           end))).
  { intros r Hr. destruct r as [[[t' f']|]| |]; cbn [fst]; try apply keeps_refl.
    - apply keeps_tag; [reflexivity|]. cbn. intros f0 E. inversion E. subst t'.
      eapply Hr; reflexivity.
    - apply keeps_tag; [reflexivity|]. cbn. discriminate. }
  destruct t.
  - cbn [fst]. apply keeps_tag; [reflexivity|cbn; discriminate].
  - apply Hopt. intros t' f' E. eapply sr_proceed_tag. exact E.
  - apply Hopt. intros t' f' E.
    destruct (await_100_proceed f) as [[t1 f1]| |] eqn:E1; cbn [bind] in E; try discriminate.
    inversion E; subst. eapply await_proceed_tag. exact E1.
  - apply Hopt. intros t' f' E. eapply sb_proceed_tag. exact E.
  - apply Hopt. intros t' f' E. eapply rr_proceed_tag. exact E.
  - apply Hopt. intros t' f' E. eapply rb_proceed_tag. exact E.
  - cbn [fst]. apply keeps_tag; [reflexivity|cbn; discriminate].
  - cbn [fst]. apply keeps_refl.
Qed.

Lemma do_premature_keeps s t f : keeps s (fst (do_premature s t f)).
Proof.
  unfold do_premature.
  destruct t; cbn [fst]; try apply keeps_refl;
    (apply keeps_tag; [reflexivity|cbn; discriminate]).
Qed.

Lemma do_try100_keeps s f win track : keeps s (fst (do_try100 s f win track)).
Proof.
  unfold do_try100. destruct (try_read_100 f win) as [f' r].
  destruct r as [n| |]; cbn [fst]; try destruct track;
    (apply keeps_tag; [reflexivity|cbn; discriminate]).
Qed.

Lemma do_try_response_keeps s f win track : keeps s (fst (do_try_response s f win track)).
Proof.
  unfold do_try_response.
  destruct (recv_try_response f win) as [[[f' used] got]| |]; cbn [fst]; try apply keeps_refl.
  destruct track; (apply keeps_tag; [reflexivity|cbn; discriminate]).
Qed.

Lemma do_read_keeps s f win cap track : keeps s (fst (do_read s f win cap track)).
Proof.
  unfold do_read.
  destruct (recv_body_read f win cap) as [[[f' i] o]| |]; cbn [fst]; try apply keeps_refl.
  - destruct track; (apply keeps_tag; [reflexivity|cbn; discriminate]).
  - apply keeps_tag; [reflexivity|cbn; discriminate].
Qed.

Lemma do_write_body_keeps s input cap track sum : keeps s (fst (do_write_body s input cap track sum)).
Proof.
  unfold do_write_body.
  destruct (s_obj s) as [|t f|h c] eqn:Ho; cbn [fst]; try apply keeps_refl.
  - destruct t; cbn [fst]; try apply keeps_refl.
    destruct (send_body_write f input cap) as [[[f' used] out]| |]; cbn [fst]; try apply keeps_refl.
    destruct track; (apply keeps_tag; [reflexivity|cbn; discriminate]).
  - destruct h; cbn [fst]; try apply keeps_refl.
    destruct (call_write_body c input cap) as [[[c' used] out]| |]; cbn [fst]; try apply keeps_refl.
    + destruct track; (apply keeps_tag; [reflexivity|cbn; discriminate]).
    + apply keeps_tag; [reflexivity|cbn; discriminate].
Qed.

Definition special16 (o : op) : bool :=
  match o with ONew _ | OHeader _ _ | ODespite | OAsNewFlow _ | OFollow => true | _ => false end.

(** The arms of [step] for the single call past the request: the object stays a call or is gone. *)
Ltac call_arms :=
  unfold do_call_into_receive;
  repeat match goal with
  | |- context [match into_receive ?c with _ => _ end] => destruct (into_receive c)
  | |- context [match c_reader ?c with _ => _ end] => destruct (c_reader c) as [[| | |]|]
  | |- context [match call_try_response ?c ?b with _ => _ end] => destruct (call_try_response c b) as [[? ?]|?|?]
  | |- context [match call_read ?c ?b ?cap with _ => _ end] => destruct (call_read c b cap) as [[[? ?] ?]|?|?]
  end; cbn [fst];
  first [apply keeps_refl | apply keeps_tag; [reflexivity|cbn; discriminate]].

Lemma step_keeps s o : special16 o = false -> keeps s (fst (step s o)).
Proof.
  intros Hs. destruct o; try discriminate Hs; clear Hs; unfold step.
  all: try (apply keeps_tag; [reflexivity|cbn; discriminate]).
  all: try (apply keeps_same; reflexivity).
  all: try apply do_write_body_keeps.
  all: destruct (s_obj s) as [|t f|h c] eqn:Ho; try apply keeps_refl.
  all: try (destruct t; try apply keeps_refl).
  all: try (destruct h; try apply keeps_refl).
  all: try (solve [call_arms]).
  all: try apply do_proceed_keeps.
  all: try apply do_premature_keeps.
  all: try apply do_try100_keeps.
  all: try apply do_try_response_keeps.
  all: try apply do_read_keeps.
  all: try (apply upd_keeps; discriminate).
  destruct (call_write_nobody c cap) as [[c' out]| |]; cbn [fst]; try apply keeps_refl;
    (apply keeps_tag; [reflexivity|cbn; discriminate]).
Qed.

Lemma step_prep_ok s o : prep_ok s -> prep_ok (fst (step s o)).
Proof.
  intros Hok. destruct (special16 o) eqn:Hsp; [|eapply keeps_ok; [apply step_keeps; exact Hsp|exact Hok]].
  pose proof Hok as [H1 H2].
  destruct o; try discriminate Hsp; clear Hsp; unfold step.
  - (* ONew *)
    destruct (flow_new r) as [f| |] eqn:E; cbn [fst]; try exact Hok.
    split; cbn [s_obj s_next]; [|discriminate].
    intros f0 E0. inversion E0; subst f0. apply (flow_new_fresh r f E).
  - (* OHeader *)
    destruct (s_obj s) as [|t f|h c] eqn:Ho; try exact Hok.
    destruct t; try exact Hok.
    unfold upd. destruct (prepare_header f k v) as [f'| |] eqn:E; cbn [fst]; try exact Hok.
    split; cbn [with_flow with_obj s_obj s_next]; [|exact H2].
    intros f0 E0. inversion E0; subst f0.
    apply prepare_header_inv in E. destruct E as (-> & _). apply add_headers_fresh. apply H1. reflexivity.
  - (* ODespite *)
    destruct (s_obj s) as [|t f|h c] eqn:Ho; try exact Hok.
    destruct t; try exact Hok.
    unfold upd. destruct (send_body_despite_method f) as [f'| |] eqn:E; cbn [fst]; try exact Hok.
    split; cbn [with_flow with_obj s_obj s_next]; [|exact H2].
    intros f0 E0. inversion E0; subst f0.
    eapply despite_fresh; [|exact E]. apply H1. reflexivity.
  - (* OAsNewFlow *)
    destruct (s_obj s) as [|t f|h c] eqn:Ho; try exact Hok.
    destruct t; try exact Hok.
    destruct (as_new_flow f p) as [[f' nxt]| |] eqn:E; cbn [fst]; try exact Hok.
    split; cbn [s_obj s_next]; [discriminate|].
    destruct nxt as [n|]; [|exact H2].
    intros n0 E0. inversion E0; subst n0.
    apply as_new_flow_some in E.
    destruct E as (loc & status & orig & target & nm & _ & _ & _ & _ & _ & _ & _ & Hq & Hfr & _).
    split; [exact Hfr|]. rewrite Hq. reflexivity.
  - (* OFollow *)
    destruct (s_next s) as [n|] eqn:En.
    + assert (Hx : forall (o : obj), prep_ok
                (fst ({| s_obj := ObFlow TPrepare n; s_next := None; s_stream := s_stream s;
                         s_arrived := s_arrived s; s_consumed := s_consumed s;
                         s_body := s_body s; s_sent := 0 |}, [w "ok"]))).
      { intros _. cbn [fst]. split; cbn [s_obj s_next]; [|discriminate].
        intros f0 E0. inversion E0; subst f0. apply (H2 n). reflexivity. }
      destruct (s_obj s); apply Hx; exact ObNone.
    + destruct (s_obj s); exact Hok.
Qed.

Lemma prep_ok_init : prep_ok s_init.
Proof. split; cbn; discriminate. Qed.

Lemma run_ops_prep_ok ops : forall s, prep_ok s -> prep_ok (run_ops s ops).
Proof.
  induction ops as [|o t IH]; intros s H; [exact H|].
  unfold run_ops. cbn [fold_left]. apply IH. apply step_prep_ok. exact H.
Qed.

Lemma run_ops_app s l1 l2 : run_ops s (l1 ++ l2) = run_ops (run_ops s l1) l2.
Proof. unfold run_ops. apply fold_left_app. Qed.

Lemma run_ops_cons s o t : run_ops s (o :: t) = run_ops (fst (step s o)) t.
Proof. reflexivity. Qed.

Lemma run_obs_cons s o t : run_obs s (o :: t) = snd (step s o) :: run_obs (fst (step s o)) t.
Proof. cbn [run_obs]. destruct (step s o). reflexivity. Qed.

Lemma heads_app a b : heads (a ++ b) = heads a ++ heads b.
Proof.
  induction a as [|x a IH]; [reflexivity|].
  unfold heads in *. cbn [app flat_map]. rewrite IH, app_assoc. reflexivity.
Qed.

Lemma heads_cons_nohead x l : heads [x] = [] -> heads (x :: l) = heads l.
Proof. intros H. change (x :: l) with ([x] ++ l). rewrite heads_app, H. reflexivity. Qed.

Lemma run_obs_app l1 : forall s l2, run_obs s (l1 ++ l2) = run_obs s l1 ++ run_obs (run_ops s l1) l2.
Proof.
  induction l1 as [|o t IH]; intros s l2; [reflexivity|].
  cbn [app]. rewrite !run_obs_cons, run_ops_cons, IH. reflexivity.
Qed.

(** Every Prepare flow of every history has not written yet. *)
Lemma script_prepare_fresh ops f : s_obj (run_ops s_init ops) = ObFlow TPrepare f -> fresh_flow f.
Proof. apply (run_ops_prep_ok ops s_init prep_ok_init). Qed.

(** Following a redirect (whatever the depth) yields a Prepare flow without added headers. *)
Lemma script_follow ops n :
  s_next (run_ops s_init ops) = Some n ->
  s_obj (run_ops s_init (ops ++ [OFollow])) = ObFlow TPrepare n /\
  fresh_flow n /\ am_added (req_of n) = [].
Proof.
  intros H. split.
  - rewrite run_ops_app. rewrite run_ops_cons. unfold step. rewrite H.
    destruct (s_obj (run_ops s_init ops)); reflexivity.
  - apply (run_ops_prep_ok ops s_init prep_ok_init). exact H.
Qed.

(* single steps on known objects *)
Lemma step_header s f k v :
  s_obj s = ObFlow TPrepare f ->
  step s (OHeader k v) = upd s TPrepare (prepare_header f k v) (fun x => x) (fun _ => [w "ok"]).
Proof. intros Ho. unfold step. rewrite Ho. reflexivity. Qed.

Lemma step_despite s f :
  s_obj s = ObFlow TPrepare f ->
  step s ODespite = upd s TPrepare (send_body_despite_method f) (fun x => x) (fun _ => [w "ok"]).
Proof. intros Ho. unfold step. rewrite Ho. reflexivity. Qed.

Lemma step_proceed_prepare s f :
  s_obj s = ObFlow TPrepare f ->
  step s OProceed = (with_flow s TSendRequest f, [w "state"; tag_name TSendRequest]).
Proof. intros Ho. unfold step. rewrite Ho. reflexivity. Qed.

Lemma step_write_head s f cap :
  s_obj s = ObFlow TSendRequest f ->
  step s (OWriteHead cap) =
    upd s TSendRequest (send_request_write f cap) fst (fun r => [w "ok"; TN (len (snd r)); TH (snd r)]).
Proof. intros Ho. unfold step. rewrite Ho. reflexivity. Qed.

Lemma with_flow_same s t f : s_obj s = ObFlow t f -> with_flow s t f = s.
Proof. intros H. destruct s. cbn in *. subst. reflexivity. Qed.

(** The caller's preparation run through the script: same flow, no head observed. *)
Lemma run_prep_script ps : forall s f f',
  s_obj s = ObFlow TPrepare f -> run_prep f ps = Ok f' ->
  run_ops s (map prep_op ps) = with_flow s TPrepare f' /\ heads (run_obs s (map prep_op ps)) = [].
Proof.
  induction ps as [|[k v|] t IH]; intros s f f' Ho H.
  - cbn [run_prep] in H. inversion H; subst. cbn [map]. split; [|reflexivity].
    symmetry. apply with_flow_same. exact Ho.
  - cbn [run_prep] in H.
    destruct (prepare_header f k v) as [f1| |] eqn:E; cbn [bind] in H; try discriminate.
    cbn [map prep_op]. rewrite run_ops_cons, run_obs_cons, (step_header s f k v Ho), E.
    unfold upd. cbn [fst snd]. rewrite heads_cons_nohead by reflexivity.
    destruct (IH (with_flow s TPrepare f1) f1 f' eq_refl H) as (H1 & H2).
    rewrite H1, H2. split; reflexivity.
  - cbn [run_prep] in H.
    destruct (send_body_despite_method f) as [f1| |] eqn:E; cbn [bind] in H; try discriminate.
    cbn [map prep_op]. rewrite run_ops_cons, run_obs_cons, (step_despite s f Ho), E.
    unfold upd. cbn [fst snd]. rewrite heads_cons_nohead by reflexivity.
    destruct (IH (with_flow s TPrepare f1) f1 f' eq_refl H) as (H1 & H2).
    rewrite H1, H2. split; reflexivity.
Qed.

(** Script level, any Prepare flow of any history (any redirect depth), additions and despite in
    any order, then proceed and one write with a buffer that is large enough: the one head observed
    is exactly the expected byte string, and the flow is ready to advance. *)
Lemma c16_script_wire ops f ps f' cap :
  s_obj (run_ops s_init ops) = ObFlow TPrepare f ->
  run_prep f ps = Ok f' -> call_invalid (i_call f') = false -> sendable (i_call f') ->
  let head :=
    prelude_line (req_of f) ++
    concat (map field_line (am_added (req_of f) ++ map lower_kv (prep_kvs ps))) ++
    concat (map field_line (host_added (req_of f') ++ framing_added (req_of f') (c_writer (i_call f')))) ++
    concat (map field_line (am_inherited (req_of f))) ++ CRLF in
  len head <= cap ->
  let tail_ops := map prep_op ps ++ [OProceed; OWriteHead cap] in
  heads (run_obs (run_ops s_init ops) tail_ops) = [head] /\
  exists g, s_obj (run_ops s_init (ops ++ tail_ops)) = ObFlow TSendRequest g /\
            send_request_can_proceed g = Ok true.
Proof.
  intros Ho Hp Hi Hs. cbv zeta. intros Hc.
  pose proof (script_prepare_fresh ops f Ho) as Hf.
  destruct (c16_despite_wire_lemma f ps f' cap Hf Hp Hi Hs Hc) as (g & Hw & Hcp).
  set (s := run_ops s_init ops) in *.
  destruct (run_prep_script ps s f f' Ho Hp) as (H1 & H2).
  rewrite run_ops_app. fold s. rewrite run_obs_app, heads_app, H2, !run_ops_app, H1.
  set (s1 := with_flow s TPrepare f').
  assert (Ho1 : s_obj s1 = ObFlow TPrepare f') by reflexivity.
  rewrite run_obs_cons, !run_ops_cons, (step_proceed_prepare s1 f' Ho1). cbn [fst snd].
  set (s2 := with_flow s1 TSendRequest f').
  assert (Ho2 : s_obj s2 = ObFlow TSendRequest f') by reflexivity.
  rewrite run_obs_cons, (step_write_head s2 f' cap Ho2), Hw. unfold upd. cbn [fst snd].
  split; [reflexivity|]. exists g. split; [reflexivity|exact Hcp].
Qed.
