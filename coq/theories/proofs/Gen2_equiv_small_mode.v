(** (body-mode part) Small functions of src/client/flow.rs and src/client/call.rs, translated (Gen2.v), against the model: the close-reason list
    ([add_close_reason]: each reason once; [close_reason] / [must_close_connection]: the first reason, explained), the redirect
    test on the recorded status, whether a response body is expected, the body mode reported to the caller, and the questions
    the flow asks of the response body reader.  These are the functions that the larger translations take as flags or as the
    model's reading ([add_reason], [is_redirect], [need_response_body], ...): with these equalities the flags are the code's. *)
From Coq Require Import NArith Bool List Lia String.
From Hoot Require Import Base Chunk Body Request Call Flow GenLib Gen Gen2.
Import ListNotations.
Open Scope N_scope.

(** Same outcome; a panic corresponds to a panic (the site texts differ between model and translation). *)
Definition same_res {A : Type} (x y : res A) : Prop :=
  match x, y with
  | Ok a, Ok b => a = b
  | Err e, Err e' => e = e'
  | Panic _, Panic _ => True
  | _, _ => False
  end.

Lemma small_body_mode r : gen_br_body_mode r = reader_mode r.
Proof. destruct r; reflexivity. Qed.

Theorem gen_call_body_mode_eq c : gen_call_body_mode (c_reader c) = call_body_mode c.
Proof.
  unfold gen_call_body_mode, call_body_mode. destruct (c_reader c) as [r|]; cbn [option_map unwrap_or]; [|reflexivity].
  apply small_body_mode.
Qed.

