(** Fragments of src/client/flow.rs translated from the Rust sources on every run (theories/Gen.v, FRAGMENTS of tools/rs2coq.py):
    the redirect method table inside [as_new_flow] and the status test of [Inner::is_redirect].  Proved equal, for all
    arguments, to the table of the statement ([redirect_method], proofs/C15_proofs.v) and to what the model computes. *)
From Coq Require Import NArith ZArith Bool List Lia ZifyBool ZifyN.
From Hoot Require Import Base Chunk Body Url Request Call Flow Gen.
From Hoot.proofs Require Import C15_proofs.
Open Scope N_scope.

Ltac split_if := match goal with |- context [if ?c then _ else _] => destruct c eqn:? end.

(** The method of the redirected request, or None when the redirect is not followed: the table of the statement. *)
Lemma gen_redirect_method_spec status m : gen_redirect_method status m = redirect_method status m.
Proof.
  unfold gen_redirect_method, redirect_method, gen_is_retaining, gen_need_request_body.
  destruct m; cbn [method_eqb orb andb negb];
    repeat (try reflexivity; try lia; split_if); try reflexivity; try lia;
    repeat match goal with H : (_ || _) = _ |- _ => apply Bool.orb_true_iff in H || apply Bool.orb_false_iff in H end; try lia.
Qed.

Lemma gen_is_redirect_status_spec v : gen_is_redirect_status v = is_redirection v && negb (v =? 304).
Proof. unfold gen_is_redirect_status, is_redirection. repeat (try reflexivity; try lia; split_if); try reflexivity; lia. Qed.

(** The model's [is_redirect] is that test applied to the status the flow has recorded. *)
Lemma is_redirect_gen f :
  is_redirect f = match i_status f with Some s => gen_is_redirect_status s | None => false end.
Proof. unfold is_redirect. destruct (i_status f); [rewrite gen_is_redirect_status_spec|]; reflexivity. Qed.
