(** Lemmas about [len], [take], [drop] and friends. *)
From Coq Require Import Lia ZArith.
From Hoot Require Import Bytes.
Open Scope N_scope.

Lemma len_length {A} (l : list A) : len l = N.of_nat (length l).
Proof. induction l as [|x l IH]; cbn [len length]; [reflexivity|]. rewrite IH. lia. Qed.

Lemma len_nil {A} : len (@nil A) = 0.
Proof. reflexivity. Qed.

Lemma len_cons {A} (x : A) l : len (x :: l) = len l + 1.
Proof. cbn [len]. lia. Qed.

Lemma len_app {A} (a b : list A) : len (a ++ b) = len a + len b.
Proof. rewrite !len_length, app_length. lia. Qed.

Lemma len_zero_nil {A} (l : list A) : len l = 0 -> l = [].
Proof. destruct l; cbn [len]; [reflexivity|lia]. Qed.

Lemma len_pos_cons {A} (l : list A) : 0 < len l -> exists x t, l = x :: t.
Proof. destruct l as [|x t]; cbn [len]; [lia|eauto]. Qed.

Lemma take_0 {A} (l : list A) : take 0 l = [].
Proof. destruct l; reflexivity. Qed.

Lemma take_nil {A} n : take n (@nil A) = [].
Proof. reflexivity. Qed.

Lemma drop_0 {A} (l : list A) : drop 0 l = l.
Proof. destruct l; reflexivity. Qed.

Lemma take_cons_pos {A} n (x : A) l : 0 < n -> take n (x :: l) = x :: take (n - 1) l.
Proof. intros H. cbn [take]. destruct (N.eqb_spec n 0); [lia|]. rewrite N.sub_1_r. reflexivity. Qed.

Lemma drop_cons_pos {A} n (x : A) l : 0 < n -> drop n (x :: l) = drop (n - 1) l.
Proof. intros H. cbn [drop]. destruct (N.eqb_spec n 0); [lia|]. rewrite N.sub_1_r. reflexivity. Qed.

Lemma len_take {A} n (l : list A) : len (take n l) = N.min n (len l).
Proof.
  revert n. induction l as [|x l IH]; intros n.
  - cbn. lia.
  - destruct (N.eq_dec n 0) as [->|Hn].
    + rewrite take_0. cbn [len]. lia.
    + rewrite take_cons_pos by lia. rewrite !len_cons, IH. lia.
Qed.

Lemma len_drop {A} n (l : list A) : len (drop n l) = len l - n.
Proof.
  revert n. induction l as [|x l IH]; intros n.
  - cbn. lia.
  - destruct (N.eq_dec n 0) as [->|Hn].
    + rewrite drop_0. lia.
    + rewrite drop_cons_pos by lia. rewrite len_cons, IH. lia.
Qed.

Lemma take_drop {A} n (l : list A) : take n l ++ drop n l = l.
Proof.
  revert n. induction l as [|x l IH]; intros n.
  - reflexivity.
  - destruct (N.eq_dec n 0) as [->|Hn].
    + rewrite take_0, drop_0. reflexivity.
    + rewrite take_cons_pos, drop_cons_pos by lia. cbn [app]. rewrite IH. reflexivity.
Qed.

Lemma take_all {A} n (l : list A) : len l <= n -> take n l = l.
Proof.
  revert n. induction l as [|x l IH]; intros n H.
  - reflexivity.
  - rewrite len_cons in H. rewrite take_cons_pos by lia. rewrite IH by lia. reflexivity.
Qed.

Lemma drop_all {A} n (l : list A) : len l <= n -> drop n l = [].
Proof.
  revert n. induction l as [|x l IH]; intros n H.
  - reflexivity.
  - rewrite len_cons in H. rewrite drop_cons_pos by lia. apply IH. lia.
Qed.

Lemma take_app_le {A} n (a b : list A) : n <= len a -> take n (a ++ b) = take n a.
Proof.
  revert n. induction a as [|x a IH]; intros n H.
  - cbn [len] in H. assert (n = 0) by lia. subst. rewrite !take_0. reflexivity.
  - destruct (N.eq_dec n 0) as [->|Hn]; [rewrite !take_0; reflexivity|].
    rewrite len_cons in H. cbn [app]. rewrite !take_cons_pos by lia. rewrite IH by lia. reflexivity.
Qed.

Lemma take_app_ge {A} n (a b : list A) : len a <= n -> take n (a ++ b) = a ++ take (n - len a) b.
Proof.
  revert n. induction a as [|x a IH]; intros n H.
  - cbn [app len]. rewrite N.sub_0_r. reflexivity.
  - rewrite len_cons in *. cbn [app]. rewrite take_cons_pos by lia. rewrite IH by lia.
    replace (n - 1 - len a) with (n - (len a + 1)) by lia. reflexivity.
Qed.

Lemma drop_app_le {A} n (a b : list A) : n <= len a -> drop n (a ++ b) = drop n a ++ b.
Proof.
  revert n. induction a as [|x a IH]; intros n H.
  - cbn [len] in H. assert (n = 0) by lia. subst. rewrite !drop_0. reflexivity.
  - destruct (N.eq_dec n 0) as [->|Hn]; [rewrite !drop_0; reflexivity|].
    rewrite len_cons in H. cbn [app]. rewrite !drop_cons_pos by lia. apply IH. lia.
Qed.

Lemma drop_app_ge {A} n (a b : list A) : len a <= n -> drop n (a ++ b) = drop (n - len a) b.
Proof.
  revert n. induction a as [|x a IH]; intros n H.
  - cbn [app len]. rewrite N.sub_0_r. reflexivity.
  - rewrite len_cons in *. cbn [app]. rewrite drop_cons_pos by lia. rewrite IH by lia.
    replace (n - 1 - len a) with (n - (len a + 1)) by lia. reflexivity.
Qed.

Lemma drop_app_exact {A} (a b : list A) : drop (len a) (a ++ b) = b.
Proof. rewrite drop_app_ge by lia. rewrite N.sub_diag. apply drop_0. Qed.

Lemma take_app_exact {A} (a b : list A) : take (len a) (a ++ b) = a.
Proof. rewrite take_app_le by lia. apply take_all. lia. Qed.

Lemma take_take {A} n m (l : list A) : take n (take m l) = take (N.min n m) l.
Proof.
  revert n m. induction l as [|x l IH]; intros n m.
  - reflexivity.
  - destruct (N.eq_dec m 0) as [->|Hm].
    + rewrite take_0. rewrite N.min_0_r. rewrite take_0. reflexivity.
    + destruct (N.eq_dec n 0) as [->|Hn].
      * rewrite N.min_0_l. rewrite !take_0. reflexivity.
      * rewrite (take_cons_pos m) by lia. rewrite !take_cons_pos by lia. rewrite IH.
        f_equal. f_equal. lia.
Qed.

Lemma drop_drop {A} n m (l : list A) : drop n (drop m l) = drop (m + n) l.
Proof.
  revert n m. induction l as [|x l IH]; intros n m.
  - reflexivity.
  - destruct (N.eq_dec m 0) as [->|Hm].
    + rewrite drop_0. reflexivity.
    + rewrite (drop_cons_pos m) by lia. rewrite IH. rewrite (drop_cons_pos (m + n)) by lia.
      f_equal. lia.
Qed.

Lemma take_drop_comm {A} n m (l : list A) : take n (drop m l) = drop m (take (m + n) l).
Proof.
  revert n m. induction l as [|x l IH]; intros n m.
  - reflexivity.
  - destruct (N.eq_dec m 0) as [->|Hm].
    + rewrite !drop_0. reflexivity.
    + rewrite (drop_cons_pos m) by lia. rewrite (take_cons_pos (m + n)) by lia.
      rewrite drop_cons_pos by lia. rewrite IH. f_equal. f_equal. lia.
Qed.

Lemma take_add {A} a b (l : list A) : take (a + b) l = take a l ++ take b (drop a l).
Proof.
  revert a. induction l as [|x l IH]; intros a.
  - reflexivity.
  - destruct (N.eq_dec a 0) as [->|Ha].
    + rewrite take_0, drop_0. reflexivity.
    + rewrite (take_cons_pos (a + b)), (take_cons_pos a), drop_cons_pos by lia.
      cbn [app]. f_equal. rewrite <- IH. f_equal. lia.
Qed.

Lemma take_prefix_app {A} n (l : list A) : exists r, l = take n l ++ r.
Proof. exists (drop n l). symmetry. apply take_drop. Qed.

Lemma beq_bytes_refl a : beq_bytes a a = true.
Proof. induction a as [|x a IH]; cbn; [reflexivity|]. rewrite N.eqb_refl. exact IH. Qed.

Lemma beq_bytes_eq a b : beq_bytes a b = true <-> a = b.
Proof.
  revert b. induction a as [|x a IH]; intros [|y b]; cbn; split; intros H; try reflexivity; try discriminate.
  - apply andb_prop in H. destruct H as [H1 H2]. apply N.eqb_eq in H1. apply IH in H2. subst. reflexivity.
  - inversion H; subst. rewrite N.eqb_refl. apply IH. reflexivity.
Qed.
