(** C08, strengthening: read schedules at the FLOW level ([Flow<RecvBody>::read] with the stop flag set
    before every read, [can_proceed], [proceed]) for length- and close-delimited bodies.  A failing
    read makes the whole run fail, so "[frun] = Ok" says that no read of the schedule fails. *)
From Coq Require Import Lia ZArith.
From Hoot Require Import Base Chunk Body Parser Request Call Flow.
From Hoot.proofs Require Import BytesLemmas Reasons C08_proofs.
Open Scope N_scope.

(** ** Schedules over [recv_body_read]

    Each item (k, cap, stop): the caller sets stop-on-chunk-boundary to [stop], then reads with the
    first [k] unconsumed bytes of the stream as input and [cap] bytes of output space. *)
Record ftrace := { ft_flow : inner; ft_consumed : N; ft_out : bytes }.

Definition fstart (f : inner) : ftrace := {| ft_flow := f; ft_consumed := 0; ft_out := [] |}.

Definition fstep (stream : bytes) (t : ftrace) (o : N * N * bool) : res ftrace :=
  let '(k, cap, stop) := o in
  do f1 <- recv_body_stop (ft_flow t) stop;
  do x <- recv_body_read f1 (take k (drop (ft_consumed t) stream)) cap;
  let '(f', i, out) := x in
  Ok {| ft_flow := f'; ft_consumed := ft_consumed t + i; ft_out := ft_out t ++ out |}.

Fixpoint frun (stream : bytes) (t : ftrace) (sched : list (N * N * bool)) : res ftrace :=
  match sched with
  | [] => Ok t
  | o :: s => do t' <- fstep stream t o; frun stream t' s
  end.

(** What a read leaves alone. *)
Definition same_shell (f f' : inner) : Prop :=
  i_holder f' = i_holder f /\ i_reasons f' = i_reasons f /\ i_status f' = i_status f /\
  i_location f' = i_location f.

Lemma same_shell_refl f : same_shell f f.
Proof. repeat split. Qed.

Lemma same_shell_trans a b c : same_shell a b -> same_shell b c -> same_shell a c.
Proof. intros (A1 & A2 & A3 & A4) (B1 & B2 & B3 & B4). repeat split; congruence. Qed.

Lemma same_shell_must_close f f' : same_shell f f' -> must_close f' = must_close f.
Proof. intros (_ & H & _). unfold must_close. rewrite H. reflexivity. Qed.

Lemma same_shell_is_redirect f f' : same_shell f f' -> is_redirect f' = is_redirect f.
Proof. intros (_ & _ & H & _). unfold is_redirect. rewrite H. reflexivity. Qed.

(** One flow-level step through a [call_read] whose outcome is known. *)
Lemma fstep_via_call stream t k cap stop c' i out :
  i_holder (ft_flow t) = HRecvBody ->
  call_read (set_stop (i_call (ft_flow t)) stop) (take k (drop (ft_consumed t) stream)) cap = Ok (c', i, out) ->
  fstep stream t (k, cap, stop) =
    Ok {| ft_flow := set_call (ft_flow t) c'; ft_consumed := ft_consumed t + i; ft_out := ft_out t ++ out |}.
Proof.
  intros Hh Hc. unfold fstep, recv_body_stop, as_recv_body. rewrite Hh. cbn [bind].
  unfold recv_body_read, as_recv_body. cbn [set_call i_holder i_call]. rewrite Hh. cbn [bind].
  rewrite Hc. cbn [bind]. reflexivity.
Qed.

Lemma fstep_err_via_call stream t k cap stop e :
  i_holder (ft_flow t) = HRecvBody ->
  call_read (set_stop (i_call (ft_flow t)) stop) (take k (drop (ft_consumed t) stream)) cap = Err e ->
  fstep stream t (k, cap, stop) = Err e.
Proof.
  intros Hh Hc. unfold fstep, recv_body_stop, as_recv_body. rewrite Hh. cbn [bind].
  unfold recv_body_read, as_recv_body. cbn [set_call i_holder i_call]. rewrite Hh. cbn [bind].
  rewrite Hc. reflexivity.
Qed.

(** ** Content-Length N *)

Definition FInvLen (stream : bytes) (total : N) (t : ftrace) : Prop :=
  i_holder (ft_flow t) = HRecvBody /\
  exists lft,
    c_reader (i_call (ft_flow t)) = Some (RLength lft) /\
    ft_consumed t + lft = total /\
    ft_out t = take (ft_consumed t) stream /\
    len (ft_out t) = ft_consumed t.

Lemma finvlen_step stream total t o :
  FInvLen stream total t ->
  exists t', fstep stream t o = Ok t' /\ FInvLen stream total t' /\ same_shell (ft_flow t) (ft_flow t').
Proof.
  intros (Hh & lft & Hr & Hacc & Hd & Hl). destruct o as [[k cap] stop].
  set (win := take k (drop (ft_consumed t) stream)).
  assert (Hr' : c_reader (set_stop (i_call (ft_flow t)) stop) = Some (RLength lft)) by exact Hr.
  pose proof (read_length _ lft win cap Hr') as Hc. cbv zeta in Hc.
  set (n := N.min (N.min (len win) cap) lft) in *.
  rewrite (fstep_via_call stream t k cap stop _ _ _ Hh Hc).
  eexists. split; [reflexivity|]. split.
  - split; [exact Hh|]. exists (lft - n). cbn [ft_flow ft_consumed ft_out set_call i_call set_reader c_reader].
    split; [reflexivity|]. split; [lia|]. split.
    + rewrite Hd. apply take_snoc_window. fold win. lia.
    + rewrite len_app, len_take, Hl. lia.
  - cbn [ft_flow]. repeat split.
Qed.

Lemma finvlen_run stream total sched : forall t,
  FInvLen stream total t ->
  exists t', frun stream t sched = Ok t' /\ FInvLen stream total t' /\ same_shell (ft_flow t) (ft_flow t').
Proof.
  induction sched as [|o sched IH]; intros t H; cbn [frun].
  - exists t. split; [reflexivity|]. split; [exact H|apply same_shell_refl].
  - destruct (finvlen_step stream total t o H) as (t1 & E1 & H1 & S1). rewrite E1. cbn [bind].
    destruct (IH t1 H1) as (t2 & E2 & H2 & S2). exists t2. split; [exact E2|]. split; [exact H2|].
    eapply same_shell_trans; eassumption.
Qed.

Lemma can_proceed_length f lft :
  i_holder f = HRecvBody -> c_reader (i_call f) = Some (RLength lft) ->
  recv_body_can_proceed f = Ok (lft =? 0).
Proof.
  intros Hh Hr. unfold recv_body_can_proceed, as_recv_body, reader_of. rewrite Hh. cbn [bind]. rewrite Hr.
  cbn [bind reader_is_ended reader_is_close]. rewrite Bool.orb_false_r. reflexivity.
Qed.

(** Over any schedule no read fails, the flow may proceed exactly when N bytes were consumed, which is
    exactly when N bytes were delivered; what was delivered is the consumed prefix of the stream. *)
Theorem len_complete_run stream total f sched :
  i_holder f = HRecvBody -> c_reader (i_call f) = Some (RLength total) ->
  exists t,
    frun stream (fstart f) sched = Ok t /\
    i_holder (ft_flow t) = HRecvBody /\
    c_reader (i_call (ft_flow t)) = Some (RLength (total - ft_consumed t)) /\
    ft_consumed t <= total /\
    ft_out t = take (ft_consumed t) stream /\ len (ft_out t) = ft_consumed t /\
    recv_body_can_proceed (ft_flow t) = Ok (ft_consumed t =? total) /\
    (recv_body_can_proceed (ft_flow t) = Ok true <-> ft_consumed t = total) /\
    (recv_body_can_proceed (ft_flow t) = Ok true <-> len (ft_out t) = total) /\
    same_shell f (ft_flow t).
Proof.
  intros Hh Hr.
  assert (H0 : FInvLen stream total (fstart f)).
  { split; [exact Hh|]. exists total. cbn [fstart ft_flow ft_consumed ft_out]. rewrite take_0. auto. }
  destruct (finvlen_run stream total sched (fstart f) H0) as (t & E & (Hh' & lft & Hr' & Hacc & Hd & Hl) & Hs).
  exists t. split; [exact E|]. split; [exact Hh'|].
  assert (Elft : lft = total - ft_consumed t) by lia.
  split; [rewrite Hr', Elft; reflexivity|]. split; [lia|]. split; [exact Hd|]. split; [exact Hl|].
  pose proof (can_proceed_length (ft_flow t) lft Hh' Hr') as Hcp.
  assert (Eb : (lft =? 0) = (ft_consumed t =? total)).
  { destruct (N.eqb_spec lft 0); destruct (N.eqb_spec (ft_consumed t) total); try reflexivity; lia. }
  rewrite Eb in Hcp. split; [exact Hcp|].
  split; [|split; [|exact Hs]]; rewrite Hcp.
  - split; [intros H; inversion H as [H1]; apply N.eqb_eq; exact H1|intros ->; rewrite N.eqb_refl; reflexivity].
  - rewrite Hl. split; [intros H; inversion H as [H1]; apply N.eqb_eq; exact H1|intros ->; rewrite N.eqb_refl; reflexivity].
Qed.

(** ** Close-delimited *)

Definition FInvClose (stream : bytes) (t : ftrace) : Prop :=
  i_holder (ft_flow t) = HRecvBody /\
  c_reader (i_call (ft_flow t)) = Some RClose /\
  ft_out t = take (ft_consumed t) stream /\
  len (ft_out t) = ft_consumed t.

Lemma finvclose_step stream t o :
  FInvClose stream t ->
  exists t', fstep stream t o = Ok t' /\ FInvClose stream t' /\ same_shell (ft_flow t) (ft_flow t').
Proof.
  intros (Hh & Hr & Hd & Hl). destruct o as [[k cap] stop].
  set (win := take k (drop (ft_consumed t) stream)).
  assert (Hr' : c_reader (set_stop (i_call (ft_flow t)) stop) = Some RClose) by exact Hr.
  pose proof (read_close _ win cap Hr') as Hc. cbv zeta in Hc.
  set (n := N.min (len win) cap) in *.
  rewrite (fstep_via_call stream t k cap stop _ _ _ Hh Hc).
  eexists. split; [reflexivity|]. split.
  - split; [exact Hh|]. cbn [ft_flow ft_consumed ft_out set_call i_call set_reader c_reader].
    split; [reflexivity|]. split.
    + rewrite Hd. apply take_snoc_window. fold win. lia.
    + rewrite len_app, len_take, Hl. lia.
  - cbn [ft_flow]. repeat split.
Qed.

Lemma finvclose_run stream sched : forall t,
  FInvClose stream t ->
  exists t', frun stream t sched = Ok t' /\ FInvClose stream t' /\ same_shell (ft_flow t) (ft_flow t').
Proof.
  induction sched as [|o sched IH]; intros t H; cbn [frun].
  - exists t. split; [reflexivity|]. split; [exact H|apply same_shell_refl].
  - destruct (finvclose_step stream t o H) as (t1 & E1 & H1 & S1). rewrite E1. cbn [bind].
    destruct (IH t1 H1) as (t2 & E2 & H2 & S2). exists t2. split; [exact E2|]. split; [exact H2|].
    eapply same_shell_trans; eassumption.
Qed.

Lemma can_proceed_close f :
  i_holder f = HRecvBody -> c_reader (i_call f) = Some RClose ->
  recv_body_can_proceed f = Ok true /\
  recv_body_proceed f = Ok (Some (if is_redirect f then TRedirect else TCleanup, f)).
Proof.
  intros Hh Hr.
  assert (E : recv_body_can_proceed f = Ok true).
  { unfold recv_body_can_proceed, as_recv_body, reader_of. rewrite Hh. cbn [bind]. rewrite Hr. reflexivity. }
  split; [exact E|]. unfold recv_body_proceed. rewrite E. reflexivity.
Qed.

(** Over any schedule no read fails, every delivered byte is the next stream byte, the flow may
    proceed after every read, the close reasons (hence [must_close]) are untouched. *)
Theorem close_run stream f sched :
  i_holder f = HRecvBody -> c_reader (i_call f) = Some RClose ->
  exists t,
    frun stream (fstart f) sched = Ok t /\
    i_holder (ft_flow t) = HRecvBody /\ c_reader (i_call (ft_flow t)) = Some RClose /\
    ft_out t = take (ft_consumed t) stream /\ len (ft_out t) = ft_consumed t /\
    recv_body_can_proceed (ft_flow t) = Ok true /\
    recv_body_proceed (ft_flow t) = Ok (Some (if is_redirect f then TRedirect else TCleanup, ft_flow t)) /\
    same_shell f (ft_flow t) /\ must_close (ft_flow t) = must_close f.
Proof.
  intros Hh Hr.
  assert (H0 : FInvClose stream (fstart f)).
  { split; [exact Hh|]. cbn [fstart ft_flow ft_consumed ft_out]. rewrite take_0. auto. }
  destruct (finvclose_run stream sched (fstart f) H0) as (t & E & (Hh' & Hr' & Hd & Hl) & Hs).
  cbn [fstart ft_flow] in Hs.
  destruct (can_proceed_close (ft_flow t) Hh' Hr') as [Hcp Hpr].
  rewrite (same_shell_is_redirect f (ft_flow t) Hs) in Hpr.
  exists t. repeat split; try assumption; try apply Hs. apply same_shell_must_close. exact Hs.
Qed.

(** From the head to the end of the body: entering the body state with a close-delimited reader marks
    the connection for closing, and the mark is still there after any reads and after leaving the
    body state. *)
Theorem close_mustclose_persists f :
  i_holder f = HRecvResponse -> c_reader (i_call f) = Some RClose -> NoDup (i_reasons f) ->
  exists f1,
    recv_response_proceed f = Ok (Some (TRecvBody, f1)) /\
    forall stream sched,
      exists t tg,
        frun stream (fstart f1) sched = Ok t /\
        In CloseDelimitedBody (i_reasons (ft_flow t)) /\ must_close (ft_flow t) = true /\
        recv_body_proceed (ft_flow t) = Ok (Some (tg, ft_flow t)) /\ (tg = TRedirect \/ tg = TCleanup).
Proof.
  intros Hh Hr Hnd.
  destruct (close_delimited_marks f Hh Hr Hnd) as (f1 & Hp & Hin & Hmc & Hr1 & Hh1).
  exists f1. split; [exact Hp|]. intros stream sched.
  destruct (close_run stream f1 sched Hh1 Hr1) as (t & E & _ & _ & _ & _ & _ & Hpr & Hs & Hm).
  exists t. eexists. split; [exact E|]. split; [|split; [|split; [exact Hpr|]]].
  - destruct Hs as (_ & Hrs & _). rewrite Hrs. exact Hin.
  - rewrite Hm. exact Hmc.
  - destruct (is_redirect f1); auto.
Qed.

(** Reads on a length-delimited, close-delimited or absent body never fail, whatever the input. *)
Theorem read_never_fails f r win cap :
  i_holder f = HRecvBody -> c_reader (i_call f) = Some r ->
  (forall d, r <> RChunked d) ->
  exists f' i o, recv_body_read f win cap = Ok (f', i, o) /\ same_shell f f'.
Proof.
  intros Hh Hr Hnc. unfold recv_body_read, as_recv_body. rewrite Hh. cbn [bind].
  unfold call_read. rewrite Hr.
  destruct (reader_is_ended r).
  - cbn [bind]. eexists. eexists. eexists. split; [reflexivity|]. repeat split.
  - destruct r as [|lft|d|]; cbn [reader_read bind].
    + eexists. eexists. eexists. split; [reflexivity|]. repeat split.
    + eexists. eexists. eexists. split; [reflexivity|]. repeat split.
    + exfalso. apply (Hnc d). reflexivity.
    + eexists. eexists. eexists. split; [reflexivity|]. repeat split.
Qed.
