(** C03: the chunked request body is a valid chunked encoding of exactly the consumed input. *)
From Coq Require Import Lia ZArith.
From Hoot Require Import Base Chunk Body Request Call.
From Hoot.proofs Require Import BytesLemmas C18_hex C18_proofs C19_proofs.
Open Scope N_scope.

(** ** Specification of the coding (independent of the writer's loop) *)

(** One chunk carrying the data [d]: size in lower-case hexadecimal, CRLF, data, CRLF. *)
Definition enc_chunk (d : bytes) : bytes := hex_of (len d) ++ CRLF ++ d ++ CRLF.
(** The last-chunk and the (empty) trailer section: "0\r\n\r\n". *)
Definition TERM : bytes := TERMINATOR.
(** A sequence of chunks. *)
Definition enc_chunks (cs : list bytes) : bytes := concat (map enc_chunk cs).

(** The chunks the writer produces: non-empty and at most DEFAULT_CHUNK_SIZE bytes each. *)
Definition chunk_ok (d : bytes) : Prop := d <> [] /\ len d <= DEFAULT_CHUNK_SIZE.
Definition chunks_ok (cs : list bytes) : Prop := Forall chunk_ok cs.

Lemma enc_chunks_app a b : enc_chunks (a ++ b) = enc_chunks a ++ enc_chunks b.
Proof. unfold enc_chunks. rewrite map_app, concat_app. reflexivity. Qed.

Lemma chunks_ok_app a b : chunks_ok a -> chunks_ok b -> chunks_ok (a ++ b).
Proof. intros Ha Hb. apply Forall_app. split; assumption. Qed.

(** ** One [write_chunk] *)

Lemma write_chunk_some input avail maxc n o :
  write_chunk input avail maxc = Some (n, o) ->
  1 <= n <= len input /\ n <= maxc /\ o = enc_chunk (take n input) /\ len o <= avail.
Proof.
  unfold write_chunk. cbv zeta.
  set (c := N.min (N.min (len input) maxc) (max_chunk_fit avail maxc)).
  destruct (N.eqb_spec c 0) as [|Hc]; [discriminate|].
  destruct (N.leb_spec (len (enc_chunk_n c input)) avail) as [Hl|]; [|discriminate].
  intros H. inversion H; subst n o; clear H.
  assert (Hle : c <= len input) by (unfold c; lia).
  split; [lia|]. split; [unfold c; lia|]. split; [|exact Hl].
  unfold enc_chunk, enc_chunk_n. rewrite len_take. replace (N.min c (len input)) with c by lia.
  reflexivity.
Qed.

(** ** The loop: only whole, non-empty chunks whose data is a prefix of the input *)

Lemma chunk_loop_shape fuel : forall input avail used out,
  exists n cs,
    chunk_loop fuel input avail used out = (used + n, out ++ enc_chunks cs) /\
    n <= len input /\ chunks_ok cs /\ concat cs = take n input.
Proof.
  induction fuel as [|f IH]; intros input avail used out.
  - exists 0, []. cbn [chunk_loop]. rewrite N.add_0_r, take_0. unfold enc_chunks. cbn [map concat].
    rewrite app_nil_r. repeat split; [lia|constructor].
  - rewrite chunk_loop_S.
    destruct (write_chunk input avail DEFAULT_CHUNK_SIZE) as [[n o]|] eqn:W.
    + apply write_chunk_some in W. destruct W as (Hn & Hmax & Ho & _).
      assert (Hd : chunk_ok (take n input)).
      { pose proof (len_take n input) as L. split; [|lia].
        intros E. rewrite E in L. cbn [len] in L. lia. }
      destruct (N.ltb_spec n (len input)) as [Hlt|Hge].
      * destruct (IH (drop n input) (avail - len o) (used + n) (out ++ o)) as (m & cs & E & Hm & Hne & Hc).
        exists (n + m), (take n input :: cs). rewrite E. rewrite len_drop in Hm.
        split; [f_equal; [lia|]|].
        { unfold enc_chunks. cbn [map concat]. rewrite <- app_assoc. rewrite Ho. reflexivity. }
        split; [lia|]. split; [constructor; assumption|].
        cbn [concat]. rewrite Hc. symmetry. apply take_add.
      * exists n, [take n input]. unfold enc_chunks. cbn [map concat]. rewrite !app_nil_r.
        rewrite Ho. repeat split; [lia|constructor; [exact Hd|constructor]].
    + exists 0, []. rewrite N.add_0_r, take_0. unfold enc_chunks. cbn [map concat].
      rewrite app_nil_r. repeat split; [lia|constructor].
Qed.

(** ** One call, completely characterised *)

Definition ended_writer : writer := {| w_mode := SChunked; w_ended := true |}.

Lemma call_chunked_eq c ended input cap :
  chunked_body c ended ->
  call_write_body c input cap =
    match input with
    | [] =>
        if negb ended && (len TERM <=? cap)
        then Ok (set_writer c ended_writer, 0, TERM)
        else Ok (c, 0, [])
    | _ :: _ =>
        if ended then Err BodyContentAfterFinish
        else let r := chunk_loop (S (List.length input)) input cap 0 [] in Ok (c, fst r, snd r)
    end.
Proof.
  intros Hc. rewrite (call_write_chunked c ended input cap Hc).
  destruct Hc as (_ & _ & Hw).
  destruct input as [|x t].
  - cbn [andb]. unfold writer_write. cbn [w_mode w_ended].
    destruct (negb ended && (len TERMINATOR <=? cap)) eqn:E; unfold TERM; rewrite E.
    + reflexivity.
    + rewrite set_writer_same by exact Hw. reflexivity.
  - cbn [andb]. destruct ended; [reflexivity|].
    unfold writer_write. cbn [w_mode].
    destruct (chunk_loop (S (List.length (x :: t))) (x :: t) cap 0 []) as [used out].
    cbv zeta. cbn [fst snd]. rewrite set_writer_same by exact Hw. reflexivity.
Qed.

Lemma chunked_body_ended c ended : chunked_body c ended -> chunked_body (set_writer c ended_writer) true.
Proof. intros (Ha & Hp & _). unfold chunked_body. cbn. auto. Qed.

(** A non-empty write before the end: whole non-empty chunks carrying exactly the consumed prefix. *)
Lemma call_shape c input cap :
  chunked_body c false -> input <> [] ->
  exists used out cs,
    call_write_body c input cap = Ok (c, used, out) /\
    used = consumed_n (len input) cap /\ used <= len input /\
    chunks_ok cs /\ concat cs = take used input /\ out = enc_chunks cs /\ len out <= cap.
Proof.
  intros Hc Hne. rewrite (call_chunked_eq c false input cap Hc).
  destruct input as [|x t]; [congruence|]. cbv zeta.
  destruct (chunk_loop_shape (S (List.length (x :: t))) (x :: t) cap 0 []) as (n & cs & E & Hn & Hcs & Hcat).
  pose proof (consumed_eq (x :: t) cap) as Hcons. unfold consumed in Hcons.
  pose proof (emitted_le_cap (x :: t) cap) as Hlen.
  rewrite E in *. cbn [fst snd app] in *. rewrite N.add_0_l in *.
  exists n, (enc_chunks cs), cs. repeat split; auto.
Qed.

(** The finishing (empty-input) write. *)
Lemma call_finish c ended cap :
  chunked_body c ended ->
  call_write_body c [] cap =
    if negb ended && (5 <=? cap) then Ok (set_writer c ended_writer, 0, TERM) else Ok (c, 0, []).
Proof. intros Hc. rewrite (call_chunked_eq c ended [] cap Hc). reflexivity. Qed.

Lemma call_refused c input cap :
  chunked_body c true -> input <> [] -> call_write_body c input cap = Err BodyContentAfterFinish.
Proof.
  intros Hc Hne. rewrite (call_chunked_eq c true input cap Hc).
  destruct input; [congruence|reflexivity].
Qed.

Lemma call_after_end c cap : chunked_body c true -> call_write_body c [] cap = Ok (c, 0, []).
Proof. intros Hc. rewrite (call_finish c true cap Hc). reflexivity. Qed.

(** ** Histories *)

Inductive wop := W (input : bytes) (cap : N).

Record trace := {
  t_call : call;
  t_out : bytes;        (* everything emitted *)
  t_in : bytes;         (* the consumed input prefixes, concatenated *)
  t_fin : N             (* number of empty-input writes that emitted something *)
}.

Definition tstep (t : trace) (o : wop) : trace :=
  match o with
  | W input cap =>
      match call_write_body (t_call t) input cap with
      | Ok (c', n, out) =>
          {| t_call := c'; t_out := t_out t ++ out; t_in := t_in t ++ take n input;
             t_fin := match input, out with [], _ :: _ => t_fin t + 1 | _, _ => t_fin t end |}
      | _ => t
      end
  end.

Definition trun (t : trace) (ops : list wop) : trace := fold_left tstep ops t.

Definition start (c : call) : trace := {| t_call := c; t_out := []; t_in := []; t_fin := 0 |}.

Definition Inv (t : trace) : Prop :=
  exists ended cs,
    chunked_body (t_call t) ended /\
    chunks_ok cs /\ concat cs = t_in t /\
    t_out t = enc_chunks cs ++ (if ended then TERM else []) /\
    t_fin t = (if ended then 1 else 0).

Lemma inv_step t o : Inv t -> Inv (tstep t o).
Proof.
  intros (ended & cs & Hc & Hne & Hin & Hout & Hfin).
  destruct o as [input cap]. cbn [tstep].
  destruct input as [|x t'].
  - rewrite (call_finish _ ended cap Hc).
    destruct (negb ended && (5 <=? cap)) eqn:E.
    + apply andb_prop in E. destruct E as [E _]. destruct ended; [discriminate|].
      exists true, cs. cbn [t_call t_out t_in t_fin].
      split; [eapply chunked_body_ended; eauto|]. split; [exact Hne|].
      split; [rewrite app_nil_r; exact Hin|].
      split; [rewrite Hout, app_nil_r; reflexivity|].
      unfold TERM, TERMINATOR. rewrite Hfin. reflexivity.
    + exists ended, cs. cbn [t_call t_out t_in t_fin]. rewrite !app_nil_r. auto.
  - destruct ended.
    + rewrite (call_refused _ (x :: t') cap Hc) by discriminate. exists true, cs. auto.
    + destruct (call_shape _ (x :: t') cap Hc ltac:(discriminate))
        as (used & out & cs' & Hw & _ & _ & Hne' & Hcat & Ho & _).
      rewrite Hw. exists false, (cs ++ cs'). cbn [t_call t_out t_in t_fin].
      split; [exact Hc|]. split; [apply chunks_ok_app; assumption|].
      split; [rewrite concat_app, Hin, Hcat; reflexivity|].
      split; [rewrite Hout, Ho, !app_nil_r, enc_chunks_app; reflexivity|exact Hfin].
Qed.

Lemma inv_run ops : forall t, Inv t -> Inv (trun t ops).
Proof.
  induction ops as [|o ops IH]; intros t H; cbn [trun fold_left]; [exact H|].
  apply IH. apply inv_step. exact H.
Qed.

Lemma inv_start c : chunked_body c false -> Inv (start c).
Proof.
  intros H. exists false, []. split; [exact H|]. split; [constructor|]. repeat split.
Qed.

(** The invariant, with the "finished" flag read off the call as [can_proceed] does. *)
Lemma shape c ops :
  chunked_body c false ->
  let t := trun (start c) ops in
  let ended := w_ended (c_writer (t_call t)) in
  exists cs,
    chunked_body (t_call t) ended /\
    chunks_ok cs /\ concat cs = t_in t /\
    t_out t = enc_chunks cs ++ (if ended then TERM else []) /\
    t_fin t = (if ended then 1 else 0).
Proof.
  intros H. cbv zeta.
  destruct (inv_run ops (start c) (inv_start c H)) as (ended & cs & Hc & Hrest).
  assert (E : w_ended (c_writer (t_call (trun (start c) ops))) = ended).
  { destruct Hc as (_ & _ & Hw). rewrite Hw. reflexivity. }
  rewrite E. exists cs. split; [exact Hc|exact Hrest].
Qed.

(** What a single step of a history can emit, by the kind of input. *)
Lemma step_output t input cap ended :
  chunked_body (t_call t) ended ->
  let t' := tstep t (W input cap) in
  exists out ended',
    t_out t' = t_out t ++ out /\ chunked_body (t_call t') ended' /\
    (ended = true -> out = [] /\ ended' = true /\ t_call t' = t_call t) /\
    (input <> [] -> ended' = ended /\ t_call t' = t_call t /\
                    exists cs, chunks_ok cs /\ out = enc_chunks cs) /\
    (input = [] -> (out = TERM /\ ended = false /\ ended' = true /\ 5 <= cap) \/
                   (out = [] /\ ended' = ended /\ t_call t' = t_call t /\ (ended = true \/ cap < 5))).
Proof.
  intros Hc. cbv zeta. cbn [tstep].
  destruct input as [|x t0].
  - rewrite (call_finish _ ended cap Hc).
    destruct ended; cbn [negb andb].
    + exists [], true. cbn [t_out t_call]. rewrite app_nil_r.
      split; [reflexivity|]. split; [exact Hc|]. split; [auto|]. split; [congruence|].
      intros _. right. auto.
    + destruct (N.leb_spec 5 cap) as [Hcap|Hcap].
      * exists TERM, true. cbn [t_out t_call]. split; [reflexivity|].
        split; [eapply chunked_body_ended; eauto|]. split; [discriminate|]. split; [congruence|].
        intros _. left. auto.
      * exists [], false. cbn [t_out t_call]. rewrite app_nil_r. split; [reflexivity|].
        split; [exact Hc|]. split; [discriminate|]. split; [congruence|]. intros _. right. auto.
  - destruct ended.
    + rewrite (call_refused _ (x :: t0) cap Hc) by discriminate.
      exists [], true. rewrite app_nil_r. split; [reflexivity|]. split; [exact Hc|].
      split; [auto|]. split; [|discriminate]. intros _. split; [reflexivity|]. split; [reflexivity|].
      exists []. split; [constructor|reflexivity].
    + destruct (call_shape _ (x :: t0) cap Hc ltac:(discriminate))
        as (used & out & cs' & Hw & _ & _ & Hne' & _ & Ho & _).
      rewrite Hw. exists out, false. cbn [t_out t_call]. split; [reflexivity|]. split; [exact Hc|].
      split; [discriminate|]. split; [|discriminate]. intros _. split; [reflexivity|].
      split; [reflexivity|]. exists cs'. auto.
Qed.

(** Once finished: every later history leaves the call and the emitted bytes untouched. *)
Lemma after_end_step t o : chunked_body (t_call t) true -> tstep t o = t \/
  (t_call (tstep t o) = t_call t /\ t_out (tstep t o) = t_out t /\ t_in (tstep t o) = t_in t /\
   t_fin (tstep t o) = t_fin t).
Proof.
  intros Hc. destruct o as [input cap]. cbn [tstep]. destruct input as [|x t0].
  - rewrite (call_after_end _ cap Hc). right. cbn [t_call t_out t_in t_fin].
    rewrite !app_nil_r. auto.
  - rewrite (call_refused _ (x :: t0) cap Hc) by discriminate. left. reflexivity.
Qed.

Lemma after_end_run ops : forall t, chunked_body (t_call t) true ->
  t_call (trun t ops) = t_call t /\ t_out (trun t ops) = t_out t /\ t_in (trun t ops) = t_in t /\
  t_fin (trun t ops) = t_fin t.
Proof.
  induction ops as [|o ops IH]; intros t Hc; cbn [trun fold_left]; [auto|].
  fold (trun (tstep t o) ops).
  destruct (after_end_step t o Hc) as [E|(E1 & E2 & E3 & E4)].
  - rewrite E. apply IH. exact Hc.
  - destruct (IH (tstep t o)) as (A1 & A2 & A3 & A4); [rewrite E1; exact Hc|].
    rewrite A1, A2, A3, A4. auto.
Qed.

(** ** The caller loop of C19 produces a complete coding of its whole input *)

Lemma send_all_shape fuel : forall c input cap out res,
  chunked_body c false ->
  send_all fuel c input cap out = Some res ->
  exists cs, chunks_ok cs /\ concat cs = input /\ res = (c, out ++ enc_chunks cs).
Proof.
  induction fuel as [|f IH]; intros c input cap out res Hc H.
  - destruct input as [|x t]; cbn [send_all] in H; [|discriminate].
    inversion H; subst. exists []. unfold enc_chunks. cbn [map concat]. rewrite app_nil_r.
    split; [constructor|auto].
  - destruct input as [|x t]; cbn [send_all] in H.
    + inversion H; subst. exists []. unfold enc_chunks. cbn [map concat]. rewrite app_nil_r.
      split; [constructor|auto].
    + destruct (call_shape c (x :: t) cap Hc ltac:(discriminate))
        as (used & o & cs' & Hw & _ & _ & Hne' & Hcat & Ho & _).
      rewrite Hw in H. apply (IH c _ _ _ _ Hc) in H. destruct H as (cs & Hne & Hcs & Hres).
      exists (cs' ++ cs). split; [apply chunks_ok_app; assumption|].
      split; [rewrite concat_app, Hcat, Hcs; apply take_drop|].
      rewrite Hres, Ho, enc_chunks_app, app_assoc. reflexivity.
Qed.

Lemma send_all_complete c input cap out :
  chunked_body c false -> 6 <= cap ->
  exists cs, chunks_ok cs /\ concat cs = input /\
             send_all (List.length input) c input cap out = Some (c, out ++ enc_chunks cs).
Proof.
  intros Hc Hcap. destruct (send_all_chunked c input cap out Hc Hcap) as (out' & H).
  destruct (send_all_shape _ _ _ _ _ _ Hc H) as (cs & Hne & Hcat & Hres).
  exists cs. rewrite H, Hres. auto.
Qed.

(** Finished if and only if the terminator has been emitted, and that happened at most once. *)
Lemma fin_iff c ops :
  chunked_body c false ->
  let t := trun (start c) ops in
  t_fin t <= 1 /\ (w_ended (c_writer (t_call t)) = true <-> t_fin t = 1).
Proof.
  intros H. cbv zeta. destruct (shape c ops H) as (cs & _ & _ & _ & _ & Hfin).
  destruct (w_ended (c_writer (t_call (trun (start c) ops)))); rewrite Hfin; split; try lia;
    split; intros; try reflexivity; try discriminate; lia.
Qed.
