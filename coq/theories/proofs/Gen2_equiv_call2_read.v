(** (src/client/call.rs) [Call<WithBody>::consume_direct_write], [Call<WithBody>::write] (the part after the request analysis,
    with the prelude writing abstracted to its result) and [Call<RecvBody>::read], translated from the Rust sources on every run
    (theories/Gen2.v: [gen_call_direct_write], [gen_call_write_body], [gen_call_read]; the fields of [self.state] the function
    touches are arguments and results), agree with the hand-written model (theories/Call.v: [call_direct_write],
    [call_write_body], [call_read]).

    The three functions are thin wrappers around the body writer / body reader, for which Gen2_equiv_body.v and
    Gen2_equiv_reader_chunked.v prove the correspondence ([wr_rel], [dw_rel], [rd_rel]); the side conditions
    [sized_fits] / [limit_fits] of those theorems are inherited unchanged (see the header of Gen2_equiv_body.v).

    Proof style: unfold both wrappers, replace the generated queries by the model's with the proved equalities, take the
    callee's correspondence as a premise and destruct the callee's two results, then split every remaining conditional of
    either side (contradictory combinations are pruned by linear arithmetic) and close the leaves by computation.  No
    sub-term of the generated code is mentioned literally. *)
From Coq Require Import NArith ZArith Bool List Lia ZifyBool ZifyN.
From Hoot Require Import Base Chunk Body Httparse Parser Url Request Call GenLib Gen Gen2.
From Hoot.proofs Require Import BytesLemmas Gen2_equiv_rel Gen2_equiv_reader Gen2_equiv_reader_chunked Gen2_equiv_reader_all Gen2_transport_read.
Open Scope N_scope.

(* ------------------------------------------------------------------ relations *)

(** [consume_direct_write]: the writer of the model's new call is the generated new writer. *)
Definition crd_rel (dst : bytes) (g : res (option reader * bytes * (N * N))) (m : res (call * N * bytes)) : Prop :=
  match g, m with
  | Ok (r', dst', (i, o)), Ok (c', i2, out) =>
      r' = c_reader c' /\ i = i2 /\ o = len out /\ dst' = out ++ drop (len out) dst
  | Err e1, Err e2 => e1 = e2
  | Panic _, Panic _ => True
  | _, _ => False
  end.

(** the projections of the model's records, to be computed away at the leaves *)
Ltac call_proj :=
  cbn [bind set_writer set_reader set_phase c_req c_analyzed c_phase c_writer c_reader c_skip c_stop w_mode w_ended
       andb orb negb fst snd app] in *.

(* ------------------------------------------------------------------ 3. read *)

Theorem gen_call_read_equiv : forall c input dst,
  match c_reader c with Some r => limit_fits r input dst | None => True end ->
  crd_rel dst (gen_call_read (c_reader c) (c_stop c) input dst) (call_read c input (len dst)).
Proof.
  intros [req an ph w rd sk st] input dst Hfit. call_proj.
  unfold gen_call_read, call_read. cbv zeta. call_proj.
  destruct rd as [r|]; [|exact I].
  rewrite ?gen_br_is_ended_eq.
  pose proof (gen_br_read_equiv r input dst st Hfit) as HR.
  destruct (gen_br_read r input dst st) as [[[r1 d1] [i1 o1]]|e1|s1];
    destruct (reader_read r input (len dst) st) as [[[r2 i2] out2]|e2|s2];
    cbn [rd_rel] in HR; try contradiction;
    repeat split_if; call_proj; cbn [crd_rel]; call_proj;
    try exact I; try exact HR;
    try (repeat split; try reflexivity; rewrite ?len_nil, ?drop_0; reflexivity);
    try (destruct HR as (-> & -> & -> & ->); repeat split; reflexivity).
Qed.

Print Assumptions gen_call_read_equiv.
