(** C07, part 4: the single-read simulation through [Call<RecvBody>::read] (which adds a
    short-circuit for an ended reader and takes the stop flag from the call). *)
From Coq Require Import Lia ZArith.
From Hoot Require Import Base Chunk Body Call.
From Hoot.proofs Require Import BytesLemmas C07_spec C07_sizeline C07_sim C07_proofs.
Open Scope N_scope.

Lemma step_call c st R ds rest k cap :
  c_reader c = Some (RChunked st) -> rel st R ds ->
  exists c' st' C R' out ds',
    call_read c (take k (R ++ rest)) cap = Ok (c', len C, out) /\
    c_reader c' = Some (RChunked st') /\ c_stop c' = c_stop c /\
    R = C ++ R' /\ len C <= k /\
    concat ds = out ++ concat ds' /\ len out <= cap /\
    rel st' R' ds' /\ st' <> DTrailer /\
    (c_stop c = true -> out = [] \/ exists p tl d2, ds = p :: tl /\ p = out ++ d2).
Proof.
  intros Hr Hrel. unfold call_read. rewrite Hr. cbn [reader_is_ended].
  destruct (dech_is_ended st) eqn:He.
  - destruct st; try discriminate He. pose proof Hrel as Hrel0. cbn [rel] in Hrel. destruct Hrel as [-> ->].
    exists c, DEnded, [], [], [], []. cbn [len app concat].
    repeat (split; [first [reflexivity | assumption | lia]|]). split; [discriminate|]. intros _. left; reflexivity.
  - cbn [reader_read].
    destruct (read_chunked_sim rest st k R ds cap (c_stop c) Hrel)
      as (st' & C & R' & out & ds' & Heq & HR & HC & Hcat & Hcap & Hrel' & _ & Hb & _).
    rewrite Heq. cbn [bind].
    exists (set_reader c (Some (RChunked st'))), st', C, R', out, ds'.
    cbn [set_reader c_reader c_stop].
    repeat (split; [first [reflexivity | assumption]|]). split.
    + intros E. rewrite E in Hrel'. exact Hrel'.
    + intros Hs. eapply budget_prefix; [exact Hcat|]. apply Hb. exact Hs.
Qed.
