(** The successor-state decisions of src/client/flow.rs (the five [proceed] functions that branch), translated from the source on every
    run as decision skeletons (theories/Gen2.v, [gen_next_*]: flags -> option tag * list reason), agree with the model's flow:
    whenever the model's [proceed] succeeds, the state it moves to (or "stays") is the one the translated decision yields from the
    model's own flags, and the close reasons it adds on the way are the ones the translated code adds. *)
(** Split into Gen2_equiv_flow_graph / _try100 / _new / _response (one per exported group, so that a change of one function disturbs
    only the properties that are about it); this file re-exports them. *)
From Hoot.proofs Require Export Gen2_equiv_flow_graph Gen2_equiv_flow_try100 Gen2_equiv_flow_new Gen2_equiv_flow_response.
