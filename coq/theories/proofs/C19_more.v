(** C19 strengthening (review 3): the progress statements at the flow-level entry point
    [send_body_write] (Flow<SendBody>::write) for BOTH framings, with the accepted domain of a sized body
    made explicit, and the caller loop at flow level. *)
From Coq Require Import Lia ZArith.
From Hoot Require Import Base Chunk Body Httparse Parser Url Request Call Flow.
From Hoot.proofs Require Import BytesLemmas C18_hex C18_proofs C04_proofs C17_proofs C19_proofs C18_reach.
Open Scope N_scope.
Opaque fit hexlen.

(** [accepts f input]: [f] is a flow in SendBody whose body is not finished and [input] is within what it
    takes: anything for a chunked body, at most the rest of the announced length for a sized one.  (Beyond
    that the write is refused, [flow_sized_refusal].) *)
Definition accepts (f : inner) (input : bytes) : Prop :=
  i_holder f = HWithBody /\
  (chunked_body (i_call f) false \/ exists lft, sized_body (i_call f) lft false /\ len input <= lft).

Lemma accepts_shorter f i1 i2 : accepts f i2 -> len i1 <= len i2 -> accepts f i1.
Proof.
  intros [Hh [Hc|(lft & Hs & Hl)]] H; split; auto. right. exists lft. split; [exact Hs|lia].
Qed.

Lemma flow_chunked_ok f input cap :
  i_holder f = HWithBody -> chunked_body (i_call f) false -> input <> [] ->
  exists out, send_body_write f input cap = Ok (f, consumed_n (len input) cap, out) /\ len out <= cap.
Proof.
  intros Hh Hc Hne. rewrite (send_body_write_lift f input cap Hh).
  destruct (call_chunked_ok (i_call f) input cap Hc Hne) as (out & Hw & Hl).
  rewrite Hw, set_call_id. eauto.
Qed.

Lemma flow_sized_ok f lft input cap :
  i_holder f = HWithBody -> sized_body (i_call f) lft false -> len input <= lft ->
  let n := N.min cap (len input) in
  exists f', send_body_write f input cap = Ok (f', n, take n input) /\
             i_holder f' = HWithBody /\
             sized_body (i_call f') (lft - n) (if lft - n =? 0 then true else false).
Proof.
  intros Hh Hs Hl. cbv zeta. rewrite (send_body_write_lift f input cap Hh).
  rewrite (sized_accept (i_call f) lft input cap Hs Hl). cbv zeta.
  eexists. split; [reflexivity|]. cbn [set_call i_holder i_call]. split; [exact Hh|].
  apply sized_after. exact Hs.
Qed.

(** Progress: the room needed is 6 bytes when [is_chunked] answers true, 1 byte otherwise. *)
Lemma progress_flow f input cap b :
  accepts f input -> 1 <= len input ->
  send_body_is_chunked f = Ok b -> (if b then 6 else 1) <= cap ->
  exists f' used out, send_body_write f input cap = Ok (f', used, out) /\ 1 <= used /\ len out <= cap.
Proof.
  intros [Hh [Hc|(lft & Hs & Hl)]] Hi Hb Hcap.
  - rewrite (is_chunked_chunked f false Hh Hc) in Hb. inversion Hb; subst b; clear Hb.
    assert (Hne : input <> []) by (intros ->; cbn [len] in Hi; lia).
    destruct (flow_chunked_ok f input cap Hh Hc Hne) as (out & Hw & Hlen).
    exists f, (consumed_n (len input) cap), out. split; [exact Hw|]. split; [|exact Hlen].
    apply progress_n; assumption.
  - rewrite (is_chunked_sized f lft false Hh Hs) in Hb. inversion Hb; subst b; clear Hb.
    destruct (flow_sized_ok f lft input cap Hh Hs Hl) as (f' & Hw & _). cbv zeta in Hw.
    do 3 eexists. split; [exact Hw|]. split; [lia|]. rewrite len_take. lia.
Qed.

(** Never less than what the advertised maximum for that buffer ([calculate_max_input], the flow method) is. *)
Lemma not_below_max_flow f input cap m :
  accepts f input -> 1 <= len input ->
  send_body_max_input f cap = Ok m -> m <= len input ->
  exists f' used out, send_body_write f input cap = Ok (f', used, out) /\ m <= used.
Proof.
  intros [Hh [Hc|(lft & Hs & Hl)]] Hi Hm Hle.
  - rewrite (max_input_chunked f false cap Hh Hc) in Hm. inversion Hm; subst m; clear Hm.
    assert (Hne : input <> []) by (intros ->; cbn [len] in Hi; lia).
    destruct (flow_chunked_ok f input cap Hh Hc Hne) as (out & Hw & _).
    exists f, (consumed_n (len input) cap), out. split; [exact Hw|]. apply not_below_max_n. exact Hle.
  - rewrite (max_input_sized f lft false cap Hh Hs) in Hm. inversion Hm; subst m; clear Hm.
    destruct (flow_sized_ok f lft input cap Hh Hs Hl) as (f' & Hw & _). cbv zeta in Hw.
    do 3 eexists. split; [exact Hw|]. lia.
Qed.

(** Offering more input (that the flow accepts) never reduces progress. *)
Lemma mono_flow f i1 i2 cap :
  accepts f i2 -> 1 <= len i1 -> len i1 <= len i2 ->
  exists f1 u1 o1 f2 u2 o2,
    send_body_write f i1 cap = Ok (f1, u1, o1) /\ send_body_write f i2 cap = Ok (f2, u2, o2) /\ u1 <= u2.
Proof.
  intros [Hh [Hc|(lft & Hs & Hl)]] H1 H12.
  - assert (Hne1 : i1 <> []) by (intros ->; cbn [len] in H1; lia).
    assert (Hne2 : i2 <> []) by (intros ->; cbn [len] in H12; lia).
    destruct (flow_chunked_ok f i1 cap Hh Hc Hne1) as (o1 & Hw1 & _).
    destruct (flow_chunked_ok f i2 cap Hh Hc Hne2) as (o2 & Hw2 & _).
    do 6 eexists. split; [exact Hw1|]. split; [exact Hw2|]. apply consumed_mono_input. exact H12.
  - destruct (flow_sized_ok f lft i1 cap Hh Hs ltac:(lia)) as (f1 & Hw1 & _).
    destruct (flow_sized_ok f lft i2 cap Hh Hs Hl) as (f2 & Hw2 & _). cbv zeta in Hw1, Hw2.
    do 6 eexists. split; [exact Hw1|]. split; [exact Hw2|]. lia.
Qed.

(* ------------------------------------------------------------------ the caller loop at flow level *)

Fixpoint send_all_flow (fuel : nat) (f : inner) (input : bytes) (cap : N) (out : bytes)
  : option (inner * bytes) :=
  match input with
  | [] => Some (f, out)
  | _ :: _ =>
      match fuel with
      | O => None
      | S k =>
          match send_body_write f input cap with
          | Ok (f', used, o) => send_all_flow k f' (drop used input) cap (out ++ o)
          | _ => None
          end
      end
  end.

Lemma send_all_flow_lift fuel : forall f input cap out,
  i_holder f = HWithBody ->
  send_all_flow fuel f input cap out =
    match send_all fuel (i_call f) input cap out with
    | Some (c, o) => Some (set_call f c, o)
    | None => None
    end.
Proof.
  induction fuel as [|k IH]; intros f input cap out Hh.
  - destruct input; cbn [send_all_flow send_all]; [rewrite set_call_id|]; reflexivity.
  - destruct input as [|x t]; cbn [send_all_flow send_all]; [rewrite set_call_id; reflexivity|].
    rewrite (send_body_write_lift f (x :: t) cap Hh).
    destruct (call_write_body (i_call f) (x :: t) cap) as [[[c' u] o]|e|s]; try reflexivity.
    rewrite (IH (set_call f c')) by exact Hh. cbn [set_call i_call].
    destruct (send_all k c' (drop u (x :: t)) cap (out ++ o)) as [[c o']|]; reflexivity.
Qed.

Lemma loop_flow_chunked f input cap out :
  i_holder f = HWithBody -> chunked_body (i_call f) false -> 6 <= cap ->
  exists out', send_all_flow (List.length input) f input cap out = Some (f, out').
Proof.
  intros Hh Hc Hcap. rewrite (send_all_flow_lift _ f input cap out Hh).
  destruct (send_all_chunked (i_call f) input cap out Hc Hcap) as (out' & Hs).
  rewrite Hs, set_call_id. eauto.
Qed.

Lemma loop_flow_sized f lft input cap out :
  i_holder f = HWithBody -> sized_body (i_call f) lft false -> 1 <= cap -> len input <= lft ->
  exists f' e, send_all_flow (List.length input) f input cap out = Some (f', out ++ input) /\
               i_holder f' = HWithBody /\ sized_body (i_call f') (lft - len input) e.
Proof.
  intros Hh Hs Hcap Hl. rewrite (send_all_flow_lift _ f input cap out Hh).
  destruct (send_all_sized (i_call f) lft input cap out Hs Hcap Hl) as (c' & e & Hr & Hs').
  rewrite Hr. exists (set_call f c'), e. split; [reflexivity|]. cbn [set_call i_holder i_call]. auto.
Qed.

(** A flow that reached SendBody as in [send_body_reached] accepts every input for a chunked body and every
    input within the announced Content-Length otherwise. *)
Lemma reached_accepts c0 f input :
  i_holder f = HWithBody -> body_state_of c0 (i_call f) ->
  (forall v t, has_chunked_te (c_req c0) = false -> cls (c_req c0) = v :: t -> len input <= dec_value v) ->
  accepts f input.
Proof.
  intros Hh Hb Hl. split; [exact Hh|]. unfold body_state_of in Hb.
  destruct (has_chunked_te (c_req c0)); [left; exact Hb|].
  destruct (cls (c_req c0)) as [|v t]; [left; exact Hb|].
  right. exists (dec_value v). split; [exact Hb|]. eapply Hl; reflexivity.
Qed.
