(** C04: Content-Length request body is forwarded verbatim and never exceeds the length. *)
From Coq Require Import Lia ZArith.
From Hoot Require Import Base Body Request Call.
From Hoot.proofs Require Import BytesLemmas.
Open Scope N_scope.

(** A call in its body phase whose writer counts down [lft] bytes. *)
Definition sized_body (c : call) (lft : N) (ended : bool) : Prop :=
  c_analyzed c = true /\ c_phase c = PBody /\ c_writer c = {| w_mode := SSized lft; w_ended := ended |}.

Definition nonempty (b : bytes) : bool := match b with [] => false | _ => true end.

Lemma nonempty_len b : nonempty b = true <-> 0 < len b.
Proof. destruct b; cbn [nonempty len]; split; intros; try lia; try discriminate; reflexivity. Qed.

(** One write, completely characterised. *)
Lemma write_sized c lft ended input cap :
  sized_body c lft ended ->
  call_write_body c input cap =
    if nonempty input && ended then Err BodyContentAfterFinish
    else if lft <? len input then Err BodyLargerThanContentLength
    else
      let n := N.min (N.min cap (len input)) lft in
      Ok (set_writer c {| w_mode := SSized (lft - n);
                          w_ended := if lft - n =? 0 then true else ended |},
          n, take n input).
Proof.
  intros (Ha & Hp & Hw).
  unfold call_write_body, analyze_request. rewrite Ha. cbn [bind].
  rewrite Hp. cbn [is_prelude is_body]. rewrite Hw. cbn [w_ended left_to_send w_mode].
  fold (nonempty input).
  destruct (nonempty input && ended); [reflexivity|].
  destruct (lft <? len input); [reflexivity|].
  unfold writer_write. cbn [w_mode w_ended bind]. reflexivity.
Qed.

Lemma direct_sized c lft ended amount :
  sized_body c lft ended ->
  call_direct_write c amount =
    if lft <? amount then Err BodyLargerThanContentLength
    else Ok (set_writer c {| w_mode := SSized (lft - amount);
                             w_ended := if lft - amount =? 0 then true else ended |}).
Proof.
  intros (Ha & Hp & Hw).
  unfold call_direct_write. rewrite Hw. cbn [left_to_send w_mode].
  destruct (lft <? amount); [reflexivity|].
  unfold writer_direct. cbn [w_mode w_ended bind]. reflexivity.
Qed.

Lemma sized_body_set_writer c lft ended lft' ended' :
  sized_body c lft ended ->
  sized_body (set_writer c {| w_mode := SSized lft'; w_ended := ended' |}) lft' ended'.
Proof. intros (Ha & Hp & _). unfold sized_body. cbn. auto. Qed.

(** Histories: writes and direct-write reports in any order, with ghost accumulators. *)
Inductive bop := BW (input : bytes) (cap : N) | BD (amount : N).

Record trace := {
  t_call : call;
  t_accounted : N;      (* bytes consumed by writes + bytes reported as written directly *)
  t_out : bytes;        (* everything emitted *)
  t_in : bytes          (* the consumed input prefixes, concatenated *)
}.

Definition tstep (t : trace) (o : bop) : trace :=
  match o with
  | BW input cap =>
      match call_write_body (t_call t) input cap with
      | Ok (c', n, out) =>
          {| t_call := c'; t_accounted := t_accounted t + n; t_out := t_out t ++ out;
             t_in := t_in t ++ take n input |}
      | _ => t
      end
  | BD a =>
      match call_direct_write (t_call t) a with
      | Ok c' => {| t_call := c'; t_accounted := t_accounted t + a; t_out := t_out t; t_in := t_in t |}
      | _ => t
      end
  end.

Definition trun (t : trace) (ops : list bop) : trace := fold_left tstep ops t.

Definition start (c : call) : trace := {| t_call := c; t_accounted := 0; t_out := []; t_in := [] |}.

Definition Inv (total : N) (t : trace) : Prop :=
  exists lft ended,
    sized_body (t_call t) lft ended /\
    t_accounted t + lft = total /\
    t_out t = t_in t /\
    (ended = true -> lft = 0).

Lemma inv_step total t o : Inv total t -> Inv total (tstep t o).
Proof.
  intros (lft & ended & Hs & Hacc & Hout & Hend).
  destruct o as [input cap | a]; cbn [tstep].
  - rewrite (write_sized _ _ _ input cap Hs).
    destruct (nonempty input && ended) eqn:E1; [exists lft, ended; auto|].
    destruct (lft <? len input) eqn:E2; [exists lft, ended; auto|].
    cbv zeta. set (n := N.min (N.min cap (len input)) lft).
    exists (lft - n), (if lft - n =? 0 then true else ended). cbn [t_call t_accounted t_out t_in].
    split; [eapply sized_body_set_writer; eauto|].
    split; [lia|]. split; [rewrite Hout; reflexivity|].
    destruct (N.eqb_spec (lft - n) 0); [auto|]. intros He. specialize (Hend He). lia.
  - rewrite (direct_sized _ _ _ a Hs).
    destruct (N.ltb_spec lft a); [exists lft, ended; auto|].
    exists (lft - a), (if lft - a =? 0 then true else ended). cbn [t_call t_accounted t_out t_in].
    split; [eapply sized_body_set_writer; eauto|].
    split; [lia|]. split; [exact Hout|].
    destruct (N.eqb_spec (lft - a) 0); [auto|]. intros He. specialize (Hend He). lia.
Qed.

Lemma inv_run total ops : forall t, Inv total t -> Inv total (trun t ops).
Proof.
  induction ops as [|o ops IH]; intros t H; cbn [trun fold_left]; [exact H|].
  apply IH. apply inv_step. exact H.
Qed.

Lemma inv_start c total : sized_body c total false -> Inv total (start c).
Proof.
  intros H. exists total, false. split; [exact H|]. split; [cbn; lia|]. split; [reflexivity|].
  intros; discriminate.
Qed.

(** Refusals leave everything untouched. *)
Lemma refuse_overshoot c lft ended input cap :
  sized_body c lft ended -> lft < len input -> exists e, call_write_body c input cap = Err e.
Proof.
  intros Hs Hl. rewrite (write_sized _ _ _ input cap Hs).
  destruct (nonempty input && ended); [eauto|].
  destruct (N.ltb_spec lft (len input)); [eauto|lia].
Qed.

Lemma refuse_after_end c lft input cap :
  sized_body c lft true -> 0 < len input -> exists e, call_write_body c input cap = Err e.
Proof.
  intros Hs Hl. rewrite (write_sized _ _ _ input cap Hs).
  apply nonempty_len in Hl. rewrite Hl. cbn. eauto.
Qed.

Lemma refuse_direct_overshoot c lft ended a :
  sized_body c lft ended -> lft < a -> exists e, call_direct_write c a = Err e.
Proof.
  intros Hs Hl. rewrite (direct_sized _ _ _ a Hs). destruct (N.ltb_spec lft a); [eauto|lia].
Qed.

(** Finishing: once nothing is left, the end-signalling (empty) write marks the body finished, for
    every output size; and the finished flag never reverts. *)
Lemma finish_at_zero c ended cap :
  sized_body c 0 ended ->
  exists c', call_write_body c [] cap = Ok (c', 0, []) /\ sized_body c' 0 true.
Proof.
  intros Hs. rewrite (write_sized _ _ _ [] cap Hs). cbn [nonempty andb len]. cbn.
  rewrite N.min_0_r. cbn. eexists. split; [reflexivity|]. eapply sized_body_set_writer; eauto.
Qed.

Lemma ended_monotone t o lft :
  sized_body (t_call t) lft true -> exists lft', sized_body (t_call (tstep t o)) lft' true.
Proof.
  intros Hs. destruct o as [input cap | a]; cbn [tstep].
  - rewrite (write_sized _ _ _ input cap Hs).
    destruct (nonempty input && true); [eauto|]. destruct (lft <? len input); [eauto|].
    cbv zeta. cbn [t_call]. eexists.
    match goal with |- sized_body (set_writer _ {| w_mode := _; w_ended := ?e |}) _ _ =>
      replace e with true by (destruct (_ =? 0); reflexivity) end.
    eapply sized_body_set_writer; eauto.
  - rewrite (direct_sized _ _ _ a Hs). destruct (lft <? a); [eauto|]. cbn [t_call]. eexists.
    match goal with |- sized_body (set_writer _ {| w_mode := _; w_ended := ?e |}) _ _ =>
      replace e with true by (destruct (_ =? 0); reflexivity) end.
    eapply sized_body_set_writer; eauto.
Qed.

(** Reaching the length through a write or a direct-write report marks the body finished at once. *)
Lemma finished_when_reached c lft ended input cap c' n out :
  sized_body c lft ended -> call_write_body c input cap = Ok (c', n, out) ->
  n = N.min (N.min cap (len input)) lft /\ out = take n input /\
  exists ended', sized_body c' (lft - n) ended' /\ (lft - n = 0 -> ended' = true) /\
                 (ended' = true -> lft - n = 0 \/ ended = true).
Proof.
  intros Hs H. rewrite (write_sized _ _ _ input cap Hs) in H.
  destruct (nonempty input && ended); [discriminate|]. destruct (lft <? len input); [discriminate|].
  cbv zeta in H. inversion H; subst; clear H. split; [reflexivity|]. split; [reflexivity|].
  eexists. split; [eapply sized_body_set_writer; eauto|].
  destruct (N.eqb_spec (lft - N.min (N.min cap (len input)) lft) 0); split; intros; auto; lia.
Qed.
