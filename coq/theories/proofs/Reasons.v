(** The close-reason list: no duplicates, hence within capacity; [add_reason] never panics. *)
From Coq Require Import Lia ZArith.
From Hoot Require Import Base Flow.
From Hoot.proofs Require Import BytesLemmas.
Open Scope N_scope.

Lemma reason_eqb_eq a b : reason_eqb a b = true <-> a = b.
Proof. destruct a, b; cbn; split; intros H; try reflexivity; try discriminate. Qed.

Lemma existsb_reason r rs : existsb (reason_eqb r) rs = true <-> In r rs.
Proof.
  rewrite existsb_exists. split.
  - intros (x & Hin & He). apply reason_eqb_eq in He. subst. exact Hin.
  - intros H. exists r. split; [exact H|]. apply reason_eqb_eq. reflexivity.
Qed.

Lemma nodup_snoc {A} (l : list A) x : NoDup l -> ~ In x l -> NoDup (l ++ [x]).
Proof.
  intros H Hn. apply (proj2 (NoDup_Add (Add_app x l []))). rewrite app_nil_r. split; assumption.
Qed.

Definition all_reasons := [Http10; ClientConnectionClose; ServerConnectionClose; Not100Continue; CloseDelimitedBody].

Lemma all_reasons_complete r : In r all_reasons.
Proof. destruct r; cbn; auto 6. Qed.

Lemma nodup_reasons_len (rs : list reason) : NoDup rs -> (List.length rs <= 5)%nat.
Proof.
  intros H. change 5%nat with (List.length all_reasons).
  apply NoDup_incl_length; [exact H|]. intros x _. apply all_reasons_complete.
Qed.

Lemma nodup_reasons_len_notin (rs : list reason) r : NoDup rs -> ~ In r rs -> (List.length rs <= 4)%nat.
Proof.
  intros H Hn. assert (Hc : NoDup (r :: rs)) by (constructor; assumption).
  apply nodup_reasons_len in Hc. cbn [List.length] in Hc. lia.
Qed.

(** With the capacity the code has, adding a reason to a duplicate-free list always succeeds. *)
Lemma add_reason_ok rs r :
  NoDup rs -> exists rs', add_reason rs r = Ok rs' /\ NoDup rs' /\ In r rs' /\
                          (forall x, In x rs' <-> In x rs \/ x = r) /\
                          (forall x, hd_error rs = Some x -> hd_error rs' = Some x).
Proof.
  intros Hnd. unfold add_reason.
  destruct (existsb (reason_eqb r) rs) eqn:E.
  - apply existsb_reason in E. exists rs. repeat split; auto.
    + intros [H|H]; [exact H|subst; exact E].
  - assert (Hn : ~ In r rs).
    { intros Hin. apply existsb_reason in Hin. congruence. }
    unfold push_reason.
    pose proof (nodup_reasons_len_notin rs r Hnd Hn) as Hl.
    destruct (N.leb_spec CLOSE_REASON_CAP (len rs)) as [Hc|Hc].
    + exfalso. rewrite len_length in Hc. unfold CLOSE_REASON_CAP in Hc. lia.
    + exists (rs ++ [r]). split; [reflexivity|]. split.
      * apply nodup_snoc; assumption.
      * split; [apply in_or_app; right; left; reflexivity|]. split.
        -- intros x. rewrite in_app_iff. cbn. intuition.
        -- intros x Hx. destruct rs; cbn in *; [discriminate|exact Hx].
Qed.
