(** Transport lemmas: what the model's reader / writer returns is what the code translated from src/body.rs (theories/Gen2.v) returns,
    in the shape the property files use.  Consequences of Gen2_equiv_body / Gen2_equiv_reader_chunked only. *)
From Coq Require Import Lia.
From Hoot Require Import Base Chunk Body GenLib Gen Gen2.
From Hoot.proofs Require Import BytesLemmas Gen2_equiv_body Gen2_equiv_reader_chunked.
Open Scope N_scope.

Lemma gen_read_ok_of_model : forall r src dst stop r' i out,
  limit_fits r src dst ->
  reader_read r src (len dst) stop = Ok (r', i, out) ->
  gen_br_read r src dst stop = Ok (r', out ++ drop (len out) dst, (i, len out)).
Proof.
  intros r src dst stop r' i out Hf Hm.
  pose proof (gen_br_read_equiv r src dst stop Hf) as H. rewrite Hm in H. unfold rd_rel in H.
  destruct (gen_br_read r src dst stop) as [[[r1 d1] [i1 o1]]|e|s]; try contradiction.
  destruct H as (-> & -> & -> & ->). reflexivity.
Qed.

Lemma gen_read_err_of_model : forall r src dst stop e,
  limit_fits r src dst ->
  reader_read r src (len dst) stop = Err e -> gen_br_read r src dst stop = Err e.
Proof.
  intros r src dst stop e Hf Hm.
  pose proof (gen_br_read_equiv r src dst stop Hf) as H. rewrite Hm in H. unfold rd_rel in H.
  destruct (gen_br_read r src dst stop) as [[[r1 d1] [i1 o1]]|e1|s]; try contradiction. congruence.
Qed.

Lemma gen_read_panic_only_if_model : forall r src dst stop s,
  limit_fits r src dst ->
  gen_br_read r src dst stop = Panic s -> exists s', reader_read r src (len dst) stop = Panic s'.
Proof.
  intros r src dst stop s Hf Hg.
  pose proof (gen_br_read_equiv r src dst stop Hf) as H. rewrite Hg in H. unfold rd_rel in H.
  destruct (reader_read r src (len dst) stop) as [[[r2 i2] o2]|e|s']; try contradiction. eauto.
Qed.

Lemma gen_write_ok_of_model : forall m e input avail out0 w' used bs,
  sized_fits m avail input ->
  writer_write {| w_mode := m; w_ended := e |} input avail = Ok (w', used, bs) ->
  gen_bw_write m e input avail out0 = Ok (w_mode w', w_ended w', avail - len bs, out0 ++ bs, used) /\ len bs <= avail.
Proof.
  intros m e input avail out0 w' used bs Hf Hm.
  pose proof (gen_bw_write_equiv m e input avail out0 Hf) as H. rewrite Hm in H. unfold wr_rel in H.
  destruct (gen_bw_write m e input avail out0) as [[[[[m1 e1] a1] o1] u1]|er|s]; try contradiction.
  destruct H as (-> & -> & -> & -> & -> & Hle). split; [reflexivity|exact Hle].
Qed.

Lemma gen_write_never_err : forall m e input avail out0 er,
  sized_fits m avail input -> gen_bw_write m e input avail out0 <> Err er.
Proof.
  intros m e input avail out0 er Hf Hg.
  pose proof (gen_bw_write_equiv m e input avail out0 Hf) as H. rewrite Hg in H. unfold wr_rel in H.
  destruct (writer_write {| w_mode := m; w_ended := e |} input avail) as [[[w u] b]|e2|s]; contradiction.
Qed.

Lemma gen_write_panic_only_if_model : forall m e input avail out0 s,
  sized_fits m avail input ->
  gen_bw_write m e input avail out0 = Panic s -> exists s', writer_write {| w_mode := m; w_ended := e |} input avail = Panic s'.
Proof.
  intros m e input avail out0 s Hf Hg.
  pose proof (gen_bw_write_equiv m e input avail out0 Hf) as H. rewrite Hg in H. unfold wr_rel in H.
  destruct (writer_write {| w_mode := m; w_ended := e |} input avail) as [[[w u] b]|e2|s']; try contradiction. eauto.
Qed.

Lemma gen_direct_ok_of_model : forall m e amount w',
  writer_direct {| w_mode := m; w_ended := e |} amount = Ok w' ->
  exists u, gen_bw_consume_direct_write m e amount = Ok (w_mode w', w_ended w', u).
Proof.
  intros m e amount w' Hm.
  pose proof (gen_bw_direct_equiv m e amount) as H. rewrite Hm in H. unfold dw_rel in H.
  destruct (gen_bw_consume_direct_write m e amount) as [[[m1 e1] u]|er|s]; try contradiction.
  destruct H as (-> & ->). eauto.
Qed.
