(** Split into Gen2_transport_read / Gen2_transport_write; this file re-exports them. *)
From Hoot.proofs Require Export Gen2_transport_read Gen2_transport_write.
