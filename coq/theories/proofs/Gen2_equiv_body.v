(** (src/body.rs, whole functions) The functions translated from the Rust sources by tools/rs2coq2.py (theories/Gen2.v,
    regenerated on every run) agree with the hand-written model (theories/Body.v): the queries of BodyReader and BodyWriter,
    BodyWriter::write / finish / write_chunk / consume_direct_write and the non-chunked half of BodyReader::read.
    (The chunked reader is in Gen2_equiv_reader_chunked.v.)

    Proof style: unfold both sides, normalise lengths with the len/take/drop lemmas, split every conditional of both sides
    (contradictory combinations are pruned by linear arithmetic as soon as they arise) and close the leaves by
    reflexivity / lia.  Nothing mentions a sub-term of the generated code literally, so an arithmetically equivalent
    rewrite of the Rust function is accepted.

    One deviation from "for all arguments": the Rust code converts the remaining declared length (a u64) to a buffer length with
    [left.min(usize::MAX as u64) as usize]; the model does not cap it.  The two agree whenever one of: the declared length,
    the input length, the output room is below 2^64 (all three are, for the Rust types); see [sized_fits] / [limit_fits]. *)
From Coq Require Import NArith ZArith Bool List Lia ZifyBool ZifyN.
From Hoot Require Import Base Chunk Body GenLib Gen Gen2.
From Hoot.proofs Require Import BytesLemmas Gen_equiv_body.
Open Scope N_scope.

(* ------------------------------------------------------------------ tactics *)

(** lengths of literal lists and of take/drop/app as arithmetic *)
Ltac norm_len :=
  unfold TERMINATOR, CRLF, DEFAULT_CHUNK_SIZE in *;
  rewrite ?len_app, ?len_take, ?len_drop, ?len_cons, ?len_nil in *.

Ltac arith := solve [ lia | norm_len; lia | cbn [len] in *; lia | norm_len; cbn [len] in *; lia ].

(** split one conditional (of either side); a contradictory combination is closed at once *)
Ltac split_if :=
  match goal with
  | |- context [if ?c then _ else _] => destruct c eqn:?; try (exfalso; arith)
  end.

Lemma take_eq {A} n m (l : list A) : n = m -> take n l = take m l.
Proof. intros ->. reflexivity. Qed.
Lemma drop_eq {A} n m (l : list A) : n = m -> drop n l = drop m l.
Proof. intros ->. reflexivity. Qed.

(** leaves: equalities between numbers, between [take]s / [drop]s at provably equal counts, between lists built from them *)
Ltac list_eq :=
  rewrite ?app_nil_r, <- ?app_assoc;
  repeat match goal with
         | |- ?x = ?x => reflexivity
         | |- ?a ++ _ = ?a ++ _ => apply f_equal
         | |- _ :: _ = _ :: _ => apply f_equal2; [reflexivity || arith|]
         | |- take _ ?l = take _ ?l => apply take_eq; arith
         | |- drop _ ?l = drop _ ?l => apply drop_eq; arith
         end.
Ltac leaf :=
  cbn [w_mode w_ended andb orb negb fst snd];
  repeat match goal with |- _ /\ _ => split end;
  try reflexivity; try exact I; try arith;
  try (apply f_equal; arith);
  try (list_eq; fail).

(* ------------------------------------------------------------------ relations *)

Definition U64_LIMIT : N := 18446744073709551616.

(** Generated writer call versus the model's: same new mode and ended flag, same count, the model's bytes are appended to what
    had been written and taken off the available space (and they fit); a panic corresponds to a panic; no errors. *)
Definition wr_rel (avail : N) (out0 : bytes) (g : res (smode * bool * N * bytes * N)) (m : res (writer * N * bytes)) : Prop :=
  match g, m with
  | Ok (m', e', avail', out', used), Ok (w', used2, bs) =>
      m' = w_mode w' /\ e' = w_ended w' /\ used = used2 /\ out' = out0 ++ bs /\ avail' = avail - len bs /\ len bs <= avail
  | Panic _, Panic _ => True
  | _, _ => False
  end.

Definition dw_rel (g : res (smode * bool * unit)) (m : res writer) : Prop :=
  match g, m with
  | Ok (m', e', _), Ok w' => m' = w_mode w' /\ e' = w_ended w'
  | Err e1, Err e2 => e1 = e2
  | Panic _, Panic _ => True
  | _, _ => False
  end.

(** Generated reader call versus the model's: same new reader, same counts, the destination buffer holds the model's output
    followed by its old contents. *)
Definition rd_rel (dst : bytes) (g : res (reader * bytes * (N * N))) (m : res (reader * N * bytes)) : Prop :=
  match g, m with
  | Ok (r1, dst1, (i1, o1)), Ok (r2, i2, out2) => r1 = r2 /\ i1 = i2 /\ o1 = len out2 /\ dst1 = out2 ++ drop (len out2) dst
  | Err e1, Err e2 => e1 = e2
  | Panic _, Panic _ => True
  | _, _ => False
  end.

(** The u64 -> usize conversion is the identity on the value that matters (see the header). *)
Definition sized_fits (m : smode) (avail : N) (input : bytes) : Prop :=
  match m with
  | SSized l => l < U64_LIMIT \/ avail < U64_LIMIT \/ len input < U64_LIMIT
  | _ => True
  end.

Definition limit_fits (r : reader) (src dst : bytes) : Prop :=
  match r with
  | RLength l => l < U64_LIMIT \/ len src < U64_LIMIT \/ len dst < U64_LIMIT
  | _ => True
  end.

Definition smode_u64 (m : smode) : Prop := match m with SSized l => l < U64_LIMIT | _ => True end.
Definition reader_u64 (r : reader) : Prop := match r with RLength l => l < U64_LIMIT | _ => True end.

Lemma smode_u64_fits m avail input : smode_u64 m -> sized_fits m avail input.
Proof. destruct m; cbn; auto. Qed.
Lemma reader_u64_fits r src dst : reader_u64 r -> limit_fits r src dst.
Proof. destruct r; cbn; auto. Qed.

(* ------------------------------------------------------------------ A. queries *)

Lemma gen_br_is_ended_eq r : gen_br_is_ended r = reader_is_ended r.
Proof. destruct r as [|l|d|]; try reflexivity; destruct d; reflexivity. Qed.

Lemma gen_br_is_on_chunk_boundary_eq r : gen_br_is_on_chunk_boundary r = reader_on_boundary r.
Proof. destruct r as [|l|d|]; try reflexivity; destruct d; reflexivity. Qed.

Lemma gen_br_body_mode_eq r : gen_br_body_mode r = reader_mode r.
Proof. destruct r; reflexivity. Qed.

Lemma gen_bw_has_body_eq m e : gen_bw_has_body m e = has_body {| w_mode := m; w_ended := e |}.
Proof. destruct m; reflexivity. Qed.

Lemma gen_bw_is_chunked_eq m e : gen_bw_is_chunked m e = w_is_chunked {| w_mode := m; w_ended := e |}.
Proof. destruct m; reflexivity. Qed.

Lemma gen_bw_is_ended_eq m e : gen_bw_is_ended m e = e.
Proof. reflexivity. Qed.

Lemma gen_bw_left_to_send_eq m e : gen_bw_left_to_send m e = left_to_send {| w_mode := m; w_ended := e |}.
Proof. destruct m; reflexivity. Qed.

(* ------------------------------------------------------------------ B. writer *)

(** [finish]: writes the terminator iff the body is chunked and it fits. *)
Lemma gen_bw_finish_spec m e avail out :
  gen_bw_finish m e avail out =
  if w_is_chunked {| w_mode := m; w_ended := e |}
  then if len TERMINATOR <=? avail
       then Ok (avail - len TERMINATOR, out ++ TERMINATOR, true)
       else Ok (avail, out, false)
  else Ok (avail, out, true).
Proof.
  unfold gen_bw_finish. rewrite gen_bw_is_chunked_eq. cbv zeta.
  repeat split_if; try reflexivity; repeat apply f_equal2; try reflexivity; arith.
Qed.

(** One [write_chunk]. *)
Lemma gen_body_write_chunk_spec input input_used avail out maxc :
  gen_body_write_chunk input input_used avail out maxc =
  match write_chunk input avail maxc with
  | None => Ok (input_used, avail, out, false)
  | Some (n, o) => Ok (input_used + n, avail - len o, out ++ o, n <? len input)
  end.
Proof.
  unfold gen_body_write_chunk, write_chunk. rewrite gen_max_chunk_fit_eq.
  generalize (max_chunk_fit avail maxc). intros fit. cbv zeta.
  remember (N.min (N.min (len input) maxc) fit) as n eqn:Hn.
  (* the generated count is the model's *)
  repeat match goal with
         | |- context [hex_of ?k] => lazymatch k with n => fail | _ => replace k with n by lia end
         | |- context [take ?k input] => lazymatch k with n => fail | _ => replace k with n by lia end
         end.
  unfold enc_chunk_n, CRLF. rewrite <- ?app_assoc. cbn [app].
  repeat split_if; cbn [andb]; try reflexivity;
    repeat match goal with |- Ok _ = Ok _ => apply f_equal | |- (_, _) = (_, _) => apply f_equal2 end;
    try reflexivity; try arith.
Qed.

Lemma write_chunk_fits input avail maxc n o : write_chunk input avail maxc = Some (n, o) -> len o <= avail.
Proof.
  unfold write_chunk. cbv zeta. destruct (_ =? 0); [discriminate|].
  destruct (N.leb_spec (len (enc_chunk_n (N.min (N.min (len input) maxc) (max_chunk_fit avail maxc)) input)) avail) as [H|H];
    [|discriminate].
  intros E. inversion E; subst. exact H.
Qed.

(** The [while write_chunk(..) {}] loop: the generated loop keeps the input whole and advances [input_used], the model
    recurses on the rest of the input; same fuel, same behaviour when it runs out. *)
Definition wl_rel (m : smode) (e : bool) (avail : N) (gout mout : bytes)
           (g : res (smode * bool * N * bytes * N)) (r : N * bytes) : Prop :=
  match g, r with
  | Ok (m', e', avail', gout', u), (u2, mout') =>
      m' = m /\ e' = e /\ u = u2 /\
      exists delta, mout' = mout ++ delta /\ gout' = gout ++ delta /\ avail' = avail - len delta /\ len delta <= avail
  | _, _ => False
  end.

Lemma gen_bw_write_loop1_equiv input m e : forall fuel used avail gout mout rest used2,
  rest = drop used input -> used2 = used ->
  wl_rel m e avail gout mout (gen_bw_write_loop1 fuel input m e avail gout used) (chunk_loop fuel rest avail used2 mout).
Proof.
  induction fuel as [|f IH]; intros used avail gout mout rest used2 -> ->.
  - cbn [gen_bw_write_loop1 chunk_loop wl_rel]. repeat split. exists []. rewrite !app_nil_r. repeat split; arith.
  - cbn [gen_bw_write_loop1 chunk_loop]. rewrite gen_body_write_chunk_spec. unfold DEFAULT_CHUNK_SIZE.
    destruct (write_chunk (drop used input) avail 10240) as [[n o]|] eqn:Hwc; cbn [bind].
    + pose proof (write_chunk_fits _ _ _ _ _ Hwc) as Hfit.
      destruct (n <? len (drop used input)) eqn:Hlt.
      * specialize (IH (used + n) (avail - len o) (gout ++ o) (mout ++ o) (drop n (drop used input)) (used + n)
                       (drop_drop _ _ _) eq_refl).
        destruct (gen_bw_write_loop1 f input m e (avail - len o) (gout ++ o) (used + n)) as [[[[[m' e'] a'] g'] u']|?|?];
          destruct (chunk_loop f (drop n (drop used input)) (avail - len o) (used + n) (mout ++ o)) as [u2 mo'];
          cbn [wl_rel] in *; try contradiction.
        destruct IH as (-> & -> & -> & delta & -> & -> & -> & Hd).
        repeat split. exists (o ++ delta). rewrite !app_assoc. repeat split; arith.
      * cbn [wl_rel]. repeat split. exists o. repeat split; arith.
    + cbn [wl_rel]. repeat split. exists []. rewrite !app_nil_r. repeat split; arith.
Qed.

(** [BodyWriter::write]. *)
Theorem gen_bw_write_equiv m e input avail out0 :
  sized_fits m avail input ->
  wr_rel avail out0 (gen_bw_write m e input avail out0) (writer_write {| w_mode := m; w_ended := e |} input avail).
Proof.
  intros Hfit. destruct m as [|lft|].
  - exact I.
  - (* Sized: the assert!(success) branch is unreachable, the bytes written are a prefix no longer than the room *)
    unfold gen_bw_write, writer_write. cbn [w_mode w_ended]. cbv zeta.
    cbn [sized_fits] in Hfit. unfold U64_LIMIT in Hfit.
    rewrite ?len_take.
    repeat split_if; cbn [wr_rel]; leaf.
  - (* Chunked *)
    unfold gen_bw_write, writer_write. cbn [w_mode w_ended]. cbv zeta.
    destruct input as [|x t].
    + rewrite ?gen_bw_finish_spec. cbn [w_is_chunked w_mode].
      repeat (split_if; cbn [bind andb negb wr_rel] in * ); try discriminate; leaf.
    + set (input := x :: t) in *.
      pose proof (gen_bw_write_loop1_equiv input SChunked e (S (List.length input)) 0 avail out0 [] input 0
                                           (eq_sym (drop_0 _)) eq_refl) as H.
      assert (Hne : len input <> 0) by (subst input; rewrite len_cons; lia).
      repeat split_if.
      destruct (gen_bw_write_loop1 _ _ _ _ _ _ _) as [[[[[m' e'] a'] g'] u']|?|?];
        destruct (chunk_loop _ _ _ _ _) as [u2 mo']; cbn [wl_rel bind wr_rel] in *; try contradiction.
      destruct H as (-> & -> & -> & delta & -> & -> & -> & Hd). cbn [app]. leaf.
Qed.

Corollary gen_bw_write_equiv_u64 m e input avail out0 :
  smode_u64 m ->
  wr_rel avail out0 (gen_bw_write m e input avail out0) (writer_write {| w_mode := m; w_ended := e |} input avail).
Proof. intros H. apply gen_bw_write_equiv, smode_u64_fits, H. Qed.

(** [BodyWriter::consume_direct_write]. *)
Theorem gen_bw_direct_equiv m e amount :
  dw_rel (gen_bw_consume_direct_write m e amount) (writer_direct {| w_mode := m; w_ended := e |} amount).
Proof.
  destruct m as [|lft|]; try exact I.
  unfold gen_bw_consume_direct_write, writer_direct. cbn [w_mode w_ended]. cbv zeta.
  repeat split_if; cbn [dw_rel]; leaf.
Qed.

(* ------------------------------------------------------------------ C. reader, not chunked *)

Lemma splice_0 dst n k (s : bytes) : k = n -> n <= len s -> splice dst 0 n (take k s) = take n s ++ drop (len (take n s)) dst.
Proof.
  intros -> H. unfold splice. rewrite take_0, take_take, len_take. cbn [app].
  apply f_equal2; [apply take_eq; lia|apply drop_eq; lia].
Qed.

(** the generated count is the model's *)
Ltac same_count n :=
  repeat match goal with
         | |- context [splice _ _ ?k _] => lazymatch k with n => fail | _ => replace k with n by lia end
         end.

Theorem gen_br_read_limit_equiv lft src dst stop :
  limit_fits (RLength lft) src dst ->
  rd_rel dst (gen_br_read_limit (RLength lft) src dst) (reader_read (RLength lft) src (len dst) stop).
Proof.
  intros Hfit. cbn [limit_fits] in Hfit. unfold U64_LIMIT in Hfit.
  unfold gen_br_read_limit, reader_read. cbv zeta. cbn [rd_rel].
  remember (N.min (N.min (len src) (len dst)) lft) as n eqn:Hn.
  same_count n. rewrite splice_0 with (n := n) by lia.
  leaf.
Qed.

Theorem gen_br_read_unlimit_equiv src dst stop :
  rd_rel dst (gen_br_read_unlimit RClose src dst) (reader_read RClose src (len dst) stop).
Proof.
  unfold gen_br_read_unlimit, reader_read. cbv zeta. cbn [rd_rel].
  remember (N.min (len src) (len dst)) as n eqn:Hn.
  same_count n. rewrite splice_0 with (n := n) by lia.
  leaf.
Qed.

(** a call that only forwards its callee's result *)
Lemma rd_rel_forward dst g m :
  rd_rel dst g m -> rd_rel dst (bind g (fun '(self, buf, part) => Ok (self, buf, part))) m.
Proof. destruct g as [[[r b] p]|?|?]; cbn [bind]; exact (fun H => H). Qed.

(** [BodyReader::read] on a reader that is not chunked. *)
Theorem gen_br_read_nonchunked_equiv r src dst stop :
  (forall d, r <> RChunked d) -> limit_fits r src dst ->
  rd_rel dst (gen_br_read r src dst stop) (reader_read r src (len dst) stop).
Proof.
  intros Hnc Hfit. destruct r as [|lft|d|].
  - cbn. repeat split. rewrite drop_0. reflexivity.
  - unfold gen_br_read. cbv zeta. apply rd_rel_forward, gen_br_read_limit_equiv, Hfit.
  - exfalso. exact (Hnc d eq_refl).
  - unfold gen_br_read. cbv zeta. apply rd_rel_forward, gen_br_read_unlimit_equiv.
Qed.

(* ------------------------------------------------------------------ the side condition cannot be dropped *)

(** Without [sized_fits] / [limit_fits] the statements are false in the model's unbounded arithmetic: with a declared length,
    an input and a room of 2^64 bytes each the generated code moves 2^64 - 1 bytes (the cap of the u64 -> usize conversion),
    the model 2^64.  (No such slice exists for the Rust types, hence a side condition rather than a finding about the code.)
    The witness is a list of 2^64 zeros, which is never evaluated: only its length is used. *)
Lemma huge_bytes : exists b : bytes, len b = U64_LIMIT.
Proof. exists (repeat 0 (N.to_nat U64_LIMIT)). rewrite len_length, repeat_length, N2Nat.id. reflexivity. Qed.

Ltac split_if_in H :=
  match type of H with
  | context [if ?c then _ else _] => destruct c eqn:?; try (exfalso; lia)
  end.

Lemma gen_bw_write_equiv_unrestricted_refuted :
  exists m e input avail out0,
    ~ wr_rel avail out0 (gen_bw_write m e input avail out0) (writer_write {| w_mode := m; w_ended := e |} input avail).
Proof.
  destruct huge_bytes as [input Hlen].
  exists (SSized U64_LIMIT), false, input, U64_LIMIT, []. intros H.
  unfold gen_bw_write, writer_write in H. cbn [w_mode w_ended] in H. cbv zeta in H.
  rewrite ?len_take, ?Hlen in H. unfold U64_LIMIT in *.
  repeat split_if_in H; cbn [wr_rel] in H; try contradiction;
    destruct H as (_ & _ & Hu & _); lia.
Qed.

Lemma gen_br_read_limit_equiv_unrestricted_refuted :
  exists lft src dst stop,
    ~ rd_rel dst (gen_br_read_limit (RLength lft) src dst) (reader_read (RLength lft) src (len dst) stop).
Proof.
  destruct huge_bytes as [b Hlen].
  exists U64_LIMIT, b, b, false. intros H.
  unfold gen_br_read_limit, reader_read in H. cbv zeta in H. cbn [rd_rel] in H.
  rewrite ?Hlen in H. unfold U64_LIMIT in *.
  destruct H as (_ & Hu & _); lia.
Qed.


(* ------------------------------------------------------------------ E. *)
Print Assumptions take_eq.
Print Assumptions drop_eq.
Print Assumptions smode_u64_fits.
Print Assumptions reader_u64_fits.
Print Assumptions gen_br_is_ended_eq.
Print Assumptions gen_br_is_on_chunk_boundary_eq.
Print Assumptions gen_br_body_mode_eq.
Print Assumptions gen_bw_has_body_eq.
Print Assumptions gen_bw_is_chunked_eq.
Print Assumptions gen_bw_is_ended_eq.
Print Assumptions gen_bw_left_to_send_eq.
Print Assumptions gen_bw_finish_spec.
Print Assumptions gen_body_write_chunk_spec.
Print Assumptions write_chunk_fits.
Print Assumptions gen_bw_write_loop1_equiv.
Print Assumptions gen_bw_write_equiv.
Print Assumptions gen_bw_write_equiv_u64.
Print Assumptions gen_bw_direct_equiv.
Print Assumptions splice_0.
Print Assumptions gen_br_read_limit_equiv.
Print Assumptions gen_br_read_unlimit_equiv.
Print Assumptions rd_rel_forward.
Print Assumptions gen_br_read_nonchunked_equiv.
Print Assumptions huge_bytes.
Print Assumptions gen_bw_write_equiv_unrestricted_refuted.
Print Assumptions gen_br_read_limit_equiv_unrestricted_refuted.
