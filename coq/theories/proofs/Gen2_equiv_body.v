(** (src/body.rs, whole functions) The functions translated from the Rust sources by tools/rs2coq2.py (theories/Gen2.v,
    regenerated on every run) agree with the hand-written model (theories/Body.v): the queries of BodyReader and BodyWriter,
    BodyWriter::write / finish / write_chunk / consume_direct_write and the non-chunked half of BodyReader::read.
    (The chunked reader is in Gen2_equiv_reader_chunked.v.)

    Proof style: unfold both sides, normalise lengths with the len/take/drop lemmas, split every conditional of both sides
    (contradictory combinations are pruned by linear arithmetic as soon as they arise) and close the leaves by
    reflexivity / lia.  Nothing mentions a sub-term of the generated code literally, so an arithmetically equivalent
    rewrite of the Rust function is accepted.

    One deviation from "for all arguments": the Rust code converts the remaining declared length (a u64) to a buffer length with
    [left.min(usize::MAX as u64) as usize]; the model does not cap it.  The two agree whenever one of: the declared length,
    the input length, the output room is below 2^64 (all three are, for the Rust types); see [sized_fits] / [limit_fits]. *)
(** Split into Gen2_equiv_rel / Gen2_equiv_writer / Gen2_equiv_reader; this file re-exports them. *)
From Hoot.proofs Require Export Gen2_equiv_rel Gen2_equiv_writer Gen2_equiv_reader.
