(** C16 / C13, shared lemmas.
    Part 1: [set_header] / [prepare_header] (what the caller adds, in which order).
    Part 2: inversion of [analyze_request] (the analysed request is the original one plus Host / framing).
    Part 3: every operation of Flow.v only ever appends to the added headers: the underlying
            request, the URI override and the suppression list of a flow never change.
    Part 4: [as_new_flow]: the new flow is rebuilt from the original request.
    Part 5: chains of redirects of any length. *)
From Coq Require Import Lia ZArith List.
From Hoot Require Import Base Chunk Body Httparse Parser Url Request Call Flow.
From Hoot.proofs Require Import AfterErr BytesLemmas C17_proofs C02_proofs C02_analysis.
Open Scope N_scope.

(** The amended request a flow carries. *)
Definition req_of (f : inner) : amended := c_req (i_call f).

(* ------------------------------------------------------------------ part 1: set_header *)

Lemma set_header_cases a k v :
  am_set_header a k v =
    if negb (valid_header_name k && valid_header_value v) then Err BadHeader
    else if MAX_EXTRA_HEADERS <=? len (am_added a)
         then Panic "util.rs: ArrayVec::push (extra headers)"
         else Ok (with_added a [(lower k, v)]).
Proof. reflexivity. Qed.

Lemma set_header_inv a k v a' :
  am_set_header a k v = Ok a' ->
  a' = with_added a [(lower k, v)] /\ valid_header_name k = true /\ valid_header_value v = true /\
  len (am_added a) < MAX_EXTRA_HEADERS.
Proof.
  rewrite set_header_cases.
  destruct (valid_header_name k); cbn [andb negb]; [|discriminate].
  destruct (valid_header_value v); cbn [andb negb]; [|discriminate].
  destruct (N.leb_spec MAX_EXTRA_HEADERS (len (am_added a))); [discriminate|].
  intros Hx. inversion Hx. auto.
Qed.

(** The flow [f] with [l] appended to the added headers of its request; nothing else changes. *)
Definition add_headers (f : inner) (l : list header) : inner :=
  set_call f (set_req (i_call f) (with_added (req_of f) l)).

Lemma set_req_same c : set_req c (c_req c) = c.
Proof. destruct c; reflexivity. Qed.

Lemma add_headers_nil f : add_headers f [] = f.
Proof. unfold add_headers, req_of. rewrite with_added_nil, set_req_same, set_call_same. reflexivity. Qed.

Lemma add_headers_app f l1 l2 : add_headers (add_headers f l1) l2 = add_headers f (l1 ++ l2).
Proof.
  unfold add_headers, req_of. cbn [set_call set_req i_call c_req]. rewrite with_added_app. reflexivity.
Qed.

Lemma req_of_add_headers f l : req_of (add_headers f l) = with_added (req_of f) l.
Proof. reflexivity. Qed.

Definition valid_kv (kv : header) : bool := valid_header_name (fst kv) && valid_header_value (snd kv).
Definition lower_kv (kv : header) : header := (lower (fst kv), snd kv).

Lemma prepare_header_cases f k v :
  prepare_header f k v =
    if negb (valid_kv (k, v)) then Err BadHeader
    else if MAX_EXTRA_HEADERS <=? len (am_added (req_of f))
         then Panic "util.rs: ArrayVec::push (extra headers)"
         else Ok (add_headers f [lower_kv (k, v)]).
Proof.
  unfold prepare_header, valid_kv, lower_kv, req_of. cbn [fst snd]. rewrite set_header_cases.
  destruct (negb _); [reflexivity|]. destruct (_ <=? _); reflexivity.
Qed.

Lemma prepare_header_ok f k v :
  valid_kv (k, v) = true -> len (am_added (req_of f)) < MAX_EXTRA_HEADERS ->
  prepare_header f k v = Ok (add_headers f [lower_kv (k, v)]).
Proof.
  intros Hv Hl. rewrite prepare_header_cases, Hv. cbn [negb].
  destruct (N.leb_spec MAX_EXTRA_HEADERS (len (am_added (req_of f)))); [lia|reflexivity].
Qed.

Lemma prepare_header_inv f k v f' :
  prepare_header f k v = Ok f' ->
  f' = add_headers f [lower_kv (k, v)] /\ valid_kv (k, v) = true /\
  len (am_added (req_of f)) < MAX_EXTRA_HEADERS.
Proof.
  rewrite prepare_header_cases. destruct (valid_kv (k, v)); cbn [negb]; [|discriminate].
  destruct (N.leb_spec MAX_EXTRA_HEADERS (len (am_added (req_of f)))); [discriminate|].
  intros Hx. inversion Hx. auto.
Qed.

(** Any number of [header] calls on a Prepare flow, stopping at the first failure. *)
Fixpoint prepare_headers (f : inner) (kvs : list header) : res inner :=
  match kvs with
  | [] => Ok f
  | kv :: t => do f1 <- prepare_header f (fst kv) (snd kv); prepare_headers f1 t
  end.

Lemma prepare_headers_ok kvs : forall f,
  forallb valid_kv kvs = true ->
  len (am_added (req_of f)) + len kvs <= MAX_EXTRA_HEADERS ->
  prepare_headers f kvs = Ok (add_headers f (map lower_kv kvs)).
Proof.
  induction kvs as [|[k v] t IH]; intros f Hv Hl.
  - cbn [prepare_headers map]. rewrite add_headers_nil. reflexivity.
  - cbn [forallb] in Hv. apply andb_prop in Hv. destruct Hv as [Hv1 Hv2].
    rewrite len_cons in Hl.
    cbn [prepare_headers fst snd map]. rewrite prepare_header_ok by (assumption || lia). cbn [bind].
    rewrite IH; [|exact Hv2|].
    + rewrite add_headers_app. reflexivity.
    + rewrite req_of_add_headers. unfold with_added. cbn [am_added]. rewrite len_app, len_cons. cbn [len]. lia.
Qed.


Lemma prepare_headers_inv kvs : forall f f',
  prepare_headers f kvs = Ok f' ->
  f' = add_headers f (map lower_kv kvs) /\ forallb valid_kv kvs = true /\
  (kvs <> [] -> len (am_added (req_of f)) + len kvs <= MAX_EXTRA_HEADERS).
Proof.
  induction kvs as [|[k v] t IH]; intros f f' H.
  - cbn [prepare_headers] in H. inversion H; subst. cbn [map forallb len]. rewrite add_headers_nil.
    split; [reflexivity|]. split; [reflexivity|congruence].
  - cbn [prepare_headers fst snd] in H.
    destruct (prepare_header f k v) as [f1| |] eqn:E; cbn [bind] in H; try discriminate.
    apply prepare_header_inv in E. destruct E as (-> & Hv & Hl).
    apply IH in H. destruct H as (-> & Hvt & Hlt).
    rewrite add_headers_app. split; [reflexivity|].
    split; [cbn [forallb]; rewrite Hv, Hvt; reflexivity|]. intros _. rewrite len_cons.
    destruct t as [|kv t']; [cbn [len]; clear - Hl; lia|].
    specialize (Hlt ltac:(discriminate)).
    rewrite req_of_add_headers in Hlt. unfold with_added in Hlt. cbn [am_added] in Hlt.
    rewrite len_app in Hlt. cbn [len] in Hlt |- *. lia.
Qed.

(** [fresh_flow], and everything else about the flow, is untouched by added headers. *)
Lemma add_headers_fresh f l : fresh_flow f -> fresh_flow (add_headers f l).
Proof. intros H. exact H. Qed.

(* ------------------------------------------------------------------ part 2: analysis *)

Lemma framing_inv a w s l a2 :
  invalid a w s = false ->
  (if negb (framing_present a) && has_body (spec_mode a w)
   then do h <- body_header (spec_mode a w); am_set_header (with_added a l) (fst h) (snd h)
   else Ok (with_added a l)) = Ok a2 ->
  a2 = with_added a (l ++ framing_added a w).
Proof.
  intros Hi H. unfold framing_added.
  destruct (framing_present a) eqn:Hf; cbn [negb andb] in H.
  - inversion H. rewrite app_nil_r. reflexivity.
  - destruct (valid_no_framing_mode _ _ _ Hi Hf) as [Hm _]. rewrite Hm in H.
    unfold framing_header. unfold has_body, body_header in H.
    destruct (w_mode w); cbn [bind fst snd] in H.
    + inversion H. rewrite app_nil_r. reflexivity.
    + apply set_header_inv in H. destruct H as [-> _]. rewrite with_added_app. reflexivity.
    + apply set_header_inv in H. destruct H as [-> _]. rewrite with_added_app. reflexivity.
Qed.

(** Whenever analysis of a not yet analysed call succeeds, the result is [analysed_call]: the
    request with Host / framing appended to the added headers, and the request was not in a
    rejection class. No side condition. *)
Lemma analyze_request_inv c c1 :
  c_analyzed c = false -> analyze_request c = Ok c1 ->
  c1 = analysed_call c /\ call_invalid c = false.
Proof.
  intros Ha H. unfold analyze_request in H. rewrite Ha in H. unfold call_invalid.
  destruct (invalid (c_req c) (c_writer c) (c_skip c)) eqn:Hi.
  - destruct (analyze_invalid _ _ _ Hi) as (e & He & _). rewrite He in H. discriminate.
  - split; [|reflexivity].
    rewrite (analyze_valid _ _ _ Hi) in H. cbn [bind ri_host ri_mode ri_body_header] in H.
    unfold analysed_call.
    set (a := c_req c) in *. set (w := c_writer c) in *.
    assert (Hh : exists a1,
               (if is_nonempty (hosts a) then Ok a
                else match u_auth (am_eff_uri a) with
                     | [] => Ok a
                     | _ => am_set_header a (s2b "Host") (uri_host (am_eff_uri a))
                     end) = Ok a1 /\ a1 = with_added a (host_added a)).
    { destruct (if is_nonempty (hosts a) then Ok a
                else match u_auth (am_eff_uri a) with
                     | [] => Ok a
                     | _ => am_set_header a (s2b "Host") (uri_host (am_eff_uri a))
                     end) as [a1| |] eqn:E; cbn [bind] in H; try discriminate.
      exists a1. split; [reflexivity|]. unfold host_added.
      destruct (hosts a) as [|h t]; cbn [is_nonempty] in E.
      - destruct (u_auth (am_eff_uri a)) as [|x y].
        + inversion E. rewrite with_added_nil. reflexivity.
        + apply set_header_inv in E. destruct E as [-> _]. reflexivity.
      - inversion E. rewrite with_added_nil. reflexivity. }
    destruct Hh as (a1 & E1 & ->). rewrite E1 in H. cbn [bind] in H.
    match type of H with (do a2 <- ?X; _) = _ => destruct X as [a2| |] eqn:E2 end;
      cbn [bind] in H; try discriminate.
    apply (framing_inv a w (c_skip c)) in E2; [|exact Hi]. subst a2.
    inversion H. reflexivity.
Qed.

Lemma analyze_request_ok_cases c c1 :
  analyze_request c = Ok c1 ->
  (c_analyzed c = true /\ c1 = c) \/ (c_analyzed c = false /\ c1 = analysed_call c).
Proof.
  intros H. destruct (c_analyzed c) eqn:Ha.
  - left. rewrite analysed_call_fix in H by exact Ha. inversion H. auto.
  - right. split; [reflexivity|]. apply analyze_request_inv; assumption.
Qed.

(** The head that will be written for a call, field by field. *)
Lemma render_analysed c :
  render_request_head (c_req (analysed_call c)) =
    prelude_line (c_req c) ++
    concat (map field_line (am_added (c_req c))) ++
    concat (map field_line (host_added (c_req c) ++ framing_added (c_req c) (c_writer c))) ++
    concat (map field_line (am_inherited (c_req c))) ++ CRLF.
Proof.
  rewrite render_flat, analysed_headers.
  rewrite (app_assoc (host_added _)), !map_app, !concat_app, <- !app_assoc. reflexivity.
Qed.

(* ------------------------------------------------------------------ part 3: nothing but appends *)

(** [extends a a']: [a'] is [a] with some headers appended to the added list. The underlying
    request ([am_req]), the URI override and the suppression list are the same. *)
Definition extends (a a' : amended) : Prop := exists l, a' = with_added a l.

Lemma extends_refl a : extends a a.
Proof. exists []. rewrite with_added_nil. reflexivity. Qed.

Lemma extends_eq a a' : a' = a -> extends a a'.
Proof. intros ->. apply extends_refl. Qed.

Lemma extends_trans a b c : extends a b -> extends b c -> extends a c.
Proof. intros [l1 ->] [l2 ->]. exists (l1 ++ l2). apply with_added_app. Qed.

Lemma extends_fields a a' :
  extends a a' ->
  am_req a' = am_req a /\ am_uri a' = am_uri a /\ am_unset a' = am_unset a /\
  am_inherited a' = am_inherited a /\ exists l, am_added a' = am_added a ++ l.
Proof. intros [l ->]. repeat split. exists l. reflexivity. Qed.

Lemma analyze_request_extends c c1 : analyze_request c = Ok c1 -> extends (c_req c) (c_req c1).
Proof.
  intros H. destruct (analyze_request_ok_cases c c1 H) as [[_ ->]|[_ ->]].
  - apply extends_refl.
  - unfold analysed_call. cbn [c_req]. eexists. reflexivity.
Qed.

Lemma call_write_nobody_extends c cap c' out :
  call_write_nobody c cap = Ok (c', out) -> extends (c_req c) (c_req c').
Proof.
  unfold call_write_nobody. intros H.
  destruct (analyze_request c) as [c1| |] eqn:E; cbn [bind] in H; try discriminate.
  destruct (try_write_prelude _ _ _) as [r| |]; cbn [bind] in H; try discriminate.
  inversion H; subst. cbn [set_phase c_req]. apply analyze_request_extends. exact E.
Qed.

Lemma call_write_body_extends c input cap c' n out :
  call_write_body c input cap = Ok (c', n, out) -> extends (c_req c) (c_req c').
Proof.
  unfold call_write_body. intros H.
  destruct (analyze_request c) as [c1| |] eqn:E; cbn [bind] in H; try discriminate.
  apply analyze_request_extends in E.
  destruct (is_prelude (c_phase c1)).
  - destruct (try_write_prelude _ _ _) as [r| |]; cbn [bind] in H; try discriminate.
    inversion H; subst. exact E.
  - destruct (is_body (c_phase c1)).
    + destruct (_ && _); [discriminate|].
      destruct (match left_to_send (c_writer c1) with Some l => l <? len input | None => false end);
        [discriminate|].
      destruct (writer_write _ _ _) as [[[w' used] o]| |]; cbn [bind] in H; try discriminate.
      inversion H; subst. exact E.
    + inversion H; subst. exact E.
Qed.

Lemma call_direct_write_req c amount c' : call_direct_write c amount = Ok c' -> c_req c' = c_req c.
Proof.
  unfold call_direct_write. destruct (left_to_send (c_writer c)); [|discriminate].
  destruct (_ <? _); [discriminate|].
  destruct (writer_direct _ _); cbn [bind]; try discriminate. intros H. inversion H. reflexivity.
Qed.

Lemma into_receive_req c c' : into_receive c = Ok c' -> c_req c' = c_req c.
Proof. unfold into_receive. destruct (w_ended _); [|discriminate]. intros H. inversion H. reflexivity. Qed.

Lemma into_send_body_req c c' : into_send_body c = Ok c' -> c_req c' = c_req c.
Proof. unfold into_send_body. destruct (c_analyzed c); [discriminate|]. intros H. inversion H. reflexivity. Qed.

Lemma call_try_response_req c input c' got :
  call_try_response c input = Ok (c', got) -> c_req c' = c_req c.
Proof.
  unfold call_try_response. intros H.
  destruct (try_parse_response _ _) as [first| |]; cbn [bind] in H; try discriminate.
  match type of H with (do got <- ?X; _) = _ => destruct X as [g| |] end; cbn [bind] in H;
    try discriminate.
  destruct g as [[used r]|]; [|inversion H; reflexivity].
  destruct (rs_status r =? 100).
  - destruct (rs_headers r); [inversion H; reflexivity|discriminate].
  - destruct (match hm_get (rs_headers r) (s2b "content-length") with
              | Some v => negb (is_text v) | None => false end); [discriminate|].
    destruct (for_response _ _ _ _ _ _) as [rd| |]; cbn [bind] in H; try discriminate.
    inversion H. reflexivity.
Qed.

Lemma call_read_req c input cap c' i o : call_read c input cap = Ok (c', i, o) -> c_req c' = c_req c.
Proof.
  unfold call_read. destruct (c_reader c) as [r|]; [|discriminate].
  destruct (reader_is_ended r); [intros H; inversion H; reflexivity|].
  destruct (reader_read _ _ _ _) as [[[r' i'] o']| |]; cbn [bind]; try discriminate.
  intros H. inversion H. reflexivity.
Qed.

(** Flow level. *)
Definition fext (f f' : inner) : Prop := extends (req_of f) (req_of f').

Lemma fext_refl f : fext f f.
Proof. apply extends_refl. Qed.

Lemma fext_trans f g h : fext f g -> fext g h -> fext f h.
Proof. apply extends_trans. Qed.

Lemma prepare_header_fext f k v f' : prepare_header f k v = Ok f' -> fext f f'.
Proof. intros H. apply prepare_header_inv in H. destruct H as [-> _]. eexists. reflexivity. Qed.

Lemma despite_fext f f' : send_body_despite_method f = Ok f' -> fext f f'.
Proof.
  unfold send_body_despite_method, fext, req_of. destruct (i_holder f).
  - destruct (into_send_body (i_call f)) as [c| |] eqn:E; cbn [bind]; try discriminate.
    intros H. inversion H; subst. cbn. apply extends_eq. apply into_send_body_req. exact E.
  - intros H. inversion H. apply extends_refl.
  - intros H. inversion H. apply extends_refl.
  - intros H. inversion H. apply extends_refl.
Qed.

Lemma send_request_write_fext f cap f' out : send_request_write f cap = Ok (f', out) -> fext f f'.
Proof.
  unfold send_request_write, fext, req_of. destruct (i_holder f); try discriminate.
  - destruct (call_write_nobody (i_call f) cap) as [[c o]| |] eqn:E; cbn [bind]; try discriminate.
    intros H. inversion H; subst. cbn. eapply call_write_nobody_extends. exact E.
  - destruct (is_body _); [intros H; inversion H; apply extends_refl|].
    destruct (call_write_body (i_call f) [] cap) as [[[c n] o]| |] eqn:E; cbn [bind]; try discriminate.
    intros H. inversion H; subst. cbn. eapply call_write_body_extends. exact E.
Qed.

Lemma send_request_proceed_fext f t f' : send_request_proceed f = Ok (Some (t, f')) -> fext f f'.
Proof.
  unfold send_request_proceed, fext, req_of.
  destruct (send_request_can_proceed f) as [ok| |]; cbn [bind]; try discriminate.
  destruct (negb ok); [discriminate|].
  destruct (i_should_send_body f).
  - destruct (i_await_100 f); [intros H; inversion H; apply extends_refl|].
    destruct (analyze_request (i_call f)) as [c| |] eqn:E; cbn [bind]; try discriminate.
    intros H. inversion H; subst. cbn. apply analyze_request_extends. exact E.
  - destruct (i_holder f); try discriminate.
    destruct (into_receive (i_call f)) as [c| |] eqn:E; try discriminate.
    intros H. inversion H; subst. cbn. apply extends_eq. apply into_receive_req. exact E.
Qed.

Lemma refuse_req f f' : refuse f = Ok f' -> req_of f' = req_of f.
Proof.
  unfold refuse. destruct (add_reason _ _); cbn [bind]; try discriminate.
  intros H. inversion H. reflexivity.
Qed.

Lemma try_read_100_fext f input : fext f (fst (try_read_100 f input)).
Proof.
  unfold try_read_100, fext.
  assert (Hr : forall X : inner * res N,
             match refuse f with
             | Ok f' => (f', Ok 0) | Err e => (f, Err e) | Panic s => (f, Panic s) end = X ->
             extends (req_of f) (req_of (fst X))).
  { intros X <-. destruct (refuse f) as [f'| |] eqn:E; cbn [fst]; try apply extends_refl.
    apply extends_eq. apply refuse_req. exact E. }
  destruct (try_parse_response 0 input) as [[[used r]|]|e|s]; cbn [fst]; try apply extends_refl.
  - destruct (rs_status r =? 100).
    + destruct (i_should_send_body f); apply extends_refl.
    + apply Hr. reflexivity.
  - destruct e; try apply extends_refl. apply Hr. reflexivity.
Qed.

Lemma await_100_proceed_fext f t f' : await_100_proceed f = Ok (t, f') -> fext f f'.
Proof.
  unfold await_100_proceed, fext, req_of. destruct (i_should_send_body f).
  - destruct (analyze_request (i_call f)) as [c| |] eqn:E; cbn [bind]; try discriminate.
    intros H. inversion H; subst. cbn. apply analyze_request_extends. exact E.
  - destruct (i_holder f); try discriminate. intros H. inversion H. apply extends_refl.
Qed.

Lemma as_with_body_call f c : as_with_body f = Ok c -> c = i_call f.
Proof. unfold as_with_body. destruct (i_holder f); try discriminate. intros H. inversion H. reflexivity. Qed.

Lemma send_body_write_fext f input cap f' n out :
  send_body_write f input cap = Ok (f', n, out) -> fext f f'.
Proof.
  unfold send_body_write, fext, req_of.
  destruct (as_with_body f) as [c| |] eqn:Ec; cbn [bind]; try discriminate.
  apply as_with_body_call in Ec. subst c.
  destruct (call_write_body (i_call f) input cap) as [[[c' u] o]| |] eqn:E; cbn [bind]; try discriminate.
  intros H. inversion H; subst. cbn. eapply call_write_body_extends. exact E.
Qed.

Lemma send_body_direct_fext f amount f' : send_body_direct f amount = Ok f' -> fext f f'.
Proof.
  unfold send_body_direct, fext, req_of.
  destruct (as_with_body f) as [c| |] eqn:Ec; cbn [bind]; try discriminate.
  apply as_with_body_call in Ec. subst c.
  destruct (call_direct_write (i_call f) amount) as [c'| |] eqn:E; cbn [bind]; try discriminate.
  intros H. inversion H; subst. cbn. apply extends_eq. eapply call_direct_write_req. exact E.
Qed.

Lemma send_body_proceed_fext f t f' : send_body_proceed f = Ok (Some (t, f')) -> fext f f'.
Proof.
  unfold send_body_proceed, fext, req_of.
  destruct (send_body_can_proceed f) as [ok| |]; cbn [bind]; try discriminate.
  destruct (negb ok); [discriminate|].
  destruct (into_receive (i_call f)) as [c| |] eqn:E; try discriminate.
  intros H. inversion H; subst. cbn. apply extends_eq. apply into_receive_req. exact E.
Qed.

Lemma recv_try_response_fext f input f' used got :
  recv_try_response f input = Ok (f', used, got) -> fext f f'.
Proof.
  unfold recv_try_response, fext, req_of.
  destruct (as_recv_response f) as [c| |] eqn:Ec; cbn [bind]; try discriminate.
  assert (c = i_call f) as ->.
  { unfold as_recv_response in Ec. destruct (i_holder f); try discriminate. inversion Ec. reflexivity. }
  destruct (call_try_response (i_call f) input) as [[c' g]| |] eqn:E; cbn [bind]; try discriminate.
  apply call_try_response_req in E.
  destruct g as [[u rsp]|].
  - destruct (_ && _).
    + intros H. inversion H; subst. cbn. apply extends_eq. exact E.
    + match goal with |- (do rs <- ?X; _) = _ -> _ => destruct X as [rs| |] end; cbn [bind];
        try discriminate.
      intros H. inversion H; subst. cbn. apply extends_eq. exact E.
  - intros H. inversion H; subst. cbn. apply extends_eq. exact E.
Qed.

Lemma recv_response_proceed_fext f t f' : recv_response_proceed f = Ok (Some (t, f')) -> fext f f'.
Proof.
  unfold recv_response_proceed, fext, req_of.
  destruct (recv_response_can_proceed f) as [ok| |]; cbn [bind]; try discriminate.
  destruct (negb ok); [discriminate|].
  destruct (need_response_body (i_call f)).
  - match goal with |- (do rs <- ?X; _) = _ -> _ => destruct X as [rs| |] end; cbn [bind];
      try discriminate.
    intros H. inversion H; subst. cbn. apply extends_refl.
  - intros H. inversion H; subst. cbn. apply extends_refl.
Qed.

Lemma as_recv_body_call f c : as_recv_body f = Ok c -> c = i_call f.
Proof. unfold as_recv_body. destruct (i_holder f); try discriminate. intros H. inversion H. reflexivity. Qed.

Lemma recv_body_read_fext f input cap f' i o : recv_body_read f input cap = Ok (f', i, o) -> fext f f'.
Proof.
  unfold recv_body_read, fext, req_of.
  destruct (as_recv_body f) as [c| |] eqn:Ec; cbn [bind]; try discriminate.
  apply as_recv_body_call in Ec. subst c.
  destruct (call_read (i_call f) input cap) as [[[c' i'] o']| |] eqn:E; cbn [bind]; try discriminate.
  intros H. inversion H; subst. cbn. apply extends_eq. eapply call_read_req. exact E.
Qed.

Lemma recv_body_stop_fext f b f' : recv_body_stop f b = Ok f' -> fext f f'.
Proof.
  unfold recv_body_stop, fext, req_of.
  destruct (as_recv_body f) as [c| |] eqn:Ec; cbn [bind]; try discriminate.
  apply as_recv_body_call in Ec. subst c.
  intros H. inversion H; subst. cbn. apply extends_refl.
Qed.

Lemma recv_body_proceed_fext f t f' : recv_body_proceed f = Ok (Some (t, f')) -> fext f f'.
Proof.
  unfold recv_body_proceed.
  destruct (recv_body_can_proceed f) as [ok| |]; cbn [bind]; try discriminate.
  destruct (negb ok); [discriminate|]. intros H. inversion H; subst. apply fext_refl.
Qed.

(** A failed body read leaves the flow as [recv_body_after_err] (the chunked decoder keeps the state
    it reached, proofs/AfterErr.v): the request is not touched. *)
Lemma recv_body_after_err_fext f input cap : fext f (recv_body_after_err f input cap).
Proof. unfold fext, req_of. apply extends_eq. apply recv_body_after_err_req. Qed.

(** One operation of an exchange, in any state, that returns a flow or changes the one the caller
    holds (a failed operation returns none and the caller keeps the flow it had -- except a failed
    body read, which leaves the body decoder in the state it had reached: [fo_read_err]). *)
Inductive flow_op : inner -> inner -> Prop :=
| fo_header f k v f' : prepare_header f k v = Ok f' -> flow_op f f'
| fo_despite f f' : send_body_despite_method f = Ok f' -> flow_op f f'
| fo_write f cap f' out : send_request_write f cap = Ok (f', out) -> flow_op f f'
| fo_sr_proceed f t f' : send_request_proceed f = Ok (Some (t, f')) -> flow_op f f'
| fo_try_100 f input : flow_op f (fst (try_read_100 f input))
| fo_await_proceed f t f' : await_100_proceed f = Ok (t, f') -> flow_op f f'
| fo_body_write f input cap f' n out : send_body_write f input cap = Ok (f', n, out) -> flow_op f f'
| fo_body_direct f amount f' : send_body_direct f amount = Ok f' -> flow_op f f'
| fo_sb_proceed f t f' : send_body_proceed f = Ok (Some (t, f')) -> flow_op f f'
| fo_try_response f input f' used got : recv_try_response f input = Ok (f', used, got) -> flow_op f f'
| fo_rr_proceed f t f' : recv_response_proceed f = Ok (Some (t, f')) -> flow_op f f'
| fo_read f input cap f' i o : recv_body_read f input cap = Ok (f', i, o) -> flow_op f f'
| fo_read_err f input cap e : recv_body_read f input cap = Err e -> flow_op f (recv_body_after_err f input cap)
| fo_stop f b f' : recv_body_stop f b = Ok f' -> flow_op f f'
| fo_rb_proceed f t f' : recv_body_proceed f = Ok (Some (t, f')) -> flow_op f f'.

Lemma flow_op_fext f f' : flow_op f f' -> fext f f'.
Proof.
  intros H. destruct H.
  - eapply prepare_header_fext; eassumption.
  - eapply despite_fext; eassumption.
  - eapply send_request_write_fext; eassumption.
  - eapply send_request_proceed_fext; eassumption.
  - apply try_read_100_fext.
  - eapply await_100_proceed_fext; eassumption.
  - eapply send_body_write_fext; eassumption.
  - eapply send_body_direct_fext; eassumption.
  - eapply send_body_proceed_fext; eassumption.
  - eapply recv_try_response_fext; eassumption.
  - eapply recv_response_proceed_fext; eassumption.
  - eapply recv_body_read_fext; eassumption.
  - apply recv_body_after_err_fext.
  - eapply recv_body_stop_fext; eassumption.
  - eapply recv_body_proceed_fext; eassumption.
Qed.

(* ------------------------------------------------------------------ part 4: as_new_flow *)

Definition keep_auth (p : auth_policy) (orig_uri target : uri) : bool :=
  match p with
  | Never => false
  | SameHost => can_redirect_auth_header orig_uri target
  end.

(** The suppression list of a redirected flow. *)
Definition unset_list (p : auth_policy) (orig_uri target : uri) : list bytes :=
  (if keep_auth p orig_uri target then [] else [s2b "authorization"]) ++
  [s2b "cookie"; s2b "content-length"].

(** The request of the next hop: the previous one with another method. *)
Definition with_method (r : request) (m : method) : request :=
  {| rq_method := m; rq_version := rq_version r; rq_uri := rq_uri r; rq_headers := rq_headers r |}.

(** The amended request of a flow just created by a redirect. *)
Definition redirected (r : request) (m : method) (p : auth_policy) (target : uri) : amended :=
  {| am_req := Some (with_method r m); am_uri := Some target; am_added := [];
     am_unset := unset_list p (rq_uri r) target |}.

Lemma unset_header_ok a k :
  len (am_unset a) < UNSET_CAP ->
  am_unset_header a k = Ok {| am_req := am_req a; am_uri := am_uri a; am_added := am_added a;
                             am_unset := am_unset a ++ [k] |}.
Proof.
  intros H. unfold am_unset_header. destruct (N.leb_spec UNSET_CAP (len (am_unset a))); [lia|reflexivity].
Qed.

(** The three pushes of [as_new_flow] on the fresh list. *)
Lemma unset_three r p target :
  (do a1 <- (if keep_auth p (rq_uri r) target then Ok (am_set_uri (am_new r) target)
             else am_unset_header (am_set_uri (am_new r) target) (s2b "authorization"));
   do a2 <- am_unset_header a1 (s2b "cookie");
   am_unset_header a2 (s2b "content-length")) =
  Ok {| am_req := Some r; am_uri := Some target; am_added := [];
        am_unset := unset_list p (rq_uri r) target |}.
Proof.
  unfold unset_list. destruct (keep_auth p (rq_uri r) target); cbn [bind].
  - rewrite unset_header_ok by (cbn; unfold UNSET_CAP; lia). cbn [bind].
    rewrite unset_header_ok by (cbn; unfold UNSET_CAP; lia). reflexivity.
  - rewrite unset_header_ok by (cbn; unfold UNSET_CAP; lia). cbn [bind].
    rewrite unset_header_ok by (cbn; unfold UNSET_CAP; lia). cbn [bind].
    rewrite unset_header_ok by (cbn; unfold UNSET_CAP; lia). reflexivity.
Qed.

(** The request of the redirect flow after [take_request]. *)
Definition taken (a : amended) : amended :=
  {| am_req := None; am_uri := am_uri a; am_added := am_added a; am_unset := am_unset a |}.

(** Complete description of a successful, followed [as_new_flow]. *)
Lemma as_new_flow_some f p f' nxt :
  as_new_flow f p = Ok (f', Some nxt) ->
  exists loc status orig target nm,
    i_location f = Some loc /\ is_text loc = true /\ i_status f = Some status /\
    am_req (req_of f) = Some orig /\
    resolve (am_eff_uri (req_of f)) loc = Some target /\
    c_skip (i_call nxt) = false /\
    c_writer (i_call nxt) = (if need_request_body nm then new_chunked else new_none) /\
    req_of nxt = redirected orig nm p target /\
    fresh_flow nxt /\
    f' = set_call f (set_req (i_call f) (taken (req_of f))).
Proof.
  unfold as_new_flow. intros H.
  destruct (i_location f) as [loc|]; [|discriminate].
  destruct (is_text loc) eqn:Ht; cbn [negb] in H; [|discriminate].
  destruct (i_status f) as [status|]; [|discriminate].
  destruct (u_scheme (am_eff_uri (c_req (i_call f)))) as [|s0 s1]; [discriminate|].
  destruct (resolve (am_eff_uri (c_req (i_call f))) loc) as [target|] eqn:Eres; [|discriminate].
  match type of H with
  | match ?X with Some nm => _ | None => Ok (f, None) end = _ => destruct X as [nm|]
  end; [|inversion H].
  destruct (am_req (c_req (i_call f))) as [orig|] eqn:Er; [|discriminate].
  fold (with_method orig nm) in H.
  destruct (flow_new_ok (with_method orig nm)) as (rs & Hn). rewrite Hn in H. cbn [bind] in H.
  cbn [i_call call_new c_req] in H.
  change (match p with Never => false | SameHost => can_redirect_auth_header (rq_uri orig) target end)
    with (keep_auth p (rq_uri (with_method orig nm)) target) in H.
  change (rq_uri orig) with (rq_uri (with_method orig nm)) in H.
  match type of H with
  | (do a1 <- ?A; do a2 <- @?B a1; do a3 <- @?C a2; _) = _ =>
      assert (E3 : (do a1 <- A; do a2 <- B a1; C a2) =
                   Ok {| am_req := Some (with_method orig nm); am_uri := Some target; am_added := [];
                         am_unset := unset_list p (rq_uri (with_method orig nm)) target |})
        by apply unset_three;
      destruct A as [a1| |]; cbn [bind] in H, E3; try discriminate;
      destruct (B a1) as [a2| |]; cbn [bind] in H, E3; try discriminate;
      cbv beta in H, E3; rewrite E3 in H
  end.
  cbn [bind] in H. inversion H; subst f' nxt; clear H.
  exists loc, status, orig, target, nm.
  repeat split; try reflexivity; try assumption.
  cbn. destruct (need_request_body nm); auto.
Qed.

(** Not followed: nothing happens. *)
Lemma as_new_flow_none f p f' : as_new_flow f p = Ok (f', None) -> f' = f.
Proof.
  unfold as_new_flow. intros H.
  destruct (i_location f) as [loc|]; [|discriminate].
  destruct (negb (is_text loc)); [discriminate|].
  destruct (i_status f) as [status|]; [|discriminate].
  destruct (u_scheme (am_eff_uri (c_req (i_call f)))) as [|s0 s1]; [discriminate|].
  destruct (resolve (am_eff_uri (c_req (i_call f))) loc) as [target|]; [|discriminate].
  match type of H with
  | match ?X with Some nm => _ | None => Ok (f, None) end = _ => destruct X as [nm|]
  end; [|inversion H; reflexivity].
  destruct (am_req (c_req (i_call f))) as [orig|]; [|discriminate].
  destruct (flow_new _) as [next| |]; cbn [bind] in H; try discriminate.
  match type of H with (do a1 <- ?A; _) = _ => destruct A as [a1| |] end; cbn [bind] in H; try discriminate.
  match type of H with (do a2 <- ?A; _) = _ => destruct A as [a2| |] end; cbn [bind] in H; try discriminate.
  match type of H with (do a3 <- ?A; _) = _ => destruct A as [a3| |] end; cbn [bind] in H; discriminate.
Qed.

(** The only panics of [as_new_flow]: no status recorded, a base URI that is not a URL, or a second
    call on the same redirect flow. In particular the pushes onto the suppression list never panic. *)
Lemma as_new_flow_panic f p site :
  as_new_flow f p = Panic site ->
  (i_status f = None /\ site = "flow.rs: status.unwrap() in as_new_flow"%string) \/
  (u_scheme (am_eff_uri (req_of f)) = [] /\ site = "amended.rs: expect(base uri to be a url)"%string) \/
  (am_req (req_of f) = None /\ site = "amended.rs: body.unwrap() in take_request"%string).
Proof.
  unfold as_new_flow, req_of. intros H.
  destruct (i_location f) as [loc|]; [|discriminate].
  destruct (negb (is_text loc)); [discriminate|].
  destruct (i_status f) as [status|]; [|inversion H; auto].
  destruct (u_scheme (am_eff_uri (c_req (i_call f)))) as [|s0 s1]; [inversion H; auto|].
  destruct (resolve (am_eff_uri (c_req (i_call f))) loc) as [target|]; [|discriminate].
  match type of H with
  | match ?X with Some nm => _ | None => Ok (f, None) end = _ => destruct X as [nm|]
  end; [|discriminate].
  destruct (am_req (c_req (i_call f))) as [orig|] eqn:Er; [|inversion H; auto].
  exfalso.
  fold (with_method orig nm) in H.
  destruct (flow_new_ok (with_method orig nm)) as (rs & Hn). rewrite Hn in H. cbn [bind] in H.
  cbn [i_call call_new c_req] in H.
  change (match p with Never => false | SameHost => can_redirect_auth_header (rq_uri orig) target end)
    with (keep_auth p (rq_uri (with_method orig nm)) target) in H.
  match type of H with
  | (do a1 <- ?A; do a2 <- @?B a1; do a3 <- @?C a2; _) = _ =>
      assert (E3 : (do a1 <- A; do a2 <- B a1; C a2) =
                   Ok {| am_req := Some (with_method orig nm); am_uri := Some target; am_added := [];
                         am_unset := unset_list p (rq_uri (with_method orig nm)) target |})
        by apply unset_three;
      destruct A as [a1| |]; cbn [bind] in H, E3; try discriminate;
      destruct (B a1) as [a2| |]; cbn [bind] in H, E3; try discriminate;
      cbv beta in H, E3; rewrite E3 in H
  end.
  cbn [bind] in H. discriminate.
Qed.

Lemma as_new_flow_unset_no_panic f p :
  as_new_flow f p <> Panic "util.rs: ArrayVec::push (unset)".
Proof.
  intros H. apply as_new_flow_panic in H.
  destruct H as [[_ H]|[[_ H]|[_ H]]]; discriminate.
Qed.

(* ------------------------------------------------------------------ part 5: chains *)

(** A hop: the policy the caller chose and the target the Location resolved to. *)
Definition hop := (auth_policy * uri)%type.

(** [chain orig hops f]: [f] is a flow of the redirect chain that started with [flow_new orig];
    [hops] are the redirects followed so far, oldest first (so [f] belongs to hop [length hops]);
    between two redirects, any operations of Flow.v. *)
Inductive chain (orig : request) : list hop -> inner -> Prop :=
| ch_new f : flow_new orig = Ok f -> chain orig [] f
| ch_op hops f f' : chain orig hops f -> flow_op f f' -> chain orig hops f'
| ch_hop hops f p f' nxt loc target :
    chain orig hops f -> as_new_flow f p = Ok (f', Some nxt) ->
    i_location f = Some loc -> resolve (am_eff_uri (req_of f)) loc = Some target ->
    chain orig (hops ++ [(p, target)]) nxt.

Definition hop_uri (hops : list hop) : option uri :=
  match rev hops with [] => None | (_, t) :: _ => Some t end.
Definition hop_unset (orig : request) (hops : list hop) : list bytes :=
  match rev hops with [] => [] | (p, t) :: _ => unset_list p (rq_uri orig) t end.

Lemma with_method_same r : with_method r (rq_method r) = r.
Proof. destruct r; reflexivity. Qed.

(** The invariant of a chain of any length: the request under the flow is the ORIGINAL request up
    to the method; URI override and suppression list are those of the last hop only. *)
Lemma chain_inv orig hops f :
  chain orig hops f ->
  exists m added,
    req_of f = {| am_req := Some (with_method orig m); am_uri := hop_uri hops; am_added := added;
                  am_unset := hop_unset orig hops |}.
Proof.
  induction 1 as [f Hn|hops f f' Hc IH Hop|hops f p f' nxt loc target Hc IH Has Hloc Hres].
  - apply flow_new_fresh in Hn. destruct Hn as (_ & Hr & _).
    exists (rq_method orig), []. unfold req_of. rewrite Hr, with_method_same. reflexivity.
  - destruct IH as (m & added & IH). apply flow_op_fext in Hop. destruct Hop as [l Hl].
    exists m, (added ++ l). rewrite Hl, IH. reflexivity.
  - destruct IH as (m & added & IH).
    apply as_new_flow_some in Has.
    destruct Has as (loc' & status & orig' & target' & nm & Hl' & _ & _ & Hr & Hres' & _ & _ & Hq & _).
    rewrite Hloc in Hl'. inversion Hl'; subst loc'. rewrite Hres in Hres'. inversion Hres'; subst target'.
    rewrite IH in Hr. cbn [am_req] in Hr. inversion Hr; subst orig'.
    exists nm, []. rewrite Hq. unfold redirected, hop_uri, hop_unset. rewrite rev_unit. reflexivity.
Qed.

Lemma chain_hop_req orig hops p t f :
  chain orig (hops ++ [(p, t)]) f ->
  exists m added, req_of f = {| am_req := Some (with_method orig m); am_uri := Some t;
                                am_added := added; am_unset := unset_list p (rq_uri orig) t |}.
Proof.
  intros H. apply chain_inv in H. destruct H as (m & added & H). exists m, added.
  rewrite H. unfold hop_uri, hop_unset. rewrite rev_unit. reflexivity.
Qed.

(** The inherited headers that are effective at hop >= 1: the original ones minus the suppression
    list computed from the ORIGINAL uri and the CURRENT target. *)
Definition hop_inherited (orig : request) (p : auth_policy) (t : uri) : list header :=
  filter (fun h => negb (mem_bytes (fst h) (unset_list p (rq_uri orig) t))) (rq_headers orig).

Lemma chain_hop_inherited orig hops p t f :
  chain orig (hops ++ [(p, t)]) f ->
  am_inherited (req_of f) = hop_inherited orig p t /\ am_eff_uri (req_of f) = t /\
  am_headers (req_of f) = am_added (req_of f) ++ hop_inherited orig p t.
Proof.
  intros H. destruct (chain_hop_req _ _ _ _ _ H) as (m & added & Hr).
  rewrite am_headers_split. rewrite Hr. repeat split.
Qed.

Lemma chain_first_inherited orig f :
  chain orig [] f ->
  am_inherited (req_of f) = rq_headers orig /\ am_eff_uri (req_of f) = rq_uri orig.
Proof.
  intros H. apply chain_inv in H. destruct H as (m & added & Hr). rewrite Hr.
  unfold am_inherited, am_eff_uri. cbn. split; [|reflexivity].
  induction (rq_headers orig) as [|h l IH]; cbn [filter]; [reflexivity|]. rewrite IH. reflexivity.
Qed.

Lemma mem_unset_cookie p u t : mem_bytes (s2b "cookie") (unset_list p u t) = true.
Proof. unfold unset_list. destruct (keep_auth p u t); reflexivity. Qed.

Lemma mem_unset_cl p u t : mem_bytes (s2b "content-length") (unset_list p u t) = true.
Proof. unfold unset_list. destruct (keep_auth p u t); reflexivity. Qed.

Lemma mem_unset_auth p u t : mem_bytes (s2b "authorization") (unset_list p u t) = negb (keep_auth p u t).
Proof. unfold unset_list. destruct (keep_auth p u t); reflexivity. Qed.

Lemma beq_bytes_neq a b : a <> b -> beq_bytes a b = false.
Proof. intros H. destruct (beq_bytes a b) eqn:E; [|reflexivity]. apply beq_bytes_eq in E. congruence. Qed.

Lemma mem_unset_other p u t k :
  k <> s2b "authorization" -> k <> s2b "cookie" -> k <> s2b "content-length" ->
  mem_bytes k (unset_list p u t) = false.
Proof.
  intros H1 H2 H3. unfold unset_list, mem_bytes.
  destruct (keep_auth p u t); cbn [app existsb];
    rewrite ?(beq_bytes_neq _ _ H1), ?(beq_bytes_neq _ _ H2), ?(beq_bytes_neq _ _ H3); reflexivity.
Qed.

Lemma keep_auth_iff p u t :
  keep_auth p u t = true <->
  p = SameHost /\ uri_host u = uri_host t /\
  (u_scheme u = u_scheme t \/ u_scheme t = s2b "https").
Proof.
  unfold keep_auth, can_redirect_auth_header. destruct p.
  - split; [discriminate|]. intros (H & _). discriminate.
  - rewrite andb_true_iff, orb_true_iff, !beq_bytes_eq. tauto.
Qed.

Lemma hop_inherited_in orig p t h :
  In h (hop_inherited orig p t) <->
  In h (rq_headers orig) /\ mem_bytes (fst h) (unset_list p (rq_uri orig) t) = false.
Proof. unfold hop_inherited. rewrite filter_In, negb_true_iff. reflexivity. Qed.

Lemma hop_no_cookie_cl orig p t h :
  In h (hop_inherited orig p t) -> fst h <> s2b "cookie" /\ fst h <> s2b "content-length".
Proof.
  intros H. apply hop_inherited_in in H. destruct H as [_ H].
  split; intros E; rewrite E in H.
  - rewrite mem_unset_cookie in H. discriminate.
  - rewrite mem_unset_cl in H. discriminate.
Qed.

Lemma hop_auth_iff orig p t v :
  In (s2b "authorization", v) (hop_inherited orig p t) <->
  In (s2b "authorization", v) (rq_headers orig) /\ p = SameHost /\
  uri_host (rq_uri orig) = uri_host t /\
  (u_scheme (rq_uri orig) = u_scheme t \/ u_scheme t = s2b "https").
Proof.
  rewrite hop_inherited_in. cbn [fst]. rewrite mem_unset_auth, negb_false_iff, keep_auth_iff. reflexivity.
Qed.

Lemma hop_other_iff orig p t h :
  fst h <> s2b "authorization" -> fst h <> s2b "cookie" -> fst h <> s2b "content-length" ->
  (In h (hop_inherited orig p t) <-> In h (rq_headers orig)).
Proof.
  intros H1 H2 H3. rewrite hop_inherited_in, mem_unset_other by assumption. tauto.
Qed.

(** The values, in order: all of the original Authorization fields or none. *)
Lemma hop_auth_values orig p t :
  get_all (hop_inherited orig p t) (s2b "authorization") =
    if keep_auth p (rq_uri orig) t then get_all (rq_headers orig) (s2b "authorization") else [].
Proof.
  unfold hop_inherited, get_all.
  pose proof (mem_unset_auth p (rq_uri orig) t) as Hm.
  induction (rq_headers orig) as [|h l IH]; cbn [filter map].
  - destruct (keep_auth _ _ _); reflexivity.
  - destruct (beq_bytes (fst h) (s2b "authorization")) eqn:E.
    + apply beq_bytes_eq in E. rewrite E, Hm.
      destruct (keep_auth p (rq_uri orig) t); cbn [negb filter map] in *.
      * rewrite E. cbn [beq_bytes]. rewrite beq_bytes_refl in *. cbn [map]. rewrite IH. reflexivity.
      * exact IH.
    + destruct (negb (mem_bytes (fst h) _)); cbn [filter]; rewrite ?E; exact IH.
Qed.

(** Case-insensitive form under the convention that names of the original request are lower case
    ([http::HeaderName] is). *)
Lemma hop_no_cookie_cl_ci orig p t h :
  Forall (fun h => lower (fst h) = fst h) (rq_headers orig) ->
  In h (hop_inherited orig p t) ->
  lower (fst h) <> s2b "cookie" /\ lower (fst h) <> s2b "content-length".
Proof.
  intros Hl H. pose proof (hop_no_cookie_cl _ _ _ _ H) as Hn.
  apply hop_inherited_in in H. destruct H as [H _].
  rewrite Forall_forall in Hl. rewrite (Hl _ H). exact Hn.
Qed.

(* ------------------------------------------------------------------ part 6: on the wire *)

(** A flow that has not written yet and that analysis accepts: whatever the output buffers, what
    has been written is a whole-line prefix of the rendered head, the flow can advance exactly when
    it is all of it, and the rendered head consists of the request line, the caller-added fields in
    order, what analysis adds, then the inherited fields. *)
Lemma head_on_wire f caps :
  fresh_flow f -> call_invalid (i_call f) = false -> sendable (i_call f) ->
  let a := c_req (analysed_call (i_call f)) in
  let t := fwrun f caps in
  (exists k, fw_out t = concat (take k (head_lines a))) /\
  (send_request_can_proceed (fw_flow t) = Ok true <-> fw_out t = render_request_head a) /\
  render_request_head a =
    prelude_line (req_of f) ++
    concat (map field_line (am_added (req_of f))) ++
    concat (map field_line (host_added (req_of f) ++ framing_added (req_of f) (c_writer (i_call f)))) ++
    concat (map field_line (am_inherited (req_of f))) ++ CRLF.
Proof.
  intros Hf Hi Hs. cbv zeta.
  pose proof (fresh_flow_headers_nonempty f Hs) as Hne.
  destruct (head_prefix _ f caps Hne (fresh_flow_head f Hf Hi Hs)) as (k & Hk & Ho).
  destruct (complete_iff _ _ k Hne Hk) as [H1 H2].
  split; [exists k; exact Ho|]. split.
  - rewrite Ho. rewrite H1. exact H2.
  - apply render_analysed.
Qed.

(** Several [header] calls keep a fresh flow fresh. *)
Lemma prepare_headers_fresh f kvs f' :
  fresh_flow f -> prepare_headers f kvs = Ok f' -> fresh_flow f'.
Proof. intros Hf H. apply prepare_headers_inv in H. destruct H as [-> _]. exact Hf. Qed.

Lemma prelude_line_with_added a l : prelude_line (with_added a l) = prelude_line a.
Proof. reflexivity. Qed.

(* ------------------------------------------------------------------ part 7: statements of C16 *)

Lemma c16_header_ok_lemma f k v :
  valid_header_name k = true -> valid_header_value v = true ->
  len (am_added (req_of f)) < MAX_EXTRA_HEADERS ->
  exists f', prepare_header f k v = Ok f' /\
    am_added (req_of f') = am_added (req_of f) ++ [(lower k, v)] /\
    am_req (req_of f') = am_req (req_of f) /\ am_uri (req_of f') = am_uri (req_of f) /\
    am_unset (req_of f') = am_unset (req_of f) /\
    f' = set_call f (set_req (i_call f) (req_of f')).
Proof.
  intros Hk Hv Hl. exists (add_headers f [lower_kv (k, v)]).
  split; [|repeat split].
  apply prepare_header_ok; [|exact Hl]. unfold valid_kv. cbn [fst snd]. rewrite Hk, Hv. reflexivity.
Qed.

Lemma c16_order_lemma f kvs :
  forallb valid_kv kvs = true ->
  len (am_added (req_of f)) + len kvs <= MAX_EXTRA_HEADERS ->
  exists f', prepare_headers f kvs = Ok f' /\
    am_headers (req_of f') = (am_added (req_of f) ++ map lower_kv kvs) ++ am_inherited (req_of f) /\
    am_added (req_of f') = am_added (req_of f) ++ map lower_kv kvs /\
    am_inherited (req_of f') = am_inherited (req_of f) /\
    am_req (req_of f') = am_req (req_of f) /\ am_uri (req_of f') = am_uri (req_of f) /\
    am_unset (req_of f') = am_unset (req_of f) /\
    f' = set_call f (set_req (i_call f) (req_of f')).
Proof.
  intros Hv Hl. exists (add_headers f (map lower_kv kvs)).
  split; [apply prepare_headers_ok; assumption|]. repeat split.
Qed.

(** The converse: whatever sequence of [header] calls succeeded, that is what it did. *)
Lemma c16_order_inv_lemma f kvs f' :
  prepare_headers f kvs = Ok f' ->
  am_headers (req_of f') = (am_added (req_of f) ++ map lower_kv kvs) ++ am_inherited (req_of f) /\
  forallb valid_kv kvs = true.
Proof.
  intros H. apply prepare_headers_inv in H. destruct H as (-> & Hv & _). split; [reflexivity|exact Hv].
Qed.

Lemma len_analysis_added a w : len (host_added a ++ framing_added a w) <= 2.
Proof.
  rewrite len_app. unfold host_added, framing_added, framing_header.
  assert (H1 : len (match hosts a with
                    | [] => match u_auth (am_eff_uri a) with
                            | [] => []
                            | _ => [(s2b "host", uri_host (am_eff_uri a))]
                            end
                    | _ => [] end) <= 1).
  { destruct (hosts a); [|cbn; lia]. destruct (u_auth _); cbn; lia. }
  assert (H2 : len (if framing_present a then []
                    else match w_mode w with
                         | SNone => []
                         | SSized n => [(s2b "content-length", dec_of n)]
                         | SChunked => [(s2b "transfer-encoding", s2b "chunked")]
                         end) <= 1).
  { destruct (framing_present a); [cbn; lia|]. destruct (w_mode w); cbn; lia. }
  unfold header in *. lia.
Qed.

Lemma c16_wire_lemma c c1 :
  c_analyzed c = false -> analyze_request c = Ok c1 ->
  let extra := host_added (c_req c) ++ framing_added (c_req c) (c_writer c) in
  am_headers (c_req c1) = am_added (c_req c) ++ extra ++ am_inherited (c_req c) /\
  len extra <= 2 /\
  render_request_head (c_req c1) =
    prelude_line (c_req c) ++
    concat (map field_line (am_added (c_req c))) ++
    concat (map field_line extra) ++
    concat (map field_line (am_inherited (c_req c))) ++ CRLF.
Proof.
  intros Ha H. apply analyze_request_inv in H; [|exact Ha]. destruct H as [-> _]. cbv zeta.
  split; [rewrite analysed_headers, <- app_assoc; reflexivity|].
  split; [apply len_analysis_added|apply render_analysed].
Qed.

Lemma c16_wire_bytes_lemma f kvs f' caps :
  fresh_flow f -> prepare_headers f kvs = Ok f' ->
  call_invalid (i_call f') = false -> sendable (i_call f') ->
  let a := c_req (analysed_call (i_call f')) in
  let t := fwrun f' caps in
  (exists k, fw_out t = concat (take k (head_lines a))) /\
  (send_request_can_proceed (fw_flow t) = Ok true <-> fw_out t = render_request_head a) /\
  render_request_head a =
    prelude_line (req_of f) ++
    concat (map field_line (am_added (req_of f) ++ map lower_kv kvs)) ++
    concat (map field_line (host_added (req_of f') ++ framing_added (req_of f') (c_writer (i_call f)))) ++
    concat (map field_line (am_inherited (req_of f))) ++ CRLF.
Proof.
  intros Hf Hp Hi Hs. pose proof (prepare_headers_fresh _ _ _ Hf Hp) as Hf'.
  pose proof (head_on_wire f' caps Hf' Hi Hs) as H. cbv zeta in H |- *.
  destruct H as (H1 & H2 & H3). split; [exact H1|]. split; [exact H2|].
  rewrite H3. apply prepare_headers_inv in Hp. destruct Hp as (-> & _). reflexivity.
Qed.

Lemma c16_redirect_depth_lemma f p f' nxt :
  as_new_flow f p = Ok (f', Some nxt) ->
  am_added (req_of nxt) = [] /\ fresh_flow nxt /\
  forall kvs, forallb valid_kv kvs = true -> len kvs <= MAX_EXTRA_HEADERS ->
    exists g, prepare_headers nxt kvs = Ok g /\ fresh_flow g /\
              am_headers (req_of g) = map lower_kv kvs ++ am_inherited (req_of nxt).
Proof.
  intros H. apply as_new_flow_some in H.
  destruct H as (loc & status & orig & target & nm & _ & _ & _ & _ & _ & _ & _ & Hq & Hfr & _).
  assert (Ha : am_added (req_of nxt) = []) by (rewrite Hq; reflexivity).
  split; [exact Ha|]. split; [exact Hfr|].
  intros kvs Hv Hl. exists (add_headers nxt (map lower_kv kvs)).
  split; [apply prepare_headers_ok; [exact Hv|rewrite Ha; cbn [len]; lia]|].
  split; [exact Hfr|]. rewrite req_of_add_headers, am_headers_with_added, Ha. reflexivity.
Qed.

(* ------------------------------------------------------------------ part 8: statements of C13 *)

Lemma c13_rebuilt_lemma f p f' nxt :
  as_new_flow f p = Ok (f', Some nxt) ->
  exists loc orig target nm,
    i_location f = Some loc /\
    am_req (req_of f) = Some orig /\
    resolve (am_eff_uri (req_of f)) loc = Some target /\
    am_req (req_of nxt) = Some {| rq_method := nm; rq_version := rq_version orig;
                                  rq_uri := rq_uri orig; rq_headers := rq_headers orig |} /\
    am_uri (req_of nxt) = Some target /\
    am_added (req_of nxt) = [] /\
    am_unset (req_of nxt) = unset_list p (rq_uri orig) target /\
    fresh_flow nxt /\
    am_req (req_of f') = None.
Proof.
  intros H. apply as_new_flow_some in H.
  destruct H as (loc & status & orig & target & nm & Hl & _ & _ & Hr & Hres & _ & _ & Hq & Hfr & ->).
  exists loc, orig, target, nm. rewrite Hq.
  split; [exact Hl|]. split; [exact Hr|]. split; [exact Hres|].
  split; [reflexivity|]. split; [reflexivity|]. split; [reflexivity|]. split; [reflexivity|].
  split; [exact Hfr|reflexivity].
Qed.

(** Every operation keeps the underlying request, the URI override and the suppression list. *)
Lemma c13_op_preserves_lemma f f' :
  flow_op f f' ->
  am_req (req_of f') = am_req (req_of f) /\ am_uri (req_of f') = am_uri (req_of f) /\
  am_unset (req_of f') = am_unset (req_of f) /\ am_inherited (req_of f') = am_inherited (req_of f) /\
  exists l, am_added (req_of f') = am_added (req_of f) ++ l.
Proof. intros H. apply extends_fields. apply flow_op_fext. exact H. Qed.

Lemma c13_chain_lemma orig hops f :
  chain orig hops f ->
  exists m added,
    req_of f = {| am_req := Some {| rq_method := m; rq_version := rq_version orig;
                                    rq_uri := rq_uri orig; rq_headers := rq_headers orig |};
                  am_uri := hop_uri hops; am_added := added; am_unset := hop_unset orig hops |}.
Proof. exact (chain_inv orig hops f). Qed.

Lemma c13_cookie_cl_lemma orig hops p t f :
  chain orig (hops ++ [(p, t)]) f ->
  am_headers (req_of f) = am_added (req_of f) ++ hop_inherited orig p t /\
  am_inherited (req_of f) = hop_inherited orig p t /\
  forall h, In h (hop_inherited orig p t) ->
            fst h <> s2b "cookie" /\ fst h <> s2b "content-length".
Proof.
  intros H. destruct (chain_hop_inherited _ _ _ _ _ H) as (H1 & _ & H3).
  split; [exact H3|]. split; [exact H1|]. intros h. apply hop_no_cookie_cl.
Qed.

Lemma c13_auth_iff_lemma orig hops p t f v :
  chain orig (hops ++ [(p, t)]) f ->
  (In (s2b "authorization", v) (am_inherited (req_of f)) <->
   In (s2b "authorization", v) (rq_headers orig) /\ p = SameHost /\
   uri_host (rq_uri orig) = uri_host t /\
   (u_scheme (rq_uri orig) = u_scheme t \/ u_scheme t = s2b "https")).
Proof.
  intros H. destruct (chain_hop_inherited _ _ _ _ _ H) as (-> & _). apply hop_auth_iff.
Qed.

Lemma c13_never_lemma orig hops t f v :
  chain orig (hops ++ [(Never, t)]) f -> ~ In (s2b "authorization", v) (am_inherited (req_of f)).
Proof.
  intros H Hin. apply (c13_auth_iff_lemma _ _ _ _ _ v H) in Hin. destruct Hin as (_ & Hp & _). discriminate.
Qed.

Lemma c13_other_lemma orig hops p t f h :
  chain orig (hops ++ [(p, t)]) f ->
  fst h <> s2b "authorization" -> fst h <> s2b "cookie" -> fst h <> s2b "content-length" ->
  (In h (am_inherited (req_of f)) <-> In h (rq_headers orig)).
Proof.
  intros H. destruct (chain_hop_inherited _ _ _ _ _ H) as (-> & _). apply hop_other_iff.
Qed.

Lemma c13_wire_lemma orig hops p t f caps :
  chain orig (hops ++ [(p, t)]) f ->
  fresh_flow f -> call_invalid (i_call f) = false -> sendable (i_call f) ->
  let a := c_req (analysed_call (i_call f)) in
  let tr := fwrun f caps in
  (exists k, fw_out tr = concat (take k (head_lines a))) /\
  (send_request_can_proceed (fw_flow tr) = Ok true <-> fw_out tr = render_request_head a) /\
  render_request_head a =
    prelude_line (req_of f) ++
    concat (map field_line (am_added (req_of f))) ++
    concat (map field_line (host_added (req_of f) ++ framing_added (req_of f) (c_writer (i_call f)))) ++
    concat (map field_line (hop_inherited orig p t)) ++ CRLF.
Proof.
  intros Hc Hf Hi Hs. pose proof (head_on_wire f caps Hf Hi Hs) as H. cbv zeta in H |- *.
  destruct (chain_hop_inherited _ _ _ _ _ Hc) as (<- & _). exact H.
Qed.
