(** C20: the three public head parsers of src/parser.rs on (prefixes of) well-formed heads. *)
From Coq Require Import Lia ZArith ZifyN ZifyBool.
From Hoot Require Import Base Httparse Parser.
From Hoot.proofs Require Import BytesLemmas C05_stable C05_spec C05_roundtrip.
Open Scope N_scope.

(** What the wrappers are expected to return. *)
Definition response_of (h : resp_head) : response :=
  {| rs_version := rh_version h; rs_status := rh_status h;
     rs_headers := hm_of_list (headers_of (rh_fields h)) |}.

(** The partial parser: the given (complete) fields up to the first one with an empty value. *)
Definition partial_response_of (h : resp_head) (fs : list field) : response :=
  {| rs_version := rh_version h; rs_status := rh_status h;
     rs_headers := hm_of_list (until_empty_value (headers_of fs)) |}.

Definition request_of (h : req_head) : prequest :=
  {| pq_method := qh_method h; pq_version := qh_version h;
     pq_headers := hm_of_list (headers_of (qh_fields h)) |}.

(** ** Small facts about the wrappers' checks *)

Lemma version_ok_wf v : wf_version v -> version_ok (Some v) = Ok v.
Proof. intros [-> | ->]; reflexivity. Qed.

Lemma status_ok_wf s : 100 <= s <= 999 -> status_ok (Some s) = Ok s.
Proof.
  intros H. unfold status_ok. replace ((100 <=? s) && (s <=? 999)) with true by lia. reflexivity.
Qed.

Lemma builder_ok_fields fs : Forall wf_field fs -> builder_ok (headers_of fs) = true.
Proof.
  intros H. unfold builder_ok, headers_of. apply forallb_forall. intros hd Hin.
  apply in_map_iff in Hin. destruct Hin as (f & <- & Hf).
  rewrite Forall_forall in H. destruct (H f Hf) as (_ & _ & Hl & _). exact Hl.
Qed.

Lemma builder_ok_until hs : builder_ok hs = true -> builder_ok (until_empty_value hs) = true.
Proof.
  unfold builder_ok. induction hs as [|hd t IH]; intros H; cbn [until_empty_value]; [reflexivity|].
  cbn [forallb] in H. apply andb_prop in H. destruct H as [H1 H2].
  destruct (snd hd); [reflexivity|]. cbn [forallb]. rewrite H1, (IH H2). reflexivity.
Qed.

Lemma Forall_firstn {A} (P : A -> Prop) k l : Forall P l -> Forall P (firstn k l).
Proof.
  intros H. rewrite Forall_forall in *. intros x Hx. apply H.
  rewrite <- (firstn_skipn k l). apply in_or_app. left. exact Hx.
Qed.

(** ** try_parse_response *)

Theorem response_complete slots h rest :
  wf_resp_head h -> (List.length (rh_fields h) <= slots)%nat ->
  try_parse_response slots (render_response_head h ++ rest) =
    Ok (Some (len (render_response_head h), response_of h)).
Proof.
  intros Hwf Hn. pose proof Hwf as (Hv & Hs & _ & Hfs).
  unfold try_parse_response. rewrite response_roundtrip by assumption.
  cbn [response_view hv_version hv_code hv_headers].
  rewrite version_ok_wf by exact Hv. cbn [bind]. rewrite status_ok_wf by exact Hs. cbn [bind].
  rewrite builder_ok_fields by exact Hfs. reflexivity.
Qed.

Theorem response_prefix slots h p x :
  wf_resp_head h -> (List.length (rh_fields h) <= slots)%nat ->
  render_response_head h = p ++ x -> x <> [] ->
  try_parse_response slots p = Ok None.
Proof.
  intros Hwf Hn Hp Hx. pose proof (response_prefix_partial slots h p x Hwf Hn Hp Hx) as H.
  unfold try_parse_response. destruct (parse_response slots p) as [s v]. cbn [fst] in H. subst s.
  reflexivity.
Qed.

Theorem response_too_many slots h fs1 f fs2 any :
  wf_resp_head h -> rh_fields h = fs1 ++ f :: fs2 -> List.length fs1 = slots ->
  try_parse_response slots (render_status_line h ++ render_lines fs1 ++ render_field f ++ any) =
    Err HttpParseTooManyHeaders.
Proof.
  intros Hwf Hfs Hl. unfold try_parse_response.
  rewrite (response_limit slots h fs1 f fs2 any Hwf Hfs Hl). reflexivity.
Qed.

Theorem response_limit_iff slots h rest :
  wf_resp_head h ->
  (try_parse_response slots (render_response_head h ++ rest) = Err HttpParseTooManyHeaders
   <-> (slots < List.length (rh_fields h))%nat).
Proof.
  intros Hwf. split.
  - intros H. destruct (Nat.le_gt_cases (List.length (rh_fields h)) slots) as [Hle|Hgt]; [|exact Hgt].
    rewrite response_complete in H by assumption. discriminate.
  - intros Hgt. pose proof (response_limit_complete slots h rest Hwf Hgt) as H.
    unfold try_parse_response. destruct (parse_response slots (render_response_head h ++ rest)) as [s v].
    cbn [fst] in H. subst s. reflexivity.
Qed.

(** ** try_parse_request *)

Theorem request_complete slots h rest :
  wf_req_head h -> forallb is_http_method_char (qh_method h) = true ->
  (List.length (qh_fields h) <= slots)%nat ->
  try_parse_request slots (render_request_head h ++ rest) =
    Ok (Some (len (render_request_head h), request_of h)).
Proof.
  intros Hwf Hm Hn. pose proof Hwf as (Hne & _ & _ & _ & Hv & Hfs).
  unfold try_parse_request. rewrite request_roundtrip by assumption.
  cbn [request_view hq_version hq_method hq_headers].
  rewrite version_ok_wf by exact Hv. cbn [bind].
  unfold request_of. destruct (qh_method h) as [|c m] eqn:Em; [congruence|].
  rewrite Hm. rewrite builder_ok_fields by exact Hfs. reflexivity.
Qed.

Theorem request_prefix slots h p x :
  wf_req_head h -> (List.length (qh_fields h) <= slots)%nat ->
  render_request_head h = p ++ x -> x <> [] ->
  try_parse_request slots p = Ok None.
Proof.
  intros Hwf Hn Hp Hx. pose proof (request_prefix_partial slots h p x Hwf Hn Hp Hx) as H.
  unfold try_parse_request. destruct (parse_request slots p) as [s v]. cbn [fst] in H. subst s.
  reflexivity.
Qed.

Theorem request_too_many slots h fs1 f fs2 any :
  wf_req_head h -> qh_fields h = fs1 ++ f :: fs2 -> List.length fs1 = slots ->
  try_parse_request slots (render_request_line h ++ render_lines fs1 ++ render_field f ++ any) =
    Err HttpParseTooManyHeaders.
Proof.
  intros Hwf Hfs Hl. unfold try_parse_request.
  rewrite (request_limit slots h fs1 f fs2 any Hwf Hfs Hl). reflexivity.
Qed.

Theorem request_limit_iff slots h rest :
  wf_req_head h -> forallb is_http_method_char (qh_method h) = true ->
  (try_parse_request slots (render_request_head h ++ rest) = Err HttpParseTooManyHeaders
   <-> (slots < List.length (qh_fields h))%nat).
Proof.
  intros Hwf Hm. split.
  - intros H. destruct (Nat.le_gt_cases (List.length (qh_fields h)) slots) as [Hle|Hgt]; [|exact Hgt].
    rewrite request_complete in H by assumption. discriminate.
  - intros Hgt. pose proof (request_limit_complete slots h rest Hwf Hgt) as H.
    unfold try_parse_request. destruct (parse_request slots (render_request_head h ++ rest)) as [s v].
    cbn [fst] in H. subst s. reflexivity.
Qed.

(** ** Which field lines are complete in a prefix *)

Lemma render_field_len_pos f : 0 < len (render_field f).
Proof. unfold render_field. rewrite !len_app. cbn [len]. lia. Qed.

Lemma fields_within_zero fs : fields_within fs 0 = [].
Proof.
  destruct fs as [|f t]; cbn [fields_within]; [reflexivity|].
  pose proof (render_field_len_pos f). destruct (N.leb_spec (len (render_field f)) 0); [lia|reflexivity].
Qed.

Lemma fields_within_all : forall fs m, fields_within fs (len (render_lines fs) + m) = fs.
Proof.
  induction fs as [|f t IH]; intros m; cbn [fields_within]; [reflexivity|].
  rewrite render_lines_cons, len_app.
  destruct (N.leb_spec (len (render_field f)) (len (render_field f) + len (render_lines t) + m)); [|lia].
  f_equal. etransitivity; [|apply (IH m)]. f_equal. lia.
Qed.

Lemma fields_within_firstn : forall fs k q y,
  (k <= List.length fs)%nat -> next_line fs k = q ++ y -> y <> [] ->
  fields_within fs (len (render_lines (firstn k fs)) + len q) = firstn k fs.
Proof.
  induction fs as [|f t IH]; intros k q y Hk Hq Hy.
  - rewrite firstn_nil. reflexivity.
  - destruct k as [|k].
    + cbn [firstn render_lines flat_map len fields_within]. unfold next_line in Hq. cbn [nth_error] in Hq.
      assert (len q < len (render_field f)).
      { rewrite Hq, len_app. destruct y; [congruence|]. rewrite len_cons. lia. }
      destruct (N.leb_spec (len (render_field f)) (0 + len q)); [lia|reflexivity].
    + cbn [firstn fields_within]. rewrite render_lines_cons, len_app.
      destruct (N.leb_spec (len (render_field f))
                  (len (render_field f) + len (render_lines (firstn k t)) + len q)); [|lia].
      f_equal. cbn [List.length] in Hk.
      etransitivity; [|apply (IH k q y ltac:(lia) Hq Hy)]. f_equal. lia.
Qed.

(** ** try_parse_partial_response *)

Lemma partial_of_view slots p s h fs :
  parse_response slots p = (s, response_view h fs) -> (forall e, s <> SError e) ->
  wf_resp_head h -> Forall wf_field fs ->
  try_parse_partial_response slots p = Ok (Some (partial_response_of h fs)).
Proof.
  intros Hp Hs (_ & Hst & _ & _) Hfs. unfold try_parse_partial_response. rewrite Hp.
  cbn [response_view hv_version hv_code hv_headers].
  rewrite status_ok_wf by exact Hst. cbn [bind].
  rewrite builder_ok_until by (apply builder_ok_fields; exact Hfs).
  destruct s as [n| |e]; try reflexivity. exfalso. apply (Hs e). reflexivity.
Qed.

(** On every prefix [p] of a well-formed head (the whole head included), as long as no more than
    [slots] field lines are complete in [p]: the partial parser says "nothing yet", or it reports the
    head's version and status and exactly the fields whose lines are complete in [p] (up to the first
    empty-valued one, where src/parser.rs stops copying). *)
Lemma partial_response_sound_strong slots h p x :
  wf_resp_head h -> render_response_head h = p ++ x ->
  (List.length (complete_fields h p) <= slots)%nat ->
  (try_parse_partial_response slots p = Ok None /\ complete_fields h p = []) \/
  try_parse_partial_response slots p = Ok (Some (partial_response_of h (complete_fields h p))).
Proof.
  intros Hwf Hp Hn. pose proof Hwf as (_ & _ & _ & Hfs).
  destruct x as [|c x].
  - (* the whole head *)
    rewrite app_nil_r in Hp. subst p. right.
    assert (Hc : complete_fields h (render_response_head h) = rh_fields h).
    { unfold complete_fields, render_response_head. rewrite !len_app.
      replace (len (render_status_line h) + (len (render_lines (rh_fields h)) + len CRLF) - len (render_status_line h))
        with (len (render_lines (rh_fields h)) + len CRLF) by lia.
      apply fields_within_all. }
    rewrite Hc in *. apply (partial_of_view slots _ (SComplete (len (render_response_head h)))).
    + rewrite <- (app_nil_r (render_response_head h)) at 1. apply response_roundtrip; assumption.
    + discriminate.
    + exact Hwf.
    + exact Hfs.
  - destruct (response_prefix_decompose h p (c :: x) Hp ltac:(discriminate))
      as [(y & Hy & Hne)|(k & q & y & Hk & Hq & Hnl & Hne)].
    + (* inside the status line *)
      assert (Hc : complete_fields h p = []).
      { unfold complete_fields. rewrite Hy, len_app.
        replace (len p - (len p + len y)) with 0 by lia. apply fields_within_zero. }
      rewrite Hc. destruct (response_partial_status_line slots h p y Hwf Hy Hne) as (H1 & H2 & H3 & H4).
      unfold try_parse_partial_response.
      destruct (parse_response slots p) as [s v]. cbn [fst snd] in *. subst s.
      destruct H3 as [H3|H3]; rewrite H3; [left; split; reflexivity|].
      destruct H4 as [H4|H4]; rewrite H4; [left; split; reflexivity|].
      right. destruct Hwf as (_ & Hst & _ & _). rewrite status_ok_wf by exact Hst. cbn [bind].
      rewrite H2. reflexivity.
    + (* after the status line: k complete lines and a strict prefix of the next one *)
      assert (Hc : complete_fields h p = firstn k (rh_fields h)).
      { unfold complete_fields. rewrite Hq, !len_app.
        replace (len (render_status_line h) + (len (render_lines (firstn k (rh_fields h))) + len q) - len (render_status_line h))
          with (len (render_lines (firstn k (rh_fields h))) + len q) by lia.
        apply (fields_within_firstn _ k q y Hk Hnl Hne). }
      rewrite Hc in *. right.
      assert (Hks : (k <= slots)%nat) by (rewrite firstn_length in Hn; lia).
      apply (partial_of_view slots _ SPartial).
      * rewrite Hq. apply (response_partial_view slots h k q y Hwf Hk Hks Hnl Hne).
      * discriminate.
      * exact Hwf.
      * apply Forall_firstn. exact Hfs.
Qed.

Theorem partial_response_sound slots h p x :
  wf_resp_head h -> render_response_head h = p ++ x ->
  (List.length (complete_fields h p) <= slots)%nat ->
  try_parse_partial_response slots p = Ok None \/
  try_parse_partial_response slots p = Ok (Some (partial_response_of h (complete_fields h p))).
Proof.
  intros Hwf Hp Hn.
  destruct (partial_response_sound_strong slots h p x Hwf Hp Hn) as [[H _]|H]; [left|right]; exact H.
Qed.

Corollary partial_response_total slots h p x :
  wf_resp_head h -> render_response_head h = p ++ x ->
  (List.length (complete_fields h p) <= slots)%nat ->
  exists o, try_parse_partial_response slots p = Ok o.
Proof.
  intros Hwf Hp Hn. destruct (partial_response_sound slots h p x Hwf Hp Hn) as [H|H]; eexists; exact H.
Qed.

(** No more fields are complete in a prefix than the head has. *)
Lemma fields_within_length : forall fs n, (List.length (fields_within fs n) <= List.length fs)%nat.
Proof.
  induction fs as [|f t IH]; intros n; cbn [fields_within List.length]; [lia|].
  destruct (len (render_field f) <=? n); cbn [List.length]; [specialize (IH (n - len (render_field f)))|]; lia.
Qed.

Lemma complete_fields_length h p : (List.length (complete_fields h p) <= List.length (rh_fields h))%nat.
Proof. apply fields_within_length. Qed.

(** For arbitrary input (not only prefixes of well-formed heads): what the partial parser has seen
    of the head stays put when more bytes arrive.  Together with [partial_response_sound] this is
    "never reports a field that is not completely present in its input". *)
Theorem partial_view_mono slots b x :
  let v := snd (parse_response slots b) in
  let v' := snd (parse_response slots (b ++ x)) in
  (hv_version v = None \/ hv_version v' = hv_version v) /\
  (hv_code v = None \/ hv_code v' = hv_code v) /\
  exists t, hv_headers v' = hv_headers v ++ t.
Proof. exact (response_view_mono slots b x). Qed.

(** ** What [complete_fields] means: a prefix of the head's field list whose lines lie inside [p]. *)
Lemma fields_within_prefix : forall fs n, exists t, fs = fields_within fs n ++ t.
Proof.
  induction fs as [|f t IH]; intros n; cbn [fields_within]; [exists []; reflexivity|].
  destruct (len (render_field f) <=? n).
  - destruct (IH (n - len (render_field f))) as [t' Ht']. exists t'. cbn [app]. f_equal. exact Ht'.
  - exists (f :: t). reflexivity.
Qed.

Lemma fields_within_len : forall fs n, len (render_lines (fields_within fs n)) <= n.
Proof.
  induction fs as [|f t IH]; intros n; cbn [fields_within]; [cbn; lia|].
  destruct (N.leb_spec (len (render_field f)) n); [|cbn; lia].
  rewrite render_lines_cons, len_app. specialize (IH (n - len (render_field f))). lia.
Qed.

Theorem complete_fields_prefix h p : exists t, rh_fields h = complete_fields h p ++ t.
Proof. apply fields_within_prefix. Qed.

Theorem complete_fields_contained h p x :
  render_response_head h = p ++ x -> complete_fields h p <> [] ->
  exists q, p = render_status_line h ++ render_lines (complete_fields h p) ++ q.
Proof.
  intros Hp Hne.
  assert (Hlen : len (render_status_line h) + len (render_lines (complete_fields h p)) <= len p).
  { pose proof (fields_within_len (rh_fields h) (len p - len (render_status_line h))) as Hl.
    fold (complete_fields h p) in Hl.
    destruct (N.le_gt_cases (len (render_status_line h)) (len p)) as [Hle|Hgt]; [lia|].
    exfalso. apply Hne. unfold complete_fields.
    replace (len p - len (render_status_line h)) with 0 by lia. apply fields_within_zero. }
  destruct (complete_fields_prefix h p) as [t Ht].
  unfold render_response_head in Hp. rewrite Ht, render_lines_app in Hp.
  rewrite <- app_assoc in Hp. rewrite app_assoc in Hp.
  apply app_eq_app in Hp. destruct Hp as [l [[H1 H2]|[H1 H2]]].
  - pose proof (f_equal (@len N) H1) as Hl1. rewrite !len_app in Hl1.
    assert (l = []) by (apply len_zero_nil; lia). subst l. rewrite app_nil_r in H1.
    exists []. rewrite app_nil_r. symmetry. exact H1.
  - exists l. rewrite <- app_assoc in H1. exact H1.
Qed.

(** Sanity of the specification: the three status digits are the decimal rendering of the status. *)
Lemma status_digits_dec s : 100 <= s <= 999 -> status_digits s = dec_of s.
Proof.
  intros H.
  assert (Hall : forallb (fun k => beq_bytes (status_digits (N.of_nat k)) (dec_of (N.of_nat k)))
                         (seq 100 900) = true) by (vm_compute; reflexivity).
  rewrite forallb_forall in Hall. specialize (Hall (N.to_nat s)).
  rewrite N2Nat.id in Hall. apply beq_bytes_eq. apply Hall. apply in_seq. lia.
Qed.
