(** C10 (part 3): the two facts that come from the server, read ON THE WIRE.

    [C10_proofs.refusal_seen] and [C10_proofs.resp_close] are computed from what the parser returned.
    Here they are related to descriptions of the bytes that use only the grammar of C05_spec
    ([resp_head], [render_*], [wf_resp_head]) and the words of the property:

      refusal_wire w        "a non-100 response arrived": [w] starts with a complete status line whose
                            status is not 100, followed by the empty line (a head without fields) or
                            by at least one complete field line;
      hundred_with_fields w the same shape with status 100 and a field line -- NOT a non-100 response,
                            but treated as a refusal by [try_read_100] (deviation (a), outside the
                            property: a 100 with header fields);
      conn_close fd         the field line [fd] is a Connection field (name compared without case)
                            whose value, without the surrounding white space, is exactly "close".

    Deviation (b): when [try_response] hands back a PARTIAL 3xx head (finding F10 class) the
    response carries a synthetic "connection: close" that is not on the wire; the verdict is
    must-close there, which is what the last sentence of the property wants
    ([partial_redirect_closes]). *)
From Coq Require Import Lia ZArith Permutation.
From Hoot Require Import Base Chunk Body Httparse Parser Url Request Call Flow Script.
From Hoot.proofs Require Import BytesLemmas Reasons C05_spec C05_roundtrip C05_hmap C20_proofs C05_proofs
                                C10_proofs C10_hist.
From Hoot.proofs Require C11_proofs.
Open Scope N_scope.

Notation decision_point := C11_proofs.decision_point.
Notation first_line := C11_proofs.first_line.

(* ------------------------------------------------------------------ refusal on the wire *)

Definition refusal_wire (w : bytes) : Prop :=
  exists h, wf_resp_head h /\ rh_status h <> 100 /\
    ((rh_fields h = [] /\ exists rest, w = render_response_head h ++ rest) \/
     (exists fd fs any, rh_fields h = fd :: fs /\ w = render_status_line h ++ render_field fd ++ any)).

Definition hundred_with_fields (w : bytes) : Prop :=
  exists h fd fs any, wf_resp_head h /\ rh_status h = 100 /\ rh_fields h = fd :: fs /\
                      w = render_status_line h ++ render_field fd ++ any.

(** Any bytes of the spec shape are seen as a refusal ... *)
Theorem refusal_wire_seen w : refusal_wire w -> refusal_seen w = true.
Proof.
  intros (h & Hwf & Hs & [[Hb (rest & ->)]|(fd & fs & any & Hf & ->)]); unfold refusal_seen.
  - rewrite C11_proofs.parse0_bare by assumption.
    change (rs_status (response_of h)) with (rh_status h).
    destruct (N.eqb_spec (rh_status h) 100); [contradiction|reflexivity].
  - rewrite (C11_proofs.parse0_field h fd fs any Hwf Hf). reflexivity.
Qed.

(** ... and so is a 100 that carries fields (deviation (a)). *)
Theorem hundred_with_fields_seen w : hundred_with_fields w -> refusal_seen w = true.
Proof.
  intros (h & fd & fs & any & Hwf & _ & Hf & ->). unfold refusal_seen.
  rewrite (C11_proofs.parse0_field h fd fs any Hwf Hf). reflexivity.
Qed.

Definition is_nil {A} (l : list A) : bool := match l with [] => true | _ => false end.

Lemma parse0_before_decision h rest n :
  wf_resp_head h -> n < decision_point h ->
  try_parse_response 0 (take n (render_response_head h ++ rest)) = Ok None.
Proof.
  intros Hwf Hn. unfold C11_proofs.decision_point in Hn. rewrite C11_proofs.stream_split.
  destruct (N.lt_ge_cases n (len (render_status_line h))) as [Hlt|Hge].
  - rewrite take_app_le by lia.
    destruct (C11_proofs.take_strict_prefix n _ Hlt) as [Hp Hy].
    exact (C11_proofs.parse0_undecided_status h _ _ Hwf Hp Hy).
  - rewrite take_app_ge by lia.
    assert (Hlt : n - len (render_status_line h) < len (first_line h)) by lia.
    rewrite take_app_le by lia.
    destruct (C11_proofs.take_strict_prefix _ _ Hlt) as [Hp Hy].
    exact (C11_proofs.parse0_undecided_line h _ _ Hwf Hp Hy).
Qed.

(** On every window of a stream that starts with a well-formed head: a refusal is seen exactly from
    the decision point on (status line and the complete next line), unless the head is a bare 100. *)
Theorem refusal_seen_exact h rest n :
  wf_resp_head h ->
  refusal_seen (take n (render_response_head h ++ rest)) =
    (decision_point h <=? n) && negb ((rh_status h =? 100) && is_nil (rh_fields h)).
Proof.
  intros Hwf. destruct (N.leb_spec (decision_point h) n) as [Hge|Hlt]; cbn [andb].
  - rewrite C11_proofs.window_after_decision by exact Hge. unfold refusal_seen.
    unfold C11_proofs.first_line, next_line, C11_proofs.after_first_line.
    destruct (rh_fields h) as [|fd fs] eqn:Ef; cbn [nth_error is_nil].
    + assert (Hw : forall t, render_status_line h ++ CRLF ++ t = render_response_head h ++ t).
      { intros t. unfold render_response_head. rewrite Ef. cbn [render_lines flat_map app].
        rewrite <- !app_assoc. reflexivity. }
      rewrite Hw. rewrite C11_proofs.parse0_bare by assumption.
      change (rs_status (response_of h)) with (rh_status h). rewrite andb_true_r. reflexivity.
    + rewrite (C11_proofs.parse0_field h fd fs _ Hwf Ef). rewrite andb_false_r. reflexivity.
  - unfold refusal_seen. rewrite (parse0_before_decision h rest n Hwf Hlt). reflexivity.
Qed.

(** The equivalence on well-formed input: what [try_read_100] treats as a refusal is a non-100
    response in the sense of the property -- or a 100 with fields. *)
Theorem refusal_seen_wire h rest n :
  wf_resp_head h ->
  let w := take n (render_response_head h ++ rest) in
  refusal_seen w = true <-> refusal_wire w \/ hundred_with_fields w.
Proof.
  intros Hwf w. split.
  - unfold w. rewrite (refusal_seen_exact h rest n Hwf). intros H.
    apply andb_prop in H. destruct H as [Hge Hnot]. apply N.leb_le in Hge.
    rewrite C11_proofs.window_after_decision by exact Hge.
    unfold C11_proofs.first_line, next_line, C11_proofs.after_first_line.
    destruct (rh_fields h) as [|fd fs] eqn:Ef; cbn [nth_error is_nil] in *.
    + rewrite andb_true_r in Hnot. left. exists h. split; [exact Hwf|].
      split; [destruct (N.eqb_spec (rh_status h) 100); [discriminate|assumption]|].
      left. split; [exact Ef|]. eexists. unfold render_response_head. rewrite Ef.
      cbn [render_lines flat_map app]. rewrite <- !app_assoc. reflexivity.
    + destruct (N.eq_dec (rh_status h) 100) as [E100|E100].
      * right. exists h, fd, fs. eexists. split; [exact Hwf|]. split; [exact E100|]. split; [exact Ef|reflexivity].
      * left. exists h. split; [exact Hwf|]. split; [exact E100|]. right.
        exists fd, fs. eexists. split; [exact Ef|reflexivity].
  - intros [H|H]; [apply refusal_wire_seen|apply hundred_with_fields_seen]; exact H.
Qed.

(** For a head whose status is not 100 the second alternative does not arise. *)
Corollary refusal_seen_wire_non100 h rest n :
  wf_resp_head h -> rh_status h <> 100 ->
  (refusal_seen (take n (render_response_head h ++ rest)) = true <-> decision_point h <= n).
Proof.
  intros Hwf Hs. rewrite (refusal_seen_exact h rest n Hwf).
  destruct (N.eqb_spec (rh_status h) 100); [contradiction|]. cbn [andb negb]. rewrite andb_true_r.
  apply N.leb_le.
Qed.

(* ------------------------------------------------------------------ n100 in a history: some window shown was a refusal *)

(** [o], executed in state [s], shows the window [w] to [try_read_100]. *)
Definition shows_100 (s : sstate) (o : op) (w : bytes) : Prop :=
  (exists f, s_obj s = ObFlow TAwait100 f) /\
  ((o = OTry100 /\ w = window s) \/ o = ORawTry100 w).

Lemma n100_step s g o :
  n100 (gstep s g o) = true ->
  n100 g = true \/ exists w, shows_100 s o w /\ refusal_seen w = true.
Proof.
  unfold gstep, shows_100. destruct o; auto.
  - destruct (flow_new r); cbn; auto; discriminate.
  - destruct (s_obj s) as [|t f|hd c]; auto. destruct t; auto.
    destruct (recv_response_proceed f) as [[[t' f']|]|e|p]; auto. destruct t'; auto.
  - destruct (s_obj s) as [|t f|hd c] eqn:Ho; auto. destruct t; auto.
    cbn [n100 set_n100]. intros H. apply orb_prop in H. destruct H as [H|H]; [auto|].
    right. exists (window s). split; [|exact H]. split; [eauto|auto].
  - destruct (s_obj s) as [|t f|hd c] eqn:Ho; auto. destruct t; auto.
    cbn [n100 set_n100]. intros H. apply orb_prop in H. destruct H as [H|H]; [auto|].
    right. exists w. split; [|exact H]. split; [eauto|auto].
  - destruct (s_obj s) as [|t f|hd c]; auto. destruct t; auto.
    destruct (recv_try_response f (window s)) as [[[f' u] [rsp|]]|e|p]; auto.
  - destruct (s_obj s) as [|t f|hd c]; auto. destruct t; auto.
    destruct (recv_try_response f w) as [[[f' u] [rsp|]]|e|p]; auto.
  - destruct (s_next s); cbn; auto; discriminate.
Qed.

(** If the history's fact "a non-100 response arrived while awaiting 100" holds, then some earlier
    [try_read_100] of the history (tracked or raw, in Await100) was shown a window that
    [refusal_seen] accepts. *)
Theorem n100_shown : forall ops,
  n100 (facts_of ops) = true ->
  exists ops1 o ops2 w,
    ops = ops1 ++ o :: ops2 /\ shows_100 (run_ops s_init ops1) o w /\ refusal_seen w = true.
Proof.
  induction ops as [|o ops IH] using rev_ind; [discriminate|].
  rewrite facts_step. intros H. destruct (n100_step _ _ _ H) as [Hn|(w & Hsh & Hr)].
  - destruct (IH Hn) as (ops1 & o1 & ops2 & w & -> & Hsh & Hr).
    exists ops1, o1, (ops2 ++ [o]), w. split; [|split; assumption].
    rewrite <- app_assoc. reflexivity.
  - exists ops, o, [], w. split; [reflexivity|split; assumption].
Qed.

(* ------------------------------------------------------------------ Connection: close on the wire *)

(** The field line is a Connection field with the value "close". *)
Definition conn_close (fd : field) : Prop :=
  lower (f_name fd) = s2b "connection" /\ f_value fd = s2b "close".

Definition conn_close_b (fd : field) : bool :=
  beq_bytes (lower (f_name fd)) (s2b "connection") && beq_bytes (f_value fd) (s2b "close").

Lemma conn_close_b_spec fd : conn_close_b fd = true <-> conn_close fd.
Proof.
  unfold conn_close_b, conn_close. rewrite andb_true_iff, !beq_bytes_eq. reflexivity.
Qed.

Lemma existsb_perm {A} (p : A -> bool) l l' : Permutation l l' -> existsb p l = existsb p l'.
Proof.
  induction 1; cbn [existsb]; try congruence.
  - destruct (p x), (p y); reflexivity.
Qed.

(** The response of a head carries Connection: close iff one of its field lines does. *)
Theorem resp_close_response_of h :
  resp_close (response_of h) = existsb conn_close_b (rh_fields h).
Proof.
  unfold resp_close, headers_has, response_of. cbn [rs_headers].
  rewrite (existsb_perm _ _ _ (hm_iter_of_list_perm (headers_of (rh_fields h)))).
  unfold headers_of. induction (rh_fields h) as [|fd fs IH]; [reflexivity|].
  cbn [map existsb]. rewrite IH. reflexivity.
Qed.

Corollary resp_close_wire h :
  resp_close (response_of h) = true <-> exists fd, In fd (rh_fields h) /\ conn_close fd.
Proof.
  rewrite resp_close_response_of, existsb_exists.
  split; intros (fd & Hin & H); exists fd; (split; [exact Hin|]); apply conn_close_b_spec; exact H.
Qed.

(** What [call_try_response] hands back is what the full parser saw, when it saw a complete head. *)
Lemma call_returned_first c w c' used rsp u r :
  call_try_response c w = Ok (c', Some (used, rsp)) ->
  try_parse_response (N.to_nat MAX_RESPONSE_HEADERS) w = Ok (Some (u, r)) ->
  rsp = r /\ used = u.
Proof.
  unfold call_try_response. intros H E. rewrite E in H. cbn [bind] in H.
  destruct (rs_status r =? 100).
  - destruct (rs_headers r); [|discriminate]. inversion H; subst. auto.
  - destruct (match hm_get (rs_headers r) (s2b "content-length") with
              | Some v => negb (is_text v) | None => false end); [discriminate|].
    inv_bind H. inversion H; subst. auto.
Qed.

Lemma recv_returned_call f w f' used rsp :
  recv_try_response f w = Ok (f', used, Some rsp) ->
  exists c', call_try_response (i_call f) w = Ok (c', Some (used, rsp)).
Proof.
  unfold recv_try_response. intros H. inv_bind H. inv_bind H.
  apply as_recv_response_eq in E. subst a. destruct a0 as [c' g].
  destruct g as [[u rsp']|]; [|discriminate].
  destruct ((rs_status rsp' =? 100) && i_await_100 (set_call f c')); [discriminate|].
  inv_bind H. inversion H; subst. exists c'. exact E0.
Qed.

(** The server-side fact on the wire: when [try_response] is shown a complete well-formed head (at
    most 128 fields) and returns a response, that response is the head's, and it counts as
    "the response carried Connection: close" iff one of the head's field lines is a Connection field
    with the value close. *)
Theorem scl_wire f h rest f' used rsp :
  wf_resp_head h -> (List.length (rh_fields h) <= 128)%nat ->
  recv_try_response f (render_response_head h ++ rest) = Ok (f', used, Some rsp) ->
  rsp = response_of h /\ used = len (render_response_head h) /\
  (resp_close rsp = true <-> exists fd, In fd (rh_fields h) /\ conn_close fd).
Proof.
  intros Hwf Hn H. destruct (recv_returned_call _ _ _ _ _ H) as (c' & Hc).
  pose proof (response_complete (N.to_nat MAX_RESPONSE_HEADERS) h rest Hwf Hn) as Hp.
  destruct (call_returned_first _ _ _ _ _ _ _ Hc Hp) as [-> ->].
  split; [reflexivity|]. split; [reflexivity|]. apply resp_close_wire.
Qed.

(* ------------------------------------------------------------------ deviation (b): the partial redirect (F10 class) *)

Lemma hm_iter_cons' (e : bytes * list bytes) m : hm_iter (e :: m) = map (fun v => (fst e, v)) (snd e) ++ hm_iter m.
Proof. reflexivity. Qed.

Lemma hm_insert_has m k v : headers_has (hm_iter (hm_insert m k v)) k v = true.
Proof.
  unfold headers_has. induction m as [|[k' vs] t IH]; cbn [hm_insert].
  - cbn. rewrite !beq_bytes_refl. reflexivity.
  - destruct (beq_bytes k k') eqn:E.
    + apply beq_bytes_eq in E. subst k'. cbn. rewrite !beq_bytes_refl. reflexivity.
    + rewrite hm_iter_cons', existsb_app, IH. apply orb_true_r.
Qed.

(** When the full parser has NOT seen a complete head and [try_response] nevertheless returns a
    response, it is the partial 3xx-with-Location case: the response carries the synthetic
    connection: close. *)
Lemma call_partial_close c w c' used rsp :
  call_try_response c w = Ok (c', Some (used, rsp)) ->
  try_parse_response (N.to_nat MAX_RESPONSE_HEADERS) w = Ok None ->
  resp_close rsp = true /\
  exists r, try_parse_partial_response (N.to_nat MAX_RESPONSE_HEADERS) w = Ok (Some r) /\
            is_redirection (rs_status r) = true /\ hm_contains (rs_headers r) (s2b "location") = true /\
            rs_status rsp = rs_status r /\ used = len w.
Proof.
  unfold call_try_response. intros H E. rewrite E in H. cbn [bind] in H.
  inv_bind H. rename E0 into Eg. inv_bind Eg. destruct a0 as [r|]; [|inversion Eg; subst; discriminate].
  destruct (is_redirection (rs_status r) && hm_contains (rs_headers r) (s2b "location")) eqn:Ered;
    [|inversion Eg; subst; discriminate].
  inversion Eg; subst; clear Eg. cbn [rs_status rs_headers] in H.
  apply andb_prop in Ered. destruct Ered as [Er Eloc].
  destruct (rs_status r =? 100) eqn:E100.
  - exfalso. apply N.eqb_eq in E100. unfold is_redirection in Er. rewrite E100 in Er.
    vm_compute in Er. discriminate.
  - destruct (match hm_get _ (s2b "content-length") with
              | Some v => negb (is_text v) | None => false end); [discriminate|].
    inv_bind H. inversion H; subst. split; [|eauto 10].
    unfold resp_close. cbn [rs_headers]. apply hm_insert_has.
Qed.

(** Flow level: in that case the reason "server sent Connection: close" is recorded and the flow is
    must-close -- a connection whose message boundary was not seen is not offered for reuse. *)
Theorem partial_redirect_closes f w f' used rsp :
  NoDup (i_reasons f) ->
  recv_try_response f w = Ok (f', used, Some rsp) ->
  try_parse_response (N.to_nat MAX_RESPONSE_HEADERS) w = Ok None ->
  resp_close rsp = true /\ In ServerConnectionClose (i_reasons f') /\ must_close f' = true.
Proof.
  intros Hnd H E. destruct (recv_returned_call _ _ _ _ _ H) as (c' & Hc).
  destruct (call_partial_close _ _ _ _ _ Hc E) as [Hcl _].
  pose proof (recv_try_response_spec f w f' used (Some rsp) Hnd H) as (_ & _ & Hin & _).
  assert (Hi : In ServerConnectionClose (i_reasons f')) by (apply Hin; right; split; [reflexivity|exact Hcl]).
  split; [exact Hcl|]. split; [exact Hi|].
  unfold must_close. destruct (i_reasons f'); [destruct Hi|reflexivity].
Qed.

(** In a history: after such a [try_response] the fact scl holds, so (by the verdict theorem) every
    flow the script holds afterwards in that exchange is must-close. *)
Theorem partial_redirect_history ops f w f' used rsp o :
  s_obj (run_ops s_init ops) = ObFlow TRecvResponse f ->
  (o = ORawTryResponse w \/ (o = OTryResponse /\ w = window (run_ops s_init ops))) ->
  recv_try_response f w = Ok (f', used, Some rsp) ->
  try_parse_response (N.to_nat MAX_RESPONSE_HEADERS) w = Ok None ->
  scl (facts_of (ops ++ [o])) = true /\
  forall t2 f2, s_obj (run_ops s_init (ops ++ [o])) = ObFlow t2 f2 -> must_close f2 = true.
Proof.
  intros Ho Hop H E.
  destruct (flow_invariant ops _ f Ho) as (Hnd & _).
  destruct (partial_redirect_closes f w f' used rsp Hnd H E) as (Hcl & _).
  assert (Hscl : scl (facts_of (ops ++ [o])) = true).
  { rewrite facts_step. unfold gstep. destruct Hop as [-> |[-> ->]]; rewrite Ho, H; cbn [scl set_scl];
      rewrite Hcl; apply orb_true_r. }
  split; [exact Hscl|]. intros t2 f2 Ho2.
  rewrite (verdict_of_inv _ _ (flow_invariant _ _ _ Ho2)), Hscl.
  rewrite orb_true_r. reflexivity.
Qed.

(* ------------------------------------------------------------------ concrete heads and histories for the examples *)

Ltac wf_head_tac h :=
  unfold wf_resp_head, wf_version, wf_field, h; cbn [rh_version rh_status rh_reason rh_fields];
  repeat match goal with
         | |- _ /\ _ => split
         | |- Forall _ (_ :: _) => constructor
         | |- Forall _ [] => constructor
         end;
  try (right; reflexivity); try lia; try discriminate; try (vm_compute; reflexivity).

Definition fd_conn_close : field :=
  {| f_name := s2b "Connection"; f_ows1 := [32]; f_value := s2b "close"; f_ows2 := [] |}.

(** "HTTP/1.1 403 Forbidden" CRLF "Connection: close" CRLF CRLF, the head of [demo_refused]. *)
Definition h_403_close : resp_head :=
  {| rh_version := 1; rh_status := 403; rh_reason := Some (s2b "Forbidden"); rh_fields := [fd_conn_close] |}.

Lemma wf_h_403_close : wf_resp_head h_403_close.
Proof. wf_head_tac h_403_close. Qed.

Lemma render_h_403_close : render_response_head h_403_close = demo_refused_head.
Proof. vm_compute. reflexivity. Qed.

(** "HTTP/1.1 403 Forbidden" CRLF CRLF. *)
Definition h_403_bare : resp_head :=
  {| rh_version := 1; rh_status := 403; rh_reason := Some (s2b "Forbidden"); rh_fields := [] |}.

Lemma wf_h_403_bare : wf_resp_head h_403_bare.
Proof. wf_head_tac h_403_bare. Qed.

(** Deviation (a): "HTTP/1.1 100 Continue" CRLF "x: y" CRLF. *)
Definition fd_x_y : field := {| f_name := s2b "x"; f_ows1 := [32]; f_value := s2b "y"; f_ows2 := [] |}.

Definition h_100_fields : resp_head :=
  {| rh_version := 1; rh_status := 100; rh_reason := Some (s2b "Continue"); rh_fields := [fd_x_y] |}.

Lemma wf_h_100_fields : wf_resp_head h_100_fields.
Proof. wf_head_tac h_100_fields. Qed.

Definition w_100_fields : bytes := s2b "HTTP/1.1 100 Continue" ++ CRLF ++ s2b "x: y" ++ CRLF.

Definition demo_100_fields : list op :=
  [ONew {| rq_method := POST; rq_version := V11; rq_uri := demo_uri;
           rq_headers := [(s2b "expect", s2b "100-continue")] |};
   OProceed; OWriteHead 1000; OProceed; ORawTry100 w_100_fields; OProceed;
   ORawTryResponse (s2b "HTTP/1.1 200 OK" ++ CRLF ++ s2b "Content-Length: 0" ++ CRLF ++ CRLF); OProceed].

(** Deviation (b): a 302 with Location whose head is cut inside the next field name. *)
Definition w_partial_302 : bytes :=
  s2b "HTTP/1.1 302 Found" ++ CRLF ++ s2b "location: /y" ++ CRLF ++ s2b "content-len".

Definition demo_partial_302 : list op :=
  [ONew {| rq_method := GET; rq_version := V11; rq_uri := demo_uri; rq_headers := [] |};
   OProceed; OWriteHead 1000; OProceed; ORawTryResponse w_partial_302; OProceed].
