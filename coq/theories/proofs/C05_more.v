(** C05, strengthening (review 2):
    1. a head with a Content-Length field IS delivered when the value is a number below 2^64 and is refused
       with BadContentLengthHeader otherwise -- the exact condition, tied to C06's [rfc_body_mode];
    2. the field clause of the property through the independent characterisation of proofs/C05_hmap.v;
    3. the prefix theorem at the flow level ([recv_try_response]) and for heads over the field limit. *)
From Coq Require Import Lia ZArith ZifyN ZifyBool Permutation.
From Hoot Require Import Base Chunk Body Httparse Parser Url Request Call Flow.
From Hoot.proofs Require Import BytesLemmas Reasons C05_stable C05_spec C05_roundtrip C20_proofs C05_proofs
                                C05_hmap C05_rfc_bytes C06_proofs.
Open Scope N_scope.

(** ** Specification side (no model function below this line up to the lemmas) *)

(** Decimal value of a digit string, read left to right. *)
Definition dec_value (v : bytes) : N := fold_left (fun a b => a * 10 + (b - 48)) v 0.

(** A Content-Length value the code accepts: 1*DIGIT denoting a number below 2^64. *)
Definition cl_numeric (v : bytes) : Prop :=
  v <> [] /\ forallb rfc_DIGIT v = true /\ dec_value v < 2 ^ 64.

(** The fields of a head called [k] (compared case-insensitively; [k] in lower case), in order. *)
Definition fields_called (k : bytes) (fs : list field) : list field :=
  filter (fun f => beq_bytes k (lower (f_name f))) fs.

(** The value of the first of them. *)
Definition first_field (k : bytes) (fs : list field) : option bytes :=
  match fields_called k fs with [] => None | f :: _ => Some (f_value f) end.

(** ... provided it is text (VCHAR / SP / HTAB only): what the body-framing rule is given. *)
Definition rfc_text (v : bytes) : bool := forallb (fun b => rfc_VCHAR b || rfc_SP b || rfc_HTAB b) v.
Definition first_text_field (k : bytes) (fs : list field) : option bytes :=
  match first_field k fs with
  | Some v => if rfc_text v then Some v else None
  | None => None
  end.

(** The framing headers of [h] are acceptable: there is no Content-Length field, or the first one is numeric.
    (Transfer-Encoding never causes a refusal; further Content-Length fields are not looked at.) *)
Definition cl_acceptable (h : resp_head) : Prop :=
  forall v, first_field (s2b "content-length") (rh_fields h) = Some v -> cl_numeric v.

(** The body-framing decision of C06 ([rfc_body_mode], proofs/C06_proofs.v) for head [h], request method [m]. *)
Definition framing_of (m : method) (h : resp_head) : res reader :=
  rfc_body_mode (method_eqb m HEAD) (method_eqb m CONNECT) (rh_status h) (negb (rh_version h =? 0))
                (first_text_field (s2b "content-length") (rh_fields h))
                (first_text_field (s2b "transfer-encoding") (rh_fields h)).

(** "Connection: close" among the fields (name case-insensitive, value exactly "close"). *)
Definition server_close (fs : list field) : bool :=
  existsb (fun f => beq_bytes (lower (f_name f)) (s2b "connection") && beq_bytes (f_value f) (s2b "close")) fs.

(** ** [parse_dec_u64] is the decimal value, below 2^64 *)

Definition dstep (a b : N) : N := a * 10 + (b - 48).

Lemma fold_dstep_ge t : forall a, a <= fold_left dstep t a.
Proof.
  induction t as [|b t IH]; intros a; cbn [fold_left]; [lia|].
  specialize (IH (dstep a b)). unfold dstep in *. lia.
Qed.

Lemma parse_digits_dec s : forall acc, acc < U64_LIMIT ->
  parse_digits 10 decval s acc =
    if forallb is_digit s && (fold_left dstep s acc <? U64_LIMIT) then Some (fold_left dstep s acc) else None.
Proof.
  induction s as [|b t IH]; intros acc Hacc; cbn [parse_digits forallb fold_left].
  - replace (acc <? U64_LIMIT) with true by lia. reflexivity.
  - unfold decval. destruct (is_digit b); cbn [andb]; [|reflexivity].
    fold (dstep acc b). destruct (N.ltb_spec (dstep acc b) U64_LIMIT) as [Hlt|Hge].
    + apply IH. exact Hlt.
    + pose proof (fold_dstep_ge t (dstep acc b)) as Hm.
      replace (fold_left dstep t (dstep acc b) <? U64_LIMIT) with false by lia.
      rewrite Bool.andb_false_r. reflexivity.
Qed.

Lemma pow64 : 2 ^ 64 = U64_LIMIT.
Proof. reflexivity. Qed.

Theorem parse_dec_u64_spec v n :
  parse_dec_u64 v = Some n <-> v <> [] /\ all_digits v = true /\ dec_value v = n /\ n < U64_LIMIT.
Proof.
  unfold parse_dec_u64, all_digits, dec_value. fold dstep.
  destruct v as [|b t]; [split; [discriminate|intros [H _]; congruence]|].
  rewrite parse_digits_dec by (unfold U64_LIMIT; lia).
  destruct (forallb is_digit (b :: t)); cbn [andb].
  - destruct (N.ltb_spec (fold_left dstep (b :: t) 0) U64_LIMIT) as [Hlt|Hge].
    + split; [intros H; inversion H; subst; repeat split; [discriminate|exact Hlt]|].
      intros (_ & _ & H & _). rewrite H. reflexivity.
    + split; [discriminate|]. intros (_ & _ & H & Hl). lia.
  - split; [discriminate|]. intros (_ & H & _). discriminate.
Qed.

Lemma cl_numeric_parse v : cl_numeric v <-> all_digits v = true /\ parse_dec_u64 v = Some (dec_value v).
Proof.
  unfold cl_numeric. rewrite pow64, parse_dec_u64_spec. change (forallb rfc_DIGIT v) with (all_digits v). tauto.
Qed.

Lemma digit_visible b : is_digit b = true -> is_visible_ascii b = true.
Proof. unfold is_digit, is_visible_ascii. lia. Qed.

Lemma all_digits_text v : all_digits v = true -> is_text v = true.
Proof.
  unfold all_digits, is_text. intros H. apply forallb_forall. intros x Hx. apply digit_visible.
  rewrite forallb_forall in H. apply H. exact Hx.
Qed.

Lemma rfc_text_is_text v : rfc_text v = is_text v.
Proof. unfold rfc_text, is_text. symmetry. apply forallb_ext_eq. exact visible_ascii_is_rfc. Qed.

(** C06's [cl_value] in these terms. *)
Lemma cl_value_numeric v : cl_numeric v -> cl_value (Some v) = Ok (Some (dec_value v)).
Proof. intros H. apply cl_numeric_parse in H. destruct H as [H1 H2]. unfold cl_value. rewrite H1, H2. reflexivity. Qed.

Lemma cl_numeric_of_parse v n : all_digits v = true -> parse_dec_u64 v = Some n -> cl_numeric v.
Proof.
  intros H1 H2. apply cl_numeric_parse. split; [exact H1|].
  pose proof H2 as H3. apply parse_dec_u64_spec in H3. destruct H3 as (_ & _ & H3 & _). rewrite H3. exact H2.
Qed.

Lemma cl_numeric_dec v : cl_numeric v \/ ~ cl_numeric v.
Proof.
  destruct (all_digits v) eqn:E1; [destruct (parse_dec_u64 v) as [n|] eqn:E2|].
  - left. exact (cl_numeric_of_parse v n E1 E2).
  - right. intros Hc. apply cl_numeric_parse in Hc. destruct Hc as [_ Hc]. congruence.
  - right. intros Hc. apply cl_numeric_parse in Hc. destruct Hc as [Hc _]. congruence.
Qed.

Lemma cl_value_not_numeric v : ~ cl_numeric v -> cl_value (Some v) = Err BadContentLengthHeader.
Proof.
  intros H. unfold cl_value. destruct (all_digits v) eqn:E1; [|reflexivity].
  destruct (parse_dec_u64 v) as [n|] eqn:E2; [|reflexivity].
  exfalso. apply H. exact (cl_numeric_of_parse v n E1 E2).
Qed.

(** The rule list of C06 refuses exactly the non-numeric Content-Length values, and nothing else. *)
Theorem rfc_body_mode_total hd cn st v11 cl te :
  (forall v, cl = Some v -> cl_numeric v) -> exists rd, rfc_body_mode hd cn st v11 cl te = Ok rd.
Proof.
  intros H. unfold rfc_body_mode. destruct cl as [v|].
  - rewrite cl_value_numeric by (apply H; reflexivity).
    destruct (no_body_status hd cn st); [eexists; reflexivity|].
    destruct (v11 && _); eexists; reflexivity.
  - cbn [cl_value]. destruct (no_body_status hd cn st); [eexists; reflexivity|].
    destruct (v11 && _); [eexists; reflexivity|]. destruct (is_redirect_status st && _); eexists; reflexivity.
Qed.

Theorem rfc_body_mode_refuses hd cn st v11 v te :
  ~ cl_numeric v -> rfc_body_mode hd cn st v11 (Some v) te = Err BadContentLengthHeader.
Proof. intros H. unfold rfc_body_mode. rewrite cl_value_not_numeric by exact H. reflexivity. Qed.

(** ** The first field of a name, in the map and in the head *)

Lemma fields_named_headers_of k fs :
  map snd (fields_named k (headers_of fs)) = map f_value (fields_called k fs).
Proof.
  unfold fields_named, fields_called, headers_of, field_header.
  induction fs as [|f fs IH]; cbn [map filter fst]; [reflexivity|].
  destruct (beq_bytes k (lower (f_name f))); cbn [map snd]; rewrite IH; reflexivity.
Qed.

(** All the values of the fields called [k], in order of appearance. *)
Theorem get_all_response_of h k :
  hm_get_all (rs_headers (response_of h)) k = map f_value (fields_called k (rh_fields h)).
Proof. cbn [response_of rs_headers]. rewrite hm_get_all_of_list. apply fields_named_headers_of. Qed.

Lemma hm_get_response_of h k : hm_get (rs_headers (response_of h)) k = first_field k (rh_fields h).
Proof.
  unfold hm_get, first_field. rewrite get_all_response_of.
  destruct (fields_called k (rh_fields h)); reflexivity.
Qed.

Lemma lookup_text_response_of h k :
  lookup_text (rs_headers (response_of h)) k = first_text_field k (rh_fields h).
Proof.
  unfold lookup_text, first_text_field. rewrite hm_get_response_of.
  destruct (first_field k (rh_fields h)) as [v|]; [|reflexivity]. rewrite rfc_text_is_text. reflexivity.
Qed.

(** ** 1. Heads with a Content-Length field *)

Lemma deliver_framing c used h :
  (match first_field (s2b "content-length") (rh_fields h) with Some v => is_text v | None => true end) = true ->
  deliver c used (response_of h) =
    (do rd <- framing_of (am_method (c_req c)) h; Ok (set_reader c (Some rd), Some (used, response_of h))).
Proof.
  intros Ht. unfold deliver, framing_of. rewrite hm_get_response_of, !lookup_text_response_of.
  destruct (first_field (s2b "content-length") (rh_fields h)) as [v|].
  - rewrite Ht. cbn [negb]. rewrite <- for_response_rfc. rewrite Bool.negb_involutive. reflexivity.
  - rewrite <- for_response_rfc. rewrite Bool.negb_involutive. reflexivity.
Qed.

(** H or more, framing acceptable: the response IS yielded -- exactly H's version, status and fields,
    exactly |H| bytes consumed -- and the body reader installed is the one C06's rule list selects. *)
Theorem try_response_complete_cl c h rest :
  wf_resp_head h -> rh_status h <> 100 -> (List.length (rh_fields h) <= LIMIT)%nat ->
  cl_acceptable h ->
  exists rd,
    framing_of (am_method (c_req c)) h = Ok rd /\
    call_try_response c (render_response_head h ++ rest) =
      Ok (set_reader c (Some rd), Some (len (render_response_head h), response_of h)).
Proof.
  intros Hwf Hs Hn Hcl.
  assert (Hnum : forall v, first_text_field (s2b "content-length") (rh_fields h) = Some v -> cl_numeric v).
  { intros v. unfold first_text_field.
    destruct (first_field _ _) as [v'|] eqn:E; [|discriminate].
    destruct (rfc_text v'); [|discriminate]. intros H; inversion H; subst. apply Hcl. exact E. }
  destruct (rfc_body_mode_total (method_eqb (am_method (c_req c)) HEAD) (method_eqb (am_method (c_req c)) CONNECT)
              (rh_status h) (negb (rh_version h =? 0)) _
              (first_text_field (s2b "transfer-encoding") (rh_fields h)) Hnum) as [rd Hrd].
  exists rd. split; [exact Hrd|].
  rewrite try_response_complete by assumption. rewrite deliver_framing.
  - unfold framing_of. rewrite Hrd. reflexivity.
  - destruct (first_field _ _) as [v|] eqn:E; [|reflexivity].
    apply all_digits_text. apply (proj1 (cl_numeric_parse v)). apply Hcl. exact E.
Qed.

(** H or more, first Content-Length not numeric (empty, a sign, a non-digit, obs-text, a control
    character, or 2^64 and above): BadContentLengthHeader, whatever the status and the other fields. *)
Theorem try_response_bad_content_length c h rest v :
  wf_resp_head h -> rh_status h <> 100 -> (List.length (rh_fields h) <= LIMIT)%nat ->
  first_field (s2b "content-length") (rh_fields h) = Some v -> ~ cl_numeric v ->
  call_try_response c (render_response_head h ++ rest) = Err BadContentLengthHeader.
Proof.
  intros Hwf Hs Hn Hv Hbad. rewrite try_response_complete by assumption.
  destruct (is_text v) eqn:Et.
  - rewrite deliver_framing by (rewrite Hv; exact Et).
    unfold framing_of, first_text_field at 1. rewrite Hv, rfc_text_is_text, Et.
    rewrite rfc_body_mode_refuses by exact Hbad. reflexivity.
  - unfold deliver. rewrite hm_get_response_of, Hv, Et. reflexivity.
Qed.

(** Hence: a response comes back exactly when the framing is acceptable. *)
Corollary try_response_ok_iff c h rest :
  wf_resp_head h -> rh_status h <> 100 -> (List.length (rh_fields h) <= LIMIT)%nat ->
  ((exists c' o, call_try_response c (render_response_head h ++ rest) = Ok (c', o)) <-> cl_acceptable h).
Proof.
  intros Hwf Hs Hn. split.
  - intros (c' & o & H) v Hv. destruct (cl_numeric_dec v) as [Hd|Hd]; [exact Hd|].
    exfalso. rewrite (try_response_bad_content_length c h rest v Hwf Hs Hn Hv Hd) in H. discriminate.
  - intros Hcl. destruct (try_response_complete_cl c h rest Hwf Hs Hn Hcl) as (rd & _ & H). eauto.
Qed.

(** And [cl_acceptable] is "C06's rule list is not in its error case" (plus: the value is text). *)
Theorem cl_acceptable_framing m h :
  cl_acceptable h <->
  (forall v, first_field (s2b "content-length") (rh_fields h) = Some v -> rfc_text v = true) /\
  framing_of m h <> Err BadContentLengthHeader.
Proof.
  split.
  - intros Hcl. split.
    + intros v Hv. rewrite rfc_text_is_text. apply all_digits_text. apply (proj1 (cl_numeric_parse v)). apply Hcl, Hv.
    + unfold framing_of.
      destruct (rfc_body_mode_total (method_eqb m HEAD) (method_eqb m CONNECT) (rh_status h) (negb (rh_version h =? 0))
                  (first_text_field (s2b "content-length") (rh_fields h))
                  (first_text_field (s2b "transfer-encoding") (rh_fields h))) as [rd Hrd]; [|rewrite Hrd; discriminate].
      intros v. unfold first_text_field. destruct (first_field _ _) as [v'|] eqn:E; [|discriminate].
      destruct (rfc_text v'); [|discriminate]. intros H; inversion H; subst. apply Hcl. exact E.
  - intros [Ht Hf] v Hv. specialize (Ht v Hv).
    pose proof (cl_numeric_dec v) as Hd.
    destruct Hd as [Hd|Hd]; [exact Hd|]. exfalso. apply Hf.
    unfold framing_of, first_text_field at 1. rewrite Hv, Ht. apply rfc_body_mode_refuses. exact Hd.
Qed.

(** ** 2. The field clause, through the independent characterisation *)

Definition norm_field (f : field) : header := (lower (f_name f), f_value f).

Lemma norm_headers_of fs : map norm_header (headers_of fs) = map norm_field fs.
Proof. unfold headers_of. rewrite map_map. reflexivity. Qed.

(** All the fields of H, each exactly once (names lower-cased, surrounding white space stripped) ... *)
Theorem iter_response_of_perm h :
  Permutation (hm_iter (rs_headers (response_of h))) (map norm_field (rh_fields h)).
Proof. cbn [response_of rs_headers]. rewrite <- norm_headers_of. apply hm_iter_of_list_perm. Qed.

(** ... the fields of any one name in H's order ... *)
Theorem iter_response_of_stable h k :
  filter (fun e : header => beq_bytes k (fst e)) (hm_iter (rs_headers (response_of h))) =
  filter (fun e : header => beq_bytes k (fst e)) (map norm_field (rh_fields h)).
Proof. cbn [response_of rs_headers]. rewrite <- norm_headers_of. apply hm_iter_of_list_stable. Qed.

(** Whenever [try_response] hands out a response for H ++ rest, its header map is that. *)
Theorem try_response_fields c h rest c' used r :
  wf_resp_head h -> rh_status h <> 100 -> (List.length (rh_fields h) <= LIMIT)%nat ->
  call_try_response c (render_response_head h ++ rest) = Ok (c', Some (used, r)) ->
  used = len (render_response_head h) /\ rs_version r = rh_version h /\ rs_status r = rh_status h /\
  (forall k, hm_get_all (rs_headers r) k = map f_value (fields_called k (rh_fields h))) /\
  Permutation (hm_iter (rs_headers r)) (map norm_field (rh_fields h)) /\
  (forall k, filter (fun e : header => beq_bytes k (fst e)) (hm_iter (rs_headers r)) =
             filter (fun e : header => beq_bytes k (fst e)) (map norm_field (rh_fields h))).
Proof.
  intros Hwf Hs Hn H.
  destruct (try_response_complete_ok c h rest c' _ Hwf Hs Hn H) as [Ho _].
  inversion Ho; subst. repeat split; try reflexivity.
  - intros k. apply get_all_response_of.
  - apply iter_response_of_perm.
  - intros k. apply iter_response_of_stable.
Qed.

(** ** 3a. Prefixes of heads of any size (also over the field limit) *)

Lemma complete_fields_status_line h p y :
  render_status_line h = p ++ y -> complete_fields h p = [].
Proof.
  intros Hy. unfold complete_fields. rewrite Hy, len_app.
  replace (len p - (len p + len y)) with 0 by lia. apply fields_within_zero.
Qed.

Lemma complete_fields_after_line h k q y :
  (k <= List.length (rh_fields h))%nat -> next_line (rh_fields h) k = q ++ y -> y <> [] ->
  complete_fields h (render_status_line h ++ render_lines (firstn k (rh_fields h)) ++ q) = firstn k (rh_fields h).
Proof.
  intros Hk Hnl Hne. unfold complete_fields. rewrite !len_app.
  replace (len (render_status_line h) + (len (render_lines (firstn k (rh_fields h))) + len q) - len (render_status_line h))
    with (len (render_lines (firstn k (rh_fields h))) + len q) by lia.
  apply (fields_within_firstn _ k q y Hk Hnl Hne).
Qed.

(** A strict prefix in which no more than [slots] field lines are complete is "incomplete" -- whatever the
    number of fields of the whole head. *)
Theorem response_prefix_partial_any slots h p x :
  wf_resp_head h -> render_response_head h = p ++ x -> x <> [] ->
  (List.length (complete_fields h p) <= slots)%nat ->
  fst (parse_response slots p) = SPartial.
Proof.
  intros Hwf Hp Hx Hn.
  destruct (response_prefix_decompose h p x Hp Hx) as [(y & Hy & Hne)|(k & q & y & Hk & Hq & Hnl & Hne)].
  - apply (response_partial_status_line slots h p y Hwf Hy Hne).
  - subst p. rewrite (complete_fields_after_line h k q y Hk Hnl Hne) in Hn.
    rewrite firstn_length in Hn.
    rewrite (response_partial_view slots h k q y Hwf Hk ltac:(lia) Hnl Hne). reflexivity.
Qed.

Theorem try_response_prefix_any c h p x :
  wf_resp_head h -> render_response_head h = p ++ x -> x <> [] ->
  (List.length (complete_fields h p) <= LIMIT)%nat -> ~ KnownClass h p ->
  call_try_response c p = Ok (c, None).
Proof.
  intros Hwf Hp Hx Hc Hk. unfold call_try_response. rewrite limit_eq.
  pose proof (response_prefix_partial_any LIMIT h p x Hwf Hp Hx Hc) as Hpart.
  unfold try_parse_response at 1. destruct (parse_response LIMIT p) as [s v] eqn:E. cbn [fst] in Hpart. subst s.
  cbn [bind].
  destruct (partial_response_sound LIMIT h p x Hwf Hp Hc) as [H|H]; rewrite H; cbn [bind]; [reflexivity|].
  cbn [partial_response_of rs_status rs_headers rs_version].
  rewrite hm_contains_of_list. fold (location_seen h p).
  destruct (is_redirection (rh_status h)) eqn:E1; cbn [andb]; [|reflexivity].
  destruct (location_seen h p) eqn:E2; [|reflexivity].
  exfalso. apply Hk. split; assumption.
Qed.

(** ... and as soon as more than the limit are complete in it (the head itself included): the error. *)
Theorem try_response_prefix_over c h p x :
  wf_resp_head h -> render_response_head h = p ++ x ->
  (LIMIT < List.length (complete_fields h p))%nat ->
  call_try_response c p = Err HttpParseTooManyHeaders.
Proof.
  intros Hwf Hp Hn.
  destruct (complete_fields_prefix h p) as [t Ht].
  assert (Hne : complete_fields h p <> []) by (intros E; rewrite E in Hn; cbn in Hn; lia).
  destruct (complete_fields_contained h p x Hp Hne) as [q Hq].
  remember (complete_fields h p) as cf eqn:Ecf. clear Ecf Hne.
  pose proof (firstn_skipn LIMIT cf) as Hsplit.
  assert (Hl : List.length (firstn LIMIT cf) = LIMIT) by (rewrite firstn_length; lia).
  remember (firstn LIMIT cf) as fs1 eqn:Efs1. clear Efs1.
  destruct (skipn LIMIT cf) as [|f fs2].
  { exfalso. rewrite app_nil_r in Hsplit. subst cf. lia. }
  subst cf. rewrite Hq. rewrite render_lines_app, render_lines_cons. repeat rewrite <- app_assoc.
  apply (try_response_too_many c h fs1 f (fs2 ++ t)); [exact Hwf| |exact Hl].
  rewrite Ht. rewrite <- app_assoc. reflexivity.
Qed.

(** ** 3b. The flow level: [Flow<RecvResponse>::try_response] *)

Lemma set_call_same f : set_call f (i_call f) = f.
Proof. destruct f; reflexivity. Qed.

Theorem recv_prefix f h p x :
  i_holder f = HRecvResponse -> wf_resp_head h -> render_response_head h = p ++ x -> x <> [] ->
  (List.length (complete_fields h p) <= LIMIT)%nat -> ~ KnownClass h p ->
  recv_try_response f p = Ok (f, 0, None).
Proof.
  intros Hh Hwf Hp Hx Hc Hk. unfold recv_try_response, as_recv_response. rewrite Hh. cbn [bind].
  rewrite (try_response_prefix_any (i_call f) h p x Hwf Hp Hx Hc Hk). cbn [bind].
  rewrite set_call_same. reflexivity.
Qed.

Corollary recv_prefix_within f h p x :
  i_holder f = HRecvResponse -> wf_resp_head h -> (List.length (rh_fields h) <= LIMIT)%nat ->
  render_response_head h = p ++ x -> x <> [] -> ~ KnownClass h p ->
  recv_try_response f p = Ok (f, 0, None).
Proof.
  intros Hh Hwf Hn Hp Hx Hk. apply (recv_prefix f h p x Hh Hwf Hp Hx); [|exact Hk].
  pose proof (complete_fields_length h p). lia.
Qed.

Theorem recv_prefix_over f h p x :
  i_holder f = HRecvResponse -> wf_resp_head h -> render_response_head h = p ++ x ->
  (LIMIT < List.length (complete_fields h p))%nat ->
  recv_try_response f p = Err HttpParseTooManyHeaders.
Proof.
  intros Hh Hwf Hp Hn. unfold recv_try_response, as_recv_response. rewrite Hh. cbn [bind].
  rewrite (try_response_prefix_over (i_call f) h p x Hwf Hp Hn). reflexivity.
Qed.

Theorem recv_bad_content_length f h rest v :
  i_holder f = HRecvResponse -> wf_resp_head h -> rh_status h <> 100 -> (List.length (rh_fields h) <= LIMIT)%nat ->
  first_field (s2b "content-length") (rh_fields h) = Some v -> ~ cl_numeric v ->
  recv_try_response f (render_response_head h ++ rest) = Err BadContentLengthHeader.
Proof.
  intros Hh Hwf Hs Hn Hv Hbad. unfold recv_try_response, as_recv_response. rewrite Hh. cbn [bind].
  rewrite (try_response_bad_content_length (i_call f) h rest v Hwf Hs Hn Hv Hbad). reflexivity.
Qed.

Lemma existsb_perm {A} (p : A -> bool) l l' : Permutation l l' -> existsb p l = existsb p l'.
Proof.
  intros H. induction H; cbn [existsb].
  - reflexivity.
  - rewrite IHPermutation. reflexivity.
  - destruct (p x), (p y); reflexivity.
  - congruence.
Qed.

Lemma existsb_map' {A B} (f : A -> B) (p : B -> bool) l : existsb p (map f l) = existsb (fun x => p (f x)) l.
Proof. induction l as [|x l IH]; cbn [map existsb]; [reflexivity|]. rewrite IH. reflexivity. Qed.

Lemma headers_has_response_of h :
  headers_has (hm_iter (rs_headers (response_of h))) (s2b "connection") (s2b "close") = server_close (rh_fields h).
Proof.
  unfold headers_has, server_close. rewrite (existsb_perm _ _ _ (iter_response_of_perm h)).
  rewrite existsb_map'. reflexivity.
Qed.

(** H or more at the flow level: the response, |H| consumed; the flow keeps its holder, records H's status and
    the value of the LAST Location field, holds the reader selected by C06's rule, and gains the close reason
    ServerConnectionClose exactly when H has "Connection: close". *)
Theorem recv_complete f h rest :
  i_holder f = HRecvResponse -> NoDup (i_reasons f) ->
  wf_resp_head h -> rh_status h <> 100 -> (List.length (rh_fields h) <= LIMIT)%nat -> cl_acceptable h ->
  exists f' rd,
    recv_try_response f (render_response_head h ++ rest) =
      Ok (f', len (render_response_head h), Some (response_of h)) /\
    framing_of (am_method (c_req (i_call f))) h = Ok rd /\
    i_call f' = set_reader (i_call f) (Some rd) /\ i_holder f' = HRecvResponse /\
    i_status f' = Some (rh_status h) /\
    i_location f' = last_opt (map f_value (fields_called (s2b "location") (rh_fields h))) /\
    NoDup (i_reasons f') /\
    (forall x, In x (i_reasons f') <->
               In x (i_reasons f) \/ (x = ServerConnectionClose /\ server_close (rh_fields h) = true)).
Proof.
  intros Hh Hnd Hwf Hs Hn Hcl.
  destruct (try_response_complete_cl (i_call f) h rest Hwf Hs Hn Hcl) as (rd & Hrd & Hcall).
  unfold recv_try_response, as_recv_response. rewrite Hh. cbn [bind]. rewrite Hcall. cbn [bind].
  change (rs_status (response_of h)) with (rh_status h).
  destruct (N.eqb_spec (rh_status h) 100) as [E|_]; [contradiction|]. cbn [andb].
  rewrite headers_has_response_of, get_all_response_of.
  destruct (server_close (rh_fields h)) eqn:Esc.
  - destruct (add_reason_ok (i_reasons f) ServerConnectionClose Hnd) as (rs' & Ha & Hnd' & _ & Hin & _).
    cbn [set_call i_reasons]. rewrite Ha. cbn [bind].
    eexists. exists rd. split; [reflexivity|]. cbn. repeat split; try assumption; try reflexivity.
    + intros Hx. apply Hin in Hx. destruct Hx as [Hx|Hx]; [left; exact Hx|right; split; [exact Hx|reflexivity]].
    + intros [Hx|[Hx _]]; apply Hin; [left; exact Hx|right; exact Hx].
  - cbn [bind]. eexists. exists rd. split; [reflexivity|]. cbn. repeat split; try assumption; try reflexivity.
    + intros Hx. left. exact Hx.
    + intros [Hx|[_ Hx]]; [exact Hx|discriminate].
Qed.
