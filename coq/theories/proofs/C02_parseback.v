(** C02, part 3: the rendered request head is exactly one HTTP/1.x request head.

    The specification of a request head is the grammar of proofs/C05_spec.v (written from RFC 9112,
    independent of the writer); the reader is the model of the crate's own request parser
    ([try_parse_request], characterised on that grammar in proofs/C20_proofs.v).  Here:
    [render_request_head a] (C02's byte string, defined from the writer's line structure) IS the
    rendering of a well-formed grammar record, provided the header names and values are what the
    http crate's types can hold -- with ONE exception that is made explicit ([no_dquote]): the model of
    [http::HeaderName::from_bytes] accepts the double quote (byte 34), which is not a token character
    (RFC 9110 5.6.2) and which the request parser refuses in a field name. *)
From Coq Require Import Lia ZArith ZifyN ZifyBool.
From Hoot Require Import Base Chunk Body Httparse Parser Url Request Call Flow.
From Hoot.proofs Require Import BytesLemmas C17_proofs C02_proofs C02_analysis.
From Hoot.proofs Require C05_spec C05_roundtrip C20_proofs.
Open Scope N_scope.

(* ------------------------------------------------------------------ input assumptions *)

(** Field name: what [http::HeaderName] guarantees (non-empty, its character table, at most 65535
    bytes) and no double quote. *)
Definition no_dquote (k : bytes) : bool := forallb (fun b => negb (b =? 34)) k.
Definition name_ok (k : bytes) : Prop := valid_header_name k = true /\ no_dquote k = true.

(** Field value: what [http::HeaderValue] guarantees (HTAB, 0x20..0x7e, 0x80..0xff: no CR, LF, NUL). *)
Definition value_ok (v : bytes) : Prop := valid_header_value v = true.

Definition wf_header (h : header) : Prop := name_ok (fst h) /\ value_ok (snd h).
Definition wf_headers (hs : list header) : Prop := Forall wf_header hs.

(** Request target: every byte of the path-and-query is a visible ASCII character other than
    '<' and '>' (what the request parser accepts in a target; [http::Uri] holds no blanks or
    controls). *)
Definition target_ok (a : amended) : Prop := forallb is_uri_token (u_pq (am_eff_uri a)) = true.

(** What a reader reports as the field value: the value without surrounding SP / HTAB
    (RFC 9112 5.1: "field-line = field-name ":" OWS field-value OWS"; OWS is not part of the value). *)
Definition trim_ows (v : bytes) : bytes := rtrim_sp_tab (drop_while is_sp_tab v).
Definition trim_header (h : header) : header := (fst h, trim_ows (snd h)).

(** HTTP-version digit on the wire. *)
Definition version_num (v : version) : N := match v with V10 => 0 | _ => 1 end.
Definition target_of (a : amended) : bytes :=
  match u_pq (am_eff_uri a) with [] => [47] | p => p end.

(* ------------------------------------------------------------------ byte classes *)

Ltac split_or H :=
  repeat match type of H with
         | (_ || _) = true => apply orb_prop in H; destruct H as [H|H]
         end.

Lemma name_char_token b :
  is_http_name_char b = true -> (b =? 34) = false -> is_name_token b = true.
Proof.
  unfold is_http_name_char, is_name_token. intros H H34.
  split_or H; try (rewrite H; rewrite ?orb_true_r; reflexivity).
  congruence.
Qed.

Lemma value_byte_token b : is_http_value_byte b = true -> is_value_token b = true.
Proof. unfold is_http_value_byte, is_value_token. lia. Qed.

Lemma name_ok_token k :
  name_ok k -> k <> [] /\ forallb is_name_token k = true /\ (len k <=? MAX_HEADER_NAME_LEN) = true.
Proof.
  intros [Hv Hq]. unfold valid_header_name in Hv. destruct k as [|b t]; [discriminate|].
  apply andb_prop in Hv. destruct Hv as [Hc Hl].
  split; [discriminate|]. split; [|exact Hl].
  unfold no_dquote in Hq. rewrite forallb_forall in *. intros x Hx.
  apply name_char_token; [apply Hc; exact Hx|].
  specialize (Hq x Hx). destruct (x =? 34); [discriminate|reflexivity].
Qed.

Lemma value_ok_token v : value_ok v -> forallb is_value_token v = true.
Proof.
  unfold value_ok, valid_header_value. rewrite !forallb_forall. intros H x Hx.
  apply value_byte_token, H, Hx.
Qed.

(* ------------------------------------------------------------------ optional white space *)

Lemma drop_while_split p (l : bytes) :
  exists a, l = a ++ drop_while p l /\ forallb p a = true.
Proof.
  induction l as [|x t IH]; [exists []; split; reflexivity|].
  cbn [drop_while]. destruct (p x) eqn:E.
  - destruct IH as (a & Ha & Hp). exists (x :: a). cbn [app forallb]. rewrite E, Hp.
    split; [f_equal; exact Ha|reflexivity].
  - exists []. split; reflexivity.
Qed.

Lemma drop_while_head p (l : bytes) :
  match drop_while p l with [] => True | c :: _ => p c = false end.
Proof.
  induction l as [|x t IH]; [exact I|]. cbn [drop_while]. destruct (p x) eqn:E; [exact IH|exact E].
Qed.

(** Every value is blanks, its trimmed core, blanks; the core has no blank at either end. *)
Lemma ows_split v :
  exists lead trail,
    v = lead ++ trim_ows v ++ trail /\
    forallb is_sp_tab lead = true /\ forallb is_sp_tab trail = true /\
    C05_spec.no_edge_ws (trim_ows v) = true.
Proof.
  unfold trim_ows, rtrim_sp_tab.
  destruct (drop_while_split is_sp_tab v) as (lead & Hv & Hlead).
  set (r := drop_while is_sp_tab v) in *.
  destruct (drop_while_split is_sp_tab (rev r)) as (a & Hr & Ha).
  set (d := drop_while is_sp_tab (rev r)) in *.
  assert (Hr' : r = rev d ++ rev a).
  { rewrite <- (rev_involutive r), Hr, rev_app_distr. reflexivity. }
  exists lead, (rev a). split; [rewrite <- Hr'; exact Hv|]. split; [exact Hlead|].
  split; [apply C05_roundtrip.forallb_rev; exact Ha|].
  unfold C05_spec.no_edge_ws. rewrite rev_involutive.
  pose proof (drop_while_head is_sp_tab (rev r)) as Hd. fold d in Hd.
  pose proof (drop_while_head is_sp_tab v) as Hh. fold r in Hh.
  apply andb_true_intro. split.
  - destruct (rev d) as [|c t] eqn:E; [reflexivity|].
    rewrite Hr' in Hh. cbn [app] in Hh. rewrite Hh. reflexivity.
  - destruct d as [|c t]; [reflexivity|]. rewrite Hd. reflexivity.
Qed.

Lemma forallb_app_l {A} (p : A -> bool) a b : forallb p (a ++ b) = true -> forallb p a = true.
Proof. rewrite forallb_app. intros H. apply andb_prop in H. tauto. Qed.
Lemma forallb_app_r {A} (p : A -> bool) a b : forallb p (a ++ b) = true -> forallb p b = true.
Proof. rewrite forallb_app. intros H. apply andb_prop in H. tauto. Qed.

Lemma trim_ows_id v : C05_spec.no_edge_ws v = true -> trim_ows v = v.
Proof.
  intros H. unfold trim_ows. unfold C05_spec.no_edge_ws in H. apply andb_prop in H. destruct H as [H1 H2].
  assert (E : drop_while is_sp_tab v = v).
  { destruct v as [|c t]; [reflexivity|]. cbn [drop_while]. destruct (is_sp_tab c); [discriminate|reflexivity]. }
  rewrite E. unfold rtrim_sp_tab.
  destruct (rev v) as [|c t] eqn:Er.
  - cbn [drop_while rev]. rewrite <- (rev_involutive v), Er. reflexivity.
  - cbn [drop_while]. destruct (is_sp_tab c); [discriminate|]. rewrite <- Er. apply rev_involutive.
Qed.

(* ------------------------------------------------------------------ the grammar record *)

(** One field line of the writer is a well-formed field line of the grammar: the writer's single
    space and the leading blanks of the value are the first OWS, the trailing blanks the second. *)
Lemma field_line_grammar h :
  wf_header h ->
  exists f, C05_spec.wf_field f /\ C05_spec.field_header f = trim_header h /\
            C05_spec.render_field f = field_line h.
Proof.
  intros [Hn Hv]. destruct (name_ok_token _ Hn) as (Hne & Htok & Hlen).
  pose proof (value_ok_token _ Hv) as Hval.
  destruct (ows_split (snd h)) as (lead & trail & Hs & Hlead & Htrail & Hedge).
  exists {| C05_spec.f_name := fst h; C05_spec.f_ows1 := 32 :: lead;
            C05_spec.f_value := trim_ows (snd h); C05_spec.f_ows2 := trail |}.
  split; [|split].
  - unfold C05_spec.wf_field. cbn [C05_spec.f_name C05_spec.f_ows1 C05_spec.f_value C05_spec.f_ows2].
    rewrite Hs in Hval.
    assert (H1 : forallb is_sp_tab (32 :: lead) = true) by (cbn [forallb]; rewrite Hlead; reflexivity).
    assert (H2 : forallb is_value_token (trim_ows (snd h)) = true).
    { apply forallb_app_r in Hval. apply forallb_app_l in Hval. exact Hval. }
    auto 8.
  - reflexivity.
  - unfold C05_spec.render_field, field_line.
    cbn [C05_spec.f_name C05_spec.f_ows1 C05_spec.f_value C05_spec.f_ows2].
    rewrite Hs at 2. cbn [app]. rewrite <- !app_assoc. reflexivity.
Qed.

Lemma field_lines_grammar hs :
  wf_headers hs ->
  exists fs, Forall C05_spec.wf_field fs /\ C05_spec.headers_of fs = map trim_header hs /\
             C05_spec.render_lines fs = concat (map field_line hs) /\
             List.length fs = List.length hs.
Proof.
  induction 1 as [|h t Hh _ IH].
  - exists []. repeat split. constructor.
  - destruct IH as (fs & Hwf & Hhd & Hr & Hl).
    destruct (field_line_grammar h Hh) as (f & Hf & Hfh & Hfr).
    exists (f :: fs). split; [constructor; assumption|]. split; [|split].
    + cbn [C05_spec.headers_of map]. f_equal; [exact Hfh|exact Hhd].
    + rewrite C05_roundtrip.render_lines_cons. cbn [map concat]. rewrite Hfr, Hr. reflexivity.
    + cbn [List.length]. rewrite Hl. reflexivity.
Qed.

Lemma method_name_wf m :
  method_name m <> [] /\
  forallb (fun b => is_method_token b && negb (b =? 32)) (method_name m) = true /\
  forallb is_http_method_char (method_name m) = true.
Proof. destruct m; (split; [discriminate|split; reflexivity]). Qed.

Lemma version_name_wire v :
  version_supported v = true ->
  version_name v = C05_spec.http_version (version_num v) /\ C05_spec.wf_version (version_num v).
Proof.
  destruct v; try discriminate; intros _; (split; [reflexivity|]); [left|right]; reflexivity.
Qed.

Lemma target_of_wf a :
  target_ok a -> target_of a <> [] /\ forallb is_uri_token (target_of a) = true.
Proof.
  unfold target_ok, target_of. intros H. destruct (u_pq (am_eff_uri a)) as [|c t].
  - split; [discriminate|reflexivity].
  - split; [discriminate|exact H].
Qed.

(** The rendered head is the rendering of a well-formed request head of the grammar whose method,
    target, version and fields are those of the request. *)
Lemma head_grammar a :
  version_supported (am_version a) = true -> target_ok a -> wf_headers (am_headers a) ->
  exists h,
    C05_spec.wf_req_head h /\
    C05_spec.qh_method h = method_name (am_method a) /\
    C05_spec.qh_target h = target_of a /\
    C05_spec.qh_version h = version_num (am_version a) /\
    C05_spec.headers_of (C05_spec.qh_fields h) = map trim_header (am_headers a) /\
    List.length (C05_spec.qh_fields h) = List.length (am_headers a) /\
    C05_spec.render_request_head h = render_request_head a.
Proof.
  intros Hver Htgt Hhs.
  destruct (field_lines_grammar _ Hhs) as (fs & Hwf & Hhd & Hr & Hl).
  destruct (version_name_wire _ Hver) as [Hvn Hvw].
  destruct (target_of_wf a Htgt) as [Ht1 Ht2].
  destruct (method_name_wf (am_method a)) as (Hm1 & Hm2 & _).
  exists {| C05_spec.qh_method := method_name (am_method a); C05_spec.qh_target := target_of a;
            C05_spec.qh_version := version_num (am_version a); C05_spec.qh_fields := fs |}.
  split; [|repeat split; try assumption].
  - unfold C05_spec.wf_req_head.
    cbn [C05_spec.qh_method C05_spec.qh_target C05_spec.qh_version C05_spec.qh_fields]. auto 7.
  - rewrite render_flat. unfold C05_spec.render_request_head, C05_spec.render_request_line, prelude_line.
    cbn [C05_spec.qh_method C05_spec.qh_target C05_spec.qh_version C05_spec.qh_fields].
    fold (target_of a). rewrite Hvn, Hr. rewrite <- !app_assoc. reflexivity.
Qed.

(* ------------------------------------------------------------------ parse-back *)

(** What the request parser must report for the head of [a]. *)
Definition parsed_head (a : amended) : prequest :=
  {| pq_method := method_name (am_method a);
     pq_version := version_num (am_version a);
     pq_headers := hm_of_list (map trim_header (am_headers a)) |}.

Lemma parse_back_amended a rest slots :
  version_supported (am_version a) = true -> target_ok a -> wf_headers (am_headers a) ->
  (List.length (am_headers a) <= slots)%nat ->
  try_parse_request slots (render_request_head a ++ rest) =
    Ok (Some (len (render_request_head a), parsed_head a)).
Proof.
  intros Hver Htgt Hhs Hn.
  destruct (head_grammar a Hver Htgt Hhs) as (h & Hwf & Hm & Ht & Hv & Hhd & Hl & Hr).
  rewrite <- Hr. rewrite C20_proofs.request_complete.
  - unfold C20_proofs.request_of, parsed_head. rewrite Hm, Hv, Hhd. reflexivity.
  - exact Hwf.
  - rewrite Hm. apply method_name_wf.
  - rewrite Hl. exact Hn.
Qed.

(** No proper prefix of the head is a complete head: the parser asks for more. *)
Lemma parse_back_prefix a p x slots :
  version_supported (am_version a) = true -> target_ok a -> wf_headers (am_headers a) ->
  (List.length (am_headers a) <= slots)%nat ->
  render_request_head a = p ++ x -> x <> [] ->
  try_parse_request slots p = Ok None.
Proof.
  intros Hver Htgt Hhs Hn Hp Hx.
  destruct (head_grammar a Hver Htgt Hhs) as (h & Hwf & Hm & Ht & Hv & Hhd & Hl & Hr).
  apply (C20_proofs.request_prefix slots h p x); try assumption.
  - rewrite Hl. exact Hn.
  - rewrite Hr. exact Hp.
Qed.

(** The request line, piece by piece, through the parser's own sub-parsers: method, target, version. *)
Lemma request_line_parses a rest :
  version_supported (am_version a) = true -> target_ok a ->
  exists r1 r2,
    parse_method (prelude_line a ++ rest) = Done (method_name (am_method a)) r1 /\
    parse_uri r1 = Done (target_of a) r2 /\
    parse_version r2 = Done (version_num (am_version a)) (CRLF ++ rest).
Proof.
  intros Hver Htgt.
  destruct (version_name_wire _ Hver) as [Hvn Hvw].
  destruct (target_of_wf a Htgt) as [Ht1 Ht2].
  destruct (method_name_wf (am_method a)) as (Hm1 & Hm2 & _).
  unfold prelude_line. fold (target_of a). rewrite Hvn.
  exists (target_of a ++ 32 :: (C05_spec.http_version (version_num (am_version a)) ++ CRLF ++ rest)),
         (C05_spec.http_version (version_num (am_version a)) ++ CRLF ++ rest).
  split; [|split].
  - rewrite <- !app_assoc. cbn [app].
    apply (C05_roundtrip.parse_method_render _ _ Hm1 Hm2).
  - apply C05_roundtrip.parse_uri_render; assumption.
  - apply C05_roundtrip.parse_version_render. exact Hvw.
Qed.

(* ------------------------------------------------------------------ after analysis *)

Lemma digits_no_edge v : forallb is_digit v = true -> C05_spec.no_edge_ws v = true.
Proof.
  intros H. unfold C05_spec.no_edge_ws.
  assert (Hd : forall c, is_digit c = true -> negb (is_sp_tab c) = true).
  { intros c. unfold is_digit, is_sp_tab. lia. }
  pose proof (C05_roundtrip.forallb_rev _ _ H) as Hr.
  apply andb_true_intro. split.
  - destruct v as [|c t]; [reflexivity|]. cbn [forallb] in H. apply andb_prop in H. apply Hd, H.
  - destruct (rev v) as [|c t]; [reflexivity|]. cbn [forallb] in Hr. apply andb_prop in Hr. apply Hd, Hr.
Qed.

Lemma wf_header_host v : valid_header_value v = true -> wf_header (s2b "host", v).
Proof. intros H. split; [split; reflexivity|exact H]. Qed.

Lemma wf_framing_header w : wf_headers (framing_header w).
Proof.
  unfold framing_header. destruct (w_mode w) as [|n|]; [constructor| |].
  - constructor; [|constructor]. split; [split; reflexivity|].
    apply digits_valid_value, dec_of_digits.
  - constructor; [|constructor]. split; [split; reflexivity|reflexivity].
Qed.

Lemma wf_headers_filter p hs : wf_headers hs -> wf_headers (filter p hs).
Proof.
  unfold wf_headers. rewrite !Forall_forall. intros H x Hx. apply filter_In in Hx. apply H, Hx.
Qed.

(** Analysis keeps the headers well-formed: what it adds (Host from the URI, the framing header)
    is well-formed, given that the URI host is a valid header value ([sendable]). *)
Lemma analysed_wf_headers c :
  wf_headers (am_added (c_req c)) -> wf_headers (rq_headers (am_request (c_req c))) ->
  valid_header_value (uri_host (am_eff_uri (c_req c))) = true ->
  wf_headers (am_headers (c_req (analysed_call c))).
Proof.
  intros Ha Ho Hh. rewrite analysed_headers. unfold wf_headers.
  apply Forall_app. split; [exact Ha|]. apply Forall_app. split.
  - unfold host_added. destruct (hosts (c_req c)); [|constructor].
    destruct (u_auth _); [constructor|]. constructor; [apply wf_header_host; exact Hh|constructor].
  - apply Forall_app. split.
    + unfold framing_added. destruct (framing_present _); [constructor|apply wf_framing_header].
    + apply wf_headers_filter. exact Ho.
Qed.

Lemma valid_version_supported c :
  call_invalid c = false -> version_supported (am_version (c_req (analysed_call c))) = true.
Proof.
  unfold call_invalid, invalid. intros H.
  repeat (apply orb_false_elim in H; destruct H as [H ?]).
  destruct (version_supported (am_version (c_req c))) eqn:E; [|discriminate]. exact E.
Qed.

(** Parse-back for the request as analysis leaves it. *)
Lemma parse_back c rest slots :
  call_invalid c = false -> sendable c ->
  target_ok (c_req c) ->
  wf_headers (am_added (c_req c)) -> wf_headers (rq_headers (am_request (c_req c))) ->
  let a := c_req (analysed_call c) in
  (List.length (am_headers a) <= slots)%nat ->
  try_parse_request slots (render_request_head a ++ rest) =
    Ok (Some (len (render_request_head a), parsed_head a)).
Proof.
  intros Hi (_ & _ & Hh) Ht Ha Ho a Hn. apply parse_back_amended.
  - apply valid_version_supported. exact Hi.
  - exact Ht.
  - apply analysed_wf_headers; assumption.
  - exact Hn.
Qed.

(** What a fresh flow emits over any sequence of buffers, once it reports the head complete, is a
    byte string that the request parser reads as exactly this head, consuming exactly these bytes. *)
Lemma parse_back_flow f caps rest slots :
  fresh_flow f -> call_invalid (i_call f) = false -> sendable (i_call f) ->
  target_ok (c_req (i_call f)) ->
  wf_headers (am_added (c_req (i_call f))) ->
  wf_headers (rq_headers (am_request (c_req (i_call f)))) ->
  let a := c_req (analysed_call (i_call f)) in
  let t := fwrun f caps in
  (List.length (am_headers a) <= slots)%nat ->
  send_request_can_proceed (fw_flow t) = Ok true ->
  fw_out t = render_request_head a /\
  try_parse_request slots (fw_out t ++ rest) = Ok (Some (len (fw_out t), parsed_head a)).
Proof.
  intros Hf Hi Hs Ht Ha Ho a t Hn Hp.
  pose proof (fresh_flow_headers_nonempty f Hs) as Hne.
  destruct (head_prefix a f caps Hne (fresh_flow_head f Hf Hi Hs)) as (k & Hk & Hout).
  destruct (complete_iff a _ k Hne Hk) as [H1 H2].
  fold t in Hout, H1. apply H1 in Hp. apply H2 in Hp.
  assert (E : fw_out t = render_request_head a) by (rewrite Hout; exact Hp).
  split; [exact E|]. rewrite E. apply (parse_back (i_call f)); assumption.
Qed.

(* ------------------------------------------------------------------ lower-case names and Host *)

(** The model's input convention (Request.v: "names lower case", as [http::HeaderMap] stores them),
    made explicit. *)
Definition lower_names (hs : list header) : Prop := Forall (fun h => lower (fst h) = fst h) hs.

(** Values of the fields whose name is "host" ignoring case (field names are case-insensitive,
    RFC 9110 5.1). *)
Definition hosts_ci (a : amended) : list bytes :=
  map snd (filter (fun h => beq_bytes (lower (fst h)) (s2b "host")) (am_headers a)).

Lemma hosts_ci_lower a : lower_names (am_headers a) -> hosts_ci a = hosts a.
Proof.
  unfold hosts_ci, hosts, field_values, get_all. intros H. f_equal.
  induction (am_headers a) as [|h t IH]; [reflexivity|].
  inversion H as [|? ? Hh Ht]; subst. cbn [filter]. rewrite Hh, (IH Ht). reflexivity.
Qed.

Lemma analysed_lower_names c :
  lower_names (am_added (c_req c)) -> lower_names (rq_headers (am_request (c_req c))) ->
  lower_names (am_headers (c_req (analysed_call c))).
Proof.
  intros Ha Ho. rewrite analysed_headers. unfold lower_names.
  apply Forall_app. split; [exact Ha|]. apply Forall_app. split.
  - unfold host_added. destruct (hosts (c_req c)); [|constructor].
    destruct (u_auth _); [constructor|]. constructor; [reflexivity|constructor].
  - apply Forall_app. split.
    + unfold framing_added, framing_header. destruct (framing_present _); [constructor|].
      destruct (w_mode _); [constructor| |]; (constructor; [reflexivity|constructor]).
    + unfold am_inherited. unfold lower_names in Ho. rewrite Forall_forall in *. intros x Hx.
      apply filter_In in Hx. apply Ho, Hx.
Qed.

(** Exactly one Host field, names compared ignoring case. *)
Lemma host_once_ci c :
  call_invalid c = false -> u_auth (am_eff_uri (c_req c)) <> [] ->
  lower_names (am_added (c_req c)) -> lower_names (rq_headers (am_request (c_req c))) ->
  exists v, hosts_ci (c_req (analysed_call c)) = [v] /\
            (hosts_ci (c_req c) = [] -> v = uri_host (am_eff_uri (c_req c))) /\
            (hosts_ci (c_req c) <> [] -> hosts_ci (c_req c) = [v]).
Proof.
  intros Hi Hu Ha Ho.
  rewrite (hosts_ci_lower _ (analysed_lower_names c Ha Ho)).
  assert (Hl : lower_names (am_headers (c_req c))).
  { rewrite am_headers_split. apply Forall_app. split; [exact Ha|].
    unfold am_inherited. unfold lower_names in Ho. rewrite Forall_forall in *. intros x Hx.
    apply filter_In in Hx. apply Ho, Hx. }
  rewrite (hosts_ci_lower _ Hl). apply host_once; assumption.
Qed.

(** [prepare_header] lower-cases the name it stores. *)
Lemma lower_idem k : lower (lower k) = lower k.
Proof.
  unfold lower. rewrite map_map. apply map_ext. intros b. unfold to_lower, is_upper.
  destruct ((65 <=? b) && (b <=? 90)) eqn:E; [|rewrite E; reflexivity].
  replace ((65 <=? b + 32) && (b + 32 <=? 90)) with false by lia. reflexivity.
Qed.

Lemma prepare_header_lower f k v f' :
  prepare_header f k v = Ok f' -> lower_names (am_added (c_req (i_call f))) ->
  lower_names (am_added (c_req (i_call f'))) /\
  am_req (c_req (i_call f')) = am_req (c_req (i_call f)).
Proof.
  unfold prepare_header, am_set_header. intros H Hl.
  destruct (negb _); [discriminate|]. destruct (_ <=? _); [discriminate|].
  cbn [bind] in H. inversion H; subst; clear H. cbn. split; [|reflexivity].
  apply Forall_app. split; [exact Hl|]. constructor; [apply lower_idem|constructor].
Qed.
