(** C18 / C19: the state predicates [chunked_body] / [sized_body] follow from the flow invariant of property C09
    ([C09_inv.Inv TSendBody], which C09's history theorem establishes for every flow a Script history holds in the
    SendBody state): with-body holder, analysed, body phase, writer not in mode None.  The invariant does not say
    whether the body is already finished, hence the existential flag; [c18_send_body_reached] (C18_reach.v) gives
    [false] for the flow as it enters SendBody. *)
From Hoot Require Import Base Chunk Body Httparse Parser Url Request Call Flow.
From Hoot.proofs Require Import BytesLemmas C18_hex C18_proofs C04_proofs C09_inv.
Open Scope N_scope.

Lemma inv_send_body_state f :
  C09_inv.Inv TSendBody f ->
  i_holder f = HWithBody /\
  exists e, chunked_body (i_call f) e \/ exists n, sized_body (i_call f) n e.
Proof.
  intros [_ H]. cbn in H. destruct H as (_ & Hh & Hw & Ha & Hp & _). split; [exact Hh|].
  unfold WB in Hw. unfold chunked_body, sized_body.
  destruct (c_writer (i_call f)) as [m e] eqn:E. cbn [w_mode] in Hw. exists e.
  destruct m as [|n|]; [congruence| |].
  - right. exists n. auto.
  - left. auto.
Qed.
