(** C12, part 2: the three head parsers on ARBITRARY bytes.

    [try_parse_response], [try_parse_partial_response], [try_parse_request] never panic, for every
    number of header slots and every input; a complete head reports [used <= len input].
    The bridge httparse -> http is where the pinned tree could panic (F12, [expect("a valid
    response")]): the http builder refuses a field name longer than [MAX_HEADER_NAME_LEN].  Here we
    prove that this is the ONLY way the builder can refuse something httparse lets through (byte
    classes of httparse are included in those of http, names are non-empty), so the model's
    [builder_ok] is exactly the builder's verdict, and that the refusal is an [Err], not a panic. *)
From Coq Require Import Lia ZArith ZifyBool.
From Hoot Require Import Base Httparse Parser Request.
From Hoot.proofs Require Import BytesLemmas C05_stable.
Open Scope N_scope.

(** ** Byte classes: httparse's tables are included in http's (all of [N], not only 0..255). *)
Lemma name_class_incl b : is_name_token b = true -> is_http_name_char b = true.
Proof.
  unfold is_name_token, is_http_name_char, is_alpha, is_upper, is_lower, is_digit. lia.
Qed.

Lemma value_class_incl b : is_value_token b = true -> is_http_value_byte b = true.
Proof. unfold is_value_token, is_http_value_byte. lia. Qed.

Lemma method_class_incl b : is_http_method_char b = true -> is_method_token b = true.
Proof.
  unfold is_http_method_char, is_method_token, is_alpha, is_upper, is_lower, is_digit. lia.
Qed.

(** The same inclusions as exhaustive checks over the 256 byte values (the form in which the
    correspondence run compares the tables with the real crates). *)
Definition all_bytes : list N := map N.of_nat (seq 0 256).
Lemma name_class_incl_256 : forallb (fun b => implb (is_name_token b) (is_http_name_char b)) all_bytes = true.
Proof. vm_compute. reflexivity. Qed.
Lemma value_class_incl_256 : forallb (fun b => implb (is_value_token b) (is_http_value_byte b)) all_bytes = true.
Proof. vm_compute. reflexivity. Qed.

(** ** What httparse stores as a field *)
Definition httparse_field (h : header) : Prop :=
  fst h <> [] /\ forallb is_name_token (fst h) = true /\ forallb is_value_token (snd h) = true.

(** The verdict of [HeaderName::from_bytes] and [HeaderValue::from_bytes]. *)
Definition http_accepts (h : header) : bool :=
  valid_header_name (fst h) && valid_header_value (snd h).

Lemma forallb_incl (p q : N -> bool) l :
  (forall x, p x = true -> q x = true) -> forallb p l = true -> forallb q l = true.
Proof.
  intros Hpq. induction l as [|x l IH]; cbn [forallb]; [reflexivity|].
  intros H. apply andb_prop in H. destruct H as [H1 H2]. rewrite (Hpq _ H1), (IH H2). reflexivity.
Qed.

Lemma http_accepts_field h :
  httparse_field h -> http_accepts h = (len (fst h) <=? MAX_HEADER_NAME_LEN).
Proof.
  intros (Hne & Hn & Hv). unfold http_accepts, valid_header_name, valid_header_value.
  rewrite (forallb_incl _ _ _ value_class_incl Hv).
  rewrite (forallb_incl _ _ _ name_class_incl Hn).
  destruct (fst h); [congruence|]. cbn [andb]. rewrite andb_true_r. reflexivity.
Qed.

(** [builder_ok] is exactly "the http builder accepts every field", on anything httparse stores. *)
Lemma builder_ok_exact hs : Forall httparse_field hs -> builder_ok hs = forallb http_accepts hs.
Proof.
  unfold builder_ok. induction 1 as [|h hs Hh _ IH]; cbn [forallb]; [reflexivity|].
  rewrite IH, (http_accepts_field h Hh). reflexivity.
Qed.

Lemma builder_refuses_only_long_names hs :
  builder_ok hs = false -> exists h, In h hs /\ MAX_HEADER_NAME_LEN < len (fst h).
Proof.
  unfold builder_ok. induction hs as [|h hs IH]; cbn [forallb]; [discriminate|].
  intros H. apply andb_false_iff in H. destruct H as [H|H].
  - apply N.leb_gt in H. exists h. split; [left; reflexivity|exact H].
  - destruct (IH H) as (h' & Hin & Hl). exists h'. split; [right; exact Hin|exact Hl].
Qed.

(** ** Fields produced by [parse_line] *)
Lemma span_forallb p b : forall a r, span p b = (a, r) -> forallb p a = true.
Proof.
  induction b as [|c t IH]; intros a r E; cbn [span] in E.
  - inversion E; reflexivity.
  - destruct (p c) eqn:Ec.
    + destruct (span p t) as [a' r'] eqn:Et. inversion E; subst. cbn [forallb].
      rewrite Ec. cbn [andb]. eapply IH. reflexivity.
    + inversion E; reflexivity.
Qed.

Lemma drop_while_in p l x : In x (drop_while p l) -> In x l.
Proof.
  induction l as [|c t IH]; cbn [drop_while]; [auto|].
  destruct (p c); [intros H; right; apply IH; exact H|auto].
Qed.

Lemma rtrim_forallb p v : forallb p v = true -> forallb p (rtrim_sp_tab v) = true.
Proof.
  intros H. rewrite forallb_forall in *. intros x Hx. apply H.
  unfold rtrim_sp_tab in Hx. apply in_rev in Hx. apply drop_while_in in Hx.
  apply in_rev in Hx. exact Hx.
Qed.

Lemma parse_line_field b h r : parse_line b = Done (Some h) r -> httparse_field h.
Proof.
  destruct b as [|c t]; cbn [parse_line]; [discriminate|].
  destruct (c =? 13).
  { destruct (expect_byte ENewLine 10 t) as [[] r0| |e]; cbn [pbind]; discriminate. }
  destruct (c =? 10); [discriminate|].
  destruct (is_name_token c) eqn:Ec; cbn [negb]; [|discriminate].
  destruct (span is_name_token (c :: t)) as [name r0] eqn:Es.
  destruct (expect_byte EHeaderName 58 r0) as [[] r1| |e]; cbn [pbind]; try discriminate.
  cbv zeta. destruct (drop_while is_sp_tab r1) as [|d r2]; [discriminate|].
  destruct (span is_value_token (d :: r2)) as [v r3] eqn:Ev.
  destruct (value_eol r3) as [[] r4| |e]; cbn [pbind]; try discriminate.
  intros E. inversion E; subst. unfold httparse_field. cbn [fst snd]. split; [|split].
  - cbn [span] in Es. rewrite Ec in Es. destruct (span is_name_token t). inversion Es. discriminate.
  - apply (span_forallb _ _ _ _ Es).
  - apply rtrim_forallb. apply (span_forallb _ _ _ _ Ev).
Qed.

Lemma headers_loop_fields : forall fuel slots b,
  Forall httparse_field (fst (headers_loop fuel slots b)) /\
  (List.length (fst (headers_loop fuel slots b)) <= slots)%nat.
Proof.
  induction fuel as [|f IH]; intros slots b; cbn [headers_loop].
  - cbn. split; [constructor|lia].
  - destruct (parse_line b) as [[h|] r| |e] eqn:El; cbn [fst List.length]; try (split; [constructor|lia]).
    destruct slots as [|k]; cbn [fst List.length]; [split; [constructor|lia]|].
    specialize (IH k r). destruct (headers_loop f k r) as [hs o]. cbn [fst List.length] in *.
    destruct IH as [IH1 IH2]. split; [|lia].
    constructor; [apply (parse_line_field _ _ _ El)|exact IH1].
Qed.

Lemma response_view_fields slots w :
  Forall httparse_field (hv_headers (snd (parse_response slots w))) /\
  (List.length (hv_headers (snd (parse_response slots w))) <= slots)%nat.
Proof.
  rewrite parse_response_headers. destruct (resp_line w) as [a b4| |e]; try (cbn; split; [constructor|lia]).
  apply headers_loop_fields.
Qed.

Lemma request_view_fields slots w :
  Forall httparse_field (hq_headers (snd (parse_request slots w))) /\
  (List.length (hq_headers (snd (parse_request slots w))) <= slots)%nat.
Proof.
  rewrite parse_request_headers. destruct (req_line w) as [a b4| |e]; try (cbn; split; [constructor|lia]).
  apply headers_loop_fields.
Qed.

Lemma until_empty_fields hs : Forall httparse_field hs -> Forall httparse_field (until_empty_value hs).
Proof.
  induction 1 as [|h hs Hh _ IH]; cbn [until_empty_value]; [constructor|].
  destruct (snd h); [constructor|]. constructor; assumption.
Qed.

(** ** The three parsers *)

Lemma version_ok_safe v : match version_ok v with Panic _ => False | _ => True end.
Proof. unfold version_ok. destruct v as [n|]; [|exact I]. destruct ((n =? 0) || (n =? 1)); exact I. Qed.

Lemma status_ok_safe c : match status_ok c with Panic _ => False | _ => True end.
Proof. unfold status_ok. destruct c as [n|]; [|exact I]. destruct ((100 <=? n) && (n <=? 999)); exact I. Qed.

(** Outcome of a "complete head" parser: no panic; a complete head lies within the input. *)
Definition ParseSafe {A} (w : bytes) (x : res (option (N * A))) : Prop :=
  match x with
  | Panic _ => False
  | Err _ => True
  | Ok None => True
  | Ok (Some (used, _)) => used <= len w
  end.

Theorem try_parse_response_safe slots w : ParseSafe w (try_parse_response slots w).
Proof.
  unfold try_parse_response.
  destruct (parse_response slots w) as [st v] eqn:E. destruct st as [n| |e]; cbn [ParseSafe]; try exact I.
  apply response_consumed_le in E.
  pose proof (version_ok_safe (hv_version v)) as Hv.
  destruct (version_ok (hv_version v)) as [ver|e|s]; cbn [bind ParseSafe]; [|exact I|exact Hv].
  pose proof (status_ok_safe (hv_code v)) as Hc.
  destruct (status_ok (hv_code v)) as [code|e|s]; cbn [bind ParseSafe]; [|exact I|exact Hc].
  destruct (builder_ok (hv_headers v)); cbn [ParseSafe]; [exact E|exact I].
Qed.

Theorem try_parse_request_safe slots w : ParseSafe w (try_parse_request slots w).
Proof.
  unfold try_parse_request.
  destruct (parse_request slots w) as [st v] eqn:E. destruct st as [n| |e]; cbn [ParseSafe]; try exact I.
  apply request_consumed_le in E.
  pose proof (version_ok_safe (hq_version v)) as Hv.
  destruct (version_ok (hq_version v)) as [ver|e|s]; cbn [bind ParseSafe]; [|exact I|exact Hv].
  destruct (hq_method v) as [m|]; [|exact I].
  destruct (match m with [] => false | _ => forallb is_http_method_char m end); [|exact I].
  destruct (builder_ok (hq_headers v)); cbn [ParseSafe]; [exact E|exact I].
Qed.

Theorem try_parse_partial_response_safe slots w :
  match try_parse_partial_response slots w with Panic _ => False | _ => True end.
Proof.
  unfold try_parse_partial_response.
  destruct (parse_response slots w) as [st v].
  assert (H : match (match hv_version v with
                     | None => Ok None
                     | Some ver =>
                         match hv_code v with
                         | None => Ok None
                         | Some _ =>
                             do code <- status_ok (hv_code v);
                             (if builder_ok (until_empty_value (hv_headers v))
                              then Ok (Some {| rs_version := ver; rs_status := code;
                                               rs_headers := hm_of_list (until_empty_value (hv_headers v)) |})
                              else Err HttpParseFail)
                         end
                     end) with Panic _ => False | _ => True end).
  { destruct (hv_version v) as [ver|]; [|exact I].
    pose proof (status_ok_safe (hv_code v)) as Hc.
    destruct (hv_code v) as [c|]; [|exact I].
    destruct (status_ok (Some c)) as [code|e|s]; cbn [bind]; [|exact I|exact Hc].
    destruct (builder_ok _); exact I. }
  destruct st; [exact H|exact H|exact I].
Qed.

(** The status the partial parser reports is in range, as for the complete parser. *)
Lemma status_ok_range c n : status_ok c = Ok n -> 100 <= n <= 999.
Proof.
  unfold status_ok. destruct c as [m|]; [|discriminate].
  destruct (N.leb_spec 100 m); destruct (N.leb_spec m 999); cbn [andb]; intros E; inversion E; subst; lia.
Qed.

(** F12 as repaired: whenever one of the parsers meets a field the builder refuses, the outcome is
    [Err HttpParseFail]; and the builder refuses only names beyond the limit. *)
Theorem builder_failure_is_error slots w n v :
  parse_response slots w = (SComplete n, v) ->
  builder_ok (hv_headers v) = false ->
  (exists h, In h (hv_headers v) /\ MAX_HEADER_NAME_LEN < len (fst h)) /\
  match try_parse_response slots w with Ok _ => False | Err _ => True | Panic _ => False end.
Proof.
  intros E Hb. split; [apply builder_refuses_only_long_names; exact Hb|].
  unfold try_parse_response. rewrite E.
  destruct (version_ok (hv_version v)) as [ver|e|s] eqn:Ev; cbn [bind];
    [|exact I|pose proof (version_ok_safe (hv_version v)) as H; rewrite Ev in H; exact H].
  destruct (status_ok (hv_code v)) as [code|e|s] eqn:Ec; cbn [bind];
    [|exact I|pose proof (status_ok_safe (hv_code v)) as H; rewrite Ec in H; exact H].
  rewrite Hb. exact I.
Qed.

(** The model's builder check coincides with the http crate's verdict on everything httparse
    stores (complete or partial view), for every input. *)
Theorem builder_model_exact_response slots w :
  builder_ok (hv_headers (snd (parse_response slots w))) =
  forallb http_accepts (hv_headers (snd (parse_response slots w))) /\
  builder_ok (until_empty_value (hv_headers (snd (parse_response slots w)))) =
  forallb http_accepts (until_empty_value (hv_headers (snd (parse_response slots w)))).
Proof.
  destruct (response_view_fields slots w) as [H _]. split.
  - apply builder_ok_exact. exact H.
  - apply builder_ok_exact. apply until_empty_fields. exact H.
Qed.

Theorem builder_model_exact_request slots w :
  builder_ok (hq_headers (snd (parse_request slots w))) =
  forallb http_accepts (hq_headers (snd (parse_request slots w))).
Proof. destruct (request_view_fields slots w) as [H _]. apply builder_ok_exact. exact H. Qed.

(** Stability of the complete parser on arbitrary bytes: once it has an answer (complete head or
    error), more bytes behind the same window do not change it. *)
Theorem try_parse_response_stable slots w x :
  try_parse_response slots w <> Ok None ->
  try_parse_response slots (w ++ x) = try_parse_response slots w.
Proof.
  intros H. unfold try_parse_response in *.
  destruct (parse_response slots w) as [st v] eqn:E.
  destruct st as [n| |e].
  - rewrite (hp_stable_response_complete slots w x n v E). reflexivity.
  - congruence.
  - rewrite (hp_stable_response_error slots w x e v E). reflexivity.
Qed.
