(** C07, part 2: simulation between the dechunker and grammar positions:
    single transitions, the inner loop [parse_input], the outer loop [read_chunked]. *)
From Coq Require Import Lia ZArith.
From Hoot Require Import Base Chunk.
From Hoot.proofs Require Import BytesLemmas C07_spec C07_sizeline.
Open Scope N_scope.

(** ** Small helpers *)

Lemma len_CRLF : len CRLF = 2.
Proof. reflexivity. Qed.

Lemma cr_free_nil : cr_free [].
Proof. constructor. Qed.

Lemma len_pos_of_ne {A} (l : list A) : l <> [] -> 0 < len l.
Proof. destruct l; [congruence|]. intros _. rewrite len_cons. lia. Qed.

Lemma take_min_len {A} k (l : list A) : take k l = take (N.min k (len l)) l.
Proof.
  destruct (N.le_ge_cases k (len l)) as [H|H].
  - replace (N.min k (len l)) with k by lia. reflexivity.
  - replace (N.min k (len l)) with (len l) by lia. rewrite !take_all by lia. reflexivity.
Qed.

(** After consuming [C], the next window is the same arrival, shifted. *)
Lemma window_next (C R' rest : bytes) k :
  len C <= k -> drop (len C) (take k ((C ++ R') ++ rest)) = take (k - len C) (R' ++ rest).
Proof.
  intros H. rewrite <- app_assoc.
  replace k with (len C + (k - len C)) at 1 by lia.
  rewrite <- take_drop_comm. rewrite drop_app_exact. reflexivity.
Qed.

Lemma app_prefix_len {A} (a b o c : list A) :
  a ++ b = o ++ c -> len o <= len a -> a = o ++ drop (len o) a.
Proof.
  intros E H.
  assert (Ho : o = take (len o) a).
  { rewrite <- (take_app_le (len o) a b) by assumption. rewrite E. symmetry. apply take_app_exact. }
  rewrite Ho at 1. symmetry. apply take_drop.
Qed.

Lemma Shrink_trans a b c : Shrink a b -> Shrink b c -> Shrink a c.
Proof.
  intros H. revert c. induction H; intros c Hc.
  - exact Hc.
  - apply Sh_cut. apply IHShrink. exact Hc.
  - apply Sh_drop. apply IHShrink. exact Hc.
Qed.

(** ** Strengthened precondition and termination measure of the inner loop *)

(** In the transient [DTrailer] state the trailer line's CRLF is already visible in the window. *)
Definition pre (st : dechunker) (k : N) (R : bytes) (ds : list bytes) : Prop :=
  match st with
  | DTrailer => exists t R', R = t ++ CRLF ++ R' /\ t <> [] /\ cr_free t /\ EndPos R' /\
                             len t + 2 <= k /\ ds = []
  | _ => rel st R ds
  end.

Definition mu (st : dechunker) (k : N) : N := 2 * k + match st with DTrailer => 0 | _ => 1 end.

Lemma rel_pre st k R ds : rel st R ds -> pre st k R ds.
Proof. destruct st; cbn [rel pre]; auto; try contradiction. Qed.

Lemma pre_rel st k R ds : st <> DTrailer -> pre st k R ds -> rel st R ds.
Proof. destruct st; cbn [rel pre]; auto; try congruence. Qed.

Lemma EndPos_len R : EndPos R -> 2 <= len R.
Proof. intros H. destruct H; [cbn; lia|]. rewrite !len_app, len_CRLF. lia. Qed.

Lemma SizePos_len R ds : SizePos R ds -> 2 <= len R.
Proof. intros H. destruct H; rewrite !len_app, len_CRLF; lia. Qed.

(** When no coding bytes remain, the decoder has ended. *)
Lemma rel_done st R ds : rel st R ds -> len R = 0 -> st = DEnded.
Proof.
  destruct st; cbn [rel]; intros H H0; try reflexivity; try contradiction.
  - apply SizePos_len in H. lia.
  - destruct H as (d & R' & ds' & -> & _ & _ & _ & H). rewrite !len_app, len_CRLF in H0. lia.
  - destruct H as (R' & -> & H). rewrite !len_app, len_CRLF in H0. lia.
  - destruct H as [H _]. apply EndPos_len in H. lia.
Qed.

(** ** One transition *)

Definition StepOK (st : dechunker) (k : N) (R : bytes) (ds : list bytes) (room : N)
           (r : stepres) (C R' : bytes) (ds' : list bytes) : Prop :=
  R = C ++ R' /\
  len C = sr_in r /\
  sr_in r <= k /\
  concat ds = sr_out r ++ concat ds' /\
  len (sr_out r) <= room /\
  pre (sr_st r) (k - sr_in r) R' ds' /\
  (sr_more r = false -> sr_st r <> DTrailer) /\
  (sr_more r = true -> mu (sr_st r) (k - sr_in r) < mu st k) /\
  Shrink ds ds' /\
  len (sr_out r) <= budget st ds /\
  (sr_st r <> DSize -> budget (sr_st r) ds' + len (sr_out r) <= budget st ds) /\
  (sr_st r = DSize -> sr_more r = false) /\
  (len R <= k -> 1 <= room -> st <> DEnded ->
   1 <= sr_in r \/ (sr_st r = DTrailer /\ sr_more r = true /\ sr_out r = [])).

Ltac splits := match goal with |- _ /\ _ => split; [|splits] | _ => idtac end.

Ltac fin :=
  cbn [sr_st sr_in sr_out sr_more budget hd len app concat] in *;
  try solve [ reflexivity | assumption | intros; discriminate | intros; congruence
            | intros; unfold mu; lia | apply Sh_refl ].

Lemma step_ended rest k R ds room :
  pre DEnded k R ds ->
  exists r C R' ds', dech_step DEnded (take k (R ++ rest)) room = Ok r /\ StepOK DEnded k R ds room r C R' ds'.
Proof.
  cbn [pre rel]. intros [-> ->]. cbn [dech_step].
  eexists; exists [], [], []. split; [reflexivity|]. unfold StepOK. splits; fin.
  split; reflexivity.
Qed.

Lemma step_crlf rest k R ds room :
  pre DCrLf k R ds ->
  exists r C R' ds', dech_step DCrLf (take k (R ++ rest)) room = Ok r /\ StepOK DCrLf k R ds room r C R' ds'.
Proof.
  cbn [pre rel]. intros (R0 & -> & HS). cbn [dech_step]. unfold expect_crlf.
  replace ((CRLF ++ R0) ++ rest) with ([] ++ CRLF ++ (R0 ++ rest)) by (rewrite <- app_assoc; reflexivity).
  rewrite find_crlf_window by apply cr_free_nil. cbn [len].
  destruct (N.leb_spec (0 + 2) k) as [Hk|Hk].
  - cbn [N.ltb N.compare]. eexists; exists CRLF, R0, ds. split; [reflexivity|].
    unfold StepOK. splits; fin.
  - eexists; exists [], (CRLF ++ R0), ds. split; [reflexivity|].
    unfold StepOK. splits; fin.
    + exists R0. auto.
    + intros HR. rewrite len_app, len_CRLF in HR. lia.
Qed.

Lemma step_trailer rest k R ds room :
  pre DTrailer k R ds ->
  exists r C R' ds', dech_step DTrailer (take k (R ++ rest)) room = Ok r /\ StepOK DTrailer k R ds room r C R' ds'.
Proof.
  cbn [pre]. intros (t & R0 & -> & Hne & Hcr & HE & Hk & ->). cbn [dech_step]. unfold trailer.
  replace ((t ++ CRLF ++ R0) ++ rest) with (t ++ CRLF ++ (R0 ++ rest)) by (rewrite <- !app_assoc; reflexivity).
  rewrite find_crlf_window by assumption.
  destruct (N.leb_spec (len t + 2) k) as [_|?]; [|lia].
  pose proof (len_pos_of_ne t Hne) as Hpos.
  destruct (N.eqb_spec (len t) 0) as [?|_]; [lia|].
  eexists; exists (t ++ CRLF), R0, []. split; [reflexivity|].
  unfold StepOK. splits; fin.
  - rewrite <- app_assoc. reflexivity.
  - rewrite len_app, len_CRLF. reflexivity.
  - split; [assumption|reflexivity].
Qed.

Lemma step_ending rest k R ds room :
  pre DEnding k R ds ->
  exists r C R' ds', dech_step DEnding (take k (R ++ rest)) room = Ok r /\ StepOK DEnding k R ds room r C R' ds'.
Proof.
  cbn [pre rel]. intros [HE ->]. cbn [dech_step]. unfold trailer_or_ended.
  inversion HE as [E|t R0 Hne Hcr HE0 E]; subst.
  - replace (CRLF ++ rest) with ([] ++ CRLF ++ rest) by reflexivity.
    rewrite find_crlf_window by apply cr_free_nil. cbn [len].
    destruct (N.leb_spec (0 + 2) k) as [Hk|Hk].
    + cbn [N.eqb]. eexists; exists CRLF, [], []. split; [reflexivity|].
      unfold StepOK. splits; fin.
      * split; reflexivity.
    + eexists; exists [], CRLF, []. split; [reflexivity|].
      unfold StepOK. splits; fin.
      * split; [assumption|reflexivity].
      * intros HR. cbn in HR. lia.
  - replace ((t ++ CRLF ++ R0) ++ rest) with (t ++ CRLF ++ (R0 ++ rest)) by (rewrite <- !app_assoc; reflexivity).
    rewrite find_crlf_window by assumption.
    pose proof (len_pos_of_ne t Hne) as Hpos.
    destruct (N.leb_spec (len t + 2) k) as [Hk|Hk].
    + destruct (N.eqb_spec (len t) 0) as [?|_]; [lia|].
      eexists; exists [], (t ++ CRLF ++ R0), []. split; [reflexivity|].
      unfold StepOK. splits; fin.
      * exists t, R0. splits; auto. lia.
      * right. auto.
    + eexists; exists [], (t ++ CRLF ++ R0), []. split; [reflexivity|].
      unfold StepOK. splits; fin.
      * split; [assumption|reflexivity].
      * intros HR. rewrite !len_app, len_CRLF in HR. lia.
Qed.

Lemma step_size rest k R ds room :
  pre DSize k R ds ->
  exists r C R' ds', dech_step DSize (take k (R ++ rest)) room = Ok r /\ StepOK DSize k R ds room r C R' ds'.
Proof.
  cbn [pre rel]. intros HS. cbn [dech_step].
  inversion HS as [line R0 Hcr Hsl Hsan HE E1 E2|line d R0 ds0 Hcr Hsl Hsan Hd HS0 E1 E2]; subst.
  - replace ((line ++ CRLF ++ R0) ++ rest) with (line ++ CRLF ++ (R0 ++ rest)) by (rewrite <- !app_assoc; reflexivity).
    destruct (N.le_gt_cases (len line + 2) k) as [Hk|Hk].
    + rewrite (read_size_ok line 0) by assumption. cbn [N.eqb].
      eexists; exists (line ++ CRLF), R0, []. split; [reflexivity|].
      unfold StepOK. splits; fin.
      * rewrite <- app_assoc. reflexivity.
      * rewrite len_app, len_CRLF. reflexivity.
      * split; [assumption|reflexivity].
    + rewrite read_size_wait by assumption.
      eexists; exists [], (line ++ CRLF ++ R0), []. split; [reflexivity|].
      unfold StepOK. splits; fin.
      intros HR. rewrite !len_app, len_CRLF in HR. lia.
  - replace ((line ++ CRLF ++ d ++ CRLF ++ R0) ++ rest) with (line ++ CRLF ++ ((d ++ CRLF ++ R0) ++ rest))
      by (rewrite <- !app_assoc; reflexivity).
    destruct (N.le_gt_cases (len line + 2) k) as [Hk|Hk].
    + rewrite (read_size_ok line (len d)) by assumption.
      destruct (N.eqb_spec (len d) 0) as [?|_]; [lia|].
      eexists; exists (line ++ CRLF), (d ++ CRLF ++ R0), (d :: ds0). split; [reflexivity|].
      unfold StepOK. splits; fin.
      * rewrite <- app_assoc. reflexivity.
      * rewrite len_app, len_CRLF. reflexivity.
      * exists d, R0, ds0. auto.
    + rewrite read_size_wait by assumption.
      eexists; exists [], (line ++ CRLF ++ d ++ CRLF ++ R0), (d :: ds0). split; [reflexivity|].
      unfold StepOK. splits; fin.
      intros HR. rewrite !len_app, len_CRLF in HR. lia.
Qed.

Lemma step_chunk rest n k R ds room :
  pre (DChunk n) k R ds ->
  exists r C R' ds', dech_step (DChunk n) (take k (R ++ rest)) room = Ok r /\ StepOK (DChunk n) k R ds room r C R' ds'.
Proof.
  cbn [pre rel]. intros (d & R0 & tl & -> & -> & -> & Hpos & HS). cbn [dech_step]. unfold read_data. cbv zeta.
  set (src := take k ((d ++ CRLF ++ R0) ++ rest)).
  set (t := N.min (N.min (len src) room) (len d)).
  assert (Hsrc : len src = N.min k (len d + 2 + len R0 + len rest)).
  { unfold src. rewrite len_take, !len_app, len_CRLF. lia. }
  assert (Ht1 : t <= len d) by (unfold t; lia).
  assert (Ht2 : t <= room) by (unfold t; lia).
  assert (Ht3 : t <= k) by (unfold t; lia).
  assert (Ht4 : len (d ++ CRLF ++ R0) <= k -> 1 <= room -> 1 <= t).
  { rewrite !len_app, len_CRLF. unfold t. lia. }
  assert (Hout : take t src = take t d).
  { unfold src. rewrite take_take. replace (N.min t k) with t by lia.
    rewrite <- app_assoc. apply take_app_le. assumption. }
  rewrite Hout. clearbody t. clear Hsrc.
  destruct (N.eqb_spec (len d - t) 0) as [Hz|Hz].
  - assert (t = len d) by lia. subst t.
    rewrite take_all by lia.
    eexists; exists d, (CRLF ++ R0), tl. split; [reflexivity|].
    unfold StepOK. splits; fin.
    + exists R0. auto.
    + apply Sh_drop, Sh_refl.
  - eexists; exists (take t d), (drop t d ++ CRLF ++ R0), (drop t d :: tl). split; [reflexivity|].
    unfold StepOK. splits; fin.
    + rewrite (app_assoc (take t d)), take_drop. reflexivity.
    + rewrite len_take. lia.
    + rewrite (app_assoc (take t d)), take_drop. reflexivity.
    + rewrite len_take. lia.
    + exists (drop t d), R0, tl. rewrite len_drop. splits; auto. lia.
    + destruct (N.ltb_spec 0 t); [intros _; unfold mu; lia|discriminate].
    + rewrite <- (take_drop t d) at 1. apply Sh_cut, Sh_refl.
    + rewrite len_take. lia.
    + intros _. rewrite len_take, len_drop. lia.
Qed.

Lemma step_sim rest st k R ds room :
  pre st k R ds ->
  exists r C R' ds', dech_step st (take k (R ++ rest)) room = Ok r /\ StepOK st k R ds room r C R' ds'.
Proof.
  destruct st.
  - apply step_size.
  - apply step_chunk.
  - apply step_crlf.
  - apply step_ending.
  - apply step_trailer.
  - apply step_ended.
Qed.

(** ** The inner loop [parse_input] *)

Definition LoopOK (st : dechunker) (k : N) (R : bytes) (ds : list bytes) (room : N)
           (st' : dechunker) (C R' o : bytes) (ds' : list bytes) : Prop :=
  R = C ++ R' /\
  len C <= k /\
  concat ds = o ++ concat ds' /\
  len o <= room /\
  rel st' R' ds' /\
  Shrink ds ds' /\
  len o <= budget st ds /\
  (st' <> DSize -> budget st' ds' + len o <= budget st ds) /\
  (len R <= k -> 1 <= room -> st <> DEnded -> 1 <= len C).

Lemma parse_loop_sim rest : forall fuel st k R ds room used acc,
  pre st k R ds -> mu st k < N.of_nat fuel ->
  exists st' C R' o ds',
    parse_input_loop fuel st (take k (R ++ rest)) room used acc = Ok (st', used + len C, acc ++ o) /\
    LoopOK st k R ds room st' C R' o ds'.
Proof.
  induction fuel as [|f IH]; intros st k R ds room used acc Hpre Hfuel; [lia|].
  cbn [parse_input_loop].
  destruct (step_sim rest st k R ds room Hpre) as (r & C1 & R1 & ds1 & Heq & Hok).
  rewrite Heq. cbn [bind].
  destruct Hok as (HR & HC & Hin & Hcat & Hroom & Hpre1 & Hnt & Hmu & Hsh & Hb1 & Hb2 & Hsz & Hprog).
  destruct (sr_more r) eqn:Hmore.
  - (* continue *)
    assert (Hwin : drop (sr_in r) (take k (R ++ rest)) = take (k - sr_in r) (R1 ++ rest)).
    { rewrite HR, <- HC. apply window_next. lia. }
    rewrite Hwin.
    specialize (Hmu eq_refl).
    destruct (IH (sr_st r) (k - sr_in r) R1 ds1 (room - len (sr_out r)) (used + sr_in r) (acc ++ sr_out r) Hpre1)
      as (st' & C2 & R2 & o2 & ds2 & Hih & HR2 & HC2 & Hcat2 & Hroom2 & Hrel2 & Hsh2 & Hb21 & Hb22 & Hprog2); [lia|].
    exists st', (C1 ++ C2), R2, (sr_out r ++ o2), ds2. split.
    { rewrite Hih. rewrite len_app, app_assoc. f_equal. f_equal. f_equal. lia. }
    assert (Hns : sr_st r <> DSize) by (intros E; apply Hsz in E; congruence).
    specialize (Hb2 Hns).
    unfold LoopOK. splits.
    + rewrite HR, HR2. apply app_assoc.
    + rewrite len_app. lia.
    + rewrite Hcat, Hcat2. apply app_assoc.
    + rewrite len_app. lia.
    + exact Hrel2.
    + eapply Shrink_trans; eassumption.
    + rewrite len_app. lia.
    + intros Hne. specialize (Hb22 Hne). rewrite len_app. lia.
    + intros H1 H2 H3. rewrite len_app.
      destruct (Hprog H1 H2 H3) as [Hp|(Hp1 & _ & Hp3)]; [lia|].
      assert (1 <= len C2); [|lia].
      apply Hprog2.
      * rewrite HR, len_app in H1. lia.
      * rewrite Hp3. cbn [len]. lia.
      * rewrite Hp1. discriminate.
  - (* stop *)
    specialize (Hnt eq_refl).
    exists (sr_st r), C1, R1, (sr_out r), ds1. split.
    { rewrite HC. reflexivity. }
    unfold LoopOK. splits; try assumption.
    + lia.
    + eapply pre_rel; eassumption.
    + intros H1 H2 H3. destruct (Hprog H1 H2 H3) as [Hp|(_ & Hp2 & _)]; [lia|congruence].
Qed.

Lemma LoopOK_weaken st k k' R ds room st' C R' o ds' rest :
  k' = N.min k (len (R ++ rest)) ->
  LoopOK st k' R ds room st' C R' o ds' -> LoopOK st k R ds room st' C R' o ds'.
Proof.
  intros Hk (H1 & H2 & H3 & H4 & H5 & H6 & H7 & H8 & H9). unfold LoopOK. splits; try assumption.
  - lia.
  - intros Ha Hb Hc. apply H9; try assumption. rewrite len_app in Hk. lia.
Qed.

Lemma parse_input_sim rest st k R ds room :
  rel st R ds ->
  exists st' C R' o ds',
    parse_input st (take k (R ++ rest)) room = Ok (st', len C, o) /\
    LoopOK st k R ds room st' C R' o ds'.
Proof.
  intros Hrel. unfold parse_input.
  set (k' := N.min k (len (R ++ rest))).
  rewrite (take_min_len k). fold k'.
  destruct (parse_loop_sim rest (2 * List.length (take k' (R ++ rest)) + 3) st k' R ds room 0 [])
    as (st' & C & R' & o & ds' & Heq & Hok).
  - apply rel_pre. exact Hrel.
  - pose proof (len_length (take k' (R ++ rest))) as HL. rewrite len_take in HL.
    unfold mu. destruct st; lia.
  - exists st', C, R', o, ds'. split.
    + rewrite Heq. rewrite N.add_0_l. reflexivity.
    + eapply LoopOK_weaken; [reflexivity|exact Hok].
Qed.

(** ** The outer loop [read_chunked] *)

Definition ReadOK (stop : bool) (st : dechunker) (k : N) (R : bytes) (ds : list bytes) (room : N)
           (st' : dechunker) (C R' o : bytes) (ds' : list bytes) : Prop :=
  R = C ++ R' /\
  len C <= k /\
  concat ds = o ++ concat ds' /\
  len o <= room /\
  rel st' R' ds' /\
  Shrink ds ds' /\
  (stop = true -> len o <= budget st ds) /\
  (len R <= k -> 1 <= room -> st <> DEnded -> 1 <= len C).

Lemma read_loop_sim rest stop : forall fuel st k R ds room used acc,
  rel st R ds -> k <= len (R ++ rest) -> k < N.of_nat fuel ->
  exists st' C R' o ds',
    read_chunked_loop fuel st (take k (R ++ rest)) room stop used acc = Ok (st', used + len C, acc ++ o) /\
    ReadOK stop st k R ds room st' C R' o ds'.
Proof.
  induction fuel as [|f IH]; intros st k R ds room used acc Hrel Hk Hfuel; [lia|].
  cbn [read_chunked_loop].
  destruct (parse_input_sim rest st k R ds room Hrel) as (st1 & C1 & R1 & o1 & ds1 & Heq & Hok).
  rewrite Heq. cbn [bind].
  destruct Hok as (HR & HC & Hcat & Hroom & Hrel1 & Hsh & Hb1 & Hb2 & Hprog).
  assert (Hexit : exists st' C R' o ds',
             @Ok (dechunker * N * bytes) (st1, used + len C1, acc ++ o1) = Ok (st', used + len C, acc ++ o) /\
             ReadOK stop st k R ds room st' C R' o ds').
  { exists st1, C1, R1, o1, ds1. split; [reflexivity|]. unfold ReadOK. splits; auto. }
  destruct ((len C1 =? 0) || (len (drop (len C1) (take k (R ++ rest))) =? 0) || (room - len o1 =? 0)) eqn:Hc;
    [exact Hexit|].
  destruct (dech_is_ended st1) eqn:Hend; [exact Hexit|].
  destruct (stop && is_on_chunk_boundary st1) eqn:Hstop; [exact Hexit|].
  clear Hexit.
  apply orb_false_elim in Hc. destruct Hc as [Hc _]. apply orb_false_elim in Hc. destruct Hc as [Hc _].
  apply N.eqb_neq in Hc.
  assert (Hwin : drop (len C1) (take k (R ++ rest)) = take (k - len C1) (R1 ++ rest)).
  { rewrite HR. apply window_next. lia. }
  rewrite Hwin.
  destruct (IH st1 (k - len C1) R1 ds1 (room - len o1) (used + len C1) (acc ++ o1) Hrel1)
    as (st' & C2 & R2 & o2 & ds2 & Hih & HR2 & HC2 & Hcat2 & Hroom2 & Hrel2 & Hsh2 & Hb2' & Hprog2).
  { rewrite HR in Hk. rewrite !len_app in *. lia. }
  { lia. }
  exists st', (C1 ++ C2), R2, (o1 ++ o2), ds2. split.
  { rewrite Hih. rewrite len_app, app_assoc. f_equal. f_equal. f_equal. lia. }
  unfold ReadOK. splits.
  - rewrite HR, HR2. apply app_assoc.
  - rewrite len_app. lia.
  - rewrite Hcat, Hcat2. apply app_assoc.
  - rewrite len_app. lia.
  - exact Hrel2.
  - eapply Shrink_trans; eassumption.
  - intros Hs. specialize (Hb2' Hs). subst stop. cbn [andb] in Hstop.
    assert (Hns : st1 <> DSize) by (intros ->; discriminate Hstop).
    specialize (Hb2 Hns). rewrite len_app. lia.
  - intros _ _ _. rewrite len_app. lia.
Qed.

(** One [read_chunked] call from a related state, on any window, any output space, any stop flag. *)
Lemma read_chunked_sim rest st k R ds cap stop :
  rel st R ds ->
  exists st' C R' out ds',
    read_chunked st (take k (R ++ rest)) cap stop = Ok (st', len C, out) /\
    ReadOK stop st k R ds cap st' C R' out ds'.
Proof.
  intros Hrel. unfold read_chunked.
  set (k' := N.min k (len (R ++ rest))).
  rewrite (take_min_len k). fold k'.
  destruct (read_loop_sim rest stop (List.length (take k' (R ++ rest)) + 1) st k' R ds cap 0 [] Hrel)
    as (st' & C & R' & o & ds' & Heq & H1 & H2 & H3 & H4 & H5 & H6 & H7 & H8).
  - unfold k'. lia.
  - pose proof (len_length (take k' (R ++ rest))) as HL. rewrite len_take in HL. lia.
  - exists st', C, R', o, ds'. split.
    + rewrite Heq. rewrite N.add_0_l. reflexivity.
    + unfold ReadOK. splits; try assumption.
      * lia.
      * intros Ha Hb Hc. apply H8; try assumption. unfold k'. rewrite len_app. lia.
Qed.
