(** C05 / C20, part 2: what the httparse model does on (prefixes of) rendered well-formed heads:
    round trip, strict prefixes are Partial, the field limit, the exact view left on a prefix. *)
From Coq Require Import Lia ZArith ZifyN ZifyBool.
From Hoot Require Import Base Httparse.
From Hoot.proofs Require Import BytesLemmas C05_stable C05_spec.
Open Scope N_scope.
Ltac Zify.zify_post_hook ::= Z.div_mod_to_equations.

(** ** Byte classes *)

Lemma name_token_not_eol c : is_name_token c = true -> (c =? 13) = false /\ (c =? 10) = false.
Proof.
  intros H. split.
  - destruct (N.eqb_spec c 13); [subst; vm_compute in H; discriminate|reflexivity].
  - destruct (N.eqb_spec c 10); [subst; vm_compute in H; discriminate|reflexivity].
Qed.

Lemma reason_byte_not_eol c : is_reason_byte c = true -> (c =? 13) = false /\ (c =? 10) = false.
Proof.
  intros H. split.
  - destruct (N.eqb_spec c 13); [subst; vm_compute in H; discriminate|reflexivity].
  - destruct (N.eqb_spec c 10); [subst; vm_compute in H; discriminate|reflexivity].
Qed.

Lemma sp_tab_value_token c : is_sp_tab c = true -> is_value_token c = true.
Proof. unfold is_sp_tab, is_value_token. lia. Qed.

Lemma method_byte_not_eol c :
  is_method_token c && negb (c =? 32) = true -> (c =? 13) = false /\ (c =? 10) = false /\ is_method_token c = true.
Proof. unfold is_method_token. lia. Qed.

(** ** Runs *)

Lemma span_run p a c r : forallb p a = true -> p c = false -> span p (a ++ c :: r) = (a, c :: r).
Proof.
  intros Ha Hc. induction a as [|y a IH]; cbn [app span].
  - rewrite Hc. reflexivity.
  - cbn [forallb] in Ha. apply andb_prop in Ha. destruct Ha as [Hy Ha].
    rewrite Hy, (IH Ha). reflexivity.
Qed.

Lemma drop_while_all p a r : forallb p a = true -> drop_while p (a ++ r) = drop_while p r.
Proof.
  intros Ha. induction a as [|y a IH]; cbn [app drop_while]; [reflexivity|].
  cbn [forallb] in Ha. apply andb_prop in Ha. destruct Ha as [Hy Ha]. rewrite Hy. apply IH. exact Ha.
Qed.

Lemma forallb_rev {A} (p : A -> bool) l : forallb p l = true -> forallb p (rev l) = true.
Proof.
  intros H. apply forallb_forall. intros x Hx. apply in_rev in Hx.
  rewrite forallb_forall in H. apply H. exact Hx.
Qed.

Lemma rtrim_value v w : no_edge_ws v = true -> forallb is_sp_tab w = true -> rtrim_sp_tab (v ++ w) = v.
Proof.
  intros Hv Hw. unfold rtrim_sp_tab. rewrite rev_app_distr.
  rewrite drop_while_all by (apply forallb_rev; exact Hw).
  unfold no_edge_ws in Hv. apply andb_prop in Hv. destruct Hv as [_ Hv].
  destruct (rev v) as [|c t] eqn:Er.
  - cbn. apply (f_equal (@rev N)) in Er. rewrite rev_involutive in Er. cbn in Er. congruence.
  - cbn [drop_while]. destruct (is_sp_tab c); [discriminate|].
    rewrite <- Er. apply rev_involutive.
Qed.

(** ** One field line *)

Lemma render_field_app f r :
  render_field f ++ r = f_name f ++ 58 :: (f_ows1 f ++ f_value f ++ f_ows2 f ++ 13 :: 10 :: r).
Proof. unfold render_field, CRLF. repeat rewrite <- app_assoc. reflexivity. Qed.

Lemma line_value_field name f r :
  wf_field f ->
  line_value name (f_ows1 f ++ f_value f ++ f_ows2 f ++ 13 :: 10 :: r) = Done (Some (name, f_value f)) r.
Proof.
  intros (_ & _ & _ & Ho1 & Hv & He & Ho2). unfold line_value.
  rewrite drop_while_all by exact Ho1.
  destruct (f_value f) as [|c v] eqn:Ev.
  - cbn [app]. rewrite drop_while_all by exact Ho2.
    cbn [drop_while]. change (is_sp_tab 13) with false. cbv iota.
    cbn [span]. change (is_value_token 13) with false. cbv iota.
    cbn [value_eol expect_byte pbind N.eqb Pos.eqb]. reflexivity.
  - assert (Hc : is_sp_tab c = false).
    { unfold no_edge_ws in He. apply andb_prop in He. destruct He as [He _].
      destruct (is_sp_tab c); [discriminate|reflexivity]. }
    cbn [app drop_while]. rewrite Hc.
    change (c :: v ++ f_ows2 f ++ 13 :: 10 :: r) with ((c :: v) ++ f_ows2 f ++ 13 :: 10 :: r).
    rewrite app_assoc. rewrite span_run.
    + cbn [value_eol expect_byte pbind N.eqb Pos.eqb]. rewrite rtrim_value by assumption. reflexivity.
    + rewrite forallb_app. rewrite Hv. cbn [andb].
      apply forallb_forall. intros y Hy. apply sp_tab_value_token.
      rewrite forallb_forall in Ho2. apply Ho2. exact Hy.
    + reflexivity.
Qed.

Lemma parse_line_field f r :
  wf_field f -> parse_line (render_field f ++ r) = Done (Some (field_header f)) r.
Proof.
  intros Hwf. pose proof Hwf as (Hne & Hn & _).
  rewrite render_field_app.
  destruct (f_name f) as [|c n] eqn:En; [congruence|].
  cbn [forallb] in Hn. pose proof Hn as Hn'. apply andb_prop in Hn'. destruct Hn' as [Hc _].
  destruct (name_token_not_eol c Hc) as [H13 H10].
  cbn [app]. rewrite parse_line_name by assumption.
  change (c :: n ++ 58 :: ?x) with ((c :: n) ++ 58 :: x).
  rewrite span_run by (exact Hn || reflexivity). cbn [fst snd].
  cbn [expect_byte pbind N.eqb Pos.eqb].
  rewrite line_value_field by exact Hwf. unfold field_header. rewrite En. reflexivity.
Qed.

Lemma parse_line_end r : parse_line (13 :: 10 :: r) = Done None r.
Proof. reflexivity. Qed.

(** ** The header loop on field lines *)

Lemma render_lines_cons f fs : render_lines (f :: fs) = render_field f ++ render_lines fs.
Proof. reflexivity. Qed.

Lemma render_lines_app a b : render_lines (a ++ b) = render_lines a ++ render_lines b.
Proof. unfold render_lines. apply flat_map_app. Qed.

Lemma headers_loop_fields : forall fs slots q f f',
  Forall wf_field fs ->
  (List.length (render_lines fs ++ q) < f)%nat -> (List.length q < f')%nat ->
  headers_loop f (List.length fs + slots) (render_lines fs ++ q) =
    (headers_of fs ++ fst (headers_loop f' slots q), snd (headers_loop f' slots q)).
Proof.
  induction fs as [|fd fs IH]; intros slots q f f' Hwf Hf Hf'.
  - cbn [render_lines flat_map app List.length headers_of map plus] in *.
    rewrite (headers_loop_fuel f f') by assumption.
    destruct (headers_loop f' slots q); reflexivity.
  - inversion Hwf as [|? ? Hfd Hfs]; subst.
    destruct f as [|f]; [lia|].
    rewrite render_lines_cons in *. rewrite <- app_assoc in *.
    cbn [headers_loop]. rewrite parse_line_field by exact Hfd.
    cbn [List.length plus].
    assert (Hlt : (List.length (render_lines fs ++ q) < f)%nat).
    { rewrite app_length in Hf. cbn [List.length] in Hf.
      assert (List.length (render_field fd) > 0)%nat; [|lia].
      unfold render_field. rewrite !app_length. cbn [List.length]. lia. }
    rewrite (IH slots q f f' Hfs Hlt Hf'). reflexivity.
Qed.

Lemma parse_headers_fields fs slots q :
  Forall wf_field fs ->
  parse_headers (List.length fs + slots) (render_lines fs ++ q) =
    (headers_of fs ++ fst (parse_headers slots q), snd (parse_headers slots q)).
Proof. intros H. unfold parse_headers. apply headers_loop_fields; [exact H|lia|lia]. Qed.

Lemma parse_headers_end slots r : parse_headers slots (13 :: 10 :: r) = ([], Done tt r).
Proof. reflexivity. Qed.

Lemma parse_headers_partial slots q : parse_line q = Partial -> parse_headers slots q = ([], Partial).
Proof. intros H. unfold parse_headers. cbn [headers_loop]. rewrite H. reflexivity. Qed.

Lemma parse_headers_full slots f r :
  wf_field f -> slots = O -> parse_headers slots (render_field f ++ r) = ([], Fail ETooManyHeaders).
Proof.
  intros H ->. unfold parse_headers. cbn [headers_loop]. rewrite parse_line_field by exact H. reflexivity.
Qed.

(** ** A verdict with nothing left over was not available earlier *)

Lemma stable_strict_prefix {A} (p : bytes -> pres A) : stable p ->
  forall b x a, p (b ++ x) = Done a [] -> x <> [] -> p b = Partial.
Proof.
  intros Hs b x a H Hx. specialize (Hs b x).
  destruct (p b) as [a' r| |e]; [|reflexivity|congruence].
  rewrite Hs in H. inversion H as [[Ha Hr]]. apply app_eq_nil in Hr. destruct Hr; congruence.
Qed.

(** ** The status line *)

Lemma digit_ok e d r : d <= 9 -> digit e ((48 + d) :: r) = Done d r.
Proof.
  intros H. unfold digit. replace (is_digit (48 + d)) with true by (unfold is_digit; lia).
  replace (48 + d - 48) with d by lia. reflexivity.
Qed.

Lemma parse_code_digits s r : 100 <= s <= 999 -> parse_code (status_digits s ++ r) = Done s r.
Proof.
  intros H. unfold status_digits. cbn [app]. unfold parse_code.
  rewrite digit_ok by lia. cbn [pbind]. rewrite digit_ok by lia. cbn [pbind].
  rewrite digit_ok by lia. cbn [pbind]. f_equal. lia.
Qed.

Lemma parse_reason_render rs r :
  forallb is_reason_byte rs = true -> parse_reason (rs ++ 13 :: 10 :: r) = Done tt r.
Proof.
  induction rs as [|c rs IH]; intros H; cbn [app].
  - reflexivity.
  - cbn [forallb] in H. apply andb_prop in H. destruct H as [Hc H].
    destruct (reason_byte_not_eol c Hc) as [H13 H10].
    cbn [parse_reason]. rewrite H13, H10, Hc. apply IH. exact H.
Qed.

Definition reason_part (o : option bytes) : bytes := match o with None => [] | Some r => 32 :: r end.

Lemma parse_after_code_render o r :
  (match o with None => True | Some rs => forallb is_reason_byte rs = true end) ->
  parse_after_code (reason_part o ++ 13 :: 10 :: r) = Done tt r.
Proof.
  destruct o as [rs|]; intros H; cbn [reason_part app].
  - unfold parse_after_code. cbn [N.eqb Pos.eqb]. apply parse_reason_render. exact H.
  - reflexivity.
Qed.

Lemma skip_version v r : wf_version v -> skip_empty_lines (http_version v ++ r) = Done tt (http_version v ++ r).
Proof. intros [-> | ->]; reflexivity. Qed.

Lemma parse_version_render v r : wf_version v -> parse_version (http_version v ++ r) = Done v r.
Proof. intros [-> | ->]; reflexivity. Qed.

Lemma render_status_line_app h r :
  render_status_line h ++ r =
    http_version (rh_version h) ++ 32 :: (status_digits (rh_status h) ++ reason_part (rh_reason h) ++ 13 :: 10 :: r).
Proof. unfold render_status_line, CRLF, reason_part. repeat rewrite <- app_assoc. reflexivity. Qed.

Lemma resp_line_render h r :
  wf_resp_head h -> resp_line (render_status_line h ++ r) = Done (rh_version h, rh_status h) r.
Proof.
  intros (Hv & Hs & Hr & _). rewrite render_status_line_app. unfold resp_line.
  rewrite skip_version by exact Hv. cbn [pbind].
  rewrite parse_version_render by exact Hv. cbn [pbind expect_byte N.eqb Pos.eqb].
  rewrite parse_code_digits by exact Hs. cbn [pbind].
  rewrite parse_after_code_render by exact Hr. reflexivity.
Qed.

Lemma resp_line_done b v c r :
  resp_line b = Done (v, c) r -> (exists r1, resp_ver b = Done v r1) /\ (exists r2, resp_code b = Done c r2).
Proof.
  unfold resp_line, resp_ver, resp_code.
  destruct (skip_empty_lines b) as [[] b0| |e]; cbn [pbind]; try discriminate.
  destruct (parse_version b0) as [ver b1| |e]; cbn [pbind]; try discriminate.
  destruct (expect_byte EVersion 32 b1) as [[] b2| |e]; cbn [pbind]; try discriminate.
  destruct (parse_code b2) as [code b3| |e]; cbn [pbind]; try discriminate.
  destruct (parse_after_code b3) as [[] b4| |e]; cbn [pbind]; try discriminate.
  intros H; inversion H; subst. split; eexists; reflexivity.
Qed.

(** Everything [parse_response] does once the status line is through. *)
Lemma parse_response_after_line slots h q :
  wf_resp_head h ->
  parse_response slots (render_status_line h ++ q) =
    (headers_status (render_status_line h ++ q) (snd (parse_headers slots q)),
     {| hv_version := Some (rh_version h); hv_code := Some (rh_status h);
        hv_headers := fst (parse_headers slots q) |}).
Proof.
  intros Hwf. pose proof (resp_line_render h q Hwf) as Hl.
  destruct (resp_line_done _ _ _ _ Hl) as [[r1 Hv] [r2 Hc]].
  destruct (parse_response slots (render_status_line h ++ q)) as [s v] eqn:E.
  pose proof (parse_response_status slots (render_status_line h ++ q)) as H1.
  pose proof (parse_response_version slots (render_status_line h ++ q)) as H2.
  pose proof (parse_response_code slots (render_status_line h ++ q)) as H3.
  pose proof (parse_response_headers slots (render_status_line h ++ q)) as H4.
  rewrite E, ?Hl, ?Hv, ?Hc in *. cbn [fst snd] in *. subst s. f_equal.
  apply hview_eq; cbn [hv_version hv_code hv_headers]; assumption.
Qed.

(** ** Response heads: round trip, strict prefixes, limit *)

Definition response_view (h : resp_head) (fs : list field) : hview :=
  {| hv_version := Some (rh_version h); hv_code := Some (rh_status h); hv_headers := headers_of fs |}.

Lemma render_response_head_app h r :
  render_response_head h ++ r = render_status_line h ++ render_lines (rh_fields h) ++ 13 :: 10 :: r.
Proof. unfold render_response_head, CRLF. repeat rewrite <- app_assoc. reflexivity. Qed.

Lemma slots_split (n slots : nat) : (n <= slots)%nat -> slots = (n + (slots - n))%nat.
Proof. lia. Qed.

Theorem response_roundtrip slots h rest :
  wf_resp_head h -> (List.length (rh_fields h) <= slots)%nat ->
  parse_response slots (render_response_head h ++ rest) =
    (SComplete (len (render_response_head h)), response_view h (rh_fields h)).
Proof.
  intros Hwf Hn. pose proof Hwf as (_ & _ & _ & Hfs).
  rewrite render_response_head_app. rewrite parse_response_after_line by exact Hwf.
  rewrite (slots_split _ _ Hn). rewrite parse_headers_fields by exact Hfs.
  rewrite parse_headers_end. cbn [fst snd headers_status]. rewrite app_nil_r.
  unfold response_view. f_equal. f_equal.
  unfold render_response_head, CRLF. rewrite !len_app. cbn [len]. lia.
Qed.

Theorem response_prefix_partial slots h p x :
  wf_resp_head h -> (List.length (rh_fields h) <= slots)%nat ->
  render_response_head h = p ++ x -> x <> [] ->
  fst (parse_response slots p) = SPartial.
Proof.
  intros Hwf Hn Hp Hx.
  pose proof (response_roundtrip slots h [] Hwf Hn) as Hr. rewrite app_nil_r in Hr.
  destruct (parse_response slots p) as [s v] eqn:E. cbn [fst].
  destruct s as [n| |e]; [|reflexivity|].
  - pose proof (hp_stable_response_complete slots p x n v E) as Hs.
    pose proof (response_consumed_le slots p n v E) as Hle.
    rewrite <- Hp, Hr in Hs.
    assert (Hn' : n = len (render_response_head h)) by congruence. subst n.
    rewrite Hp, len_app in Hle. destruct x; [congruence|]. rewrite len_cons in Hle. lia.
  - pose proof (hp_stable_response_error slots p x e v E) as Hs.
    rewrite <- Hp, Hr in Hs. discriminate.
Qed.

(** More than [slots] fields: as soon as line number slots+1 is complete, whatever follows. *)
Theorem response_limit slots h fs1 f fs2 any :
  wf_resp_head h -> rh_fields h = fs1 ++ f :: fs2 -> List.length fs1 = slots ->
  parse_response slots (render_status_line h ++ render_lines fs1 ++ render_field f ++ any) =
    (SError ETooManyHeaders, response_view h fs1).
Proof.
  intros Hwf Hfs Hl. pose proof Hwf as (_ & _ & _ & Hall). rewrite Hfs in Hall.
  apply Forall_app in Hall. destruct Hall as [H1 H2]. inversion H2 as [|? ? Hf _]; subst.
  rewrite parse_response_after_line by exact Hwf.
  replace (List.length fs1) with (List.length fs1 + 0)%nat at 1 2 by lia.
  rewrite parse_headers_fields by exact H1.
  rewrite parse_headers_full by (exact Hf || reflexivity).
  cbn [fst snd headers_status]. rewrite app_nil_r. reflexivity.
Qed.

Corollary response_limit_complete slots h rest :
  wf_resp_head h -> (slots < List.length (rh_fields h))%nat ->
  fst (parse_response slots (render_response_head h ++ rest)) = SError ETooManyHeaders.
Proof.
  intros Hwf Hn.
  pose proof (firstn_skipn slots (rh_fields h)) as Hsplit.
  destruct (skipn slots (rh_fields h)) as [|f fs2] eqn:Esk.
  { exfalso. apply (f_equal (@List.length field)) in Hsplit.
    rewrite app_length, firstn_length in Hsplit. cbn [List.length] in Hsplit. lia. }
  assert (Hl : List.length (firstn slots (rh_fields h)) = slots) by (rewrite firstn_length; lia).
  rewrite render_response_head_app. rewrite <- Hsplit at 1.
  rewrite render_lines_app, render_lines_cons. repeat rewrite <- app_assoc.
  rewrite (response_limit slots h _ f fs2 _ Hwf (eq_sym Hsplit) Hl). reflexivity.
Qed.

(** ** The exact view on a prefix: status line, [k] complete field lines, and a strict prefix [q]
    of the next line (field line number k+1, or the blank line). *)

Definition next_line (fs : list field) (k : nat) : bytes :=
  match nth_error fs k with Some f => render_field f | None => CRLF end.

Lemma parse_line_strict_prefix fs k q y :
  Forall wf_field fs -> next_line fs k = q ++ y -> y <> [] -> parse_line q = Partial.
Proof.
  intros Hwf Hq Hy. unfold next_line in Hq.
  destruct (nth_error fs k) as [f|] eqn:En.
  - apply (stable_strict_prefix parse_line stable_parse_line q y (Some (field_header f))); [|exact Hy].
    rewrite <- Hq. rewrite <- (app_nil_r (render_field f)). apply parse_line_field.
    rewrite Forall_forall in Hwf. apply Hwf. eapply nth_error_In. exact En.
  - apply (stable_strict_prefix parse_line stable_parse_line q y None); [|exact Hy].
    rewrite <- Hq. reflexivity.
Qed.

Theorem response_partial_view slots h k q y :
  wf_resp_head h -> (k <= List.length (rh_fields h))%nat -> (k <= slots)%nat ->
  next_line (rh_fields h) k = q ++ y -> y <> [] ->
  parse_response slots (render_status_line h ++ render_lines (firstn k (rh_fields h)) ++ q) =
    (SPartial, response_view h (firstn k (rh_fields h))).
Proof.
  intros Hwf Hk Hs Hq Hy. pose proof Hwf as (_ & _ & _ & Hfs).
  rewrite parse_response_after_line by exact Hwf.
  assert (Hl : List.length (firstn k (rh_fields h)) = k) by (rewrite firstn_length; lia).
  replace slots with (List.length (firstn k (rh_fields h)) + (slots - k))%nat by (rewrite Hl; lia).
  assert (Hwfk : Forall wf_field (firstn k (rh_fields h))).
  { rewrite Forall_forall in *. intros f Hf. apply Hfs.
    rewrite <- (firstn_skipn k (rh_fields h)). apply in_or_app. left. exact Hf. }
  rewrite parse_headers_fields by exact Hwfk.
  rewrite parse_headers_partial by (exact (parse_line_strict_prefix (rh_fields h) k q y Hfs Hq Hy)).
  cbn [fst snd headers_status]. rewrite app_nil_r. reflexivity.
Qed.

(** Inside the status line nothing is stored except possibly version and code. *)
Theorem response_partial_status_line slots h p y :
  wf_resp_head h -> render_status_line h = p ++ y -> y <> [] ->
  fst (parse_response slots p) = SPartial /\ hv_headers (snd (parse_response slots p)) = [] /\
  (hv_version (snd (parse_response slots p)) = None \/
   hv_version (snd (parse_response slots p)) = Some (rh_version h)) /\
  (hv_code (snd (parse_response slots p)) = None \/
   hv_code (snd (parse_response slots p)) = Some (rh_status h)).
Proof.
  intros Hwf Hp Hy.
  assert (Hl : resp_line p = Partial).
  { apply (stable_strict_prefix resp_line stable_resp_line p y (rh_version h, rh_status h)); [|exact Hy].
    rewrite <- Hp. rewrite <- (app_nil_r (render_status_line h)). apply resp_line_render. exact Hwf. }
  rewrite parse_response_status, parse_response_headers, Hl.
  split; [reflexivity|]. split; [reflexivity|].
  pose proof (response_view_mono slots p y) as Hm. cbv zeta in Hm.
  rewrite <- Hp in Hm. rewrite <- (app_nil_r (render_status_line h)) in Hm.
  rewrite parse_response_after_line in Hm by exact Hwf. cbn [snd hv_version hv_code] in Hm.
  destruct Hm as (H1 & H2 & _). split.
  - destruct H1 as [H1|H1]; [left; exact H1|right; symmetry; exact H1].
  - destruct H2 as [H2|H2]; [left; exact H2|right; symmetry; exact H2].
Qed.

(** Every strict prefix of a head has one of the two shapes above. *)
Lemma lines_decompose : forall fs p x,
  render_lines fs ++ CRLF = p ++ x -> x <> [] ->
  exists k q y, (k <= List.length fs)%nat /\ p = render_lines (firstn k fs) ++ q /\
                next_line fs k = q ++ y /\ y <> [].
Proof.
  induction fs as [|f fs IH]; intros p x Hp Hx.
  - exists O, p, x. cbn [render_lines flat_map app firstn List.length] in *.
    unfold next_line. cbn [nth_error]. auto.
  - rewrite render_lines_cons, <- app_assoc in Hp.
    apply app_eq_app in Hp. destruct Hp as [l [[H1 H2]|[H1 H2]]].
    + (* render_field f = p ++ l *)
      destruct l as [|c l].
      * rewrite app_nil_r in H1. cbn [app] in H2.
        destruct (IH [] x) as (k & q & y & Hk & Hq & Hn & Hy); [cbn [app]; symmetry; exact H2|exact Hx|].
        exists (S k), q, y. cbn [firstn List.length nth_error]. rewrite render_lines_cons.
        repeat split; [lia| |exact Hn|exact Hy].
        rewrite <- app_assoc, <- Hq. rewrite app_nil_r. symmetry; exact H1.
      * exists O, p, (c :: l). cbn [firstn render_lines flat_map app]. unfold next_line. cbn [nth_error].
        repeat split; [lia|exact H1|discriminate].
    + (* p = render_field f ++ l *)
      destruct (IH l x) as (k & q & y & Hk & Hq & Hn & Hy); [exact H2|exact Hx|].
      exists (S k), q, y. cbn [firstn List.length]. rewrite render_lines_cons.
      repeat split; [lia| |exact Hn|exact Hy].
      rewrite <- app_assoc, <- Hq. exact H1.
Qed.

Lemma response_prefix_decompose h p x :
  render_response_head h = p ++ x -> x <> [] ->
  (exists y, render_status_line h = p ++ y /\ y <> []) \/
  (exists k q y, (k <= List.length (rh_fields h))%nat /\
                 p = render_status_line h ++ render_lines (firstn k (rh_fields h)) ++ q /\
                 next_line (rh_fields h) k = q ++ y /\ y <> []).
Proof.
  intros Hp Hx. unfold render_response_head in Hp.
  apply app_eq_app in Hp. destruct Hp as [l [[H1 H2]|[H1 H2]]].
  - destruct l as [|c l].
    + right. rewrite app_nil_r in H1. cbn [app] in H2.
      destruct (lines_decompose (rh_fields h) [] x) as (k & q & y & Hk & Hq & Hn & Hy);
        [symmetry; exact H2|exact Hx|].
      exists k, q, y. repeat split; try assumption. rewrite <- Hq, app_nil_r. symmetry; exact H1.
    + left. exists (c :: l). split; [exact H1|discriminate].
  - right. destruct (lines_decompose (rh_fields h) l x H2 Hx) as (k & q & y & Hk & Hq & Hn & Hy).
    exists k, q, y. repeat split; try assumption. rewrite <- Hq. exact H1.
Qed.

(** ** Requests *)

Lemma render_request_line_app h r :
  render_request_line h ++ r =
    qh_method h ++ 32 :: (qh_target h ++ 32 :: (http_version (qh_version h) ++ 13 :: 10 :: r)).
Proof. unfold render_request_line, CRLF. repeat rewrite <- app_assoc. reflexivity. Qed.

Lemma parse_method_render m r :
  m <> [] -> forallb (fun b => is_method_token b && negb (b =? 32)) m = true ->
  skip_empty_lines (m ++ 32 :: r) = Done tt (m ++ 32 :: r) /\ parse_method (m ++ 32 :: r) = Done m r.
Proof.
  intros Hne Hm. destruct m as [|c m]; [congruence|].
  cbn [forallb] in Hm. apply andb_prop in Hm. destruct Hm as [Hc Hm].
  destruct (method_byte_not_eol c Hc) as (H13 & H10 & Ht).
  cbn [app]. split.
  - cbn [skip_empty_lines]. rewrite H13, H10. reflexivity.
  - unfold parse_method. rewrite Ht. cbn [negb tl].
    rewrite span_run by (exact Hm || reflexivity). cbn [N.eqb Pos.eqb]. reflexivity.
Qed.

Lemma parse_uri_render t r :
  t <> [] -> forallb is_uri_token t = true -> parse_uri (t ++ 32 :: r) = Done t r.
Proof.
  intros Hne Ht. unfold parse_uri. rewrite span_run by (exact Ht || reflexivity).
  cbn [N.eqb Pos.eqb]. destruct t; [congruence|reflexivity].
Qed.

Lemma req_line_render h r :
  wf_req_head h -> req_line (render_request_line h ++ r) = Done (qh_method h, qh_version h) r.
Proof.
  intros (Hm1 & Hm2 & Ht1 & Ht2 & Hv & _). rewrite render_request_line_app. unfold req_line.
  destruct (parse_method_render (qh_method h) (qh_target h ++ 32 :: (http_version (qh_version h) ++ 13 :: 10 :: r)) Hm1 Hm2)
    as [Hs Hp].
  rewrite Hs. cbn [pbind]. rewrite Hp. cbn [pbind].
  rewrite parse_uri_render by assumption. cbn [pbind].
  rewrite parse_version_render by exact Hv. reflexivity.
Qed.

Lemma req_line_done b m v r :
  req_line b = Done (m, v) r -> (exists r1, req_method b = Done m r1) /\ (exists r2, req_ver b = Done v r2).
Proof.
  unfold req_line, req_method, req_ver.
  destruct (skip_empty_lines b) as [[] b0| |e]; cbn [pbind]; try discriminate.
  destruct (parse_method b0) as [m' b1| |e]; cbn [pbind]; try discriminate.
  destruct (parse_uri b1) as [u b2| |e]; cbn [pbind]; try discriminate.
  destruct (parse_version b2) as [ver b3| |e]; cbn [pbind]; try discriminate.
  destruct (newline b3) as [[] b4| |e]; cbn [pbind]; try discriminate.
  intros H; inversion H; subst. split; eexists; reflexivity.
Qed.

Lemma parse_request_after_line slots h q :
  wf_req_head h ->
  parse_request slots (render_request_line h ++ q) =
    (headers_status (render_request_line h ++ q) (snd (parse_headers slots q)),
     {| hq_method := Some (qh_method h); hq_version := Some (qh_version h);
        hq_headers := fst (parse_headers slots q) |}).
Proof.
  intros Hwf. pose proof (req_line_render h q Hwf) as Hl.
  destruct (req_line_done _ _ _ _ Hl) as [[r1 Hv] [r2 Hc]].
  destruct (parse_request slots (render_request_line h ++ q)) as [s v] eqn:E.
  pose proof (parse_request_status slots (render_request_line h ++ q)) as H1.
  pose proof (parse_request_method slots (render_request_line h ++ q)) as H2.
  pose proof (parse_request_version slots (render_request_line h ++ q)) as H3.
  pose proof (parse_request_headers slots (render_request_line h ++ q)) as H4.
  rewrite E, ?Hl, ?Hv, ?Hc in *. cbn [fst snd] in *. subst s. f_equal.
  apply hreq_eq; cbn [hq_method hq_version hq_headers]; assumption.
Qed.

Definition request_view (h : req_head) (fs : list field) : hreq :=
  {| hq_method := Some (qh_method h); hq_version := Some (qh_version h); hq_headers := headers_of fs |}.

Lemma render_request_head_app h r :
  render_request_head h ++ r = render_request_line h ++ render_lines (qh_fields h) ++ 13 :: 10 :: r.
Proof. unfold render_request_head, CRLF. repeat rewrite <- app_assoc. reflexivity. Qed.

Theorem request_roundtrip slots h rest :
  wf_req_head h -> (List.length (qh_fields h) <= slots)%nat ->
  parse_request slots (render_request_head h ++ rest) =
    (SComplete (len (render_request_head h)), request_view h (qh_fields h)).
Proof.
  intros Hwf Hn. pose proof Hwf as (_ & _ & _ & _ & _ & Hfs).
  rewrite render_request_head_app. rewrite parse_request_after_line by exact Hwf.
  rewrite (slots_split _ _ Hn). rewrite parse_headers_fields by exact Hfs.
  rewrite parse_headers_end. cbn [fst snd headers_status]. rewrite app_nil_r.
  unfold request_view. f_equal. f_equal.
  unfold render_request_head, CRLF. rewrite !len_app. cbn [len]. lia.
Qed.

Theorem request_prefix_partial slots h p x :
  wf_req_head h -> (List.length (qh_fields h) <= slots)%nat ->
  render_request_head h = p ++ x -> x <> [] ->
  fst (parse_request slots p) = SPartial.
Proof.
  intros Hwf Hn Hp Hx.
  pose proof (request_roundtrip slots h [] Hwf Hn) as Hr. rewrite app_nil_r in Hr.
  destruct (parse_request slots p) as [s v] eqn:E. cbn [fst].
  destruct s as [n| |e]; [|reflexivity|].
  - pose proof (hp_stable_request_complete slots p x n v E) as Hs.
    pose proof (request_consumed_le slots p n v E) as Hle.
    rewrite <- Hp, Hr in Hs.
    assert (Hn' : n = len (render_request_head h)) by congruence. subst n.
    rewrite Hp, len_app in Hle. destruct x; [congruence|]. rewrite len_cons in Hle. lia.
  - pose proof (hp_stable_request_error slots p x e v E) as Hs.
    rewrite <- Hp, Hr in Hs. discriminate.
Qed.

Theorem request_limit slots h fs1 f fs2 any :
  wf_req_head h -> qh_fields h = fs1 ++ f :: fs2 -> List.length fs1 = slots ->
  parse_request slots (render_request_line h ++ render_lines fs1 ++ render_field f ++ any) =
    (SError ETooManyHeaders, request_view h fs1).
Proof.
  intros Hwf Hfs Hl. pose proof Hwf as (_ & _ & _ & _ & _ & Hall). rewrite Hfs in Hall.
  apply Forall_app in Hall. destruct Hall as [H1 H2]. inversion H2 as [|? ? Hf _]; subst.
  rewrite parse_request_after_line by exact Hwf.
  replace (List.length fs1) with (List.length fs1 + 0)%nat at 1 2 by lia.
  rewrite parse_headers_fields by exact H1.
  rewrite parse_headers_full by (exact Hf || reflexivity).
  cbn [fst snd headers_status]. rewrite app_nil_r. reflexivity.
Qed.

Corollary request_limit_complete slots h rest :
  wf_req_head h -> (slots < List.length (qh_fields h))%nat ->
  fst (parse_request slots (render_request_head h ++ rest)) = SError ETooManyHeaders.
Proof.
  intros Hwf Hn.
  pose proof (firstn_skipn slots (qh_fields h)) as Hsplit.
  destruct (skipn slots (qh_fields h)) as [|f fs2] eqn:Esk.
  { exfalso. apply (f_equal (@List.length field)) in Hsplit.
    rewrite app_length, firstn_length in Hsplit. cbn [List.length] in Hsplit. lia. }
  assert (Hl : List.length (firstn slots (qh_fields h)) = slots) by (rewrite firstn_length; lia).
  rewrite render_request_head_app. rewrite <- Hsplit at 1.
  rewrite render_lines_app, render_lines_cons. repeat rewrite <- app_assoc.
  rewrite (request_limit slots h _ f fs2 _ Hwf (eq_sym Hsplit) Hl). reflexivity.
Qed.
